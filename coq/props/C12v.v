(* C12v — C12 at the level of VALUES, input against output, and the exact copy of the untouched nodes.
   Only statements, `exact`-closed theorems, witnesses, non-vacuity examples and Print Assumptions.
   Vocabulary: model/OpenRangeValue.v; lemmas: proofs/OpenRangeValueProofs.v (on top of proofs/OpenRangeProofs.v,
   model/OpenRange.v).

   Why: C12.v proves "the conjunction holds for the same field values before and after" for the MERGE step
   only (C12_and_node compares the already converted operands with the merged ones, and its `holds` reads a
   comparison `>=1` as an opaque atom), and "changes nothing else" as "is its clone_item".  Here:

   (a) `holds_full` gives every node a meaning: From x incl = "v > x" / "v >= x", To likewise, Range = both
       conditions with the wildcard as "no condition", And = all, Or = any, Not / Prohibit = complement,
       Plus / groups / Boost transparent, SearchField selects the field whose value is compared,
       UnknownOperation = And or Or per the default operator (BOTH are covered: `dflt` is universally
       quantified), BoolOperation = the Lucene boolean query (Meaning.bool_reading), Word / Phrase / Regex /
       Fuzzy / Proximity / NoneItem = opaque atoms with a fixed truth per field context.
       C12_value_preserved : the output of the transformer has the truth value of the INPUT, for every tree
       inside the guard `shaped`, every field values, every atom truths, merging or not, any add_head.
       The conversion step is inside (C12_comparison_value spells it out), the merge step is C12's
       merge_steps_conj reused.
   (b) C12_untouched_nodes : every node that is not a comparison is copied with the same class, the same
       own attributes (value, name, inclusiveness, degree, force, include), the same implicit flag, the
       same pos / size / head / tail, no attached name, over the outputs of its children in order (an AND
       with merging: over the merged list, which keeps every operand that is not a Range, in order);
       the node must satisfy EqSpec.wf_node (what every constructor establishes) and the guard is
       necessary (C12_untouched_wf_needed).  C12_exact_conversion is the same for the whole tree at once,
       on ANY tree (the relation ConvX names the only possible change: EqSpec.reinit).

   Clauses -> statements
     "replaces every comparison by a range ... with the same bound and inclusiveness" (as VALUES)
                                               C12_value_preserved, C12_comparison_value
     "for every value of the field the conjunction holds before exactly when it holds after" (input against
      output, whole tree)                      C12_value_preserved, C12_value_preserved_one_value
     "changes nothing else"                    C12_untouched_nodes, C12_untouched_nodes_any, C12_exact_conversion
   Assumptions of (a), each with a witness that it cannot be dropped:
     wild_unbounded  (`*` is read as "no bound")                         C12v_wild_unbounded_needed
     layout_blind    (bounds / atoms are not read through their layout)  C12v_layout_blind_needed
     shaped          (a bound is a term or signed term; an approximate match holds a term and a
                      constructor-consistent degree)                     C12v_shaped_nested_needed, C12v_shaped_wf_needed
     one value per field (inherited from C12: the semantics has ONE value per field context)
                                                                         C12v_single_value_needed
   NOTHING is assumed about the order: `le` is any function V -> V -> bool (C12v_any_relation); merging
   `[* TO 3] AND [4 TO *]` into `[4 TO 3]` is sound because both are the conjunction of the same two
   one-sided conditions — in a total order both are unsatisfiable (C12v_empty_range). *)
Require Import Base Decimal Tree GenTree GenVisitors Visitor Eq Print OpenRange TreeInd OpenRangeProofs.
Require Import OpenRangeValue OpenRangeValueProofs.
Require Import Lexer Actions LR Parser.
Require Erase EqSpec EqProofs TreeEq.
From Coq Require Import Lia.

(* ================================================================ statements: (a) values *)

(* the main theorem.  The transformer never fails, and its output has the truth value of the input. *)
Definition C12_value_preserved_statement : Prop :=
  forall (V : Type) (le : V -> V -> bool) (bv : item -> option V) (fv : list str -> V)
         (opq : list str -> item -> bool) (dflt : bool),
    wild_unbounded bv -> layout_blind bv -> (forall cx, layout_blind (opq cx)) ->
    forall (merge : bool) (ah : str) (t : item), shaped t = true ->
    exists t', open_range merge ah t = Some t' /\
      forall cx, holds_full V le bv fv opq dflt cx t' = holds_full V le bv fv opq dflt cx t.

(* the reading of the property text: ONE field value v *)
Definition C12_value_preserved_one_value_statement : Prop :=
  forall (V : Type) (le : V -> V -> bool) (bv : item -> option V) (opq : item -> bool) (dflt : bool),
    wild_unbounded bv -> layout_blind bv -> layout_blind opq ->
    forall (merge : bool) (ah : str) (t t' : item), open_range merge ah t = Some t' -> shaped t = true ->
    forall v : V,
      holds_full V le bv (fun _ => v) (fun _ => opq) dflt [] t' =
      holds_full V le bv (fun _ => v) (fun _ => opq) dflt [] t.

(* the conversion step alone, input against output: the output of `>x`, `>=x` (`<x`, `<=x`) is a Range that
   holds exactly for the values above (below) x, strictly or not as the comparison says; a comparison
   with the wildcard holds for every value *)
Definition C12_comparison_value_statement : Prop :=
  forall (V : Type) (le : V -> V -> bool) (bv : item -> option V) (fv : list str -> V)
         (opq : list str -> item -> bool) (dflt : bool),
    wild_unbounded bv -> layout_blind bv ->
    forall merge ah k m a incl t', simple_bound a = true ->
    open_range merge ah (ORange k m a incl) = Some t' ->
    (exists m' lo hi il ih, t' = Range m' lo hi il ih) /\
    forall cx, holds_full V le bv fv opq dflt cx t' =
      match bv a with
      | None => true
      | Some x =>
          match k with
          | KFrom => if incl then le x (fv cx) else negb (le (fv cx) x)       (* v >= x / v > x *)
          | KTo => if incl then le (fv cx) x else negb (le x (fv cx))         (* v <= x / v < x *)
          end
      end.

(* ================================================================ statements: (b) untouched nodes *)

(* every node that is not a comparison, at any depth (t ranges over all trees, and the children of the
   output are again outputs of the transformer on the children of the input) *)
Definition C12_untouched_nodes_statement : Prop :=
  forall merge ah t t', open_range merge ah t = Some t' -> is_cmp t = false -> EqSpec.wf_node t ->
  exists cs,
    Forall2 (fun c c' => open_range merge ah c = Some c') (children t) cs /\
    children t' = (if merge && is_and_node t then merge_children cs else cs) /\
    filter (fun c => negb (is_range c)) (children t') = filter (fun c => negb (is_range c)) cs /\
    cls_of t' = cls_of t /\
    (forall a, get_attr t' a = get_attr t a) /\
    EqSpec.implicit_of t' = EqSpec.implicit_of t /\
    EqSpec.layout_of t' = EqSpec.layout_of t /\
    name_of t' = None.

(* without the invariant: the own attributes are those of EqSpec.reinit t (an implicit degree / force reset
   to its default, an explicit force re-normalised) — nothing else can change *)
Definition C12_untouched_nodes_any_statement : Prop :=
  forall merge ah t t', open_range merge ah t = Some t' -> is_cmp t = false ->
  exists cs,
    Forall2 (fun c c' => open_range merge ah c = Some c') (children t) cs /\
    t' = copy_of (EqSpec.reinit t) (if merge && is_and_node t then merge_children cs else cs) /\
    (EqSpec.reinit t = t <-> EqSpec.wf_node t).

(* the whole tree at once *)
Definition C12_exact_conversion_statement : Prop :=
  forall merge ah t t', open_range merge ah t = Some t' -> ConvX merge ah t t'.

(* the guard of C12_untouched_nodes (the same predicate as C12's wf_node) cannot be dropped *)
Definition C12_untouched_wf_needed_statement : Prop :=
  exists t t', open_range false [] t = Some t' /\ is_cmp t = false /\
               get_attr t' ADegree <> get_attr t ADegree.

(* ================================================================ proofs *)

Theorem C12_value_preserved : C12_value_preserved_statement.
Proof.
  intros V le bv fv opq dflt Hw Hb Ho merge ah t Hs.
  destruct (open_range_conv merge ah t) as [t' [H _]]. exists t'. split; [exact H|].
  exact (value_preserved V le bv fv opq dflt Hw Hb Ho merge ah t t' H Hs).
Qed.

Theorem C12_value_preserved_one_value : C12_value_preserved_one_value_statement.
Proof.
  intros V le bv opq dflt Hw Hb Ho merge ah t t' H Hs v.
  exact (value_preserved V le bv (fun _ => v) (fun _ => opq) dflt Hw Hb (fun _ => Ho) merge ah t t' H Hs []).
Qed.

Theorem C12_comparison_value : C12_comparison_value_statement.
Proof.
  intros V le bv fv opq dflt Hw Hb merge ah k m a incl t' Hs H. split.
  - pose proof (open_range_cls _ _ _ _ H) as Hc. simpl in Hc.
    destruct t' as [[]| |[]| | | | |[]|[]|[]|]; try discriminate Hc. eauto 6.
  - intros cx.
    (* the atoms play no role below a comparison: read them with a layout-blind valuation *)
    assert (Hshape : shaped (ORange k m a incl) = true) by exact Hs.
    pose proof (value_preserved V le bv fv (fun _ _ => true) dflt Hw Hb
                  (fun _ _ _ _ => eq_refl) merge ah _ t' H Hshape cx) as Hv.
    assert (Hsame : holds_full V le bv fv opq dflt cx t' = holds_full V le bv fv (fun _ _ => true) dflt cx t').
    { pose proof (open_range_cls _ _ _ _ H) as Hc. simpl in Hc.
      destruct t' as [[]| |[]| | | | |[]|[]|[]|]; try discriminate Hc. reflexivity. }
    rewrite Hsame, Hv. destruct k; simpl; unfold low_cond, high_cond; reflexivity.
Qed.

Theorem C12_untouched_nodes : C12_untouched_nodes_statement.
Proof.
  intros merge ah t t' H Hc Hwf.
  destruct (untouched_node merge ah t t' H Hc) as [cs [HF [Hch [Hfl [Hcl [Hat [Him [Hly Hnm]]]]]]]].
  apply EqProofs.wf_node_guards in Hwf. destruct Hwf as [_ [_ Hre]]. rewrite Hre in Hat.
  exists cs. repeat split; assumption.
Qed.

Theorem C12_untouched_nodes_any : C12_untouched_nodes_any_statement.
Proof.
  intros merge ah t t' H Hc. destruct (open_range_node_exact merge ah t t' H Hc) as [cs [HF Ht']].
  exists cs. split; [exact HF|]. split; [exact Ht'|]. split.
  - apply EqProofs.reinit_wf.
  - intros Hwf. apply EqProofs.wf_node_guards in Hwf. tauto.
Qed.

Theorem C12_exact_conversion : C12_exact_conversion_statement.
Proof. exact open_range_convx. Qed.

(* ---- witnesses *)
(* split conjunctions only (never `split` on an equation: that would unify both sides without vm) *)
Ltac conj_vm := repeat match goal with |- _ /\ _ => split end; vm_compute; reflexivity.
Definition w (c : N) : item := Term KWord meta0 [c].
Definition wst : item := Term KWord meta0 [42%N].
Definition rg (lo hi : item) (il ih : bool) : item := Range meta0 lo hi il ih.
Definition sp : str := [32%N].

(* f = Fuzzy(Word("a")); f.degree = Decimal(2)   (the implicit flag, "just for display", stays set):
   the copy is Fuzzy(Word("a")) with degree 0.5.  Replayed on the real code (see harness/c12.py notes). *)
Theorem C12_untouched_wf_needed : C12_untouched_wf_needed_statement.
Proof.
  exists (Fuzzy meta0 (w 97) (mkDec false 2 0) true), (Fuzzy meta0 (w 97) dec_half true).
  split; [vm_compute; reflexivity|]. split; [reflexivity|]. vm_compute. discriminate.
Qed.

(* ---- a concrete reading: values and bounds are code points (N, N.leb); the bound of a term is its first
   character, `*` is unbounded; read on the ERASED bound, hence layout-blind *)
Definition ex_bv (b : item) : option N :=
  match Erase.erase b with
  | Term KWord _ [42%N] => None
  | Term _ _ (c :: _) => Some c
  | _ => Some 0%N
  end.

Lemma ex_bv_ok : wild_unbounded ex_bv /\ layout_blind ex_bv.
Proof.
  split.
  - intros b Hb. apply is_wildcard_spec in Hb. destruct Hb as [m ->]. reflexivity.
  - intros a b Hab. unfold ex_bv. rewrite Hab. reflexivity.
Qed.

Definition all_true : list str -> item -> bool := fun _ _ => true.
Lemma all_true_blind : forall cx, layout_blind (all_true cx).
Proof. intros cx a b _. reflexivity. Qed.

(* ---- each hypothesis of C12_value_preserved is needed *)

(* `*` read as a value (here its code point 42): `>=a` holds for v = 'd', `[a TO *]` does not *)
Definition C12v_wild_unbounded_needed_statement : Prop :=
  exists (bv : item -> option N) t t',
    layout_blind bv /\ shaped t = true /\ open_range false sp t = Some t' /\
    holds_full N N.leb bv (fun _ => 100%N) all_true true [] t' <>
    holds_full N N.leb bv (fun _ => 100%N) all_true true [] t.
Theorem C12v_wild_unbounded_needed : C12v_wild_unbounded_needed_statement.
Proof.
  exists (fun b => match Erase.erase b with Term _ _ (c :: _) => Some c | _ => Some 0%N end),
         (ORange KFrom meta0 (w 97) true),
         (rg (Term KWord (mkMeta None None [] sp None) [97%N]) (Term KWord (mkMeta None None sp [] None) [42%N])
             true true).
  split; [intros a b Hab; rewrite Hab; reflexivity|].
  split; [reflexivity|]. split; [vm_compute; reflexivity|]. vm_compute. discriminate.
Qed.

(* a bound read through its layout (here: the length of its tail): add_head " " lands in the tail of the
   converted bound *)
Definition C12v_layout_blind_needed_statement : Prop :=
  exists (bv : item -> option N) t t',
    wild_unbounded bv /\ shaped t = true /\ open_range false sp t = Some t' /\
    holds_full N N.leb bv (fun _ => 0%N) all_true true [] t' <>
    holds_full N N.leb bv (fun _ => 0%N) all_true true [] t.
Theorem C12v_layout_blind_needed : C12v_layout_blind_needed_statement.
Proof.
  exists (fun b => if is_wildcard b then None else Some (N.of_nat (length (tail_of b)))),
         (ORange KFrom meta0 (w 97) true),
         (rg (Term KWord (mkMeta None None [] sp None) [97%N]) (Term KWord (mkMeta None None sp [] None) [42%N])
             true true).
  split; [intros b Hb; rewrite Hb; reflexivity|].
  split; [reflexivity|]. split; [vm_compute; reflexivity|]. vm_compute. discriminate.
Qed.

(* the guard, first half: a comparison INSIDE an atom (`(>=a)~`, not a query the grammar produces) is
   converted too, and a layout-blind atom valuation may tell the two atoms apart *)
Definition C12v_shaped_nested_needed_statement : Prop :=
  exists (opq : list str -> item -> bool) t t',
    (forall cx, layout_blind (opq cx)) /\ shaped t = false /\ open_range false sp t = Some t' /\
    holds_full N N.leb ex_bv (fun _ => 0%N) opq true [] t' <>
    holds_full N N.leb ex_bv (fun _ => 0%N) opq true [] t.
Theorem C12v_shaped_nested_needed : C12v_shaped_nested_needed_statement.
Proof.
  exists (fun _ t => match Erase.erase t with Fuzzy _ (ORange _ _ _ _) _ _ => true | _ => false end),
         (Fuzzy meta0 (ORange KFrom meta0 (w 97) true) dec_half true).
  eexists. split; [intros cx a b Hab; rewrite Hab; reflexivity|].
  split; [reflexivity|]. split; [vm_compute; reflexivity|]. vm_compute. discriminate.
Qed.

(* the guard, second half: an approximate match whose degree was reassigned after construction; an atom
   valuation that reads the degree sees the copy differently *)
Definition C12v_shaped_wf_needed_statement : Prop :=
  exists (opq : list str -> item -> bool) t t',
    (forall cx, layout_blind (opq cx)) /\ shaped t = false /\ open_range false sp t = Some t' /\
    holds_full N N.leb ex_bv (fun _ => 0%N) opq true [] t' <>
    holds_full N N.leb ex_bv (fun _ => 0%N) opq true [] t.
Theorem C12v_shaped_wf_needed : C12v_shaped_wf_needed_statement.
Proof.
  exists (fun _ t => match Erase.erase t with Fuzzy _ _ d _ => dec_struct_eqb d dec_half | _ => false end),
         (Fuzzy meta0 (w 97) (mkDec false 2 0) true).
  eexists. split; [intros cx a b Hab; rewrite Hab; reflexivity|].
  split; [reflexivity|]. split; [vm_compute; reflexivity|]. vm_compute. discriminate.
Qed.

(* one value per field context: with a MULTI-valued field ("some value of the field is in the range") the
   merge is not an equivalence.  Values {'0','9'}: `[1 TO *]` and `[* TO 5]` both match, `[1 TO 5]` does not *)
Definition range_any (vals : list N) (t : item) : bool :=
  existsb (fun v => holds N N.leb ex_bv (fun _ => true) v t) vals.
Definition C12v_single_value_needed_statement : Prop :=
  let l := [rg (w 49) wst true true; rg wst (w 53) true true] in
  merge_children l = [rg (w 49) (w 53) true true] /\
  forallb (range_any [48; 57]%N) l = true /\
  forallb (range_any [48; 57]%N) (merge_children l) = false.
Theorem C12v_single_value_needed : C12v_single_value_needed_statement.
Proof. unfold C12v_single_value_needed_statement. cbv zeta. conj_vm. Qed.

(* ---- what is NOT assumed: any relation.  With the relation "always false" (not an order) the theorem
   still applies; and the incoherent range of the docstring, `[* TO 3] AND [4 TO *]` -> `[4 TO 3]`: for the
   usual order on N both the conjunction and the merged range are unsatisfiable *)
Definition C12v_any_relation_statement : Prop :=
  forall (fv : list str -> N) merge ah t, shaped t = true ->
  exists t', open_range merge ah t = Some t' /\
    forall cx, holds_full N (fun _ _ => false) ex_bv fv all_true true cx t' =
               holds_full N (fun _ _ => false) ex_bv fv all_true true cx t.
Theorem C12v_any_relation : C12v_any_relation_statement.
Proof.
  intros fv merge ah t Hs. destruct ex_bv_ok as [Hw Hb].
  exact (C12_value_preserved N (fun _ _ => false) ex_bv fv all_true true Hw Hb all_true_blind merge ah t Hs).
Qed.

Definition C12v_empty_range_statement : Prop :=
  let t := Op KAnd meta0 [rg wst (w 51) true true; rg (w 52) wst true true] in
  open_range true [] t = Some (Op KAnd meta0 [rg (w 52) (w 51) true true]) /\
  forall v : N,
    holds_full N N.leb ex_bv (fun _ => v) all_true true [] t = false /\
    holds_full N N.leb ex_bv (fun _ => v) all_true true []
      (Op KAnd meta0 [rg (w 52) (w 51) true true]) = false.
Theorem C12v_empty_range : C12v_empty_range_statement.
Proof.
  split; [vm_compute; reflexivity|]. intros v.
  change (((true && (v <=? 51)%N) && (((52 <=? v)%N && true) && true) = false) /\
          (((52 <=? v)%N && (v <=? 51)%N) && true = false)).
  destruct (N.leb_spec v 51), (N.leb_spec 52 v); simpl; try (split; reflexivity); lia.
Qed.

(* ================================================================ non-vacuity on parsed queries *)

Definition parsed (q : str) : item := match parse q with Some (Ok t) => t | _ => NoneItem meta0 end.

(* a:>=1 AND a:<5 AND b:[* TO 3} OR NOT c:>2 *)
Definition q1 : str :=
  [97;58;62;61;49;32;65;78;68;32;97;58;60;53;32;65;78;68;32;98;58;91;42;32;84;79;32;51;125;32;79;82;32;
   78;79;84;32;99;58;62;50]%N.
(* a:(>=1 AND <5 AND [* TO 3}) OR NOT c:>2 *)
Definition q2 : str :=
  [97;58;40;62;61;49;32;65;78;68;32;60;53;32;65;78;68;32;91;42;32;84;79;32;51;125;41;32;79;82;32;78;79;84;
   32;99;58;62;50]%N.

(* q1 parses to Or(And(a:From(1,incl), a:To(5), b:Range( *,3,incl,excl)), Not(c:From(2))) *)
Definition t1 : item :=
  Op KOr meta0
    [Op KAnd meta0 [SearchField meta0 [97%N] (ORange KFrom meta0 (w 49) true);
                    SearchField meta0 [97%N] (ORange KTo meta0 (w 53) false);
                    SearchField meta0 [98%N] (rg wst (w 51) true false)];
     Unary KNot meta0 (SearchField meta0 [99%N] (ORange KFrom meta0 (w 50) false))].
Example C12v_q1_tree : Erase.erase (parsed q1) = t1.
Proof. vm_compute. reflexivity. Qed.

(* field values: one per field a, b, c; all 7^3 triples over '0'..'6' *)
Definition ex_fv (va vb vc : N) (cx : list str) : N :=
  match cx with
  | [[97%N]] => va | [[98%N]] => vb | [[99%N]] => vc | _ => 0%N
  end.
Definition ex_hf (va vb vc : N) (t : item) : bool :=
  holds_full N N.leb ex_bv (ex_fv va vb vc) all_true true [] t.
Definition vals : list N := [48;49;50;51;52;53;54]%N.
Definition triples : list (N * N * N) :=
  flat_map (fun a => flat_map (fun b => map (fun c => (a, b, c)) vals) vals) vals.
Definition agree (t t' : item) : bool :=
  forallb (fun x => match x with (a, b, c) => Bool.eqb (ex_hf a b c t') (ex_hf a b c t) end) triples.
Definition count (t : item) : nat :=
  length (filter (fun x => match x with (a, b, c) => ex_hf a b c t end) triples).

(* q1: the comparisons are converted; wrapped in fields, nothing is merged even with merging on.
   The input holds for 195 of the 343 triples ((1 <= a < 5 and b < 3) or not c > 2), and so does the output. *)
Example C12v_q1 :
  shaped (parsed q1) = true /\
  option_map (print true) (open_range false sp (parsed q1))
  = Some [97;58;91;49;32;32;84;79;32;42;93;65;78;68;32;97;58;91;42;32;84;79;32;53;32;125;65;78;68;32;98;58;
          91;42;32;84;79;32;51;125;32;79;82;32;78;79;84;32;99;58;123;50;32;84;79;32;42;93]%N /\
     (* "a:[1  TO *]AND a:[* TO 5 }AND b:[* TO 3} OR NOT c:{2 TO *]" *)
  open_range true sp (parsed q1) = open_range false sp (parsed q1) /\
  option_map (agree (parsed q1)) (open_range false sp (parsed q1)) = Some true /\
  count (parsed q1) = 195 /\
  ex_hf 49 48 54 (parsed q1) = true /\ ex_hf 48 48 54 (parsed q1) = false /\   (* a = '1' / a = '0' *)
  ex_hf 53 48 54 (parsed q1) = false /\ ex_hf 52 48 54 (parsed q1) = true.     (* a = '5' / a = '4': `<5` strict *)
Proof. conj_vm. Qed.

(* q2: the same conditions as direct operands of one AND inside a field group.  Without merging three
   ranges; with merging `>=1` and `<5` become ONE range and `[* TO 3}` stays; same truth as the INPUT on
   all 343 triples (203 of them true) in both modes *)
Example C12v_q2 :
  shaped (parsed q2) = true /\
  option_map (print true) (open_range false sp (parsed q2))
  = Some [97;58;40;91;49;32;32;84;79;32;42;93;65;78;68;32;91;42;32;84;79;32;53;32;125;65;78;68;32;91;42;32;
          84;79;32;51;125;41;32;79;82;32;78;79;84;32;99;58;123;50;32;84;79;32;42;93]%N /\
     (* "a:([1  TO *]AND [* TO 5 }AND [* TO 3}) OR NOT c:{2 TO *]" *)
  option_map (print true) (open_range true sp (parsed q2))
  = Some [97;58;40;91;49;32;32;84;79;32;53;32;125;65;78;68;32;91;42;32;84;79;32;51;125;41;32;79;82;32;78;
          79;84;32;99;58;123;50;32;84;79;32;42;93]%N /\
     (* "a:([1  TO 5 }AND [* TO 3}) OR NOT c:{2 TO *]" *)
  option_map (agree (parsed q2)) (open_range false sp (parsed q2)) = Some true /\
  option_map (agree (parsed q2)) (open_range true sp (parsed q2)) = Some true /\
  count (parsed q2) = 203.
Proof. conj_vm. Qed.

(* the theorem applied to q2 (not the computation above): every field values, both default operators *)
Example C12v_q2_by_theorem :
  forall merge dflt (fv : list str -> N), exists t',
    open_range merge sp (parsed q2) = Some t' /\
    forall cx, holds_full N N.leb ex_bv fv all_true dflt cx t' =
               holds_full N N.leb ex_bv fv all_true dflt cx (parsed q2).
Proof.
  intros merge dflt fv. destruct ex_bv_ok as [Hw Hb].
  apply (C12_value_preserved N N.leb ex_bv fv all_true dflt Hw Hb all_true_blind merge sp).
  vm_compute. reflexivity.
Qed.

(* untouched nodes: the guard holds of constructor-built nodes, and the statement says something — the
   Boost keeps its force and its explicit flag, the field its name, both their layout *)
Example C12v_untouched_nonvacuous :
  EqSpec.wf_node (Boost (mkMeta (Some 3%Z) (Some 4%Z) sp sp (Some [110%N])) (w 97) (mkDec false 2 0) false) /\
  open_range true sp
    (Boost (mkMeta (Some 3%Z) (Some 4%Z) sp sp (Some [110%N])) (ORange KFrom meta0 (w 97) true) (mkDec false 2 0) false)
  = Some (Boost (mkMeta (Some 3%Z) (Some 4%Z) sp sp None)
            (rg (Term KWord (mkMeta None None [] sp None) [97%N]) (Term KWord (mkMeta None None sp [] None) [42%N])
                true true)
            (mkDec false 2 0) false).
Proof. split; vm_compute; reflexivity. Qed.

Print Assumptions C12_value_preserved.
Print Assumptions C12_value_preserved_one_value.
Print Assumptions C12_comparison_value.
Print Assumptions C12_untouched_nodes.
Print Assumptions C12_untouched_nodes_any.
Print Assumptions C12_exact_conversion.
Print Assumptions C12_untouched_wf_needed.
Print Assumptions C12v_wild_unbounded_needed.
Print Assumptions C12v_layout_blind_needed.
Print Assumptions C12v_shaped_nested_needed.
Print Assumptions C12v_shaped_wf_needed.
Print Assumptions C12v_single_value_needed.
Print Assumptions C12v_any_relation.
Print Assumptions C12v_empty_range.
