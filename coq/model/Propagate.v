(* Propagate.v — luqum.naming: MatchingPropagator (__init__, _status_from_parent, _propagate,
   __call__) and matching_from_names.  Executable definitions only.

   Python sets of path tuples are lists here (membership = mem_path); the correspondence compares
   the results as sets.  Class tests go through Visitor.isinstance_any with the generated class
   tuples OR_NODES / NEGATION_NODES / NO_CHILDREN_PROPAGATE (gen/GenNaming.v) and the generated
   MROs (gen/GenTree.v).  Nothing here can raise: `in` on sets of tuples, isinstance, any/all. *)
Require Import Base Decimal Tree GenTree GenNaming Visitor.

Section Propagate.
  (* the constructor argument: any class object; only `is tree.OrOperation` is looked at *)
  Variable default_operation : cls.
  Variables matching other : list path.

  (* __init__: if default_operation is tree.OrOperation:
                  self.OR_NODES = self.OR_NODES + (tree.UnknownOperation,)
     (UnknownOperation is written in the method body, not in a class-level table) *)
  Definition or_nodes : list cls :=
    if cls_eqb default_operation COrOperation then gen_or_nodes ++ [CUnknownOperation]
    else gen_or_nodes.

  Definition is_or_node (t : item) : bool := isinstance_any (cls_of t) or_nodes.
  Definition is_negation_node (t : item) : bool := isinstance_any (cls_of t) gen_negation_nodes.
  Definition is_no_children_propagate (t : item) : bool :=
    isinstance_any (cls_of t) gen_no_children_propagate.
  (* isinstance(node, tree.BaseOperation)  (the class is written in the method body of _propagate,
     not in a class-level table; the MRO of the node's class is generated) *)
  Definition is_base_operation (t : item) : bool := isinstance (cls_of t) CBaseOperation.

  (* _status_from_parent, on the reversed path so that path[:-1] is the structural tail *)
  Fixpoint sfp_rev (rp : list nat) : bool :=
    if mem_path (rev rp) matching then true
    else if mem_path (rev rp) other then false
    else match rp with
         | [] => false
         | _ :: rp' => sfp_rev rp'
         end.
  Definition status_from_parent (p : path) : bool := sfp_rev (rev p).

  (* (node is matching, paths of matching sub nodes, paths of non matching sub nodes) *)
  Definition pres := (bool * list path * list path)%type.

  (* the loop over enumerate(node.children): children_status, paths_ok, paths_ko *)
  Definition prop_list (f : item -> path -> pres) (pre : path) :=
    fix go (i : nat) (l : list item) : list bool * list path * list path :=
      match l with
      | [] => ([], [], [])
      | c :: l' =>
          let '(b, ok, ko) := f c (pre ++ [i]) in
          let '(bs, oks, kos) := go (S i) l' in
          (b :: bs, ok ++ oks, ko ++ kos)
      end.

  (* `children_status` as a truth value: a non-empty list *)
  Definition truthy {A} (l : list A) : bool := match l with [] => false | _ => true end.

  (* "resolve node status", negation, and insertion of the node's own path:
       if path in matching: node_ok = True
       elif children_status or isinstance(node, tree.BaseOperation):
           operator = any if isinstance(node, self.OR_NODES) else all
           node_ok = operator(children_status)     # an operation without operand: any([]) / all([])
       else: node_ok = self._status_from_parent(path, matching, other) *)
  Definition resolve (t : item) (p : path) (r : list bool * list path * list path) : pres :=
    let '(sts, ok, ko) := r in
    let v := if mem_path p matching then true
             else if truthy sts || is_base_operation t then
                    (if is_or_node t then existsb (fun b => b) sts
                     else forallb (fun b => b) sts)
             else status_from_parent p in
    let node_ok := if is_negation_node t then negb v else v in
    if node_ok then (node_ok, ok ++ [p], ko) else (node_ok, ok, ko ++ [p]).

  (* _propagate *)
  Fixpoint propagate_go (t : item) (p : path) : pres :=
    let via (cs : list item) :=
      resolve t p
        (match cs with
         | [] => ([], [], [])                                      (* `if node.children` is false *)
         | _ => if is_no_children_propagate t then ([], [], [])
                else prop_list propagate_go p 0 cs
         end) in
    match t with
    | Term _ _ _ | NoneItem _ => via []
    | SearchField _ _ e | Grp _ _ e | Boost _ e _ _ => via [e]
    | Fuzzy _ x _ _ | Proximity _ x _ _ => via [x]
    | Unary _ _ a | ORange _ _ a _ => via [a]
    | Range _ lo hi _ _ => via [lo; hi]
    | Op _ _ ops => via ops
    end.

  (* __call__ *)
  Definition propagate (t : item) : list path * list path :=
    let '(_, ok, ko) := propagate_go t [] in (ok, ko).
End Propagate.

(* matching_from_names(names, name_to_path); None = KeyError.  name_to_path is a dict: the
   association list has distinct keys (first match = the entry). *)
Definition lookup_name (m : list (str * path)) (nm : str) : option path :=
  match find (fun e => str_eqb (fst e) nm) m with Some e => Some (snd e) | None => None end.

Fixpoint lookup_all (m : list (str * path)) (names : list str) : option (list path) :=
  match names with
  | [] => Some []
  | nm :: l =>
      match lookup_name m nm, lookup_all m l with
      | Some p, Some ps => Some (p :: ps)
      | _, _ => None
      end
  end.

Definition matching_from_names (names : list str) (m : list (str * path))
  : option (list path * list path) :=
  match lookup_all m names with
  | None => None
  | Some mt => Some (mt, filter (fun p => negb (mem_path p mt)) (map snd m))
  end.

(* a history of calls on ONE propagator instance (default_operation fixed by __init__): the code
   keeps no state on the instance between calls, so call k is the function of its own arguments.
   (Whether the returned set OBJECTS are shared between calls is an identity fact outside this
   value model; harness/c16.py checks it on call histories.) *)
Definition propagate_calls (d : cls) (calls : list (item * list path * list path))
  : list (list path * list path) :=
  map (fun c => let '(t, mt, ot) := c in propagate d mt ot t) calls.
