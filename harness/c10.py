"""C10 — UnknownOperationResolver replaces exactly the implicit operations, same meaning.

Correspondence: model coq/model/Resolver.v `resolve tg ah t` against
`UnknownOperationResolver(resolve_to, add_head)(tree)` on the full output tree (layout, names, flags).
Oracle (independent of the model): no UnknownOperation left, every other node kept, layout only changed by
add_head in front of operands 2.. of resolved operations, explicit target / And-Or / And throughout, same
truth table, idempotence, input unmodified.
"""
import copy
import hashlib
import itertools

import lib
import gentree
from runner import CorrResult  # noqa: F401

ADD_HEADS = [" ", "", "\n"]


def targets(T):
    return [("None", None), ("(Some KAnd)", T.AndOperation), ("(Some KOr)", T.OrOperation),
            ("(Some KBool)", T.BoolOperation)]


# ------------------------------------------------------------------ generators

class RGen:
    """trees made mostly of groups, fields, explicit and implicit operations (0-6 operands), unary
    operators, with layout, positions and names; a few arbitrary sub-trees from gentree.Gen"""

    def __init__(self, r, T):
        self.r, self.T = r, T
        self.g = gentree.Gen(r, T, layout=0.3, odd=0.2, max_ops=3, positions=0.2)
        self.n = 0

    def fin(self, node):
        r = self.r
        if r.random() < 0.3:
            node.head = r.choice(gentree.SPACES + ["h"])
        if r.random() < 0.3:
            node.tail = r.choice(gentree.SPACES + ["t"])
        if r.random() < 0.15:
            node.pos = r.randrange(0, 60)
            node.size = r.randrange(0, 9)
        if r.random() < 0.1:
            setattr(node, "_luqum_name", r.choice(["a", "nm", ""]))
        return node

    def leaf(self):
        self.n += 1
        return self.fin(self.T.Word("w%d" % self.n))

    def tree(self, budget, depth, pop=None):
        T, r = self.T, self.r
        if budget <= 1 or depth <= 0:
            return self.leaf()
        kind = r.choice(pop or ["unk", "unk", "unk", "and", "or", "and", "or", "bool", "group", "group",
                                "field", "fieldgroup", "not", "plus", "prohibit", "boost", "leaf", "any"])
        sub = lambda b: self.tree(b, depth - 1, pop)  # noqa
        if kind == "leaf":
            return self.leaf()
        if kind == "any":
            return self.g.tree(min(depth, 2))
        if kind in ("unk", "and", "or", "bool"):
            k = {"unk": T.UnknownOperation, "and": T.AndOperation, "or": T.OrOperation,
                 "bool": T.BoolOperation}[kind]
            n = r.choice([0, 1, 2, 2, 2, 3, 3, 4, 5, 6])
            n = min(n, max(budget, 2)) if n > 1 else n
            ops = []
            left = budget
            for i in range(n):
                b = max(1, r.randrange(1, max(2, left - (n - i - 1) + 1)))
                left = max(1, left - b)
                ops.append(sub(b))
            return self.fin(k(*ops))
        if kind == "group":
            return self.fin(T.Group(sub(budget)))
        if kind == "field":
            return self.fin(T.SearchField(r.choice(["f", "title", "a.b"]), sub(budget)))
        if kind == "fieldgroup":
            return self.fin(T.SearchField(r.choice(["f", "g"]), self.fin(T.FieldGroup(sub(budget)))))
        if kind in ("not", "plus", "prohibit"):
            k = {"not": T.Not, "plus": T.Plus, "prohibit": T.Prohibit}[kind]
            return self.fin(k(sub(budget)))
        if kind == "boost":
            return self.fin(T.Boost(sub(budget), r.choice([None, "2", "1.50", 3])))
        raise AssertionError(kind)


    def ltree(self, depth, top=True):
        """shapes on which the Lucene-mode memory matters: explicit operators before implicit ones, under
        BoolOperation / group / field parents (the nodes that do not create the dict), nested groups"""
        T, r = self.T, self.r
        if depth <= 0:
            return self.leaf()
        if top:
            kind = r.choice(["bool", "bool", "group", "unk", "and", "field", "not"])
        else:
            kind = r.choice(["unk", "unk", "unk", "or", "or", "and", "bool", "group", "group", "field", "leaf",
                             "leaf", "not"])
        sub = lambda: self.ltree(depth - 1, False)  # noqa
        if kind == "leaf":
            return self.leaf()
        if kind in ("unk", "and", "or", "bool"):
            k = {"unk": T.UnknownOperation, "and": T.AndOperation, "or": T.OrOperation,
                 "bool": T.BoolOperation}[kind]
            return self.fin(k(*[sub() for _ in range(r.choice([1, 2, 2, 2, 3, 3, 4]))]))
        if kind == "group":
            return self.fin(T.Group(sub()))
        if kind == "field":
            return self.fin(T.SearchField("f", self.fin(T.FieldGroup(sub()))))
        return self.fin(T.Not(sub()))


QUERIES = [
    "a b OR c d (e f AND g h) x:(i j)",
    "a b",
    "a OR b c",
    "a b OR c",
    "(a OR b) c d",
    "(a OR b c) d e",
    "a AND b (c d) e f",
    "(a b) (c OR d) (e f)",
    "x:(a OR b) y:(c d) e f",
    "x:(a b OR c d) (e f)",
    "a b (c d OR e (f g AND h i) j k) l m",
    "(a b (c OR d) e f) g h",
    "((a OR b)) c d ((e f))",
    "((a b) (c AND d)) ((e f) (g OR h i)) j k",
    "NOT a b OR -c +d e",
    "a~ b^ \"c d\"~ e~2 f^3 g",
    "x:[a TO b] y:{1 TO 2] z:>=3 t",
    "  a   b\tOR  c   d  ",
    "f:(a b) g:(c OR d) h:(e f)",
    "a OR b AND c d (e OR f) g h AND i j",
    "(a AND b) c d",
    "c d (a AND b)",
    "(c d (a AND b) e f) g h",
    "(x OR y) ((a b) (c d)) e f",
]


def corpus(T):
    W = T.Word
    U, A, O, B, G, F = (T.UnknownOperation, T.AndOperation, T.OrOperation, T.BoolOperation, T.Group,
                        T.SearchField)
    named = U(W("a"), W("b", head=" "), W("c", head=" ", tail=" "), pos=3, size=7, head="  ", tail="\t")
    setattr(named, "_luqum_name", "root")
    setattr(named.children[1], "_luqum_name", "b")
    return [
        W("a"), U(), U(W("a")), U(W("a"), W("b")), named,
        # placeholders as operands (fresh objects and the module-level NONE_ITEM): they get a separator like any
        # other operand, in the COPY
        U(W("a"), T.NoneItem()), U(T.NoneItem(), T.NoneItem(), W("b")), A(W("a"), U(W("b"), T.NoneItem())),
        U(W("a"), T.NONE_ITEM), G(U(T.NONE_ITEM, W("b"), T.NONE_ITEM)),
        # the dict is created at the topmost And/Or/Unknown of each branch: siblings under a group root
        # do not see each other, descendants of one operation do
        G(U(W("a"), W("b"))),
        B(O(W("a"), W("b")), U(W("c"), W("d"))),                  # Bool root: Or invisible to its sibling
        U(O(W("a"), W("b")), U(W("c"), W("d"))),                  # Unknown root: shared, second becomes Or
        U(U(W("c"), W("d")), O(W("a"), W("b")), U(W("e"), W("f"))),   # before / after the explicit one
        A(U(W("a"), W("b")), O(W("c")), U(W("d"), W("e"))),
        O(U(W("a"), W("b")), A(W("c")), U(W("d"), W("e"))),
        # keys: the outermost non-operation ancestor
        U(G(O(W("a"), W("b"))), G(U(W("c"), W("d"))), U(W("e"), W("f"))),
        U(G(U(G(O(W("a"), W("b"))), U(W("c"), W("d")))), G(U(W("e"), W("f")))),
        G(U(G(O(W("a"), W("b"))), G(U(W("c"), W("d"))), U(W("e"), W("f")))),
        G(G(U(O(W("a")), G(U(W("c"), W("d"))), U(W("e"), W("f"))))),
        F("x", G(U(O(W("a"), W("b")), U(W("c"), W("d"))))),
        U(F("x", T.FieldGroup(O(W("a"), W("b")))), F("y", T.FieldGroup(U(W("c"), W("d")))), U(W("e"))),
        U(T.Not(O(W("a"), W("b"))), T.Not(U(W("c"), W("d"))), U(W("e"), W("f"))),
        U(B(O(W("a"), W("b")), U(W("c"), W("d"))), U(W("e"), W("f"))),
        B(B(O(W("a"))), U(W("c"), W("d")), G(B(A(W("x")), U(W("e"), W("f"))))),
        A(O(W("a")), U(W("b"), W("c")), A(W("d")), U(W("e"), W("f")), G(U(W("g"), W("h")))),
        U(A(O(W("a")), U(W("b"), W("c"))), U(W("e"), W("f"))),
        T.Range(U(W("a"), W("b")), O(U(W("c"), W("d")), W("e"))),
        T.Fuzzy(U(W("a"), W("b"))), T.Boost(U(T.Fuzzy(W("a")), T.Proximity(T.Phrase('"x y"')), T.Boost(W("b"), None)), "2.50"),
        U(*[W("w%d" % i) for i in range(6)]),
        U(U(U(U(W("a"), W("b")), W("c")), W("d")), W("e")),
    ]


# ------------------------------------------------------------------ oracle

def keybit(s):
    return hashlib.sha1(s.encode()).digest()[0] & 1


def lucene_bool(pairs):
    must = [v for k, v in pairs if k == "Plus"]
    must_not = [v for k, v in pairs if k in ("Prohibit", "Not")]
    should = [v for k, v in pairs if k not in ("Plus", "Prohibit", "Not")]
    return all(must) and not any(must_not) and (any(should) if should and not must else True)


def evaluate(T, node, val, choice, path=()):
    """boolean reading of a tree.  val: path of a childless node -> bool; choice: path of an
    UnknownOperation -> operation class it is read with.  And = all, Or = any, BoolOperation = Lucene
    must/must_not/should on the operands' (class, value); Not/Prohibit negate; Plus, groups transparent;
    anything else: parity of the children's values xor a bit of its own content (an arbitrary but fixed
    interpretation of fields, ranges, approximations, boosts)."""
    kids = [evaluate(T, c, val, choice, path + (i,)) for i, c in enumerate(node.children)]
    k = type(node)
    if k is T.UnknownOperation:
        k = choice(path)
    if k is T.AndOperation:
        return all(kids)
    if k is T.OrOperation:
        return any(kids)
    if k is T.BoolOperation:
        tags = []
        for i, c in enumerate(node.children):
            ck = type(c)
            if ck is T.UnknownOperation:
                ck = choice(path + (i,))
            tags.append(ck.__name__)
        return lucene_bool(list(zip(tags, kids)))
    if k is T.UnknownOperation:
        raise AssertionError("unresolved reading")
    if isinstance(node, (T.Not, T.Prohibit)):
        return not kids[0]
    if isinstance(node, (T.Plus, T.BaseGroup)):
        return kids[0]
    if not node.children:
        return val[path]
    content = type(node).__name__ + repr([getattr(node, a) for a in node._equality_attrs])
    return (sum(kids) + keybit(content)) % 2 == 1


def node_at(tree, path):
    for i in path:
        tree = tree.children[i]
    return tree


def oracle(T, tree, out, tgcls, ah, snapshot_attrs):
    """the property on the implementation's behaviour; returns a reason or None"""
    nodes_in = list(gentree.all_nodes(tree))
    nodes_out = dict(gentree.all_nodes(out))
    if any(isinstance(n, T.UnknownOperation) for n in nodes_out.values()):
        return "an UnknownOperation is left in the result"
    if set(p for p, _ in nodes_in) != set(nodes_out):
        return "the result has not the same shape (a node was lost or added)"
    any_explicit = any(type(n) in (T.AndOperation, T.OrOperation) for _, n in nodes_in)
    for p, n in nodes_in:
        o = nodes_out[p]
        if o is n:
            return "the result shares a node with the input"
        if type(n) is T.UnknownOperation:
            if tgcls is not None and type(o) is not tgcls:
                return "an implicit operation did not become the target operation"
            if tgcls is None and type(o) not in (T.AndOperation, T.OrOperation):
                return "Lucene mode: an implicit operation became neither AND nor OR"
            if tgcls is None and not any_explicit and type(o) is not T.AndOperation:
                return "Lucene mode without explicit operator: not AND throughout"
        else:
            if type(o) is not type(n):
                return "a node that is not an implicit operation changed type"
            for a in n._equality_attrs:
                if getattr(o, a) != getattr(n, a) or type(getattr(o, a)) is not type(getattr(n, a)):
                    return "content attribute %s changed" % a
            for a in snapshot_attrs:
                if hasattr(n, a) and getattr(o, a) != getattr(n, a):
                    return "display flag %s changed" % a
        if (o.pos, o.size, o.tail) != (n.pos, n.size, n.tail):
            return "pos/size/tail changed"
        prefix = ""
        if p and type(node_at(tree, p[:-1])) is T.UnknownOperation and p[-1] >= 1:
            prefix = ah
        if o.head != prefix + n.head:
            return "head is not (add_head for operands 2.. of a resolved operation) + old head"
    return None


def same_meaning(T, tree, out, tgcls):
    leaves = [p for p, n in gentree.all_nodes(tree) if not n.children]
    if len(leaves) > 8:
        return None, False
    chosen = lambda p: type(node_at(out, p))  # noqa
    nochoice = lambda p: (_ for _ in ()).throw(AssertionError("unknown left"))  # noqa
    for bits in itertools.product([False, True], repeat=len(leaves)):
        val = dict(zip(leaves, bits))
        a = evaluate(T, out, val, nochoice)
        b = evaluate(T, tree, val, chosen)
        if a != b:
            return "truth tables differ (input read with the chosen operators) at %r" % (bits,), True
        if tgcls is not None:
            c = evaluate(T, tree, val, lambda p: tgcls)
            if a != c:
                return "truth tables differ (input read with the target as default operator) at %r" % (bits,), True
    return None, True


# ------------------------------------------------------------------ correspondence

def correspond(model_ok, res):
    import luqum.tree as T
    from luqum.utils import UnknownOperationResolver
    from luqum.parser import parser
    r = lib.rng("C10")
    quick = lib.tier() == "quick"
    n_random = 50 if quick else 500

    # tie of the two class attributes hard-coded in the model
    if UnknownOperationResolver.DEFAULT_OPERATION is not T.AndOperation or \
            UnknownOperationResolver.VALID_OPERATIONS != frozenset(
                [None, T.AndOperation, T.OrOperation, T.BoolOperation]):
        res.model_error = "DEFAULT_OPERATION / VALID_OPERATIONS are not the ones hard-coded in model/Resolver.v"
        return res

    # WRONG store models — only used to measure how many generated cases tell them apart from the real
    # behaviour (a correspondence that such a model would also pass proves little about the store)
    class GlobalDictResolver(UnknownOperationResolver):
        """one dict for the whole visit"""
        def __call__(self, tree):
            self._glob = {}
            return self.visit(tree)

        def _last_operation(self, context):
            return self._glob

    class InnermostKeyResolver(UnknownOperationResolver):
        """key = the nearest non-operation ancestor instead of the outermost"""
        def _first_nonop_parent(self, parents):
            return super()._first_nonop_parent(tuple(reversed(parents)))

    wrong_models = {"single_global_dict": GlobalDictResolver, "innermost_nonop_key": InnermostKeyResolver}

    rg = RGen(r, T)
    trees = [(t, "corpus") for t in corpus(T)]
    trees += [(parser.parse(q), "parsed") for q in QUERIES]
    opsonly = ["unk", "unk", "and", "or", "bool", "group", "group", "field", "fieldgroup", "not", "leaf"]
    def has_unknown(t):
        return any(type(n) is T.UnknownOperation for _, n in gentree.all_nodes(t))

    def pick(make):
        """mostly trees that hold an implicit operation (a tree without one is a plain copy)"""
        for _ in range(6):
            t = make()
            if has_unknown(t) or r.random() < 0.1:
                return t
        return t

    for i in range(n_random):
        trees.append((pick(lambda: rg.ltree(r.randrange(3, 6))), "random-lucene-shapes"))
        if i % 3 == 0:
            trees.append((pick(lambda: rg.tree(r.randrange(4, 9), r.randrange(3, 6), opsonly)), "random-ops-small"))
        elif i % 3 == 1:
            trees.append((pick(lambda: rg.tree(r.randrange(8, 30), r.randrange(4, 8), opsonly)), "random-ops-large"))
        else:
            trees.append((pick(lambda: rg.tree(r.randrange(4, 16), r.randrange(2, 6))), "random-mixed"))

    cases, payloads = [], []
    seen = set()
    dist = {"source": {}, "target": {}, "add_head": {}, "unknown_ops_per_tree": {}, "explicit_ops_per_tree": {},
            "lucene_some_unknown_became_or": 0, "lucene_trees_refuting_wrong_store_model": {"single_global_dict": 0, "innermost_nonop_key": 0},
            "truth_tables_checked": 0, "max_operands": {}}
    flags = ("_implicit_degree", "implicit_force")
    for tree, src in trees:
        desc = gentree.describe(tree)
        nodes = list(gentree.all_nodes(tree))
        n_unk = len([1 for _, n in nodes if type(n) is T.UnknownOperation])
        n_exp = len([1 for _, n in nodes if type(n) in (T.AndOperation, T.OrOperation)])
        maxw = max([len(n.children) for _, n in nodes if isinstance(n, T.BaseOperation)] or [0])
        for tgname, tgcls in targets(T):
            for ah in ADD_HEADS:
                before = lib.g_item(tree)
                payload = {"tree": desc[:1500], "printed": tree.__str__(head_tail=True)[:300],
                           "resolve_to": tgname, "add_head": ah}
                try:
                    out = UnknownOperationResolver(resolve_to=tgcls, add_head=ah)(tree)
                except Exception as e:
                    res.failures.append((dict(payload, why="exception %r" % e), None))
                    cases.append("(%s, %s, %s, None)" % (tgname, lib.g_str(ah), before))
                    payloads.append(payload)
                    continue
                after = lib.g_item(tree)
                if after != before:
                    res.failures.append((dict(payload, why="the input tree was modified"), None))
                if (T.NONE_ITEM.head, T.NONE_ITEM.tail, T.NONE_ITEM.pos, T.NONE_ITEM.size) != ("", "", None, None):
                    res.failures.append((dict(payload, why="the module-level placeholder NONE_ITEM was modified: "
                                              "head=%r tail=%r" % (T.NONE_ITEM.head, T.NONE_ITEM.tail)), None))
                    T.NONE_ITEM.head = T.NONE_ITEM.tail = ""      # repair so that later cases are judged on their own
                why = oracle(T, tree, out, tgcls, ah, flags)
                if why is None:
                    why, checked = same_meaning(T, tree, out, tgcls)
                    dist["truth_tables_checked"] += int(checked)
                if why is None:
                    again = UnknownOperationResolver(resolve_to=tgcls, add_head=ah)(out)
                    g_out = lib.g_item(out)
                    if lib.g_item(again) != g_out:
                        why = "resolving the result again changes it"
                    elif lib.g_item(out) != g_out:
                        why = "resolving the result again modified its input"
                if why:
                    res.failures.append((dict(payload, why=why, result=gentree.describe(out)[:1500]), None))
                cases.append("(%s, %s, %s, Some %s)" % (tgname, lib.g_str(ah), before, lib.g_item(out)))
                payloads.append(payload)
                if n_unk:
                    seen.add((desc, tree.__str__(head_tail=True), tgname, ah))
                dist["target"][tgname] = dist["target"].get(tgname, 0) + 1
                dist["add_head"][repr(ah)] = dist["add_head"].get(repr(ah), 0) + 1
                if tgcls is None and ah == " ":
                    if any(type(n) is T.UnknownOperation and type(node_at(out, p)) is T.OrOperation
                           for p, n in nodes):
                        dist["lucene_some_unknown_became_or"] += 1
                    for wname, wcls in wrong_models.items():
                        if gentree.describe(wcls(resolve_to=None, add_head=ah)(tree)) != gentree.describe(out):
                            dist["lucene_trees_refuting_wrong_store_model"][wname] += 1
        dist["source"][src] = dist["source"].get(src, 0) + 1
        b = min(n_unk, 6)
        dist["unknown_ops_per_tree"][b] = dist["unknown_ops_per_tree"].get(b, 0) + 1
        b = min(n_exp, 6)
        dist["explicit_ops_per_tree"][b] = dist["explicit_ops_per_tree"].get(b, 0) + 1
        dist["max_operands"][min(maxw, 6)] = dist["max_operands"].get(min(maxw, 6), 0) + 1

    # histories: ONE resolver instance reused on a sequence of 2-6 trees; the oracle requires every result to
    # be, by full structural comparison, what a FRESH resolver returns for that tree (calls are independent:
    # no memory may survive a call).  The k-th result of the reused instance is also given to the model
    # comparison, so the call-sequence correspondence ties C10_calls_independent to the code.
    hist_queries = ["a OR b", "c d (e f)", "a AND b", "x:(a OR b) c d", "(a b) OR c", "e f", "(g OR h) i j",
                    "NOT a b", "a b OR c d"]
    fixed_histories = [["a OR b", "c d (e f)"], ["a OR b", "c d"], ["(a OR b)", "(c d)", "e f"],
                       ["a AND b", "a OR b", "c d", "c d"], ["x:(a OR b)", "x:(c d)"]]
    n_hist = 25 if quick else 250
    histories = [[(parser.parse(q), q) for q in h] for h in fixed_histories]
    for _ in range(n_hist):
        h = []
        for _ in range(r.randrange(2, 7)):
            x = r.random()
            if x < 0.4:
                q = r.choice(hist_queries)
                h.append((parser.parse(q), q))
            elif x < 0.8:
                t = rg.ltree(r.randrange(1, 4))
                h.append((t, gentree.describe(t)[:400]))
            else:
                t = rg.tree(r.randrange(2, 8), r.randrange(1, 4), opsonly)
                h.append((t, gentree.describe(t)[:400]))
        histories.append(h)
    dist["histories"] = {"count": 0, "calls": 0, "length": {}}
    for hi, h in enumerate(histories):
        for tgname, tgcls in (targets(T) if hi % 3 == 0 else targets(T)[:1]):
            ah = ADD_HEADS[hi % 3] if tgcls is None and hi >= len(fixed_histories) else " "
            reused = UnknownOperationResolver(resolve_to=tgcls, add_head=ah)
            descs = [d for _, d in h]
            dist["histories"]["count"] += 1
            dist["histories"]["length"][len(h)] = dist["histories"]["length"].get(len(h), 0) + 1
            for k, (tree, d) in enumerate(h):
                if k == 1 and hi % 2 == 0:
                    # a call that cannot complete (tree deeper than the recursion limit) in the middle of the history
                    dist["histories"]["aborted"] = dist["histories"].get("aborted", 0) + \
                        (gentree.aborted_call(reused, T) != "completed")
                before = lib.g_item(tree)
                payload = {"history": descs, "index": k, "resolve_to": tgname, "add_head": ah}
                try:
                    got = reused(tree)
                    fresh = UnknownOperationResolver(resolve_to=tgcls, add_head=ah)(tree)
                except Exception as e:
                    res.failures.append((dict(payload, why="exception %r" % e), None))
                    continue
                dist["histories"]["calls"] += 1
                if lib.g_item(tree) != before:
                    res.failures.append((dict(payload, why="the input tree was modified"), None))
                if lib.g_item(got) != lib.g_item(fresh):
                    res.failures.append((dict(
                        payload, why="call %d on a reused resolver differs from a fresh resolver on the same tree"
                        % k, reused_result=gentree.describe(got)[:800], fresh_result=gentree.describe(fresh)[:800]),
                        None))
                cases.append("(%s, %s, %s, Some %s)" % (tgname, lib.g_str(ah), before, lib.g_item(got)))
                payloads.append(dict(payload, what="k-th result of a reused resolver vs model"))
                # an instance built with OTHER settings whose public attributes are then set to these ones
                try:
                    others = [c for _, c in targets(T) if c is not tgcls]
                    tog = UnknownOperationResolver(resolve_to=others[k % len(others)], add_head="\t")
                    tog(tree)
                    tog.resolve_to, tog.add_head = tgcls, ah
                    got2 = tog(tree)
                    if lib.g_item(got2) != lib.g_item(fresh):
                        res.failures.append((dict(
                            payload, why="a resolver whose resolve_to / add_head attributes were set after "
                            "construction (and after a call) differs from one built with them",
                            toggled_result=gentree.describe(got2)[:800], fresh_result=gentree.describe(fresh)[:800]),
                            None))
                except Exception as e:
                    res.failures.append((dict(payload, why="exception %r on a re-configured resolver" % e), None))

    # the invalid target: the constructor raises ValueError, the model answers None
    try:
        UnknownOperationResolver(resolve_to=T.UnknownOperation)
        res.failures.append(({"why": "resolve_to=UnknownOperation accepted"}, None))
    except ValueError:
        cases.append("(Some KUnknown, %s, %s, None)" % (lib.g_str(" "), lib.g_item(T.Word("a"))))
        payloads.append({"resolve_to": "UnknownOperation", "tree": "Word('a')"})

    # canary: a deliberately corrupted expectation must be reported by the comparison
    t0 = T.UnknownOperation(T.Word("a"), T.Word("b"))
    good = UnknownOperationResolver(resolve_to=None, add_head=" ")(t0)
    bad_out = copy.deepcopy(good)
    bad_out.children[1].head = ""
    canary = len(cases)
    cases.append("(None, %s, %s, Some %s)" % (lib.g_str(" "), lib.g_item(t0), lib.g_item(bad_out)))
    payloads.append({"canary": True})

    res.cases = len(cases) - 1
    res.nontrivial = len(seen)
    res.rule = ("fixed corpus aimed at the Lucene-mode memory (explicit operators before/after/inside groups, "
                "fields, Bool roots), %d parsed queries, random trees of groups/fields/unary/And/Or/Unknown/Bool "
                "with 0-6 operands plus arbitrary sub-trees, each x 4 targets x add_head in (' ', '', '\\n'); "
                "non-trivial = distinct (tree, target, add_head) whose tree holds an UnknownOperation"
                % len(QUERIES))
    res.samples = [p for p in payloads if p.get("resolve_to") == "None"][30:36]
    res.distribution = dist
    if model_ok:
        defs = ("Definition chk (c : option opk * str * item * option item) : bool :=\n"
                "  match c with (tg, ah, t, e) => oitem_beq (resolve tg ah t) e end.")
        try:
            bad = lib.eval_cases("C10", "Base Decimal Tree TreeEq Resolver", defs, cases, "chk", shard=70)
        except Exception as e:
            res.model_error = str(e)
            bad = []
        if not res.model_error and canary not in bad:
            res.model_error = "canary case was not reported: the comparison is vacuous"
        for i in bad:
            if i != canary:
                res.disagreements.append(payloads[i])
    else:
        res.model_error = "model did not build"
    return res


SPEC = {
    "id": "C10",
    "targets": ["props/C10.vo"],
    "model_targets": ["model/Resolver.vo", "model/TreeEq.vo"],
    "module": "C10",
    "theorems": ["C10_total", "C10_invalid_target", "C10_no_unknown_left", "C10_structure",
                 "C10_copy_keeps", "C10_explicit_target", "C10_lucene_and_or", "C10_lucene_default_and",
                 "C10_same_meaning", "C10_same_meaning_explicit", "C10_meaning_needs_std_attrs",
                 "C10_idempotent", "C10_calls_independent"],
    "correspond": correspond,
    "statement": "resolve never fails on a valid target; no UnknownOperation left; every node of the result is "
                 "the default copy of the node at the same path (Unknown -> target / And|Or), heads prefixed "
                 "by add_head exactly on operands 2.. of resolved operations; And throughout without explicit "
                 "operator; same boolean reading; resolving again returns the same tree",
    "trusted_base": [
        "Coq 8.16.1 kernel (vm_compute used for table facts, witnesses and correspondence; no native_compute)",
        "no axioms (Print Assumptions: closed under the global context)",
        "gen/translate.py: class MROs, _equality_attrs, UnknownOperationResolver method table",
        "hand-written model coq/model/Resolver.v (context copies, last_operation dict store, traversal) and "
        "coq/model/Eq.v clone_item, tied by differential correspondence (harness/c10.py) on every run",
        "DEFAULT_OPERATION / VALID_OPERATIONS hard-coded in the model, compared with the class at run time",
        "value-based tree model: id(parent) is represented by the parent's path (no node object occurs twice)",
        "'input not modified' and 'no node shared with the input' are checked by snapshots only",
    ],
    "assumptions": ["trees contain only luqum.tree classes; no node object occurs at two positions",
                    "C10_calls_independent is immediate in a pure model (a call has no access to a previous one); "
                    "what ties it to the code is the call-sequence correspondence of harness/c10.py: one resolver "
                    "instance reused on histories of 2-6 trees, every result compared with a fresh resolver "
                    "(oracle) and with the model",
                    "same-meaning / idempotence theorems: attribute values as the constructors produce them "
                    "(implicit degree/force hold their default, boost force normalised)"],
}
