(* TreeEq.v — full structural boolean equality on items (every field, layout and names
   included).  Used by the correspondence to compare model output with the implementation's
   serialised output; it is NOT luqum's __eq__ (that is Eq.v). *)
Require Import Base Decimal Tree.

Definition meta_beq (a b : meta) : bool :=
  oZ_eqb (m_pos a) (m_pos b) && oZ_eqb (m_size a) (m_size b) &&
  str_eqb (m_head a) (m_head b) && str_eqb (m_tail a) (m_tail b) &&
  ostr_eqb (m_name a) (m_name b).

Definition termk_beq a b := match a, b with KWord, KWord | KPhrase, KPhrase | KRegex, KRegex => true | _, _ => false end.
Definition groupk_beq a b := match a, b with KGroup, KGroup | KFieldGroup, KFieldGroup => true | _, _ => false end.
Definition opk_beq a b := match a, b with KAnd, KAnd | KOr, KOr | KUnknown, KUnknown | KBool, KBool => true | _, _ => false end.
Definition unk_beq a b := match a, b with KPlus, KPlus | KNot, KNot | KProhibit, KProhibit => true | _, _ => false end.
Definition ork_beq a b := match a, b with KFrom, KFrom | KTo, KTo => true | _, _ => false end.

Fixpoint item_beq (a b : item) : bool :=
  match a, b with
  | Term k m v, Term k' m' v' => termk_beq k k' && meta_beq m m' && str_eqb v v'
  | SearchField m n e, SearchField m' n' e' => meta_beq m m' && str_eqb n n' && item_beq e e'
  | Grp k m e, Grp k' m' e' => groupk_beq k k' && meta_beq m m' && item_beq e e'
  | Range m lo hi il ih, Range m' lo' hi' il' ih' =>
      meta_beq m m' && item_beq lo lo' && item_beq hi hi' && Bool.eqb il il' && Bool.eqb ih ih'
  | Fuzzy m t d i, Fuzzy m' t' d' i' =>
      meta_beq m m' && item_beq t t' && dec_struct_eqb d d' && Bool.eqb i i'
  | Proximity m t d i, Proximity m' t' d' i' =>
      meta_beq m m' && item_beq t t' && Z.eqb d d' && Bool.eqb i i'
  | Boost m e f i, Boost m' e' f' i' =>
      meta_beq m m' && item_beq e e' && dec_struct_eqb f f' && Bool.eqb i i'
  | Op k m ops, Op k' m' ops' =>
      opk_beq k k' && meta_beq m m' &&
      (fix go (l l' : list item) : bool :=
         match l, l' with
         | [], [] => true
         | c :: r, c' :: r' => item_beq c c' && go r r'
         | _, _ => false
         end) ops ops'
  | Unary k m x, Unary k' m' x' => unk_beq k k' && meta_beq m m' && item_beq x x'
  | ORange k m x i, ORange k' m' x' i' => ork_beq k k' && meta_beq m m' && item_beq x x' && Bool.eqb i i'
  | NoneItem m, NoneItem m' => meta_beq m m'
  | _, _ => false
  end.

Definition oitem_beq (a b : option item) : bool :=
  match a, b with
  | None, None => true
  | Some x, Some y => item_beq x y
  | _, _ => false
  end.

Definition named_paths_beq (a b : list (str * path)) : bool :=
  list_eqb (fun x y => str_eqb (fst x) (fst y) && path_eqb (snd x) (snd y)) a b.
