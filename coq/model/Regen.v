(* Regen.v — the executable guard `regen_ok` of the proved C11 re-parse theorem (props/C11r.v).
   Executable definitions only.

   `regen_ok x` says, of ANY tree x (in C11: the output of a transformer, with the layout it carries):

     gshape    x is an image of the documented grammar UP TO FLATTENING: every node has the shape one grammar rule
               builds (a Fuzzy on a word, a Proximity on a phrase, ^ on a postfix expression, a range over
               values or negated values, a field group exactly under a field ...), numerals print as they are
               read back (`deg_ok` / `prox_ok`, as in C13r), and the three operator levels are nested as the
               PRINTED FORM will be read: under AND only AND-operations and operands, under OR only OR / AND
               operations and operands, under an implicit operation only OR / AND operations and operands.
               An AND directly under an AND (or OR under OR) is allowed: it prints without parentheses and is read
               flattened, with the same meaning.  What is excluded is exactly an operation of LOWER precedence
               directly under a higher one without a group — an OR or an implicit operation under AND, an implicit
               operation under OR — (finding F10), BoolOperation, which has no syntax (F10c), NoneItem, and
               finding F4's own pattern in an implicit operation (an AND / OR operation followed by an operand
               that starts with + - or the word TO).
     scan      the printed form `print true x` is, lexeme by lexeme, the expected lexeme sequence `lexemes x`
               separated by blanks only, and no lexeme fuses with what follows it (`follow_ok`, a LOCAL
               criterion on the lexeme and the character(s) after it; the lexer is not run):
                 a TERM-rule lexeme (a word, AND / OR / NOT / TO) is followed by the end, a blank, or a
                 character the TERM rule stops at, and if that is a colon the time syntax cannot take it
                 (`AhtRoundTrip.name_glue`);  `<` / `>` is not followed by `=`;  `~n` / `^n` is not followed by
                 a digit or a dot;  every other lexeme (phrase, regex, brackets, signs, colon) is self-delimited.
               This is what fails in finding F10b (`aAND (b)`: the word `a` is followed by `A`) and in F1's
               consequence (`-xT12:30`: the colon after `xT12` starts a time). *)
Require Import Base Decimal Tree GenTree GenParser Lexer Print Grammar Respace AhtRoundTrip.

(* ---------------------------------------------------------------- lexemes standing alone *)

(* the token type the lexer gives a lexeme that stands alone *)
Definition ltype (l : str) : tok :=
  match lex_one [] l with Some (RTok k, _, _) => k | _ => T_EOF end.

(* l is one whole token when it stands alone *)
Definition lex_alone (l : str) : bool :=
  match lex_one [] l with Some (RTok _, _, []) => true | _ => false end.

(* a lexeme that is not read by the TERM rule, followed by the character c *)
Definition nonterm_follow (l : str) (c : char) : bool :=
  match l with
  | a :: l' =>
      if (N.eqb a c_lt || N.eqb a c_gt) && is_nil l' then negb (N.eqb c c_eq)
      else if N.eqb a c_tilde || N.eqb a c_caret then negb (is_numchar c)
      else true
  | [] => false
  end.

(* the lexeme l, followed by the text x, is read as l and then x *)
Definition follow_ok (l x : str) : bool :=
  match x with
  | [] => true
  | c :: rest =>
      match lex_term [] l with
      | Some _ =>
          is_space c ||
          (negb (term_follow_char c) && negb (N.eqb c c_bslash) && (negb (N.eqb c c_colon) || name_glue l rest))
      | None => nonterm_follow l c
      end
  end.

(* ---------------------------------------------------------------- the scanner *)

Fixpoint strip (l s : str) : option str :=
  match l, s with
  | [], _ => Some s
  | a :: l', b :: s' => if N.eqb a b then strip l' s' else None
  | _ :: _, [] => None
  end.

Fixpoint drop_space (s : str) : str :=
  match s with
  | c :: s' => if is_space c then drop_space s' else s
  | [] => []
  end.

Fixpoint scan (ls : list str) (s : str) : bool :=
  match ls with
  | [] => is_nil s
  | l :: ls' =>
      match strip l s with
      | Some x => lex_alone l && follow_ok l x && scan ls' (drop_space x)
      | None => false
      end
  end.

Definition scan_top (ls : list str) (s : str) : bool := negb (is_nil ls) && scan ls (drop_space s).

(* ---------------------------------------------------------------- the expected lexemes of a tree *)

Fixpoint joinl {A} (sep : list A) (l : list (list A)) : list A :=
  match l with
  | [] => []
  | [x] => x
  | x :: l' => x ++ sep ++ joinl sep l'
  end.

Definition opsep (k : opk) : list str :=
  match op_str (cls_of_opk k) with [] => [] | o => [o] end.

Fixpoint lexemes (t : item) : list str :=
  match t with
  | Term _ _ v => [v]
  | SearchField _ n e => n :: [c_colon] :: lexemes e
  | Grp _ _ e => [c_lparen] :: lexemes e ++ [[c_rparen]]
  | Range _ lo hi il ih => gen_low_char il :: lexemes lo ++ s_TO :: lexemes hi ++ [gen_high_char ih]
  | Fuzzy _ x d impl => lexemes x ++ [[c_tilde] ++ (if impl then [] else dec_to_fstr d)]
  | Proximity _ x z impl => lexemes x ++ [[c_tilde] ++ (if impl then [] else Z_to_str z)]
  | Boost _ e f impl => lexemes e ++ [[c_caret] ++ (if impl then [] else dec_to_fstr f)]
  | Op k _ ops => joinl (opsep k) (map lexemes ops)
  | Unary k _ a => op_str (cls_of_unk k) :: lexemes a
  | ORange k _ a incl => (op_str (cls_of_ork k) ++ gen_openrange_char incl) :: lexemes a
  | NoneItem _ => []
  end.

(* ---------------------------------------------------------------- the shape *)

(* grammar level of the printed form: 4 postfix, 3 operand, 2 AND chain, 1 OR chain, 0 juxtaposition.
   An operation with ONE operand (OpenRangeTransformer's merge leaves `AndOperation([1 TO 5])` behind) prints as that
   operand, with the same level *)
Fixpoint lvi (t : item) : nat :=
  match t with
  | Op k _ ops =>
      match ops with
      | [c] => lvi c
      | _ => match k with KAnd => 2 | KOr => 1 | _ => 0 end
      end
  | Unary _ _ _ | SearchField _ _ _ => 3
  | _ => 4
  end.

(* the printed form starts with + - or the word TO *)
Fixpoint sgi (t : item) : bool :=
  match t with
  | Term KWord _ v => str_eqb v s_TO
  | Unary KPlus _ _ | Unary KProhibit _ _ => true
  | Boost _ e _ _ => sgi e
  | Op _ _ (c :: _) => sgi c
  | _ => false
  end.

(* phrase_or_term *)
Definition val_term (t : item) : bool :=
  match t with
  | Term KWord _ v => tok_eqb (ltype v) T_TERM
  | Term KPhrase _ v => tok_eqb (ltype v) T_PHRASE
  | _ => false
  end.
(* phrase_or_possibly_negative_term *)
Definition bound_sh (t : item) : bool :=
  match t with Unary KProhibit _ a => val_term a | _ => val_term t end.

(* not finding F4's pattern: a signed operand does not follow an AND / OR operation *)
Fixpoint jx_ok (ops : list item) : bool :=
  match ops with
  | a :: ((b :: _) as r) => (negb (sgi b) || Nat.leb 3 (lvi a)) && jx_ok r
  | _ => true
  end.

Fixpoint gsh (lv : nat) (t : item) : bool :=
  Nat.leb lv (lvi t) &&
  match t with
  | Term KWord _ v => str_eqb v s_TO || tok_eqb (ltype v) T_TERM
  | Term KPhrase _ v => tok_eqb (ltype v) T_PHRASE
  | Term KRegex _ v => tok_eqb (ltype v) T_REGEX
  | Fuzzy _ x d impl =>
      match x with Term KWord _ v => tok_eqb (ltype v) T_TERM | _ => false end &&
      (if impl then dec_struct_eqb d dec_half else deg_ok d)
  | Proximity _ x z impl =>
      match x with Term KPhrase _ v => tok_eqb (ltype v) T_PHRASE | _ => false end &&
      (if impl then Z.eqb z 1 else prox_ok z)
  | Boost _ e f impl => gsh 4 e && (if impl then dec_struct_eqb f dec_one else deg_ok f)
  | Unary _ _ a => gsh 3 a
  | Grp KGroup _ e => gsh 0 e
  | Grp KFieldGroup _ _ => false                 (* only as the direct expression of a field *)
  | SearchField _ n e =>
      tok_eqb (ltype n) T_TERM &&
      match e with
      | Grp KFieldGroup _ x => gsh 0 x
      | Grp KGroup _ _ => false
      | _ => gsh 3 e
      end
  | Range _ lo hi _ _ => bound_sh lo && bound_sh hi
  | ORange _ _ a _ => val_term a
  | Op KBool _ _ => false
  | Op k _ ops =>
      match ops with
      | [c] => gsh lv c                            (* one operand: printed as that operand *)
      | _ =>
          Nat.leb 2 (length ops) &&
          match k with
          | KAnd => forallb (gsh 2) ops
          | KOr => forallb (gsh 1) ops
          | _ => forallb (gsh 1) ops && jx_ok ops
          end
      end
  | NoneItem _ => false
  end.

Definition gshape (t : item) : bool := gsh 0 t.

(* ---------------------------------------------------------------- the guard *)
Definition regen_ok (t : item) : bool := gshape t && scan_top (lexemes t) (print true t).

(* the components, for the findings: an AND operation with an OR / implicit operation as direct operand, or
   an OR operation with an implicit operation as direct operand (F10's shape) *)
Definition is_opk (k : opk) (t : item) : bool :=
  match t with Op k' _ _ => match k, k' with KAnd, KAnd | KOr, KOr | KUnknown, KUnknown | KBool, KBool => true
                                             | _, _ => false end
             | _ => false end.
Fixpoint lower_under_higher (t : item) : bool :=
  match t with
  | Term _ _ _ | NoneItem _ => false
  | SearchField _ _ e | Grp _ _ e | Boost _ e _ _ => lower_under_higher e
  | Fuzzy _ x _ _ | Proximity _ x _ _ => lower_under_higher x
  | Unary _ _ a | ORange _ _ a _ => lower_under_higher a
  | Range _ lo hi _ _ => lower_under_higher lo || lower_under_higher hi
  | Op k _ ops =>
      existsb (fun c => Nat.ltb (lvi c) (match k with KAnd => 2 | KOr => 1 | _ => 1 end)) ops ||
      existsb lower_under_higher ops
  end.
Fixpoint has_bool (t : item) : bool :=
  match t with
  | Term _ _ _ | NoneItem _ => false
  | SearchField _ _ e | Grp _ _ e | Boost _ e _ _ => has_bool e
  | Fuzzy _ x _ _ | Proximity _ x _ _ => has_bool x
  | Unary _ _ a | ORange _ _ a _ => has_bool a
  | Range _ lo hi _ _ => has_bool lo || has_bool hi
  | Op k _ ops => is_opk KBool t || existsb has_bool ops
  end.
