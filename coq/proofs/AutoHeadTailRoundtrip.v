(* AutoHeadTailRoundtrip.v — the C13 round trip, proved on an infinite family directly on the parser
   model: a flat AND (resp. OR) operation of any number >= 2 of plain words (non-empty, lowercase ASCII
   letters).  print (aht t) is computed symbolically, lexed symbolically (Lexer.v), and the LR driver
   (LR.v) is run on the generated tables with a loop invariant; the table entries used are closed facts
   checked by computation when the section is instantiated. *)
Require Import Base Decimal Tree GenTree GenVisitors GenParser Visitor Eq Traverse Print Lexer Actions LR Parser.
Require Import AutoHeadTail TreeInd TraverseProofs AutoHeadTailProofs.
From Coq Require Import Lia.

Definition W (s : str) : item := Term KWord meta0 s.

(* ---------------------------------------------------------------- plain words *)
Definition lowercase : list N :=
  [97;98;99;100;101;102;103;104;105;106;107;108;109;110;111;112;113;114;115;116;117;118;119;120;121;122]%N.
Definition plain_char (c : char) : bool := mem_N c lowercase.
Definition plain_word (w : str) : bool := negb (is_empty w) && forallb plain_char w.

(* a string the TERM rule reads whole when a blank or the end of input follows *)
Definition termish (w : str) : bool :=
  match w with c :: w' => term_first_char c && forallb term_follow_char w' | [] => false end.

Lemma plain_char_cases c : plain_char c = true -> In c lowercase.
Proof.
  unfold plain_char. induction lowercase as [|x l IH]; simpl; [discriminate|].
  intros H. apply orb_prop in H. destruct H as [H|H]; [left; apply N.eqb_eq in H; auto|right; auto].
Qed.

Lemma plain_char_term c : plain_char c = true -> term_first_char c = true /\ term_follow_char c = true.
Proof.
  intros H. apply plain_char_cases in H. simpl in H.
  repeat (destruct H as [H|H]; [subst c; vm_compute; auto|]). destruct H.
Qed.

Lemma plain_termish w : plain_word w = true -> termish w = true.
Proof.
  unfold plain_word. destruct w as [|c w]; [discriminate|]. simpl. intros H.
  apply andb_prop in H. destruct H as [Hc Hw]. rewrite (proj1 (plain_char_term c Hc)). simpl.
  induction w as [|d w IH]; simpl; [reflexivity|]. simpl in Hw. apply andb_prop in Hw. destruct Hw as [Hd Hw].
  rewrite (proj2 (plain_char_term d Hd)), (IH Hw). reflexivity.
Qed.

Lemma plain_not_reserved w : plain_word w = true -> find (fun p => str_eqb w (fst p)) gen_reserved = None.
Proof.
  unfold plain_word. destruct w as [|c w]; [discriminate|]. simpl. intros H.
  apply andb_prop in H. destruct H as [Hc _]. apply plain_char_cases in Hc. simpl in Hc.
  repeat (destruct Hc as [Hc|Hc]; [subst c; reflexivity|]). destruct Hc.
Qed.

(* ---------------------------------------------------------------- lexer: one TERM lexeme *)
Definition stops (rest : str) : Prop := rest = [] \/ exists r, rest = c_space :: r.

Lemma term_step_stops rp rest : stops rest -> term_step rp rest = None.
Proof. intros [->|[r ->]]; reflexivity. Qed.

Lemma term_loop_word : forall w fuel rp rest racc,
  forallb term_follow_char w = true -> length w <= fuel -> stops rest ->
  term_loop fuel rp (w ++ rest) racc = (rev racc ++ w, rest).
Proof.
  induction w as [|c w IH]; intros fuel rp rest racc Hw Hf Hs; simpl.
  - rewrite app_nil_r. destruct fuel; simpl; [reflexivity|]. rewrite (term_step_stops _ _ Hs). reflexivity.
  - simpl in Hw. apply andb_prop in Hw. destruct Hw as [Hc Hw].
    destruct fuel as [|fuel]; [simpl in Hf; lia|]. simpl. rewrite Hc.
    rewrite IH by (auto; simpl in Hf; lia). simpl. rewrite <- app_assoc. reflexivity.
Qed.

Lemma lex_term_word w rp rest :
  termish w = true -> stops rest -> lex_term rp (w ++ rest) = Some (w, rest).
Proof.
  destruct w as [|c w]; [discriminate|]. simpl. intros H Hs. apply andb_prop in H. destruct H as [Hc Hw].
  rewrite Hc. rewrite term_loop_word; auto. rewrite app_length. lia.
Qed.

Lemma termish_nonspace w rest : termish w = true -> exists c s, w ++ rest = c :: s /\ is_space c = false.
Proof.
  destruct w as [|c w]; [discriminate|]. simpl. intros H. apply andb_prop in H. destruct H as [Hc _].
  exists c, (w ++ rest). split; [reflexivity|]. unfold term_first_char in Hc. apply andb_prop in Hc.
  destruct Hc as [Hc _]. destruct (is_space c); [discriminate|reflexivity].
Qed.

(* a word or operator word in front of a blank / the end: one token of the type the reserved table says *)
Lemma lex_one_word w rp rest :
  termish w = true -> stops rest ->
  lex_one rp (w ++ rest) =
  Some (RTok (match find (fun p => str_eqb w (fst p)) gen_reserved with Some (_, t) => t | None => T_TERM end),
        w, rest).
Proof.
  intros Hw Hs. destruct (termish_nonspace w rest Hw) as [c [s [E Hc]]].
  unfold lex_one. rewrite E, Hc, <- E, (lex_term_word _ _ _ Hw Hs). reflexivity.
Qed.

(* one blank in front of a non-blank *)
Lemma lex_one_blank rp c s : is_space c = false ->
  lex_one rp (c_space :: c :: s) = Some (RSep, [c_space], c :: s).
Proof. intros Hc. unfold lex_one. change (is_space c_space) with true. cbv iota. simpl. rewrite Hc. reflexivity. Qed.

(* ---------------------------------------------------------------- the family, generic in the operator *)
Section Flat.
  Variable kk : opk.
  Variable optok : tok.
  Variable aname : action_name.
  (* LR states: after TERM, after unary_expression, after `expression`, after `expression OP`,
     after `expression OP expression`; production numbers of `unary : TERM`, `expression : unary`,
     `expression : expression OP expression` *)
  Variables s_t s_u s_e s_op s_e2 p_t p_u p_op : nat.

  Definition OP : str := op_str (cls_of_opk kk).
  Definition la_ok (la : tok) : Prop := la = optok \/ la = T_EOF.

  Hypothesis op_termish : termish OP = true.
  Hypothesis op_reserved : find (fun p => str_eqb OP (fst p)) gen_reserved = Some (OP, optok).
  Hypothesis optok_simple : forall t, tk_type t = optok ->
    token_value t = VTok (tk_lexeme t) (Some (tk_lexeme t))
                         (mkMeta (Some (Z.of_nat (tk_pos t))) (Some (zlen (tk_lexeme t))) (tk_head t) (tk_tail t) None).
  Hypothesis kk_self : opk_eqb kk kk = true.
  Hypothesis kk_attrs : gen_eq_attrs (cls_of_opk kk) = [].
  Hypothesis act_op : forall x o y, run_action aname [VItem x; VTok (fst (fst o)) (snd (fst o)) (snd o); VItem y]
                                    = binary kk x (Some (VTok (fst (fst o)) (snd (fst o)) (snd o))) y.
  (* table facts *)
  Hypothesis T_start : gen_action 0 T_TERM = Shift s_t.
  Hypothesis T_term : forall la, la_ok la -> gen_action s_t la = Reduce (S p_t).
  Hypothesis T_pt : nth_error gen_prods p_t = Some (N_unary_expression, [ST T_TERM], A_terms).
  Hypothesis T_u : forall la, la_ok la -> gen_action s_u la = Reduce (S p_u).
  Hypothesis T_pu : nth_error gen_prods p_u = Some (N_expression, [SN N_unary_expression], A_expression_unary).
  Hypothesis G_0u : gen_goto 0 N_unary_expression = Some s_u.
  Hypothesis G_0e : gen_goto 0 N_expression = Some s_e.
  Hypothesis T_e_op : gen_action s_e optok = Shift s_op.
  Hypothesis T_e_end : gen_action s_e T_EOF = Accept.
  Hypothesis T_op_term : gen_action s_op T_TERM = Shift s_t.
  Hypothesis G_opu : gen_goto s_op N_unary_expression = Some s_u.
  Hypothesis G_ope : gen_goto s_op N_expression = Some s_e2.
  Hypothesis T_e2 : forall la, la_ok la -> gen_action s_e2 la = Reduce (S p_op).
  Hypothesis T_pop : nth_error gen_prods p_op =
                     Some (N_expression, [SN N_expression; ST optok; SN N_expression], aname).

  (* ---- printing *)
  Fixpoint tail_str (ws : list str) : str :=
    match ws with [] => [] | w :: ws' => [c_space] ++ OP ++ [c_space] ++ w ++ tail_str ws' end.

  Lemma print_base_at n i w : 2 <= n -> i < n ->
    print true (base_at n i (W w)) =
    (if Nat.eqb i 0 then [] else [c_space]) ++ w ++ (if Nat.eqb i (n - 1) then [] else [c_space]).
  Proof.
    intros Hn Hi. unfold base_at.
    destruct (Nat.eqb_spec i 0) as [E0|E0]; destruct (Nat.eqb_spec i (n - 1)) as [E1|E1];
      destruct (Nat.leb_spec 1 i) as [E2|E2]; destruct (Nat.ltb_spec i (n - 1)) as [E3|E3];
      simpl; try lia; reflexivity.
  Qed.

  Lemma join_tail n : 2 <= n -> forall l i w, 1 <= i -> i + S (length l) = n ->
    join OP (map (print true) (mapi_from i (base_at n) (map W (w :: l)))) = [c_space] ++ w ++ tail_str l.
  Proof.
    intros Hn. induction l as [|w2 l IH]; intros i w Hi Hl.
    - simpl map. simpl mapi_from. simpl join. rewrite print_base_at by lia.
      destruct (Nat.eqb_spec i 0); [lia|]. destruct (Nat.eqb_spec i (n - 1)); [|simpl in Hl; lia]. reflexivity.
    - change (map W (w :: w2 :: l)) with (W w :: map W (w2 :: l)).
      change (mapi_from i (base_at n) (W w :: map W (w2 :: l)))
        with (base_at n i (W w) :: mapi_from (S i) (base_at n) (map W (w2 :: l))).
      change (map (print true) (base_at n i (W w) :: mapi_from (S i) (base_at n) (map W (w2 :: l))))
        with (print true (base_at n i (W w)) :: map (print true) (mapi_from (S i) (base_at n) (map W (w2 :: l)))).
      assert (J : forall x y r, join OP (x :: y :: r) = x ++ OP ++ join OP (y :: r)) by reflexivity.
      assert (E : exists y r, map (print true) (mapi_from (S i) (base_at n) (map W (w2 :: l))) = y :: r)
        by (simpl; eauto).
      destruct E as [y [r E]]. rewrite E, J, <- E, IH by (simpl in *; lia).
      rewrite print_base_at by (simpl in *; lia).
      destruct (Nat.eqb_spec i 0); [lia|]. destruct (Nat.eqb_spec i (n - 1)); [simpl in Hl; lia|].
      simpl. rewrite <- !app_assoc. reflexivity.
  Qed.

  Definition flat (ws : list str) : item := Op kk meta0 (map W ws).

  Hypothesis kk_base : op_h kk = HBase.

  Lemma map_daht_W ws : map daht (map W ws) = map W ws.
  Proof. induction ws as [|w ws IH]; simpl; [reflexivity|]. rewrite IH. reflexivity. Qed.

  Lemma daht_flat ws : daht (flat ws) = Op kk meta0 (fixl HBase (map W ws)).
  Proof.
    unfold flat.
    change (daht (Op kk meta0 (map W ws))) with (Op kk (clone_meta meta0) (fixl (op_h kk) (map daht (map W ws)))).
    rewrite kk_base, map_daht_W. reflexivity.
  Qed.

  Lemma print_op L : print true (Op kk meta0 L) = join OP (map (print true) L).
  Proof. simpl. unfold wrap. simpl. rewrite app_nil_r. reflexivity. Qed.

  Lemma print_flat w1 w2 l :
    print true (daht (flat (w1 :: w2 :: l))) = w1 ++ tail_str (w2 :: l).
  Proof.
    rewrite daht_flat, print_op. unfold fixl, mapi.
    set (n := length (map W (w1 :: w2 :: l))).
    assert (Hn : n = S (S (length l))) by (unfold n; simpl; rewrite map_length; reflexivity).
    change (map W (w1 :: w2 :: l)) with (W w1 :: map W (w2 :: l)).
    change (mapi_from 0 (fix_at HBase n) (W w1 :: map W (w2 :: l)))
      with (base_at n 0 (W w1) :: mapi_from 1 (base_at n) (map W (w2 :: l))).
    change (map (print true) (base_at n 0 (W w1) :: mapi_from 1 (base_at n) (map W (w2 :: l))))
      with (print true (base_at n 0 (W w1)) :: map (print true) (mapi_from 1 (base_at n) (map W (w2 :: l)))).
    assert (J : forall x y r, join OP (x :: y :: r) = x ++ OP ++ join OP (y :: r)) by reflexivity.
    assert (E : exists y r, map (print true) (mapi_from 1 (base_at n) (map W (w2 :: l))) = y :: r)
      by (simpl; eauto).
    destruct E as [y [r E]]. rewrite E, J, <- E, (join_tail n) by lia.
    rewrite print_base_at by lia. destruct (Nat.eqb_spec 0 (n - 1)); [lia|].
    simpl. rewrite <- !app_assoc. reflexivity.
  Qed.

  (* ---- lexing *)
  Inductive raws_shape : list rawtok -> list str -> Prop :=
  | rs_nil : raws_shape [] []
  | rs_cons p1 p2 p3 p4 w raws ws :
      0 < p1 -> 0 < p3 -> raws_shape raws ws ->
      raws_shape (mkRaw RSep [c_space] p1 :: mkRaw (RTok optok) OP p2 :: mkRaw RSep [c_space] p3
                  :: mkRaw (RTok T_TERM) w p4 :: raws) (w :: ws).

  Lemma stops_tail ws : stops (tail_str ws).
  Proof. destruct ws; [left; reflexivity|right; simpl; eauto]. Qed.

  Lemma op_nonspace rest : exists c s, OP ++ rest = c :: s /\ is_space c = false.
  Proof. apply termish_nonspace. exact op_termish. Qed.

  Lemma lex_raw_tail : forall ws fuel rp pos,
    forallb plain_word ws = true -> 0 < pos -> length (tail_str ws) <= fuel ->
    exists raws, lex_raw fuel rp pos (tail_str ws) = (raws, None) /\ raws_shape raws ws.
  Proof.
    induction ws as [|w ws IH]; intros fuel rp pos Hp Hpos Hf.
    - exists []. split; [|constructor]. destruct fuel; reflexivity.
    - simpl in Hp. apply andb_prop in Hp. destruct Hp as [Hw Hws].
      pose proof (plain_termish _ Hw) as Hwt.
      change (tail_str (w :: ws)) with ([c_space] ++ OP ++ [c_space] ++ w ++ tail_str ws) in *.
      rewrite !app_length in Hf. simpl in Hf.
      assert (HlO : 0 < length OP) by (pose proof op_termish as Ho; destruct OP; [discriminate|simpl; lia]).
      assert (Hlw : 0 < length w) by (destruct w; [discriminate|simpl; lia]).
      (* blank *)
      destruct fuel as [|f1]; [lia|].
      destruct (op_nonspace ([c_space] ++ w ++ tail_str ws)) as [c [s [E Hc]]].
      change ([c_space] ++ OP ++ [c_space] ++ w ++ tail_str ws)
        with (c_space :: (OP ++ [c_space] ++ w ++ tail_str ws)).
      unfold lex_raw; fold lex_raw. rewrite E, (lex_one_blank _ _ _ Hc), <- E.
      (* operator word *)
      destruct f1 as [|f2]; [lia|].
      assert (E2 : exists c2 s2, OP ++ [c_space] ++ w ++ tail_str ws = c2 :: s2) by (rewrite E; eauto).
      destruct E2 as [c2 [s2 E2]].
      unfold lex_raw; fold lex_raw. rewrite E2, <- E2.
      rewrite (lex_one_word OP _ _ op_termish) by (right; simpl; eauto). rewrite op_reserved.
      (* blank *)
      destruct f2 as [|f3]; [lia|].
      destruct (termish_nonspace w (tail_str ws) Hwt) as [c3 [s3 [E3 Hc3]]].
      change ([c_space] ++ w ++ tail_str ws) with (c_space :: (w ++ tail_str ws)).
      unfold lex_raw; fold lex_raw. rewrite E3, (lex_one_blank _ _ _ Hc3), <- E3.
      (* word *)
      destruct f3 as [|f4]; [lia|].
      unfold lex_raw; fold lex_raw. rewrite E3, <- E3.
      rewrite (lex_one_word w _ _ Hwt (stops_tail ws)), (plain_not_reserved _ Hw).
      match goal with |- context [lex_raw f4 ?rp' ?pos' (tail_str ws)] =>
        destruct (IH f4 rp' pos' Hws) as [raws [Hl Hs]]; [simpl; lia|lia|rewrite Hl] end.
      eexists. split; [reflexivity|]. constructor; auto; simpl; lia.
  Qed.

  (* tokens after the first: (OP word)* *)
  Inductive toks_match : list token -> list str -> Prop :=
  | tm_nil : toks_match [] []
  | tm_cons to tw toks w ws :
      tk_type to = optok -> tk_type tw = T_TERM -> tk_lexeme tw = w -> toks_match toks ws ->
      toks_match (to :: tw :: toks) (w :: ws).

  Lemma fold_tail : forall raws ws, raws_shape raws ws -> forall last racc,
    exists last' toks',
      head_tail_fold raws None (last :: racc) = rev racc ++ last' :: toks' /\
      tk_type last' = tk_type last /\ tk_lexeme last' = tk_lexeme last /\ toks_match toks' ws.
  Proof.
    induction 1 as [|p1 p2 p3 p4 w raws ws H1 H3 Hs IH]; intros last racc.
    - exists last, []. simpl. repeat split; constructor.
    - simpl. destruct (Nat.eqb_spec p1 0); [lia|]. destruct (Nat.eqb_spec p3 0); [lia|].
      match goal with |- context [head_tail_fold raws None (?a :: ?b :: ?c :: racc)] =>
        destruct (IH a (b :: c :: racc)) as [lw [toks' [E [Ht [Hl Hm]]]]] end.
      rewrite E. simpl. rewrite <- !app_assoc. simpl.
      eexists _, _. split; [reflexivity|]. repeat split. econstructor; eauto.
  Qed.

  Lemma lex_flat w1 w2 l :
    forallb plain_word (w1 :: w2 :: l) = true ->
    exists t1 toks, lex (w1 ++ tail_str (w2 :: l)) = (t1 :: toks, None) /\
                    tk_type t1 = T_TERM /\ tk_lexeme t1 = w1 /\ toks_match toks (w2 :: l).
  Proof.
    intros Hp. change (forallb plain_word (w1 :: w2 :: l)) with (plain_word w1 && forallb plain_word (w2 :: l)) in Hp.
    apply andb_prop in Hp. destruct Hp as [Hw Hws]. pose proof (plain_termish _ Hw) as Hwt.
    unfold lex. destruct (termish_nonspace w1 (tail_str (w2 :: l)) Hwt) as [c [s [E Hc]]].
    unfold lex_raw; fold lex_raw. rewrite E, <- E.
    rewrite (lex_one_word w1 _ _ Hwt (stops_tail _)), (plain_not_reserved _ Hw).
    assert (Hpos : 0 < 0 + length w1) by (destruct w1; [discriminate|simpl; lia]).
    match goal with |- context [lex_raw ?f ?rp' ?pos' (tail_str (w2 :: l))] =>
      destruct (lex_raw_tail (w2 :: l) f rp' pos' Hws Hpos) as [raws [Hl Hs]];
        [rewrite app_length; lia|rewrite Hl] end.
    simpl head_tail_fold.
    destruct (fold_tail _ _ Hs (mkTok T_TERM w1 0 [] []) []) as [t1 [toks [Ef [Ht [Hlx Hm]]]]].
    rewrite Ef. simpl. exists t1, toks. auto.
  Qed.

  (* ---- the LR run *)
  Definition la_type (toks : list token) : tok :=
    match hd_error toks with Some t => tk_type t | None => T_EOF end.

  Lemma run_S tb f c : run tb None (S f) c =
    match step tb None c with Final r evs => Done r (c_dropped c ++ evs) | Next c' => run tb None f c' end.
  Proof. reflexivity. Qed.

  Lemma step_shift st sts vals t rest d n :
    gen_action st (tk_type t) = Shift n ->
    step gen_tables None (mkCfg (st :: sts) vals (t :: rest) d) =
    Next (mkCfg (n :: st :: sts) (token_value t :: vals) rest d).
  Proof. intros H. unfold step. simpl. rewrite H. reflexivity. Qed.

  Lemma step_reduce states vals toks d p lhs rhs a v evs g :
    gen_action (hd 0 states) (la_type toks) = Reduce (S p) ->
    nth_error gen_prods p = Some (lhs, rhs, a) ->
    length rhs <= length vals ->
    run_action a (rev (firstn (length rhs) vals)) = Ok (v, evs) ->
    gen_goto (hd 0 (skipn (length rhs) states)) lhs = Some g ->
    step gen_tables None (mkCfg states vals toks d) =
    Next (mkCfg (g :: skipn (length rhs) states) (v :: skipn (length rhs) vals) toks (d ++ evs)).
  Proof.
    intros Ha Hp Hl Hr Hg. unfold step, la_type in *. simpl.
    assert (E : tb_action gen_tables (hd 0 states)
                  match hd_error toks with Some t => tk_type t | None => T_EOF end = Reduce (S p)) by exact Ha.
    destruct toks as [|t rest]; simpl in *; rewrite E; simpl; rewrite Hp;
      (destruct (Nat.ltb_spec (length vals) (length rhs)); [lia|]); rewrite Hr, Hg; reflexivity.
  Qed.

  Definition is_word (o : item) (w : str) : Prop := exists m, o = Term KWord m w.

  (* the value on the stack after k words *)
  Definition acc_ok (a : item) (ws : list str) : Prop :=
    (exists w, ws = [w] /\ is_word a w) \/
    (2 <= length ws /\ exists m ops, a = Op kk m ops /\ Forall2 is_word ops ws).

  Lemma la_of_match toks ws : toks_match toks ws -> la_ok (la_type toks).
  Proof. intros H. destruct H; [right; reflexivity|left; assumption]. Qed.

  Lemma binary_acc a ws opv m w :
    acc_ok a ws -> exists a' evs, binary kk a (Some opv) (Term KWord m w) = Ok (VItem a', evs) /\ acc_ok a' (ws ++ [w]).
  Proof.
    intros [[w0 [-> [m0 ->]]]|[Hlen [m0 [ops [-> HF]]]]]; unfold binary; simpl; rewrite ?kk_self; simpl.
    - eexists _, _. split; [reflexivity|]. right. split; [simpl; lia|].
      eexists _, _. split; [reflexivity|]. repeat constructor; eexists; reflexivity.
    - eexists _, _. split; [reflexivity|]. right. split; [rewrite app_length; simpl; lia|].
      eexists _, _. split; [reflexivity|]. apply Forall2_app; [exact HF|]. repeat constructor. eexists; reflexivity.
  Qed.

  Lemma run_loop : forall toks ws, toks_match toks ws -> forall a done fuel d,
    acc_ok a done -> 5 * length ws + 1 <= fuel ->
    exists a' evs, run gen_tables None fuel (mkCfg [s_e; 0] [VItem a] toks d) = Done (Ok a') evs /\
                   acc_ok a' (done ++ ws).
  Proof.
    induction 1 as [|to tw toks w ws Hto Htw Hlw Hm IH]; intros a done fuel d Ha Hf.
    - destruct fuel as [|f]; [simpl in Hf; lia|]. rewrite run_S. unfold step. simpl.
      change (tb_action gen_tables s_e T_EOF) with (gen_action s_e T_EOF). rewrite T_e_end.
      eexists _, _. split; [reflexivity|]. rewrite app_nil_r. exact Ha.
    - simpl in Hf. do 5 (destruct fuel as [|fuel]; [lia|]).
      pose proof (la_of_match _ _ Hm) as Hla.
      (* shift OP *)
      rewrite run_S, (step_shift _ _ _ _ _ _ s_op) by (rewrite Hto; exact T_e_op).
      (* shift the word *)
      rewrite run_S, (step_shift _ _ _ _ _ _ s_t) by (rewrite Htw; exact T_op_term).
      (* unary_expression : TERM *)
      rewrite run_S.
      rewrite (step_reduce _ _ _ _ p_t N_unary_expression [ST T_TERM] A_terms (token_value tw) [] s_u);
        [|simpl; apply T_term; exact Hla|exact T_pt|simpl; lia|reflexivity|exact G_opu].
      (* expression : unary_expression *)
      rewrite run_S.
      rewrite (step_reduce _ _ _ _ p_u N_expression [SN N_unary_expression] A_expression_unary (token_value tw) [] s_e2);
        [|simpl; apply T_u; exact Hla|exact T_pu|simpl; lia|reflexivity|exact G_ope].
      (* expression : expression OP expression *)
      assert (Ew : exists m, token_value tw = VItem (Term KWord m w)).
      { unfold token_value. rewrite Htw, Hlw. eexists. reflexivity. }
      destruct Ew as [mw Ew]. rewrite Ew, (optok_simple _ Hto).
      match goal with |- context [VTok ?l ?v ?m] => set (opv := VTok l v m) end.
      destruct (binary_acc a done opv mw w Ha) as [a' [evs [Hb Ha']]].
      rewrite run_S.
      rewrite (step_reduce _ _ _ _ p_op N_expression [SN N_expression; ST optok; SN N_expression] aname (VItem a') evs s_e);
        [|simpl; apply T_e2; exact Hla|exact T_pop|simpl; lia| |exact G_0e].
      + simpl skipn.
        destruct (IH a' (done ++ [w]) fuel (((d ++ []) ++ []) ++ evs) Ha') as [a'' [evs' [Hr Hacc]]]; [lia|].
        rewrite Hr. eexists _, _. split; [reflexivity|].
        rewrite <- app_assoc in Hacc. exact Hacc.
      + simpl. unfold opv. rewrite <- Hb.
        exact (act_op a (tk_lexeme to, Some (tk_lexeme to), _) (Term KWord mw w)).
  Qed.

  Lemma Forall2_len {A B} (R : A -> B -> Prop) l l' : Forall2 R l l' -> length l = length l'.
  Proof. induction 1; simpl; congruence. Qed.

  Lemma acc_eq a ws : 2 <= length ws -> acc_ok a ws -> item_eqb a (flat ws) = true.
  Proof.
    intros Hl [[w [-> _]]|[_ [m [ops [-> HF]]]]]; [simpl in Hl; lia|].
    unfold flat. rewrite item_eqb_unfold_op, cls_eqb_refl.
    rewrite (Forall2_len _ _ _ HF), map_length, Nat.eqb_refl. unfold attrs_eqb. simpl cls_of. rewrite kk_attrs. simpl.
    clear Hl. induction HF as [|o w ops ws [mo ->] _ IH]; simpl; [reflexivity|].
    unfold attrs_eqb. simpl. rewrite str_eqb_refl. simpl. apply IH.
  Qed.

  Theorem flat_roundtrip w1 w2 l :
    forallb plain_word (w1 :: w2 :: l) = true ->
    exists t' b, aht (flat (w1 :: w2 :: l)) = Some t' /\ parse (print true t') = Some (Ok b) /\
                 item_eqb b (flat (w1 :: w2 :: l)) = true.
  Proof.
    intros Hp. exists (daht (flat (w1 :: w2 :: l))).
    assert (Hd : aht_defined (flat (w1 :: w2 :: l)) = true).
    { unfold aht_defined, flat. rewrite every_node_unfold.
      apply andb_true_intro. split.
      - change (map W (w1 :: w2 :: l)) with (W w1 :: map W (w2 :: l)). destruct kk; reflexivity.
      - change (children (Op kk meta0 (map W (w1 :: w2 :: l)))) with (map W (w1 :: w2 :: l)).
        apply forallb_forall. intros x Hx. apply in_map_iff in Hx. destruct Hx as [w [<- _]]. reflexivity. }
    rewrite aht_daht, Hd, print_flat.
    destruct (lex_flat w1 w2 l Hp) as [t1 [toks [Hlex [Ht1 [Hl1 Hm]]]]].
    unfold parse, parse_full, parse_with. rewrite Hlex.
    set (fuel := parse_fuel (t1 :: toks)).
    assert (Hfuel : 5 * length (w2 :: l) + 4 <= fuel).
    { unfold fuel, parse_fuel. assert (length toks = 2 * length (w2 :: l)) by (clear -Hm; induction Hm; simpl in *; lia).
      simpl length in *. lia. }
    unfold init_config.
    do 3 (destruct fuel as [|fuel]; [simpl in Hfuel; lia|]).
    pose proof (la_of_match _ _ Hm) as Hla.
    rewrite run_S, (step_shift _ _ _ _ _ _ s_t) by (rewrite Ht1; exact T_start).
    rewrite run_S.
    rewrite (step_reduce _ _ _ _ p_t N_unary_expression [ST T_TERM] A_terms (token_value t1) [] s_u);
      [|simpl; apply T_term; exact Hla|exact T_pt|simpl; lia|reflexivity|exact G_0u].
    rewrite run_S.
    rewrite (step_reduce _ _ _ _ p_u N_expression [SN N_unary_expression] A_expression_unary (token_value t1) [] s_e);
      [|simpl; apply T_u; exact Hla|exact T_pu|simpl; lia|reflexivity|exact G_0e].
    assert (Ew : exists m, token_value t1 = VItem (Term KWord m w1)).
    { unfold token_value. rewrite Ht1, Hl1. eexists. reflexivity. }
    destruct Ew as [m1 Ew]. rewrite Ew. simpl skipn.
    destruct (run_loop toks (w2 :: l) Hm (Term KWord m1 w1) [w1] fuel (([] ++ []) ++ []))
      as [b [evs [Hr Hacc]]]; [left; eexists; split; [reflexivity|eexists; reflexivity]|simpl in *; lia|].
    rewrite Hr. exists b. split; [reflexivity|]. split; [reflexivity|].
    apply acc_eq; [simpl; lia|exact Hacc].
  Qed.
End Flat.

(* ---------------------------------------------------------------- the two instances; every premise is a
   closed fact about the generated tables / operator strings / reserved words, checked by computation *)
Ltac flat_facts :=
  match goal with
  | |- forall la, la_ok _ la -> _ => intros la [->| ->]; vm_compute; reflexivity
  | |- forall t, tk_type t = _ -> _ => intros t H; unfold token_value; rewrite H; reflexivity
  | |- forall (x : item) (o : _) (y : item), _ => intros x [[lx vx] mx] y; reflexivity
  | |- _ = _ => vm_compute; reflexivity
  end.

Theorem and_roundtrip w1 w2 l :
  forallb plain_word (w1 :: w2 :: l) = true ->
  exists t' b, aht (flat KAnd (w1 :: w2 :: l)) = Some t' /\ parse (print true t') = Some (Ok b) /\
               item_eqb b (flat KAnd (w1 :: w2 :: l)) = true.
Proof. apply (flat_roundtrip KAnd T_AND_OP A_expression_and 11 2 1 16 35 19 6 1); flat_facts. Qed.

Theorem or_roundtrip w1 w2 l :
  forallb plain_word (w1 :: w2 :: l) = true ->
  exists t' b, aht (flat KOr (w1 :: w2 :: l)) = Some t' /\ parse (print true t') = Some (Ok b) /\
               item_eqb b (flat KOr (w1 :: w2 :: l)) = true.
Proof. apply (flat_roundtrip KOr T_OR_OP A_expression_or 11 2 1 15 34 19 6 0); flat_facts. Qed.
