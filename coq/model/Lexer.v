(* Lexer.v — model of luqum's PLY lexer (luqum/parser.py token rules) and of HeadTailLexer
   (luqum/head_tail.py).  Executable definitions only.

   PLY tries one master regex `(?P<t_SEPARATOR>\s+)|(?P<t_TERM>...)|...` at the current position
   (re.VERBOSE, ordered alternation, rules in definition order); no match = t_error, which raises
   IllegalCharacterError carrying the REST of the input.  Every rule is "first-character test, then
   a greedy loop whose alternatives are disjoint on their first character, then an optional
   closing delimiter", so matching is a deterministic left-to-right scan.  The translator
   (gen/gen_parser.py) checks that the rules, their order and their regex sources are the ones
   modelled here, and generates the \s and \d code-point classes. *)
Require Import Base GenChars GenParser.

Fixpoint in_ranges (c : N) (l : list (N * N)) : bool :=
  match l with
  | [] => false
  | (a, b) :: l' => ((a <=? c)%N && (c <=? b)%N) || in_ranges c l'
  end.
Definition is_space (c : char) : bool := in_ranges c gen_cc_space.
Definition is_udigit (c : char) : bool := in_ranges c gen_cc_digit.     (* \d, Unicode *)
Definition is_word_char (c : char) : bool := in_ranges c gen_cc_word.   (* \w, Unicode *)
Definition is_numchar (c : char) : bool := ((48 <=? c)%N && (c <=? 57)%N) || N.eqb c c_dot.  (* [0-9.] *)

Definition c_squote : char := 39%N.
Definition c_T : char := 84%N.

(* first character of a TERM: anything but whitespace and : ^ ~ ( ) { } [ ] / dquote squote + - backslash < > *)
Definition term_first_char (c : char) : bool :=
  negb (is_space c) &&
  negb (mem_N c [c_colon; c_caret; c_tilde; c_lparen; c_rparen; c_lbrace; c_rbrace; c_lbrack; c_rbrack;
                 c_slash; c_quote; c_squote; c_plus; c_minus; c_bslash; c_lt; c_gt]).
(* following characters: anything but whitespace and : ^ backslash ~ ( ) { } [ ] *)
Definition term_follow_char (c : char) : bool :=
  negb (is_space c) &&
  negb (mem_N c [c_colon; c_caret; c_bslash; c_tilde; c_lparen; c_rparen; c_lbrace; c_rbrace;
                 c_lbrack; c_rbrack]).

(* one iteration of the TERM loop at `s`, `rp` = the input before `s`, reversed (for the
   look-behind of TIME_RE).  Returns (consumed, rest). *)
Definition term_step (rp s : str) : option (str * str) :=
  match s with
  | [] => None
  | c :: s' =>
      if term_follow_char c then Some ([c], s')
      else if N.eqb c c_bslash then
        match s' with
        | d :: s'' => if N.eqb d c_nl then None else Some ([c; d], s'')    (* \\. : dot excludes \n *)
        | [] => None
        end
      else if N.eqb c c_colon then
        match rp with
        | d2 :: d1 :: t :: _ =>
            if is_udigit d2 && is_udigit d1 && N.eqb t c_T then
              match s' with
              | m1 :: m2 :: s2 =>
                  if is_udigit m1 && is_udigit m2 then
                    match s2 with
                    | c2 :: x1 :: x2 :: s3 =>
                        if N.eqb c2 c_colon && is_udigit x1 && is_udigit x2
                        then Some ([c; m1; m2; c2; x1; x2], s3) else Some ([c; m1; m2], s2)
                    | _ => Some ([c; m1; m2], s2)
                    end
                  else None
              | _ => None
              end
            else None
        | _ => None
        end
      else None
  end.

Fixpoint term_loop (fuel : nat) (rp s : str) (racc : str) : str * str :=
  match fuel with
  | O => (rev racc, s)
  | S f =>
      match term_step rp s with
      | None => (rev racc, s)
      | Some (cs, s') => term_loop f (rev cs ++ rp) s' (rev cs ++ racc)
      end
  end.

(* TERM at `s`: (lexeme, rest) *)
Definition lex_term (rp s : str) : option (str * str) :=
  match s with
  | [] => None
  | c :: s' =>
      if term_first_char c then Some (term_loop (length s') (c :: rp) s' [c])
      else if N.eqb c c_bslash then
        match s' with
        | d :: s'' => if N.eqb d c_nl then None
                      else Some (term_loop (length s'') (d :: c :: rp) s'' [d; c])
        | [] => None
        end
      else None
  end.

(* body of PHRASE / REGEX after the opening delimiter: ([^\\D]|\\.)* D *)
Fixpoint delim_loop (fuel : nat) (d : char) (s : str) (racc : str) : option (str * str) :=
  match fuel with
  | O => None
  | S f =>
      match s with
      | [] => None
      | c :: s' =>
          if N.eqb c d then Some (rev (c :: racc), s')
          else if N.eqb c c_bslash then
            match s' with
            | e :: s'' => if N.eqb e c_nl then None else delim_loop f d s'' (e :: c :: racc)
            | [] => None
            end
          else delim_loop f d s' (c :: racc)
      end
  end.

Definition lex_delimited (d : char) (s : str) : option (str * str) :=
  match s with
  | c :: s' => if N.eqb c d then delim_loop (S (length s')) d s' [c] else None
  | [] => None
  end.

Fixpoint span_while (p : char -> bool) (s : str) (racc : str) : str * str :=
  match s with
  | c :: s' => if p c then span_while p s' (c :: racc) else (rev racc, s)
  | [] => (rev racc, s)
  end.

Inductive rawkind := RSep | RTok (t : tok).

(* one token at `s` (non-empty): (kind, lexeme, rest); None = no rule matches (t_error) *)
Definition lex_one (rp s : str) : option (rawkind * str * str) :=
  match s with
  | [] => None
  | c :: s' =>
      if is_space c then let '(l, r) := span_while is_space s [] in Some (RSep, l, r)
      else match lex_term rp s with
      | Some (l, r) =>
          let ty := match find (fun p => str_eqb l (fst p)) gen_reserved with
                    | Some (_, t) => t | None => T_TERM end in
          Some (RTok ty, l, r)
      | None =>
      if N.eqb c c_plus then Some (RTok T_PLUS, [c], s')
      else if N.eqb c c_minus then Some (RTok T_MINUS, [c], s')
      else if N.eqb c c_colon then Some (RTok T_COLUMN, [c], s')
      else if N.eqb c c_lparen then Some (RTok T_LPAREN, [c], s')
      else if N.eqb c c_rparen then Some (RTok T_RPAREN, [c], s')
      else if N.eqb c c_lbrack || N.eqb c c_lbrace then Some (RTok T_LBRACKET, [c], s')
      else if N.eqb c c_rbrack || N.eqb c c_rbrace then Some (RTok T_RBRACKET, [c], s')
      else if N.eqb c c_gt then
        match s' with e :: s'' => if N.eqb e c_eq then Some (RTok T_GREATERTHAN, [c; e], s'')
                                  else Some (RTok T_GREATERTHAN, [c], s')
                    | [] => Some (RTok T_GREATERTHAN, [c], s') end
      else if N.eqb c c_lt then
        match s' with e :: s'' => if N.eqb e c_eq then Some (RTok T_LESSTHAN, [c; e], s'')
                                  else Some (RTok T_LESSTHAN, [c], s')
                    | [] => Some (RTok T_LESSTHAN, [c], s') end
      else if N.eqb c c_quote then
        match lex_delimited c_quote s with Some (l, r) => Some (RTok T_PHRASE, l, r) | None => None end
      else if N.eqb c c_slash then
        match lex_delimited c_slash s with Some (l, r) => Some (RTok T_REGEX, l, r) | None => None end
      else if N.eqb c c_tilde then
        let '(l, r) := span_while is_numchar s' [] in Some (RTok T_APPROX, c :: l, r)
      else if N.eqb c c_caret then
        let '(l, r) := span_while is_numchar s' [] in Some (RTok T_BOOST, c :: l, r)
      else None
      end
  end.

Record rawtok := mkRaw { rk_kind : rawkind; rk_lexeme : str; rk_pos : nat }.

(* the whole input as raw tokens, cut at the first position where no rule matches:
   (tokens, Some (position, rest of input)) on a lexical error *)
Fixpoint lex_raw (fuel : nat) (rp : str) (pos : nat) (s : str) : list rawtok * option (nat * str) :=
  match fuel with
  | O => ([], None)
  | S f =>
      match s with
      | [] => ([], None)
      | _ =>
          match lex_one rp s with
          | None => ([], Some (pos, s))
          | Some (k, l, r) =>
              let '(ts, e) := lex_raw f (rev l ++ rp) (pos + length l) r in
              (mkRaw k l pos :: ts, e)
          end
      end
  end.

(* a token as the parser sees it, after HeadTailLexer: separators are gone, the one at offset 0 became
   the head of the first token, every other one was appended to the tail of the token before it *)
Record token := mkTok { tk_type : tok; tk_lexeme : str; tk_pos : nat; tk_head : str; tk_tail : str }.

Definition add_tail (t : token) (s : str) : token :=
  mkTok (tk_type t) (tk_lexeme t) (tk_pos t) (tk_head t) (tk_tail t ++ s).

(* HeadTailLexer.handle_token folded over the raw tokens; acc is reversed *)
Fixpoint head_tail_fold (raws : list rawtok) (pending : option str) (racc : list token) : list token :=
  match raws with
  | [] => rev racc
  | r :: raws' =>
      match rk_kind r with
      | RSep =>
          if Nat.eqb (rk_pos r) 0 then head_tail_fold raws' (Some (rk_lexeme r)) racc
          else match racc with
               | last :: racc' => head_tail_fold raws' pending (add_tail last (rk_lexeme r) :: racc')
               | [] => head_tail_fold raws' pending racc          (* last_elt is None: dropped *)
               end
      | RTok t =>
          let h := match pending with Some h => h | None => [] end in
          head_tail_fold raws' None (mkTok t (rk_lexeme r) (rk_pos r) h [] :: racc)
      end
  end.

Definition lex (s : str) : list token * option (nat * str) :=
  let '(raws, e) := lex_raw (S (length s)) [] 0 s in
  (head_tail_fold raws None [], e).

(* text of a token list: what the tokens cover in the input *)
Definition tok_text (t : token) : str := tk_head t ++ tk_lexeme t ++ tk_tail t.
Definition render (ts : list token) : str := concat (map tok_text ts).
