"""C12 — OpenRangeTransformer: From/To become ranges, merging inside AND preserves the conjunction.

Correspondence: the full output tree of OpenRangeTransformer(merge_ranges, add_head)(tree) against
coq/model/OpenRange.v `open_range` (TreeEq.item_beq), on operand lists over a small alphabet placed in
And / Or / Unknown / Bool operations, nested, x merge on/off x add_head.
Oracle (independent of the model): no From/To left; input not modified; truth of the whole tree under
numeric valuations unchanged by the conversion and by the merge; non-And nodes keep their children one to
one and And nodes keep their non-range operands and the multiset of range bounds."""
import copy
import itertools

import lib
import gentree

ADD_HEADS = [" ", "", "\n"]
CORE = ["lo", "hi", "cl", "nr"]
# "ls": a CLOSED range one of whose bounds only looks like the wildcard (literal star `\\*`, `"*"`, `**`, ...)
CORE5 = CORE + ["ls"]
FULL = ["lo", "hi", "cl", "ww", "nr", "br", "fr", "ft", "ls"]
# bounds that look like the wildcard `*` without being Word("*"); the first one is the literal star
LOOKALIKE_WORDS = ["\\*", "*\\ ", "\\\\*", "?", "a*", "*a", "**", "\\?", "*?", " *", "* "]
LOOKALIKE_PHRASES = ['"*"', '"\\*"', '"**"']
# pairs equal up to escaping
ESCAPED_PAIRS = [("a", "\\a"), ("\\*", "\\*"), ("1", "\\1"), ("\\a", "\\a"), ("*", "\\*"), ("\\*", "*")]


class Build:
    def __init__(self, r, T):
        self.r, self.T = r, T
        self.g = gentree.Gen(r, T, layout=0.3, odd=0.1)
        self.n = 0

    def num(self):
        return self.T.Word(str(self.r.randrange(0, 10)))

    def star(self):
        w = self.T.Word("*")
        if self.r.random() < 0.2:
            w.head, w.tail = self.r.choice(gentree.SPACES), self.r.choice(gentree.SPACES)
        return w

    def lookalike(self):
        """a bound that is NOT the wildcard but resembles it"""
        T, r = self.T, self.r
        x = r.random()
        if x < 0.5:
            b = T.Word("\\*")
        elif x < 0.85:
            b = T.Word(r.choice(LOOKALIKE_WORDS))
        else:
            b = T.Phrase(r.choice(LOOKALIKE_PHRASES))
        if r.random() < 0.15:
            b.head, b.tail = r.choice(gentree.SPACES), r.choice(gentree.SPACES)
        return b

    def lay(self, node, p=0.3):
        r = self.r
        if r.random() < p:
            node.head = r.choice(gentree.SPACES)
        if r.random() < p:
            node.tail = r.choice(gentree.SPACES)
        if r.random() < 0.15:
            node.pos, node.size = r.randrange(50), r.randrange(20)
        if r.random() < 0.1:
            setattr(node, "_luqum_name", "n%d" % r.randrange(5))
        return node

    def one_sided(self, which=None):
        T, r = self.T, self.r
        which = which or r.choice(["lo", "hi"])
        il, ih = r.random() < 0.5, r.random() < 0.5
        if which == "lo":
            return self.lay(T.Range(self.num(), self.star(), il, ih))
        return self.lay(T.Range(self.star(), self.num(), il, ih))

    def operand(self, kind, depth=0):
        T, r = self.T, self.r
        if kind in ("lo", "hi"):
            return self.one_sided(kind)
        if kind == "cl":
            return self.lay(T.Range(self.num(), self.num(), r.random() < 0.5, r.random() < 0.5))
        if kind == "ww":
            return self.lay(T.Range(self.star(), self.star(), r.random() < 0.5, r.random() < 0.5))
        if kind == "ls":
            il, ih = r.random() < 0.5, r.random() < 0.5
            x = r.random()
            if x < 0.45:
                return self.lay(T.Range(self.num(), self.lookalike(), il, ih))
            if x < 0.9:
                return self.lay(T.Range(self.lookalike(), self.num(), il, ih))
            if x < 0.95:
                return self.lay(T.Range(self.lookalike(), self.lookalike(), il, ih))
            a, b = r.choice(ESCAPED_PAIRS)     # both sides equal up to escaping (one may be the real *)
            return self.lay(T.Range(T.Word(a), T.Word(b), il, ih))
        if kind == "nr":
            self.n += 1
            return self.lay(T.Word("w%d" % (self.n % 3)))
        if kind == "br":
            return self.lay(T.Boost(self.one_sided(), r.choice([None, 2, "1.5"])))
        if kind == "fr":
            return self.lay(T.SearchField(r.choice(["f", "g"]), self.one_sided()))
        if kind == "ft":
            k = r.choice([T.From, T.To])
            return self.lay(k(self.num(), r.random() < 0.5))
        if kind == "odd":
            x = r.randrange(12)
            if x == 0:
                return self.lay(T.Group(self.one_sided()))
            if x == 1:   # a quoted star is not the wildcard
                return self.lay(T.Range(T.Phrase('"*"'), self.num()))
            if x == 2:
                return self.lay(T.Range(self.num(), T.Phrase('"*"')))
            if x == 3 and depth < 2:
                return self.lay(T.AndOperation(*self.operands(r.randrange(0, 4), FULL, depth + 1)))
            if x == 4 and depth < 2:   # comparison of a comparison / of an operation
                inner = r.choice([T.From, T.To])(self.num(), r.random() < 0.5)
                return self.lay(r.choice([T.From, T.To])(self.lay(inner), r.random() < 0.5))
            if x == 5 and depth < 2:
                return self.lay(T.From(T.AndOperation(*self.operands(2, CORE, depth + 1)), True))
            if x == 6:
                return self.lay(T.Not(self.one_sided()))
            if x == 7:
                return self.lay(r.choice([T.Word("*"), self.lookalike(), T.From(self.lookalike()),
                                          T.To(self.lookalike(), False)]))
            if x == 8:   # a range whose bound is a range / comparison
                return self.lay(T.Range(self.one_sided(), self.star()))
            if x == 9:
                return self.lay(T.Range(T.To(self.num()), self.star()))
            if x == 10:
                return self.lay(T.Fuzzy(T.Word("fz"), r.choice([None, "0.5", 2])))
            return self.g.tree(r.randrange(0, 3))
        raise AssertionError(kind)

    def operands(self, n, alphabet, depth=0):
        return [self.operand(self.r.choice(alphabet), depth) for _ in range(n)]

    def wrap(self, op):
        """put an operation somewhere inside a bigger tree"""
        T, r = self.T, self.r
        x = r.randrange(8)
        if x == 0:
            return self.lay(T.SearchField("f", self.lay(T.FieldGroup(op))))
        if x == 1:
            return self.lay(T.Boost(self.lay(T.Group(op)), 2))
        if x == 2:
            other = T.AndOperation(*self.operands(r.randrange(1, 4), FULL, 1))
            return self.lay(T.OrOperation(op, self.lay(other)))
        if x == 3:
            return self.lay(T.AndOperation(self.one_sided(), op, self.one_sided()))
        if x == 4:
            return self.lay(T.Not(op))
        return op


# ---------------------------------------------------------------- oracle

def bound_value(T, b):
    """('*',) unbounded | number"""
    if type(b) is T.Word and b.value == "*":
        return None
    if isinstance(b, T.Term):
        try:
            return float(b.value)
        except ValueError:
            pass
    return float(leaf_hash(T, b) % 11)


def leaf_hash(T, n):
    """a number that depends only on the multiset of non-wildcard terms below n: it is not changed by the
    conversion of comparisons or by a merge happening inside n (a merge can reorder two bounds)"""
    h = 0
    for _, c in gentree.all_nodes(n):
        if isinstance(c, T.Term) and c.value != "*":
            h = (h + 31 * sum(map(ord, c.value)) + len(c.value)) % 1000003
    return h


def evaluate(T, n, env, unknown_is_and):
    """truth of the tree for the field values env (dict field -> number, '' = default field);
    opaque atoms get a truth value from their description"""
    x = env["cur"]
    rec = lambda c: evaluate(T, c, env, unknown_is_and)  # noqa
    if isinstance(n, T.Range):
        lo, hi = bound_value(T, n.low), bound_value(T, n.high)
        ok = True
        if lo is not None:
            ok = ok and (lo <= x if n.include_low else lo < x)
        if hi is not None:
            ok = ok and (x <= hi if n.include_high else x < hi)
        return ok
    if isinstance(n, T.From):
        v = bound_value(T, n.a)
        return True if v is None else (v <= x if n.include else v < x)
    if isinstance(n, T.To):
        v = bound_value(T, n.a)
        return True if v is None else (x <= v if n.include else x < v)
    if isinstance(n, T.AndOperation):
        return all(rec(c) for c in n.children)
    if isinstance(n, T.OrOperation):
        return any(rec(c) for c in n.children)
    if isinstance(n, (T.UnknownOperation, T.BoolOperation)):
        return all(rec(c) for c in n.children) if unknown_is_and else any(rec(c) for c in n.children)
    if isinstance(n, T.SearchField):
        return evaluate(T, n.expr, dict(env, cur=env["fields"].get(n.name, x + 3)), unknown_is_and)
    if isinstance(n, (T.BaseGroup, T.Boost, T.Plus)):
        return rec(n.children[0])
    if isinstance(n, (T.Not, T.Prohibit)):
        return not rec(n.children[0])
    return (leaf_hash(T, n) + env["salt"]) % 2 == 0


def bounds_multiset(T, ops):
    out = []
    for c in ops:
        if type(c) is T.Range:
            for b, inc in ((c.low, c.include_low), (c.high, c.include_high)):
                if not (type(b) is T.Word and b.value == "*"):
                    # a bound may itself contain an AND that merges: identify it by its terms
                    out.append((type(b).__name__, leaf_hash(T, b), inc, b is c.low))
    return sorted(out)


def same_shape(T, off, on):
    """merge-on output against merge-off output: identical except that And nodes may have merged
    some of their direct Range operands; returns None or a reason"""
    if type(off) is not type(on):
        return "node class differs between merge on and off"
    if isinstance(off, T.AndOperation):
        a = [c for c in off.children if type(c) is not T.Range]
        b = [c for c in on.children if type(c) is not T.Range]
        if len(a) != len(b):
            return "an AND node lost or gained a non-range operand"
        for c, d in zip(a, b):
            why = same_shape(T, c, d)
            if why:
                return why
        if bounds_multiset(T, off.children) != bounds_multiset(T, on.children):
            return "an AND node does not keep the bounds (with inclusiveness and side) of its range operands"
        return None
    if len(off.children) != len(on.children):
        return "a non-AND node has another number of children with merging enabled (%s)" % type(off).__name__
    if lib.g_meta(off) != lib.g_meta(on):
        return "layout differs between merge on and off"
    for c, d in zip(off.children, on.children):
        why = same_shape(T, c, d)
        if why:
            return why
    return None


def bounds_of(T, c):
    return sum(1 for b in (c.low, c.high) if not (type(b) is T.Word and b.value == "*"))


def conv_check(T, a, b, ah, extra_head="", extra_tail=""):
    """b is a converted (merge off): comparisons became ranges, everything else is the same"""
    if (b.pos, b.size, b.head, b.tail) != (a.pos, a.size, a.head + extra_head, a.tail + extra_tail):
        return "pos/size/head/tail of %s not kept" % type(a).__name__
    if isinstance(a, T.OpenRange):
        if type(b) is not T.Range:
            return "a comparison did not become a Range"
        low_side = isinstance(a, T.From)
        star, bound = (b.high, b.low) if low_side else (b.low, b.high)
        if not (type(star) is T.Word and star.value == "*"):
            return "the open side of a converted comparison is not *"
        if (star.head, star.tail) != ((ah, "") if low_side else ("", ah)):
            return "unexpected layout on the * of a converted comparison"
        flags = (b.include_low, b.include_high)
        if flags != ((a.include, True) if low_side else (True, a.include)):
            return "inclusiveness not kept by the conversion"
        return conv_check(T, a.a, bound, ah, **({"extra_tail": ah} if low_side else {"extra_head": ah}))
    if type(b) is not type(a):
        return "a node that is not a comparison changed class"
    if any(getattr(a, x) != getattr(b, x) for x in a._equality_attrs):
        return "an attribute of a %s changed" % type(a).__name__
    for flag in ("_implicit_degree", "implicit_force"):
        if getattr(a, flag, None) != getattr(b, flag, None):
            return "the implicit flag of a %s changed" % type(a).__name__
    if len(a.children) != len(b.children):
        return "a node has another number of children after conversion"
    for c, d in zip(a.children, b.children):
        why = conv_check(T, c, d, ah)
        if why:
            return why
    return None


def numbers_in(T, tree):
    vals = set()
    for _, n in gentree.all_nodes(tree):
        if isinstance(n, (T.Range, T.OpenRange)):
            for b in n.children:
                v = bound_value(T, b)
                if v is not None:
                    vals.add(v)
    return vals


def oracle(T, tree, out_off, out_on, ah):
    why = conv_check(T, tree, out_off, ah)
    if why:
        return why
    for label, out in (("off", out_off), ("on", out_on)):
        if any(isinstance(n, T.OpenRange) for _, n in gentree.all_nodes(out)):
            return "a From/To comparison is left in the output (merge %s)" % label
    why = same_shape(T, out_off, out_on)
    if why:
        return why
    vals = numbers_in(T, tree) | numbers_in(T, out_on)
    xs = sorted(set([-1.0, 4.5] + [v + d for v in vals for d in (-0.5, 0.0, 0.5)]))
    for x in xs:
        for salt in (0, 1):
            for fv in (x, 7.5 - x):
                for uand in (True, False):
                    env = {"cur": x, "fields": {"f": fv, "g": x - 1.0}, "salt": salt}
                    e0 = evaluate(T, tree, env, uand)
                    if evaluate(T, out_off, env, uand) != e0:
                        return "conversion changes the truth of the query for field value %s" % x
                    if evaluate(T, out_on, env, uand) != e0:
                        return "merging changes the truth of the query for field value %s" % x
    return None


# ---------------------------------------------------------------- reuse histories

def sentinel_state(O):
    w = O.WILDCARD_WORD
    return (type(w).__name__, w.value, w.head, w.tail, w.pos, w.size)


def edit_in_place(T, b, r, tree):
    """edit the tree object in place; returns a description of the edit (or None if nothing applies)"""
    nodes = [n for _, n in gentree.all_nodes(tree)]
    ops = [n for n in nodes if isinstance(n, T.BaseOperation)]
    ranges = [n for n in nodes if type(n) is T.Range]
    if ops and (not ranges or r.random() < 0.5):
        n = r.choice(ops)
        new = b.operand(r.choice(FULL))
        n.children = list(n.children) + [new]
        return "operand %s appended to a %s" % (gentree.describe(new), type(n).__name__)
    if ranges:
        n = r.choice(ranges)
        new = r.choice([b.num, b.star, b.lookalike])()
        side = r.choice(["low", "high"])
        setattr(n, side, new)
        return "%s bound of a range replaced by %s" % (side, gentree.describe(new))
    return None


def reuse_histories(T, O, b, r, res, count, dist):
    """one transformer instance per (merge, add_head) applied to several trees in a row and to the same tree
    object again after an in-place edit: every result must be what a fresh instance gives for the tree as it
    is at that moment, the existing oracle must hold, and the class-level WILDCARD_WORD must stay intact"""
    sentinel0 = sentinel_state(O)
    ops_classes = [T.AndOperation, T.AndOperation, T.OrOperation, T.UnknownOperation]
    calls = 0
    for _ in range(count):
        ah = r.choice(ADD_HEADS)
        inst = {m: O(merge_ranges=m, add_head=ah) for m in (False, True)}
        # a third instance whose public setting is switched between the calls (built with the opposite value)
        toggled = O(merge_ranges=True, add_head=ah)
        history = []
        tree = None
        for _step in range(r.randrange(2, 7)):
            edit = None
            if tree is not None and r.random() < 0.45:
                edit = edit_in_place(T, b, r, tree)
            if edit is None:
                k = r.choice(ops_classes)
                tree = b.wrap(b.lay(k(*b.operands(r.randrange(0, 6), FULL + ["odd"]))))
                edit = "new tree"
            try:
                before = lib.g_item(tree)
            except lib.Unmodelled:
                tree = None
                continue
            if _step == 1:
                for m in (False, True):       # a call that cannot complete, then the history goes on
                    gentree.aborted_call(inst[m], T)
                history.append({"step": "aborted calls on a 3000-level tree (RecursionError)"})
            history.append({"step": edit, "tree": gentree.describe(tree)[:600]})
            payload = {"add_head": ah, "history": list(history)}
            outs = {}
            for m in (False, True):
                try:
                    out = inst[m](tree)
                    fresh = O(merge_ranges=m, add_head=ah)(tree)
                except Exception as e:
                    res.failures.append((dict(payload, merge=m, why="exception %r on a reused instance" % e), None))
                    continue
                calls += 1
                outs[m] = out
                if lib.g_item(out) != lib.g_item(fresh):
                    res.failures.append((dict(payload, merge=m, reused=str(out)[:300], fresh=str(fresh)[:300],
                                              why="a reused transformer instance gives another result than a "
                                                  "fresh one"), None))
                if sentinel_state(O) != sentinel0:
                    res.failures.append((dict(payload, merge=m, sentinel=list(sentinel_state(O)),
                                              why="OpenRangeTransformer.WILDCARD_WORD was modified"), None))
                    O.WILDCARD_WORD = T.Word("*")     # repair so that later cases are judged on their own
                if lib.g_item(tree) != before:
                    res.failures.append((dict(payload, merge=m, why="the input tree was modified"), None))
            for m in (False, True, False):
                try:
                    toggled.merge_ranges = m
                    out = toggled(tree)
                    if m in outs and lib.g_item(out) != lib.g_item(outs[m]):
                        res.failures.append((dict(payload, merge=m, toggled=str(out)[:300], fresh=str(outs[m])[:300],
                                                  why="an instance whose merge_ranges attribute was set to %r after "
                                                      "construction does not behave like one built with it" % m), None))
                except Exception as e:
                    res.failures.append((dict(payload, merge=m, why="exception %r on a toggled instance" % e), None))
            if len(outs) == 2:
                why = oracle(T, tree, outs[False], outs[True], ah)
                if why:
                    res.failures.append((dict(payload, why=why, merge_off=str(outs[False])[:300],
                                              merge_on=str(outs[True])[:300]), None))
    dist["reuse"] = {"histories": count, "calls_on_reused_instances": calls}
    return calls


# ---------------------------------------------------------------- C12v: values, input against output

# The guard `shaped` of C12_value_preserved and its conclusion, evaluated by Coq with the Coq semantics
# `holds_full` (values = code points, 12 field values around the digits, both default operators, two atom
# valuations) on the IMPLEMENTATION's outputs: inside the guard the output must have the value of the input.
# (The theorem is about the model's output; model == implementation is the correspondence.)  The vocabulary is
# in the model file coq/model/OpenRangeValue.v (definitions only), so it is evaluated in the same pass.
C12V_DEFS = (
    "Definition bvx (b : item) : option N :=\n"
    "  match Erase.erase b with\n"
    "  | Term KWord _ [42] => None\n"
    "  | Term _ _ (c :: _) => Some c\n"
    "  | _ => Some 0\n"
    "  end.\n"
    "Definition vals : list N := [47;48;49;50;51;52;53;54;55;56;57;58].\n"
    "Definition fvx (v : N) (cx : list str) : N := v + 2 * N.of_nat (length cx).\n"
    "Definition opx (salt : N) (cx : list str) (t : item) : bool :=\n"
    "  match t with\n"
    "  | Term _ _ (c :: _) => N.even (c + salt + N.of_nat (length cx))\n"
    "  | _ => N.even (N.of_nat (size_of t) + salt)\n"
    "  end.\n"
    "Definition hfx (d : bool) (v salt : N) (t : item) : bool :=\n"
    "  holds_full N N.leb bvx (fvx v) (opx salt) d [] t.\n"
    "Definition same_value (t o : item) : bool :=\n"
    "  forallb (fun v => forallb (fun salt => forallb (fun d => Bool.eqb (hfx d v salt o) (hfx d v salt t))\n"
    "                                           [true; false]) [0; 1]) vals.\n"
    "Definition chk_value (c : bool * str * item * option item) : bool :=\n"
    "  let '(mg, ah, t, o) := c in\n"
    "  negb (shaped t) || match o with Some out => same_value t out | None => false end.\n"
    "Definition chk_outside (t : item) : bool := negb (shaped t).")
C12V_IMPORTS = "Base Decimal Tree TreeEq Eq OpenRange OpenRangeValue Erase"


def c12v_guard_coverage(res, inputs, dist, value_failures):
    """how many generated inputs are inside the guard `shaped` of C12_value_preserved (evaluated by Coq), and the
    canary of the value check"""
    canary = ("(false, [32], ORange KFrom meta0 (Term KWord meta0 [49]) true, "
              "Some (Range meta0 (Term KWord meta0 [49]) (Term KWord meta0 [42]) false true))")
    bad = lib.eval_cases("C12v", C12V_IMPORTS, C12V_DEFS, [canary], "chk_value", shard=10)
    assert bad == [0], "C12v canary (inclusiveness flipped by the conversion) not detected"
    inside = lib.eval_cases("C12v", C12V_IMPORTS, C12V_DEFS, inputs, "chk_outside", shard=300)
    dist["c12v_value_guard"] = {"inputs": len(inputs), "inside_shaped": len(inside)}
    res.notes.append("C12v: %d of %d generated inputs are inside the guard `shaped` of C12_value_preserved; on %s "
                     "(merge on and off) the implementation's output has the value of the input under Coq's "
                     "holds_full (12 field values, both default operators, 2 atom valuations)"
                     % (len(inside), len(inputs),
                        "all of them" if not value_failures else "all but %d calls" % value_failures))


def c12v_replays(T, O, res):
    """the witnesses and examples of props/C12v.v replayed on the implementation"""
    from decimal import Decimal
    from luqum.parser import parser
    f = T.Fuzzy(T.Word("a"))
    f.degree = Decimal(2)            # attribute reassigned after construction: EqSpec.wf_node is broken
    out = O()(f)
    ok = (out.degree == Decimal("0.5") and f.degree == Decimal(2) and out._implicit_degree)
    if not ok:
        res.disagreements.append({"witness": "C12_untouched_wf_needed", "input_degree": str(f.degree),
                                  "output_degree": str(out.degree)})
    g = T.Fuzzy(T.Word("a"), 2)      # constructor-built: the degree is kept
    if O()(g).degree != Decimal(2):
        res.failures.append(({"why": "the degree of a constructor-built Fuzzy is not kept", "tree": "a~2"}, None))
    expect = {
        ("a:>=1 AND a:<5 AND b:[* TO 3} OR NOT c:>2", False):
            "a:[1  TO *]AND a:[* TO 5 }AND b:[* TO 3} OR NOT c:{2 TO *]",
        ("a:>=1 AND a:<5 AND b:[* TO 3} OR NOT c:>2", True):
            "a:[1  TO *]AND a:[* TO 5 }AND b:[* TO 3} OR NOT c:{2 TO *]",
        ("a:(>=1 AND <5 AND [* TO 3}) OR NOT c:>2", False):
            "a:([1  TO *]AND [* TO 5 }AND [* TO 3}) OR NOT c:{2 TO *]",
        ("a:(>=1 AND <5 AND [* TO 3}) OR NOT c:>2", True):
            "a:([1  TO 5 }AND [* TO 3}) OR NOT c:{2 TO *]",
    }
    differ = 0
    for (q, mg), want in expect.items():
        got = str(O(merge_ranges=mg)(parser.parse(q)))
        if got != want:
            differ += 1
            res.disagreements.append({"example": "C12v_q1/q2", "query": q, "merge": mg, "coq": want, "impl": got})
    res.notes.append("C12v witnesses replayed on the implementation: Fuzzy(Word('a')) with degree reassigned to 2 "
                     "after construction is copied with degree %s (C12_untouched_wf_needed: the wf_node guard is "
                     "needed; not a defect, constructors establish the invariant); examples q1/q2: %s"
                     % (out.degree, "print as in C12v_q1 / C12v_q2" if not differ
                        else "%d of 4 outputs DIFFER from the Coq examples" % differ))



# ---------------------------------------------------------------- correspondence

def correspond(model_ok, res):
    import luqum.tree as T
    from luqum.utils import OpenRangeTransformer
    r = lib.rng("C12")
    quick = lib.tier() == "quick"
    b = Build(r, T)
    trees = []       # (tree, tag)
    ops_classes = [T.AndOperation, T.OrOperation, T.UnknownOperation, T.BoolOperation]
    # fixed corpus of nasty cases
    W, R = T.Word, T.Range
    corpus = [
        T.AndOperation(R(W("1"), W("*")), R(W("*"), W("5"))),
        T.AndOperation(R(W("*"), W("3")), R(W("4"), W("*"))),
        T.AndOperation(R(W("1"), W("*")), R(W("2"), W("*")), R(W("*"), W("8")), R(W("*"), W("9"))),
        T.AndOperation(R(W("*"), W("*")), R(W("1"), W("*"), False, True), R(W("*"), W("5"), True, False)),
        T.AndOperation(R(W("1"), W("*"), head="H", tail="T"), W("x"), R(W("*"), W("5"), head=" h2", tail="t2 ")),
        T.AndOperation(T.From(W("1"), False), T.To(W("5"), True)),
        T.AndOperation(T.Boost(R(W("1"), W("*")), 2), T.Boost(R(W("*"), W("5")), 2)),
        T.AndOperation(T.SearchField("f", R(W("1"), W("*"))), T.SearchField("f", R(W("*"), W("5")))),
        T.OrOperation(R(W("1"), W("*")), R(W("*"), W("5"))),
        T.UnknownOperation(R(W("1"), W("*")), R(W("*"), W("5"))),
        T.AndOperation(R(T.Phrase('"*"'), W("3")), R(W("4"), W("*"))),
        T.AndOperation(R(W("*", head=" ", tail=" "), W("3")), R(W("4"), W("*", tail="  "))),
        T.From(T.From(W("1"))), T.To(W("*")), T.AndOperation(T.From(W("*")), T.To(W("3"))),
        T.AndOperation(), T.AndOperation(R(W("1"), W("*"))), T.From(T.NoneItem()),
        T.AndOperation(R(W("1"), W("*")), T.AndOperation(R(W("*"), W("5")), R(W("2"), W("*"))), R(W("*"), W("7"))),
        T.Fuzzy(T.From(W("1")), None), T.Boost(T.To(W("1"), False), None),
        # bounds that look like the wildcard but are real bounds: never one-sided, never overwritten
        T.AndOperation(R(W("3"), W("\\*")), R(W("*"), W("5"))),
        T.AndOperation(R(W("\\*"), W("7")), T.From(W("2"))),
        T.AndOperation(R(W("*"), W("5")), R(W("3"), W("\\*"))),
        T.AndOperation(R(W("3"), W("**")), R(W("*"), W("5"))),
        T.AndOperation(R(W("3"), W("?")), R(W("*"), W("5"))),
        T.AndOperation(R(W("3"), W("\\\\*")), R(W("*"), W("5"))),
        T.AndOperation(R(W("3"), T.Phrase('"\\*"')), R(W("*"), W("5"))),
        T.AndOperation(R(W("\\*"), W("\\*")), R(W("*"), W("5")), R(W("1"), W("*"))),
        T.AndOperation(R(W("a"), W("\\a")), R(W("*"), W("5")), R(W("1"), W("*"))),
        T.AndOperation(T.To(W("\\*")), T.From(W("1"))),
    ]
    for t in corpus:
        trees.append((t, "corpus"))
    # exhaustive operand lists over the core alphabet
    maxlen = 4 if quick else 6
    done = set()
    for alphabet, top in ((CORE5, 4 if quick else 5), (CORE, maxlen)):
        for n in range(0, top + 1):
            for word in itertools.product(alphabet, repeat=n):
                if word not in done:
                    done.add(word)
                    trees.append((T.AndOperation(*[b.operand(k) for k in word]), "exhaustive-core"))
    if not quick:
        for n in range(0, 5):
            for word in itertools.product(FULL, repeat=n):
                k = T.AndOperation if r.random() < 0.7 else r.choice(ops_classes)
                trees.append((k(*[b.operand(x) for x in word]), "exhaustive-full"))
    # sampled: full alphabet + odd operands, any operation class, nested
    for _ in range(260 if quick else 3000):
        n = r.randrange(0, 7)
        alphabet = FULL + (["odd"] if r.random() < 0.5 else [])
        k = T.AndOperation if r.random() < 0.6 else r.choice(ops_classes)
        op = b.lay(k(*b.operands(n, alphabet)))
        trees.append((b.wrap(op), "sampled"))

    cases, payloads = [], []
    inputs_g = []     # the Gallina input trees, one per input (C12v guard coverage)
    seen = set()
    sentinel0 = sentinel_state(OpenRangeTransformer)
    dist = {"tag": {}, "merges_performed": {}, "root_class": {}, "operand_count": {}}
    for tree, tag in trees:
        try:
            before = lib.g_item(tree)
        except lib.Unmodelled:
            continue
        desc = gentree.describe(tree)
        inputs_g.append(before)
        ah = " " if tag == "exhaustive-core" else r.choice(ADD_HEADS)
        outs = {}
        for merge in (False, True):
            t2 = tree            # the real input object: the property says it is not modified
            try:
                out = OpenRangeTransformer(merge_ranges=merge, add_head=ah)(t2)
            except Exception as e:
                res.failures.append(({"tree": desc[:1500], "merge": merge, "add_head": ah,
                                      "why": "exception %r" % e}, None))
                out = None
            if sentinel_state(OpenRangeTransformer) != sentinel0:
                res.failures.append(({"tree": desc[:1500], "merge": merge, "add_head": ah,
                                      "sentinel": list(sentinel_state(OpenRangeTransformer)),
                                      "why": "OpenRangeTransformer.WILDCARD_WORD was modified"}, None))
                OpenRangeTransformer.WILDCARD_WORD = T.Word("*")
            if lib.g_item(tree) != before:
                res.failures.append(({"tree": desc[:1500], "merge": merge, "add_head": ah,
                                      "why": "the input tree was modified"}, None))
                tree = None
                break
            outs[merge] = out
            cases.append("(%s, %s, %s, %s)" % (lib.g_bool(merge), lib.g_str(ah), before,
                                               "None" if out is None else "(Some %s)" % lib.g_item(out)))
            payloads.append({"tree": desc[:1500], "merge": merge, "add_head": ah,
                             "output": None if out is None else str(out)[:300]})
        if tree is None or outs.get(False) is None or outs.get(True) is None:
            continue
        # shared sub-objects between input and output would make later mutation of one affect the other
        ids_in = {id(n) for _, n in gentree.all_nodes(tree)}
        for merge in (False, True):
            if any(id(n) in ids_in for _, n in gentree.all_nodes(outs[merge])):
                res.failures.append(({"tree": desc[:1500], "merge": merge,
                                      "why": "the output shares a node object with the input"}, None))
        why = oracle(T, tree, outs[False], outs[True], ah)
        if why:
            res.failures.append(({"tree": desc[:1500], "add_head": ah, "why": why,
                                  "merge_off": str(outs[False])[:300], "merge_on": str(outs[True])[:300]}, None))
        nm = gentree.count_nodes(outs[False]) - gentree.count_nodes(outs[True])
        dist["tag"][tag] = dist["tag"].get(tag, 0) + 1
        dist["merges_performed"][str(nm // 3)] = dist["merges_performed"].get(str(nm // 3), 0) + 1
        rc = type(tree).__name__
        dist["root_class"][rc] = dist["root_class"].get(rc, 0) + 1
        oc = str(len(tree.children)) if isinstance(tree, T.BaseOperation) else "-"
        dist["operand_count"][oc] = dist["operand_count"].get(oc, 0) + 1
        has = any(isinstance(n, (T.Range, T.OpenRange)) for _, n in gentree.all_nodes(tree))
        if has and desc not in seen:
            seen.add(desc)
    reuse_calls = reuse_histories(T, OpenRangeTransformer, b, r, res, 80 if quick else 800, dist)
    res.notes.append("%d calls on reused transformer instances (histories of 2-6 trees, in-place edits) compared "
                     "with fresh instances and judged by the oracle; WILDCARD_WORD checked after every call"
                     % reuse_calls)
    res.cases = len(cases)
    res.nontrivial = len(seen)
    res.rule = ("operand lists over {low-bounded, high-bounded, closed, [* TO *], non-range, boosted range, fielded "
                "range, From/To} (+ odd operands: grouped/negated range, quoted star, nested AND, comparison of a "
                "comparison, range bound that is a range) in And/Or/Unknown/Bool, nested in field/group/boost/or/and, "
                "x merge on/off x add_head in {' ', '', '\\n'}; exhaustive over the core alphabet {low-bounded, "
                "high-bounded, closed, non-range, closed-with-wildcard-lookalike-bound (literal \\\\*, **, ?, "
                "\"*\", ...)} up to length %d (4 letters up to %d); non-trivial = distinct tree containing a "
                "range or a comparison" % (4 if quick else 5, maxlen))
    res.samples = payloads[40:46]
    res.distribution = dist
    c12v_replays(T, OpenRangeTransformer, res)
    if not model_ok:
        res.model_error = "model did not build"
        return res
    defs = ("Definition chk (c : bool * str * item * option item) : bool :=\n"
            "  let '(mg, ah, t, o) := c in oitem_beq (open_range mg ah t) o.\n" + C12V_DEFS + "\n"
            "Definition chk_all (c : bool * str * item * option item) : bool := chk c && chk_value c.")
    canary = ("(true, [32], Op KAnd meta0 [Range meta0 (Term KWord meta0 [49]) (Term KWord meta0 [42]) true true; "
              "Range meta0 (Term KWord meta0 [42]) (Term KWord meta0 [53]) true true], "
              "Some (Op KAnd meta0 [Range meta0 (Term KWord meta0 [49]) (Term KWord meta0 [42]) true true; "
              "Range meta0 (Term KWord meta0 [42]) (Term KWord meta0 [53]) true true]))")
    try:
        # one pass: model == implementation AND (C12v) value of the output == value of the input inside `shaped`
        bad = lib.eval_cases("C12", C12V_IMPORTS, defs, cases + [canary], "chk_all", shard=120)
        assert len(cases) in bad, "canary not detected"
        real_bad = [i for i in bad if i < len(cases)]
        n_fail0 = len(res.failures)
        if real_bad:      # attribute each failing case to the check(s) it fails
            sub = [cases[i] for i in real_bad]
            for j in lib.eval_cases("C12", C12V_IMPORTS, defs, sub, "chk", shard=120):
                res.disagreements.append(payloads[real_bad[j]])
            for j in lib.eval_cases("C12", C12V_IMPORTS, defs, sub, "chk_value", shard=120):
                res.failures.append((dict(payloads[real_bad[j]], why="C12v: input inside the guard `shaped`, but "
                                          "the value (Coq holds_full) of the implementation's output differs from "
                                          "the input's"), None))
        c12v_guard_coverage(res, inputs_g, dist, len(res.failures) - n_fail0)
    except Exception as e:
        res.model_error = "%s: %s" % (type(e).__name__, e)
    return res


SPEC = {
    "id": "C12",
    "targets": ["props/C12.vo"],
    "model_targets": ["model/OpenRange.vo", "model/TreeEq.vo", "model/OpenRangeValue.vo"],
    "module": "C12",
    "theorems": ["C12_total", "C12_no_comparison_left", "C12_conversion", "C12_copy_drops_name_only",
                 "C12_merge_structure", "C12_and_node", "C12_plain_node",
                 "C12_merge_steps_preserve_conjunction", "C12_wildcard"],
    # the value-level statement (input against output, whole tree) and the exact copy of the untouched nodes
    "more": [{"module": "C12v", "target": "props/C12v.vo",
              "theorems": ["C12_value_preserved", "C12_value_preserved_one_value", "C12_comparison_value",
                           "C12_untouched_nodes", "C12_untouched_nodes_any", "C12_exact_conversion",
                           "C12_untouched_wf_needed", "C12v_wild_unbounded_needed", "C12v_layout_blind_needed",
                           "C12v_shaped_nested_needed", "C12v_shaped_wf_needed", "C12v_single_value_needed",
                           "C12v_any_relation", "C12v_empty_range"]}],
    "correspond": correspond,
    "statement": "OpenRangeTransformer never fails and leaves no From/To; without merging the output is the input "
                 "where exactly the comparisons became the Range with the same bound (converted), same "
                 "inclusiveness, * and inclusive on the other side, same pos/size/head/tail, every other node its "
                 "default copy (name dropped only); with merging the operands of each AND are obtained from its "
                 "converted operands by steps that combine two one-sided Range operands of that list of opposite "
                 "sides, until none applies; non-range operands (boosted/fielded ranges included) are kept; the "
                 "conjunction has the same truth for every value of any type with any order relation, any "
                 "valuation of bounds with * unbounded, any truth of opaque operands; every other node keeps its "
                 "children one to one. C12v.v, INPUT AGAINST OUTPUT: with holds_full (From x = v > x / v >= x, To "
                 "likewise, Range = both conditions with * as no condition, And all, Or any, Not/Prohibit complement, "
                 "Plus/groups/Boost transparent, SearchField selects the field whose value is compared, "
                 "UnknownOperation = And or Or for BOTH default operators, BoolOperation = the Lucene boolean query, "
                 "terms and approximate matches opaque atoms) the output of the transformer has the truth value of "
                 "the input tree, for every tree whose bounds are terms or signed terms and whose approximate "
                 "matches hold a term with a constructor-consistent degree (guard `shaped`: the shapes the grammar rules "
                 "for ranges, comparisons and approximate matches build — stated, not proved, for all parsed queries; "
                 "evaluated by Coq on every generated input and on the parsed examples), any "
                 "nesting of operations, every assignment of values to fields, every truth of the atoms, any value "
                 "type and ANY relation as the order, merging or not, any add_head (C12_value_preserved; the "
                 "conversion step spelled out in C12_comparison_value); every node that is not a comparison is copied "
                 "with the same class, own attributes, implicit flag, pos/size/head/tail, no name, over the outputs "
                 "of its children in order, provided it satisfies the constructors' invariant wf_node "
                 "(C12_untouched_nodes; without the invariant the attributes are those of EqSpec.reinit, "
                 "C12_untouched_nodes_any / C12_exact_conversion)",
    "level_text": "Coq proof (full). C12.v: totality, no comparison left, the conversion and merge relations (Conv, "
                  "merge_steps, fully_merged), merge steps preserve the conjunction of the converted operands. "
                  "C12v.v closes the two gaps of C12.v's statements: (a) C12_value_preserved links the VALUES of the "
                  "input (comparisons read as conditions v > x, v >= x, v < x, v <= x) to those of the output (ranges) "
                  "through every operation, wrapper and field, with merging (C12's merge_steps_conj reused on the "
                  "whole-tree semantics) or not; hypotheses: the wildcard is read as 'no bound' "
                  "(C12v_wild_unbounded_needed), bounds and atoms are not read through their layout "
                  "(C12v_layout_blind_needed: add_head lands in the layout of the converted bound), the guard `shaped` "
                  "(C12v_shaped_nested_needed: a comparison inside an atom such as Fuzzy(From(a)); "
                  "C12v_shaped_wf_needed: a Fuzzy whose degree was reassigned after construction), one value per "
                  "field context (C12v_single_value_needed: with a multi-valued field [1 TO *] AND [* TO 5] -> "
                  "[1 TO 5] is not an equivalence); NO order law is assumed (C12v_any_relation; C12v_empty_range: "
                  "[* TO 3] AND [4 TO *] -> [4 TO 3], both unsatisfiable for the usual order). (b) "
                  "C12_untouched_nodes: attributes, implicit flag and layout of every copied node are unchanged under "
                  "wf_node, which is necessary (C12_untouched_wf_needed: Fuzzy(Word('a')) with .degree reassigned to "
                  "2 is copied with degree 0.5 — replayed on the implementation on every run; not a defect: every "
                  "constructor establishes the invariant). Non-vacuity: the theorem's guard and conclusion are "
                  "evaluated by Coq on 'a:>=1 AND a:<5 AND b:[* TO 3} OR NOT c:>2' and 'a:(>=1 AND <5 AND [* TO 3}) OR "
                  "NOT c:>2' (parsed by the Coq parser model), merge on/off, over 343 value triples; on every run the "
                  "harness evaluates guard and conclusion (Coq holds_full) on the implementation's outputs for all "
                  "generated inputs. Object identity ('input not modified', no shared node) by snapshots.",
    "trusted_base": [
        "Coq 8.16.1 kernel (vm_compute for table facts, examples and correspondence; no native_compute)",
        "no axioms (Print Assumptions: closed under the global context)",
        "gen/translate.py: class MROs, _equality_attrs, OpenRangeTransformer method table",
        "hand-written model coq/model/OpenRange.v over the shared Eq.v (clone_item, __eq__), Visitor.v, tied by "
        "differential correspondence (harness/c12.py) on every run",
        "value-based tree model: object identity is not modelled; 'input not modified' and 'output shares no "
        "node with the input' are checked on the implementation by snapshot only",
    ],
    "assumptions": ["trees contain only luqum.tree classes; no node object occurs at two positions",
                    "single-valued field semantics: one value x per field for a whole AND (for multi-valued "
                    "fields merging two ranges is not an equivalence; the property text speaks of 'the value')",
                    "layout of a merged-away range (its head/tail) is dropped by the code: not part of C12",
                    "C12v: the readings of bounds and atoms do not depend on layout or attached names, `*` is read "
                    "as 'no bound', and the tree is inside `shaped` (bounds are terms or signed terms, approximate "
                    "matches hold a term and a constructor-consistent degree) — each shown necessary by a witness",
                    "C12v: the meaning given to BoolOperation is Meaning.v's Lucene boolean query; UnknownOperation is "
                    "proved for both default operators"],
}
