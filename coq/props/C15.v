(* C15 — auto_name gives distinct names to the operands of operations, mapped to their paths.
   This file holds only statements, `exact`-closed theorems, non-vacuity examples and
   Print Assumptions.  Model: model/Naming.v; lemmas: proofs/NamingProofs.v; the alphabet, the
   class MROs and the namer's method table are the generated ones (gen/GenNaming.v, GenTree.v,
   GenVisitors.v), so the theorems are re-checked against what the code says now.

   Clauses of the property text -> statements:
     "names are always produced"                                   C15_total
     "the elements that carry a name are exactly the direct operands of the tree's operations (or the
      root alone when there is no operation)"                      C15_named_exactly_operands
     "all names are distinct whatever the number of operands"      C15_names_distinct (mapping),
                                                                   C15_tree_names_distinct (tree),
                                                                   C15_next_name_never_repeats (generator)
     "the mapping sends each name to the path of the element carrying it and contains nothing else"
                                                                   C15_mapping_exact
   All for EVERY tree, whatever names it carried beforehand: TreeAutoNamer.visit first removes the name
   of every node (_clear_names, model `clear_names`; C15_names_cleared_first).  Before that repair the
   exact clauses held only for trees without names and were refuted otherwise; the former witnesses are
   the regression Examples below. *)
Require Import Base Decimal Tree GenTree GenVisitors GenNaming Visitor Naming TreeInd NamingProofs.

(* ---- tie obligations on generated data *)
Lemma letters_nonempty : gen_letters <> [].
Proof. vm_compute. discriminate. Qed.

Lemma namer_methods_known_ok : namer_methods_known = true.
Proof. vm_compute. reflexivity. Qed.

(* the namer's dispatched handler names the children of exactly the operation classes *)
Lemma namer_handles_is_op : forall t, namer_handles (cls_of t) = is_op t.
Proof. destruct t as [[]| | []| | | | |[]|[]|[]|]; vm_compute; reflexivity. Qed.

(* ---- statements *)
Definition operand_of_operation (t : item) (q : path) : Prop :=
  exists q0 i k m ops, q = q0 ++ [i] /\ subtree_at t q0 = Some (Op k m ops) /\ i < length ops.

(* no exception: a mapping and a named tree are always produced *)
Definition C15_total_statement : Prop :=
  forall t, exists t' m, auto_name t = Some (t', m).

(* all names are distinct, whatever the number of operands *)
Definition C15_names_distinct_statement : Prop :=
  forall t t' m, auto_name t = Some (t', m) -> NoDup (map fst m).

(* the elements that carry a name are exactly the direct operands of the tree's operations, or
   the root alone when no operation has an operand — for EVERY tree, whatever names it carried before
   (TreeAutoNamer.visit removes every name of a previous naming first: _clear_names) *)
Definition C15_named_exactly_operands_statement : Prop :=
  forall t t' m, auto_name t = Some (t', m) ->
    forall q, (exists nm, name_at t' q = Some nm) <->
              (operand_of_operation t q \/ ((forall q', ~ operand_of_operation t q') /\ q = [])).

(* the mapping sends each name to the path of the element carrying it and contains nothing else *)
Definition C15_mapping_exact_statement : Prop :=
  forall t t' m, auto_name t = Some (t', m) ->
    forall nm q, In (nm, q) m <-> name_at t' q = Some nm.

(* (weaker, kept from the time auto_name did not clear names) whatever names the tree carried before (a
   tree named earlier and edited since): every entry of the mapping is the path of an element that now
   carries that name, and names are distinct *)
Definition C15_mapping_sound_any_history_statement : Prop :=
  forall t t' m, auto_name t = Some (t', m) ->
    NoDup (map fst m) /\ forall nm q, In (nm, q) m -> name_at t' q = Some nm.

(* (weaker, likewise) every operand of an operation (or the root alone when no operation has an operand)
   carries the name the mapping gives it, and the mapping has no other path *)
Definition C15_operands_named_any_history_statement : Prop :=
  forall t t' m, auto_name t = Some (t', m) ->
    forall q, (operand_of_operation t q \/ ((forall q', ~ operand_of_operation t q') /\ q = [])) <->
              (exists nm, In (nm, q) m /\ name_at t' q = Some nm).

(* "all names are distinct" read on the TREE (not only on the mapping): no two elements carry the same
   name, for every tree *)
Definition C15_tree_names_distinct_statement : Prop :=
  forall t t' m, auto_name t = Some (t', m) ->
    forall q1 q2 nm, name_at t' q1 = Some nm -> name_at t' q2 = Some nm -> q1 = q2.

(* the names of a previous naming are all removed before the naming: the tree that is named carries no
   name, and differs from the input by names only (same classes, same shape at every path) *)
Definition C15_names_cleared_first_statement : Prop :=
  forall t, unnamed (clear_names t) /\
    (forall q, subtree_at (clear_names t) q = option_map clear_names (subtree_at t q)) /\
    (forall q n, subtree_at t q = Some n ->
       exists n', subtree_at (clear_names t) q = Some n' /\ cls_of n' = cls_of n /\
                  length (children n') = length (children n)) /\
    (unnamed t -> clear_names t = t).

(* the successor function on names never repeats, for any number of steps *)
Definition C15_next_name_never_repeats_statement : Prop :=
  forall n l st, gen_names gen_letters None n = Some (l, st) -> NoDup l /\ length l = n.

(* ---- proofs (lemmas live in proofs/NamingProofs.v) *)
Lemma operand_path_is_operand t q :
  operand_path namer_handles t q <-> operand_of_operation t q.
Proof.
  split.
  - intros [q0 [i [n [Hq [Hs [Hh Hi]]]]]]. rewrite namer_handles_is_op in Hh.
    destruct n; try discriminate. exists q0, i, k, m, ops. auto.
  - intros [q0 [i [k [m [ops [Hq [Hs Hi]]]]]]]. exists q0, i, (Op k m ops).
    rewrite namer_handles_is_op. auto.
Qed.

Theorem C15_total : C15_total_statement.
Proof. exact (auto_name_with_total gen_letters letters_nonempty namer_handles). Qed.

Theorem C15_names_distinct : C15_names_distinct_statement.
Proof. intros t t' m H. exact (proj1 (auto_name_with_spec gen_letters letters_nonempty namer_handles t t' m H)). Qed.

Theorem C15_mapping_exact : C15_mapping_exact_statement.
Proof.
  intros t t' m H.
  exact (proj1 (proj2 (auto_name_with_exact gen_letters letters_nonempty namer_handles t t' m H))).
Qed.

Theorem C15_mapping_sound_any_history : C15_mapping_sound_any_history_statement.
Proof.
  intros t t' m H.
  destruct (auto_name_with_spec gen_letters letters_nonempty namer_handles t t' m H) as [Hnd [_ [_ Hs]]].
  split; assumption.
Qed.

Theorem C15_named_exactly_operands : C15_named_exactly_operands_statement.
Proof.
  intros t t' m H q.
  destruct (auto_name_with_exact gen_letters letters_nonempty namer_handles t t' m H) as [_ [Hex Hp]].
  specialize (Hp q).
  assert (Hin : (exists nm, name_at t' q = Some nm) <-> In q (map snd m)).
  { split.
    - intros [nm Hnm]. apply Hex in Hnm. apply in_map_iff. exists (nm, q). auto.
    - intros Hin. apply in_map_iff in Hin. destruct Hin as [[nm q1] [Hq Hin]]. simpl in Hq. subst q1.
      exists nm. apply Hex. exact Hin. }
  rewrite Hin, Hp. rewrite operand_path_is_operand.
  split; (intros [Ho|[Hn Hq]]; [left; exact Ho|right; split; [|exact Hq]]);
    intros q' Hq'; apply (Hn q'); apply operand_path_is_operand; exact Hq'.
Qed.

Theorem C15_operands_named_any_history : C15_operands_named_any_history_statement.
Proof.
  intros t t' m H q.
  destruct (auto_name_with_spec gen_letters letters_nonempty namer_handles t t' m H) as [_ [_ [Hp Hs]]].
  specialize (Hp q).
  assert (Hin : In q (map snd m) <-> exists nm, In (nm, q) m /\ name_at t' q = Some nm).
  { split.
    - intros Hin. apply in_map_iff in Hin. destruct Hin as [[nm q1] [Hq Hin]]. simpl in Hq. subst q1.
      exists nm. split; [exact Hin|]. apply Hs. exact Hin.
    - intros [nm [Hin _]]. apply in_map_iff. exists (nm, q). auto. }
  rewrite <- Hin, Hp.
  split; (intros [Ho|[Hn Hq]]; [left; apply operand_path_is_operand; exact Ho|right; split; [|exact Hq]]);
    intros q' Hq'; apply (Hn q'); apply operand_path_is_operand; exact Hq'.
Qed.

Lemma nodup_fst_functional (m : list (str * path)) : NoDup (map fst m) ->
  forall nm q1 q2, In (nm, q1) m -> In (nm, q2) m -> q1 = q2.
Proof.
  induction m as [|[n p] m IH]; intros Hnd nm q1 q2 H1 H2; [destruct H1|].
  simpl in Hnd. inversion Hnd as [|x l Hni Hnd']; subst.
  destruct H1 as [H1|H1]; destruct H2 as [H2|H2].
  - congruence.
  - exfalso. inversion H1; subst. apply Hni. apply in_map_iff. exists (nm, q2). auto.
  - exfalso. inversion H2; subst. apply Hni. apply in_map_iff. exists (nm, q1). auto.
  - exact (IH Hnd' nm q1 q2 H1 H2).
Qed.

Theorem C15_tree_names_distinct : C15_tree_names_distinct_statement.
Proof.
  intros t t' m H q1 q2 nm H1 H2.
  destruct (auto_name_with_exact gen_letters letters_nonempty namer_handles t t' m H) as [Hnd [Hex _]].
  exact (nodup_fst_functional m Hnd nm q1 q2 (proj2 (Hex nm q1) H1) (proj2 (Hex nm q2) H2)).
Qed.

Theorem C15_names_cleared_first : C15_names_cleared_first_statement.
Proof.
  intros t. split; [exact (clear_names_unnamed t)|]. split; [intros q; exact (subtree_clear_names q t)|].
  split; [|exact (clear_names_id t)].
  intros q n Hs. exists (clear_names n). rewrite subtree_clear_names, Hs. split; [reflexivity|].
  split; [exact (cls_clear_names n)|]. rewrite children_clear_names. apply map_length.
Qed.

(* ---- regression on the witnesses of the defect repaired in /repo 1efb56a (they refuted the
   unguarded statements of the model of the old code: C15_named_exactly_refuted, C15_mapping_exact_refuted,
   C15_tree_names_distinct_refuted — auto_name never cleared a name, so a stale name on an element that is
   not an operand survived).  On each: the stale name is gone, the elements that carry a name (listed over
   ALL paths of the tree, pre-order) are exactly the operands, and the mapping is exact. *)
Definition named_elements (t : item) : list (path * str) :=
  flat_map (fun q => match name_at t q with Some nm => [(q, nm)] | None => [] end) (preorder_paths [] t).

(* AndOperation(Group(w), Word("y")) with set_name(w, "b") for w = Word("x").  Old code: auto_name returned
   {'a': (0,), 'b': (1,)} and w kept 'b', the name given to Word('y').  Replayed on the repaired code: same
   mapping, get_name(w) is None *)
Definition stale_tree : item :=
  Op KAnd meta0 [Grp KGroup meta0 (Term KWord (with_name meta0 (Some [98]%N)) [120]%N);
                 Term KWord meta0 [121]%N].

(* the theorems really reach beyond the former guard: this tree is not `unnamed` *)
Example C15_stale_tree_is_named : ~ unnamed stale_tree.
Proof. intros H. specialize (H [0; 0]). vm_compute in H. discriminate. Qed.

Example C15_regression_stale_tree : exists t',
  auto_name stale_tree = Some (t', [([97]%N, [0]); ([98]%N, [1])]) /\
  name_at stale_tree [0; 0] = Some [98]%N /\ name_at t' [0; 0] = None /\
  named_elements t' = [([0], [97]%N); ([1], [98]%N)].
Proof. eexists. split; [vm_compute; reflexivity|]. repeat split; vm_compute; reflexivity. Qed.

(* named, then edited: w = Word("x"); auto_name(w) names the root 'a'; the named word is then embedded:
   t = AndOperation(Group(w), Word("y")); auto_name(t).  Old code: w kept 'a', the name given to the group *)
Definition edited_tree : item :=
  Op KAnd meta0 [Grp KGroup meta0 (Term KWord (with_name meta0 (Some [97]%N)) [120]%N);
                 Term KWord meta0 [121]%N].

Example C15_regression_named_then_edited :
  (exists w', auto_name (Term KWord meta0 [120]%N) = Some (w', [([97]%N, [])]) /\
              subtree_at edited_tree [0; 0] = Some w') /\
  exists t', auto_name edited_tree = Some (t', [([97]%N, [0]); ([98]%N, [1])]) /\
             name_at t' [0; 0] = None /\
             named_elements t' = [([0], [97]%N); ([1], [98]%N)].
Proof.
  split; [eexists; split; vm_compute; reflexivity|].
  eexists. split; [vm_compute; reflexivity|]. split; vm_compute; reflexivity.
Qed.

(* named, then the operation is taken away: a AND b named (a, b), then the first operand alone is put under
   Not — no operation is left, so the root gets 'a'.  Old code: the word kept its 'a' as well *)
Example C15_regression_operation_removed :
  exists t', auto_name (Unary KNot meta0 (Term KWord (with_name meta0 (Some [97]%N)) [120]%N))
             = Some (t', [([97]%N, [])]) /\
             name_at t' [0] = None /\ named_elements t' = [([], [97]%N)].
Proof. eexists. split; [vm_compute; reflexivity|]. split; vm_compute; reflexivity. Qed.

(* every element pre-named with the SAME name, root included: all gone but the operands' fresh names *)
Example C15_regression_all_prenamed :
  exists t',
    auto_name (Op KOr (with_name meta0 (Some [97]%N))
                 [Grp KGroup (with_name meta0 (Some [97]%N)) (Term KWord (with_name meta0 (Some [97]%N)) [120]%N);
                  Range (with_name meta0 (Some [97]%N)) (Term KWord (with_name meta0 (Some [97]%N)) [49]%N)
                        (Term KWord (with_name meta0 (Some [98]%N)) [50]%N) true true])
    = Some (t', [([97]%N, [0]); ([98]%N, [1])]) /\
    named_elements t' = [([0], [97]%N); ([1], [98]%N)].
Proof. eexists. split; vm_compute; reflexivity. Qed.

Theorem C15_next_name_never_repeats : C15_next_name_never_repeats_statement.
Proof.
  intros n l st H. split.
  - exact (proj1 (gen_names_lt gen_letters letters_nonempty n None l st H)).
  - exact (gen_names_length gen_letters n None l st H).
Qed.

(* ---- non-vacuity: a tree with two operations, one wider than nothing, really is named *)
Definition ex_tree : item :=
  Op KAnd meta0 [Term KWord meta0 [97]%N;
                 Grp KGroup meta0 (Op KOr meta0 [Term KWord meta0 [98]%N; Term KWord meta0 [99]%N])].
Example C15_nonvacuous :
  unnamed ex_tree /\
  exists t', auto_name ex_tree =
    Some (t', [([97]%N, [0]); ([98]%N, [1]); ([99]%N, [1; 0; 0]); ([100]%N, [1; 0; 1])]).
Proof.
  split.
  - intros q. unfold name_at.
    destruct q as [|[|[|]] [|[|] [|[|[|]] [|]]]]; try reflexivity; simpl;
      repeat (match goal with |- context [nth_error _ ?n] => destruct n; simpl end); try reflexivity.
  - eexists. vm_compute. reflexivity.
Qed.
(* "no operation has an operand" (not "no operation"): an operation without operands names nobody, so the
   root gets the name — auto_name(Group(AndOperation())) == {'a': ()} on the real code *)
Example C15_root_alone_empty_operation :
  exists t', auto_name (Grp KGroup meta0 (Op KAnd meta0 [])) = Some (t', [([97]%N, [])]) /\
             name_at t' [] = Some [97]%N /\ name_at t' [0] = None.
Proof. eexists. split; [vm_compute; reflexivity|]. split; vm_compute; reflexivity. Qed.
(* 120 successive names (more than two alphabets) are produced and distinct *)
Example C15_many_names : exists l st, gen_names gen_letters None 120 = Some (l, st) /\ length l = 120.
Proof. vm_compute. eauto. Qed.

Print Assumptions C15_total.
Print Assumptions C15_names_distinct.
Print Assumptions C15_named_exactly_operands.
Print Assumptions C15_mapping_exact.
Print Assumptions C15_next_name_never_repeats.
Print Assumptions C15_mapping_sound_any_history.
Print Assumptions C15_operands_named_any_history.
Print Assumptions C15_tree_names_distinct.
Print Assumptions C15_names_cleared_first.
