(* BridgeProofs.v — the bridge between the parser and L-respace (C18): THE CHUNKS OF A PARSED TREE ARE THE
   TEXTS OF TOKEN GROUPS OF THE QUERY.

   A. token-list vocabulary: first head, last tail, `group_text` over concatenation, `render` as
      head ++ group_text ++ tail when only the first token has a head
   B. lexer: `lex` gives a head to the first token only; heads and tails are blank
   C. `blink v seg`: the link between a stack value and the tokens it was built from — the printed text is
      the rendering of the tokens, the node's own head / tail are a prefix of the first token's head / a
      suffix of the last token's tail, a Word/Phrase/Regex is its token, and the chunk sequence of the item
      (PrettyProofs.chunk_texts) is, chunk by chunk, the `group_text` of consecutive non-empty token groups
      possibly preceded by a piece of the group's first head and followed by a piece of its last tail
      (`chunk_rel`: a simple element such as `NOT a  ` or ` a~` keeps the layout of its inner nodes)
   D. every semantic action keeps the link when its ghost events are trivial (run_action_blink)
   E. driver invariant, ANY tables: a parse without ghost event returns a tree linked to the whole token list
   F. the chunks glued by separators are a chunked re-spacing with blank head and blank TRAILER; L-respace
      with a trailer; the round trip *)
Require Import Base Decimal Tree GenTree GenParser Visitor Print Eq Lexer Actions LR Parser Erase Pretty Respace.
Require Import TreeInd LexerProofs ActionProofs LRProofs LayoutProofs PrettyProofs RespaceProofs RespaceParse.
Require Import RespellProofs.
From Coq Require Import Lia.

(* ================================================================ A. token lists *)

Definition hn (t : token) : Prop := tk_head t = [].
(* only the first token may have a head *)
Definition heads_ok (seg : list token) : Prop := Forall hn (tl seg).
Definition fhead (seg : list token) : str := match seg with [] => [] | t :: _ => tk_head t end.
Fixpoint ltail (seg : list token) : str :=
  match seg with [] => [] | t :: r => match r with [] => tk_tail t | _ => ltail r end end.

Lemma fhead_app a b : a <> [] -> fhead (a ++ b) = fhead a.
Proof. destruct a; [congruence|reflexivity]. Qed.

Lemma ltail_app : forall a b, b <> [] -> ltail (a ++ b) = ltail b.
Proof.
  induction a as [|t a IH]; intros b Hb; [reflexivity|].
  change ((t :: a) ++ b) with (t :: a ++ b). specialize (IH b Hb).
  destruct (a ++ b) eqn:E; [|simpl; rewrite <- IH; reflexivity].
  apply app_eq_nil in E. destruct E; congruence.
Qed.

Lemma ltail_cons t r : r <> [] -> ltail (t :: r) = ltail r.
Proof. destruct r; [congruence|reflexivity]. Qed.

Lemma group_text_cons t r : r <> [] -> group_text (t :: r) = tk_lexeme t ++ tk_tail t ++ group_text r.
Proof. destruct r; [congruence|reflexivity]. Qed.

Lemma group_text_app : forall a b, a <> [] -> b <> [] ->
  group_text (a ++ b) = group_text a ++ ltail a ++ group_text b.
Proof.
  induction a as [|t a IH]; intros b Ha Hb; [congruence|].
  destruct a as [|t2 a2].
  - simpl app. rewrite group_text_cons by exact Hb. simpl. reflexivity.
  - change ((t :: t2 :: a2) ++ b) with (t :: (t2 :: a2) ++ b).
    rewrite group_text_cons by discriminate. rewrite IH by (try discriminate; exact Hb).
    rewrite (group_text_cons t (t2 :: a2)) by discriminate. rewrite (ltail_cons t (t2 :: a2)) by discriminate.
    rewrite <- !app_assoc. reflexivity.
Qed.

Lemma render_cons t r : render (t :: r) = tok_text t ++ render r.
Proof. reflexivity. Qed.

Lemma render_hn : forall seg, Forall hn seg -> seg <> [] -> render seg = group_text seg ++ ltail seg.
Proof.
  induction seg as [|t r IH]; intros Hh Hne; [congruence|].
  inversion Hh as [|? ? Ht Hr]; subst. rewrite render_cons. unfold tok_text. rewrite Ht.
  destruct r as [|t2 r2].
  - simpl. rewrite !app_nil_r. reflexivity.
  - rewrite IH by (try discriminate; exact Hr).
    rewrite (group_text_cons t (t2 :: r2)), (ltail_cons t (t2 :: r2)) by discriminate.
    simpl. rewrite <- !app_assoc. reflexivity.
Qed.

Lemma render_decomp seg : heads_ok seg -> seg <> [] -> render seg = fhead seg ++ group_text seg ++ ltail seg.
Proof.
  destruct seg as [|t r]; intros Hh Hne; [congruence|]. unfold heads_ok in Hh. simpl in Hh.
  rewrite render_cons. unfold tok_text. simpl fhead.
  destruct r as [|t2 r2].
  - simpl. rewrite !app_nil_r. reflexivity.
  - rewrite render_hn by (try discriminate; exact Hh).
    rewrite (group_text_cons t (t2 :: r2)), (ltail_cons t (t2 :: r2)) by discriminate.
    rewrite <- !app_assoc. reflexivity.
Qed.

Lemma heads_ok_app_r a b : heads_ok (a ++ b) -> heads_ok b.
Proof.
  unfold heads_ok. destruct a as [|t a]; [auto|]. simpl. intros H. apply Forall_app in H.
  destruct H as [_ H]. destruct b; [constructor|]. inversion H; assumption.
Qed.
Lemma heads_ok_app_l a b : heads_ok (a ++ b) -> heads_ok a.
Proof.
  unfold heads_ok. destruct a as [|t a]; [constructor|]. simpl. intros H. apply Forall_app in H. apply H.
Qed.
Lemma heads_ok_hn a b : a <> [] -> heads_ok (a ++ b) -> Forall hn b.
Proof.
  unfold heads_ok. destruct a as [|t a]; [congruence|]. simpl. intros _ H. apply Forall_app in H. apply H.
Qed.

Lemma render_concat segs : render (concat segs) = concat (map render segs).
Proof. induction segs as [|s segs IH]; [reflexivity|]. simpl. rewrite render_app, IH. reflexivity. Qed.

(* ================================================================ B. the lexer's heads *)

Lemma add_tail_head t w : tk_head (add_tail t w) = tk_head t.
Proof. reflexivity. Qed.

Lemma heads_ok_snoc l t : l <> [] -> heads_ok l -> hn t -> heads_ok (l ++ [t]).
Proof.
  unfold heads_ok. destruct l as [|x l]; [congruence|]. simpl. intros _ H Ht.
  apply Forall_app. split; [exact H|constructor; [exact Ht|constructor]].
Qed.

Lemma fold_heads : forall raws racc pos after,
  raw_ok pos after raws -> 0 < pos -> racc <> [] -> heads_ok (rev racc) ->
  heads_ok (head_tail_fold raws None racc) /\ fhead (head_tail_fold raws None racc) = fhead (rev racc).
Proof.
  induction raws as [|r raws IH]; intros racc pos after Hok Hpos Hne Hh; simpl; [auto|].
  simpl in Hok. destruct Hok as [Hp [Hl [_ Hrest]]].
  destruct (rk_kind r) eqn:Hk.
  - assert (E : Nat.eqb (rk_pos r) 0 = false) by (apply Nat.eqb_neq; lia). rewrite E.
    destruct racc as [|lastt racc']; [congruence|].
    destruct (IH (add_tail lastt (rk_lexeme r) :: racc') _ _ Hrest ltac:(lia) ltac:(discriminate)) as [H1 H2].
    + simpl in Hh |- *. destruct racc' as [|y racc''].
      * simpl. constructor.
      * destruct (rev (y :: racc'')) as [|z zs] eqn:Er.
        { exfalso. apply (f_equal (@length token)) in Er. rewrite rev_length in Er. discriminate. }
        simpl in Hh |- *. apply Forall_app in Hh. destruct Hh as [Ha Hb]. apply Forall_app. split; [exact Ha|].
        inversion Hb; subst. constructor; [assumption|constructor].
    + split; [exact H1|]. rewrite H2. simpl. destruct (rev racc'); reflexivity.
  - destruct (IH (mkTok t (rk_lexeme r) (rk_pos r) [] [] :: racc) _ _ Hrest ltac:(lia) ltac:(discriminate)) as [H1 H2].
    + simpl. apply heads_ok_snoc; [|exact Hh|reflexivity].
      destruct racc; [congruence|]. simpl. destruct (rev racc); discriminate.
    + split; [exact H1|]. rewrite H2. simpl. apply fhead_app.
      destruct racc; [congruence|]. simpl. destruct (rev racc); discriminate.
Qed.

(* `lex` gives a head to the first token only, and that head is blank *)
Theorem lex_heads s toks : lex s = (toks, None) -> heads_ok toks /\ all_space (fhead toks) = true.
Proof.
  unfold lex. destruct (lex_raw (S (length s)) [] 0 s) as [raws e0] eqn:Hraw.
  intros H; inversion H; subst; clear H.
  destruct (lex_raw_spec _ _ _ _ _ _ false Hraw) as [_ [Hok _]]; [lia|discriminate|].
  pose proof (lex_raw_rchain _ _ _ _ _ Hraw ltac:(lia)) as Hch.
  destruct raws as [|r1 raws]; [split; [constructor|reflexivity]|].
  inversion Hch as [|rp0 k l r p raws0 Hone Hrc]; subst.
  simpl in Hok. destruct Hok as [Hp1 [Hl1 [_ Hrest]]]. simpl in Hp1, Hl1, Hrest. subst p.
  assert (Hpos1 : 0 < 0 + length l) by (destruct l; [congruence|simpl; lia]).
  simpl. destruct k as [|k1].
  - simpl. pose proof (lex_one_sep_space _ _ _ _ Hone) as Hw.
    destruct raws as [|r2 raws]; [split; [constructor|reflexivity]|].
    simpl in Hrest. destruct Hrest as [Hp2 [Hl2 [Hns2 Hrest2]]].
    simpl. destruct (rk_kind r2) eqn:Hk2; [exfalso; apply Hns2; reflexivity|].
    destruct (fold_heads raws [mkTok t (rk_lexeme r2) (rk_pos r2) l []] _ _ Hrest2) as [H1 H2];
      [lia|discriminate|constructor|].
    split; [exact H1|]. rewrite H2. simpl. exact Hw.
  - destruct (fold_heads raws [mkTok k1 l 0 [] []] _ _ Hrest) as [H1 H2]; [lia|discriminate|constructor|].
    split; [exact H1|]. rewrite H2. reflexivity.
Qed.

Lemma all_space_app_inv a b : all_space (a ++ b) = true -> all_space a = true /\ all_space b = true.
Proof. rewrite all_space_app. apply andb_prop. Qed.

(* ================================================================ C. the link *)

(* the chunk c is the text of the token group g, possibly preceded by a piece of g's first head and followed
   by a piece of g's last tail *)
Definition chunk_rel (c : str) (g : list token) : Prop :=
  exists h h' w w', c = h ++ group_text g ++ w /\ h' ++ h = fhead g /\ w ++ w' = ltail g.

Definition groups_of (cs : list str) (seg : list token) : Prop :=
  exists groups, concat groups = seg /\ Forall (fun g => g <> []) groups /\ Forall2 chunk_rel cs groups.

Definition term_link (i : item) (seg : list token) : Prop :=
  match i with
  | Term _ m v => exists t, seg = [t] /\ v = tk_lexeme t /\ m_head m = tk_head t /\ m_tail m = tk_tail t
  | _ => True
  end.

Definition blink (v : symval) (seg : list token) : Prop :=
  match v with
  | VTok l _ m => exists t, seg = [t] /\ tk_lexeme t = l /\ tk_head t = m_head m /\ tk_tail t = m_tail m
  | VItem i =>
      seg <> [] /\ print true i = render seg /\
      (exists h, head_of i ++ h = fhead seg) /\ (exists w, w ++ tail_of i = ltail seg) /\
      term_link i seg /\ groups_of (chunk_texts i) seg
  end.

Lemma groups_of_app c1 s1 c2 s2 : groups_of c1 s1 -> groups_of c2 s2 -> groups_of (c1 ++ c2) (s1 ++ s2).
Proof.
  intros [g1 [E1 [N1 R1]]] [g2 [E2 [N2 R2]]]. exists (g1 ++ g2). split; [|split].
  - rewrite concat_app, E1, E2. reflexivity.
  - apply Forall_app. auto.
  - apply Forall2_app; assumption.
Qed.

Lemma groups_of_nil : groups_of [] [].
Proof. exists []. repeat split; constructor. Qed.

Lemma groups_single c seg : seg <> [] -> chunk_rel c seg -> groups_of [c] seg.
Proof.
  intros Hne Hc. exists [seg]. split; [simpl; apply app_nil_r|]. split; repeat constructor; assumption.
Qed.

Lemma chunk_rel_exact g : chunk_rel (group_text g) g.
Proof. exists [], (fhead g), [], (ltail g). simpl. rewrite !app_nil_r. auto. Qed.

Lemma chunk_texts_set_meta i m : chunk_texts (set_meta i m) = chunk_texts i.
Proof. destruct i; reflexivity. Qed.
Lemma chunk_texts_add_head i s : chunk_texts (add_head i s) = chunk_texts i.
Proof. apply chunk_texts_set_meta. Qed.
Lemma chunk_texts_add_tail i s : chunk_texts (add_tail_i i s) = chunk_texts i.
Proof. apply chunk_texts_set_meta. Qed.

Lemma blink_text v seg : blink v seg -> full_text v = render seg.
Proof.
  destruct v as [i|l x m]; simpl.
  - intros [_ [H _]]. exact H.
  - intros [t [-> [Hl [Hh Ht]]]]. rewrite <- Hl, <- Hh, <- Ht. unfold render. simpl. rewrite app_nil_r. reflexivity.
Qed.

Lemma blinks_text : forall args segs, Forall2 blink args segs ->
  concat (map full_text args) = render (concat segs).
Proof.
  induction 1 as [|v sg args segs Hb _ IH]; [reflexivity|]. simpl.
  rewrite render_app, (blink_text _ _ Hb), IH. reflexivity.
Qed.

Definition is_simple (i : item) : Prop :=
  match i with
  | Term _ _ _ | SearchField _ _ _ | Grp _ _ _ | Op _ _ _ | NoneItem _ => False
  | _ => True
  end.

(* a simple element that prints its tokens is one chunk: the text of its token group with the pieces of the
   first head / last tail that stayed on inner nodes *)
Lemma blink_simple i seg :
  is_simple i -> seg <> [] -> heads_ok seg -> print true i = render seg ->
  (exists h, head_of i ++ h = fhead seg) -> (exists w, w ++ tail_of i = ltail seg) ->
  blink (VItem i) seg.
Proof.
  intros Hs Hne Hh Hp [h Eh] [w Ew]. simpl. split; [exact Hne|]. split; [exact Hp|].
  split; [eauto|]. split; [eauto|]. split; [destruct i; simpl in Hs; try exact I; destruct Hs|].
  assert (Hn : not_none i) by (destruct i; simpl in Hs |- *; auto).
  assert (Ec : chunk_texts i = [print false i]) by (destruct i; simpl in Hs; try destruct Hs; reflexivity).
  rewrite Ec. apply groups_single; [exact Hne|].
  exists h, (head_of i), w, (tail_of i). split; [|auto].
  rewrite (print_true_split i Hn), (render_decomp seg Hh Hne), <- Eh, <- Ew in Hp.
  rewrite <- !app_assoc in Hp. apply app_inv_head in Hp.
  rewrite !app_assoc in Hp. apply app_inv_tail in Hp. rewrite <- !app_assoc in Hp. exact Hp.
Qed.

Lemma blink_token t : blink (token_value t) [t].
Proof.
  assert (Hterm : forall k, blink (VItem (Term k
      (mkMeta (Some (Z.of_nat (tk_pos t))) (Some (zlen (tk_lexeme t))) (tk_head t) (tk_tail t) None)
      (tk_lexeme t))) [t]).
  { intros k. simpl. split; [discriminate|]. split.
    { unfold wrap, render, tok_text. simpl. rewrite app_nil_r. reflexivity. }
    split; [exists []; apply app_nil_r|]. split; [exists []; reflexivity|].
    split; [exists t; auto|]. apply groups_single; [discriminate|]. apply (chunk_rel_exact [t]). }
  unfold token_value. destruct (tk_type t); try apply Hterm; simpl; exists t; auto.
Qed.

(* ---- operations *)

Lemma ops_texts_cons f op x l :
  ops_texts f op (x :: l) = f x ++ (match l with [] => [] | _ => op_chunk op end) ++ ops_texts f op l.
Proof. reflexivity. Qed.

Lemma ops_texts_app f op : forall l1 l2, l1 <> [] -> l2 <> [] ->
  ops_texts f op (l1 ++ l2) = ops_texts f op l1 ++ op_chunk op ++ ops_texts f op l2.
Proof.
  induction l1 as [|x l1 IH]; intros l2 H1 H2; [congruence|].
  destruct l1 as [|y l1].
  - simpl app. rewrite !ops_texts_cons. destruct l2; [congruence|]. simpl. rewrite !app_nil_r. reflexivity.
  - change ((x :: y :: l1) ++ l2) with (x :: (y :: l1) ++ l2). rewrite ops_texts_cons.
    rewrite IH by (try discriminate; exact H2). rewrite (ops_texts_cons f op x (y :: l1)).
    simpl app. rewrite <- !app_assoc. reflexivity.
Qed.

Lemma chunk_texts_op k m ops : chunk_texts (Op k m ops) = ops_texts chunk_texts (opk_op k) ops.
Proof. reflexivity. Qed.

Lemma opk_op_text k : opk_op k = op_text k.
Proof. reflexivity. Qed.

Local Opaque htm_pos.

Lemma binary_blink k a opv b v evs sa so sb :
  binary k a opv b = Ok (v, evs) -> all_trivial evs ->
  blink (VItem a) sa -> blink (VItem b) sb ->
  match opv with
  | Some o => (exists l x m, o = VTok l x m) /\ blink o so /\ opk_op k <> []
  | None => so = [] /\ opk_op k = []
  end ->
  all_ops_nonempty a = true -> all_ops_nonempty b = true ->
  full_text v = render (sa ++ so ++ sb) ->
  blink v (sa ++ so ++ sb).
Proof.
  unfold binary. intros H Htriv Ba Bb Ho Hna Hnb Hfull.
  set (a_same := match a with Op k' _ _ => opk_eqb k k' | _ => false end) in *.
  set (b_same := match b with Op k' _ _ => opk_eqb k k' | _ => false end) in *.
  set (opsA := if a_same then children a else [a]) in *.
  destruct (if b_same then children b else [b]) as [|b0 brest] eqn:HopsB; [discriminate|].
  destruct (htm_pos _ false false) as [pos size].
  inversion H; subst; clear H.
  destruct Ba as [Hsa [_ [_ [_ [_ Ga]]]]]. destruct Bb as [Hsb [_ [_ [_ [_ Gb]]]]].
  set (op_tail := match opv with Some o => sv_tail o | None => [] end) in *.
  unfold blink. split; [destruct sa; [congruence|discriminate]|]. split; [exact Hfull|].
  split; [exists (fhead (sa ++ so ++ sb)); reflexivity|].
  split; [exists (ltail (sa ++ so ++ sb)); apply app_nil_r|]. split; [exact I|].
  rewrite chunk_texts_op.
  assert (HA : opsA <> [] /\ ops_texts chunk_texts (opk_op k) opsA = chunk_texts a).
  { subst opsA. destruct a_same eqn:Has.
    - subst a_same. destruct a; try discriminate. apply opk_eqb_eq in Has. subst k0. simpl children.
      split; [|reflexivity]. simpl in Hna. destruct ops; [discriminate|discriminate].
    - split; [discriminate|]. rewrite ops_texts_cons. simpl. rewrite app_nil_r. reflexivity. }
  assert (HB : ops_texts chunk_texts (opk_op k) (add_head b0 op_tail :: brest) = chunk_texts b).
  { rewrite ops_texts_cons, chunk_texts_add_head, <- ops_texts_cons, <- HopsB.
    destruct b_same eqn:Hbs.
    - subst b_same. destruct b; try discriminate. apply opk_eqb_eq in Hbs. subst k0. reflexivity.
    - rewrite ops_texts_cons. simpl. rewrite app_nil_r. reflexivity. }
  destruct HA as [HA1 HA2]. rewrite ops_texts_app by (try discriminate; exact HA1). rewrite HA2, HB.
  apply groups_of_app; [exact Ga|]. apply groups_of_app; [|exact Gb].
  destruct opv as [o|].
  - destruct Ho as [[l [x [m ->]]] [Bo Hne]]. destruct Bo as [t [-> [Hl _]]].
    apply all_trivial_app in Htriv. destruct Htriv as [_ Hr].
    inversion Hr as [|? ? Hre _]; subst. simpl in Hre.
    unfold op_chunk. destruct (opk_op k) as [|c0 o0] eqn:E; [congruence|]. rewrite <- E.
    apply groups_single; [discriminate|]. rewrite opk_op_text, <- Hre. apply (chunk_rel_exact [t]).
  - destruct Ho as [-> ->]. exact groups_of_nil.
Qed.

(* ================================================================ D. every action keeps the link *)

Lemma F2_inv1 {A B} (R : A -> B -> Prop) a l : Forall2 R [a] l -> exists x, l = [x] /\ R a x.
Proof. intros H. inversion H as [|? ? ? ? H1 H2]; subst. inversion H2; subst. eauto. Qed.
Lemma F2_inv2 {A B} (R : A -> B -> Prop) a b l : Forall2 R [a; b] l ->
  exists x y, l = [x; y] /\ R a x /\ R b y.
Proof.
  intros H. inversion H as [|? ? ? ? H1 H2]; subst. apply F2_inv1 in H2. destruct H2 as [y0 [-> H2]]. eauto.
Qed.
Lemma F2_inv3 {A B} (R : A -> B -> Prop) a b c l : Forall2 R [a; b; c] l ->
  exists x y z, l = [x; y; z] /\ R a x /\ R b y /\ R c z.
Proof.
  intros H. inversion H as [|? ? ? ? H1 H2]; subst. apply F2_inv2 in H2.
  destruct H2 as [y0 [z0 [-> [H2 H3]]]]. eauto 8.
Qed.
Lemma F2_inv5 {A B} (R : A -> B -> Prop) a b c d e l : Forall2 R [a; b; c; d; e] l ->
  exists x y z u w, l = [x; y; z; u; w] /\ R a x /\ R b y /\ R c z /\ R d u /\ R e w.
Proof.
  intros H. inversion H as [|? ? ? ? H1 H2]; subst. inversion H2 as [|? ? ? ? H3 H4]; subst.
  apply F2_inv3 in H4. destruct H4 as [z0 [u0 [w0 [-> [H4 [H5 H6]]]]]]. eauto 12.
Qed.

Lemma concat1 {A} (a : list A) : concat [a] = a.
Proof. simpl. apply app_nil_r. Qed.
Lemma concat2 {A} (a b : list A) : concat [a; b] = a ++ b.
Proof. simpl. rewrite app_nil_r. reflexivity. Qed.
Lemma concat3 {A} (a b c : list A) : concat [a; b; c] = a ++ b ++ c.
Proof. simpl. rewrite app_nil_r. reflexivity. Qed.
Lemma concat5 {A} (a b c d e : list A) : concat [a; b; c; d; e] = a ++ b ++ c ++ d ++ e.
Proof. simpl. rewrite app_nil_r. reflexivity. Qed.

Lemma ltail_snoc a t : ltail (a ++ [t]) = tk_tail t.
Proof. rewrite ltail_app by discriminate. reflexivity. Qed.

Lemma chunk_texts_grp k m e : chunk_texts (Grp k m e) = [s_lparen] ++ chunk_texts e ++ [s_rparen].
Proof. reflexivity. Qed.
Lemma chunk_texts_field m n e : chunk_texts (SearchField m n e) = [n ++ [c_colon]] ++ chunk_texts e.
Proof. reflexivity. Qed.
Lemma chunk_texts_fieldgroup e :
  chunk_texts (match e with Grp KGroup m x => Grp KFieldGroup (clone_meta_nameless m) x | _ => e end) = chunk_texts e.
Proof. destruct e; try reflexivity. destruct k; reflexivity. Qed.

Ltac unary_blink H Hbl Hh Hfull :=
  let sa := fresh "sa" in let sb := fresh "sb" in let B1 := fresh "B" in let B2 := fresh "B" in
  let t := fresh "t" in let Hl := fresh "Hl" in let Hhd := fresh "Hhd" in let Htl := fresh "Htl" in
  unfold unary_ht in H; inv_ok H;
  destruct (F2_inv2 _ _ _ _ Hbl) as (sa & sb & -> & B1 & B2); rewrite concat2 in *;
  destruct B1 as [t [-> [Hl [Hhd Htl]]]];
  apply blink_simple; [exact I|discriminate|exact Hh|exact Hfull| |];
  [exists []; simpl; rewrite app_nil_r; symmetry; exact Hhd|eexists; simpl tail_of; apply app_nil_r].

Ltac post_blink H Hbl Hh Hfull :=
  let sa := fresh "sa" in let sb := fresh "sb" in let B1 := fresh "B" in let B2 := fresh "B" in
  let t := fresh "t" in let Hl := fresh "Hl" in let Hhd := fresh "Hhd" in let Htl := fresh "Htl" in
  unfold post_unary_ht in H; inv_ok H;
  destruct (F2_inv2 _ _ _ _ Hbl) as (sa & sb & -> & B1 & B2); rewrite concat2 in *;
  destruct B2 as [t [-> [Hl [Hhd Htl]]]];
  apply blink_simple; [exact I|destruct sa; discriminate|exact Hh|exact Hfull| |];
  [eexists; simpl head_of; reflexivity|exists []; simpl; rewrite ltail_snoc; symmetry; exact Htl].

Theorem run_action_blink a args segs v evs :
  run_action a args = Ok (v, evs) -> all_trivial evs ->
  Forall2 blink args segs -> heads_ok (concat segs) ->
  Forall val_ok args -> Forall children_ok args -> Forall val_inv args ->
  blink v (concat segs).
Proof.
  intros H Ht Hbl Hh Hok Hch Hinv.
  destruct (run_action_text _ _ _ _ H Ht Hok Hch) as [Hfull [Hvok _]].
  rewrite (blinks_text _ _ Hbl) in Hfull.
  assert (Hunit : forall x, args = [x] -> v = x -> blink v (concat segs)).
  { intros x E1 E2. subst. destruct (F2_inv1 _ _ _ Hbl) as [s1 [-> B1]]. rewrite concat1. exact B1. }
  destruct a; simpl in H;
    repeat match type of H with
    | match ?l with [] => _ | _ :: _ => _ end = _ => destruct l as [|? ?]; try discriminate
    | match ?x with VItem _ => _ | VTok _ _ _ => _ end = _ => destruct x; try discriminate
    | match ?o with Some _ => _ | None => _ end = _ => destruct o eqn:?; try discriminate
    | match ?i with Term _ _ _ => _ | _ => _ end = _ => destruct i; try discriminate
    end;
    try (inv_ok H; eapply Hunit; reflexivity).
  all: repeat match goal with
       | Hx : Forall val_inv (_ :: _) |- _ => apply Forall_cons_iff in Hx; destruct Hx as [? Hx]
       end.
  all: simpl val_inv in *.
  - (* or *)
    destruct (F2_inv3 _ _ _ _ _ Hbl) as (sa & so & sb & -> & Ba & Bo & Bb). rewrite concat3 in *.
    eapply binary_blink; [exact H|exact Ht|exact Ba|exact Bb| |assumption|assumption|exact Hfull].
    split; [eauto|]. split; [exact Bo|]. vm_compute. discriminate.
  - (* and *)
    destruct (F2_inv3 _ _ _ _ _ Hbl) as (sa & so & sb & -> & Ba & Bo & Bb). rewrite concat3 in *.
    eapply binary_blink; [exact H|exact Ht|exact Ba|exact Bb| |assumption|assumption|exact Hfull].
    split; [eauto|]. split; [exact Bo|]. vm_compute. discriminate.
  - (* implicit *)
    destruct (F2_inv2 _ _ _ _ Hbl) as (sa & sb & -> & Ba & Bb). rewrite concat2 in *.
    change (sa ++ sb) with (sa ++ [] ++ sb) in *.
    eapply binary_blink; [exact H|exact Ht|exact Ba|exact Bb| |assumption|assumption|exact Hfull].
    split; reflexivity.
  - (* plus *) unary_blink H Hbl Hh Hfull.
  - (* minus *) unary_blink H Hbl Hh Hfull.
  - (* not *) unary_blink H Hbl Hh Hfull.
  - (* grouping *)
    inv_ok H. destruct (F2_inv3 _ _ _ _ _ Hbl) as (s1 & s2 & s3 & -> & B1 & B2 & B3). rewrite concat3 in *.
    destruct B1 as [t1 [-> [Hl1 [Hh1 Ht1]]]]. destruct B3 as [t3 [-> [Hl3 [Hh3 Ht3]]]].
    destruct B2 as [Hs2 [_ [_ [_ [_ G2]]]]].
    apply Forall_cons_iff in Ht. destruct Ht as [E1 Ht]. apply Forall_cons_iff in Ht. destruct Ht as [E3 _].
    simpl in E1, E3.
    unfold blink. split; [discriminate|]. split; [exact Hfull|].
    split; [exists []; simpl; rewrite app_nil_r; symmetry; exact Hh1|].
    split; [exists []; change ([t1] ++ s2 ++ [t3]) with ((t1 :: s2) ++ [t3]); rewrite ltail_snoc; simpl;
            symmetry; exact Ht3|].
    split; [exact I|].
    rewrite chunk_texts_grp, chunk_texts_add_tail, chunk_texts_add_head.
    apply groups_of_app; [|apply groups_of_app; [exact G2|]].
    + apply groups_single; [discriminate|]. unfold s_lparen. rewrite <- E1, <- Hl1. apply (chunk_rel_exact [t1]).
    + apply groups_single; [discriminate|]. unfold s_rparen. rewrite <- E3, <- Hl3. apply (chunk_rel_exact [t3]).
  - (* range *)
    inv_ok H. destruct (F2_inv5 _ _ _ _ _ _ _ Hbl) as (s1 & s2 & s3 & s4 & s5 & -> & B1 & B2 & B3 & B4 & B5).
    rewrite concat5 in *.
    destruct B1 as [t1 [-> [Hl1 [Hh1 Ht1]]]]. destruct B5 as [t5 [-> [Hl5 [Hh5 Ht5]]]].
    apply blink_simple; [exact I|discriminate|exact Hh|exact Hfull| |].
    + exists []. simpl. rewrite app_nil_r. symmetry. exact Hh1.
    + exists []. rewrite !app_assoc, ltail_snoc. simpl. symmetry. exact Ht5.
  - (* possibly negative *) unary_blink H Hbl Hh Hfull.
  - (* lessthan *) unary_blink H Hbl Hh Hfull.
  - (* greaterthan *) unary_blink H Hbl Hh Hfull.
  - (* field search *)
    inv_ok H. destruct (F2_inv3 _ _ _ _ _ Hbl) as (s1 & s2 & s3 & -> & B1 & B2 & B3). rewrite concat3 in *.
    destruct B1 as [_ [_ [_ [_ [[tw [-> [Hn [Hhw Htw]]]] _]]]]].
    destruct B2 as [tc [-> [Hlc [Hhc Htc]]]]. destruct B3 as [Hs3 [_ [_ [_ [_ G3]]]]].
    apply Forall_cons_iff in Ht. destruct Ht as [E1 Ht]. apply Forall_cons_iff in Ht. destruct Ht as [E2 Ht].
    apply Forall_cons_iff in Ht. destruct Ht as [E3 _]. simpl in E1, E2, E3.
    unfold blink. split; [discriminate|]. split; [exact Hfull|].
    split; [exists []; simpl; rewrite app_nil_r; exact Hhw|].
    split; [eexists; simpl tail_of; apply app_nil_r|]. split; [exact I|].
    rewrite chunk_texts_field, chunk_texts_add_head, chunk_texts_fieldgroup.
    change ([tw] ++ [tc] ++ s3) with ([tw; tc] ++ s3). apply groups_of_app; [|exact G3].
    apply groups_single; [discriminate|].
    exists [], (tk_head tw), [], (tk_tail tc). split; [|split; [apply app_nil_r|reflexivity]]. simpl.
    unfold tail_of in E1. simpl in E1. rewrite <- Htw, E1, Hlc, E3, <- Hn, app_nil_r. reflexivity.
  - (* proximity, explicit *) destruct (int_of_lexeme s); [|discriminate]. post_blink H Hbl Hh Hfull.
  - (* proximity, implicit *) post_blink H Hbl Hh Hfull.
  - (* boost, explicit *) destruct (dec_of_lexeme s); [|discriminate]. post_blink H Hbl Hh Hfull.
  - (* boost, implicit *) post_blink H Hbl Hh Hfull.
  - (* fuzzy, explicit *) destruct (dec_of_lexeme s); [|discriminate]. post_blink H Hbl Hh Hfull.
  - (* fuzzy, implicit *) post_blink H Hbl Hh Hfull.
  - (* TO as a term *)
    inv_ok H. destruct (F2_inv1 _ _ _ Hbl) as (s1 & -> & B1). rewrite concat1 in *.
    destruct B1 as [t [-> [Hl [Hhd Htl]]]].
    apply Forall_cons_iff in Ht. destruct Ht as [E1 _]. simpl in E1. subst.
    unfold blink. split; [discriminate|]. split; [exact Hfull|].
    split; [exists []; simpl; rewrite app_nil_r; symmetry; exact Hhd|].
    split; [exists []; simpl; symmetry; exact Htl|].
    split; [exists t; simpl; auto|].
    apply groups_single; [discriminate|]. simpl. apply (chunk_rel_exact [t]).
Qed.

(* ================================================================ E. the driver invariant, any tables *)

Section AnyTablesBridge.
  Variable tb : tables.
  Variable toks0 : list token.
  Hypothesis Hheads : heads_ok toks0.
  Hypothesis Hwf0 : Forall tok_wf toks0.

  Definition BInv (c : config) : Prop :=
    exists segs, Forall2 blink (c_vals c) segs /\ concat (rev segs) ++ c_toks c = toks0 /\
                 Forall val_ok (c_vals c) /\ Forall children_ok (c_vals c) /\ Forall val_inv (c_vals c).

  Ltac break H := repeat match type of H with
    | match ?x with _ => _ end = _ => destruct x eqn:?; try discriminate
    | (if ?b then _ else _) = _ => destruct b eqn:?; try discriminate
    end.

  Lemma reduce_binv c a (rhs : list sym) v evs g :
    BInv c ->
    run_action a (rev (firstn (length rhs) (c_vals c))) = Ok (v, evs) ->
    all_trivial evs ->
    BInv (mkCfg (g :: skipn (length rhs) (c_states c)) (v :: skipn (length rhs) (c_vals c))
                (c_toks c) (c_dropped c ++ evs)).
  Proof.
    intros [segs [Hl [Ht [Hok [Hch Hinv]]]]] Hact Hev.
    set (n := length rhs) in *.
    assert (Hla : Forall2 blink (rev (firstn n (c_vals c))) (rev (firstn n segs))) by (apply F2_rev, F2_firstn, Hl).
    assert (Hcat : toks0 = concat (rev (skipn n segs)) ++ concat (rev (firstn n segs)) ++ c_toks c).
    { rewrite <- Ht. rewrite <- (firstn_skipn n segs) at 1. rewrite rev_app_distr, concat_app, app_assoc.
      reflexivity. }
    assert (Hhm : heads_ok (concat (rev (firstn n segs)))).
    { pose proof Hheads as Hx. rewrite Hcat in Hx. apply heads_ok_app_r in Hx. apply heads_ok_app_l in Hx. exact Hx. }
    assert (Hok' : Forall val_ok (rev (firstn n (c_vals c)))) by (apply Forall_rev, Forall_firstn, Hok).
    assert (Hch' : Forall children_ok (rev (firstn n (c_vals c)))) by (apply Forall_rev, Forall_firstn, Hch).
    assert (Hinv' : Forall val_inv (rev (firstn n (c_vals c)))) by (apply Forall_rev, Forall_firstn, Hinv).
    destruct (run_action_text _ _ _ _ Hact Hev Hok' Hch') as [_ [H2 H3]].
    pose proof (run_action_inv _ _ _ _ Hact Hinv') as H4.
    pose proof (run_action_blink _ _ _ _ _ Hact Hev Hla Hhm Hok' Hch' Hinv') as Hb.
    exists (concat (rev (firstn n segs)) :: skipn n segs). simpl. split; [|split; [|split; [|split]]].
    - constructor; [exact Hb|apply F2_skipn, Hl].
    - rewrite Hcat. rewrite concat_app. simpl. rewrite app_nil_r, <- app_assoc. reflexivity.
    - constructor; [exact H2|apply Forall_skipn, Hok].
    - constructor; [exact H3|apply Forall_skipn, Hch].
    - constructor; [exact H4|apply Forall_skipn, Hinv].
  Qed.

  Lemma bstep_next lexerr c c' :
    step tb lexerr c = Next c' -> BInv c ->
    exists evs, c_dropped c' = c_dropped c ++ evs /\ (all_trivial evs -> BInv c').
  Proof.
    unfold step, do_shift, do_reduce, do_accept. intros H HI.
    destruct (c_toks c) as [|t rest] eqn:Htoks; simpl in H; break H; inversion H; subst; clear H; simpl.
    - eexists. split; [reflexivity|]. intros Hev.
      match goal with Hact : run_action _ _ = Ok _ |- _ =>
        epose proof (reduce_binv c _ _ _ _ _ HI Hact Hev) as R end.
      rewrite Htoks in R. exact R.
    - exists []. split; [rewrite app_nil_r; reflexivity|]. intros _.
      destruct HI as [segs [Hl [Ht [Hok [Hch Hinv]]]]]. rewrite Htoks in *.
      exists ([t] :: segs). simpl. split; [|split; [|split; [|split]]].
      + constructor; [apply blink_token|exact Hl].
      + rewrite <- Ht. rewrite concat_app. simpl. rewrite <- !app_assoc. reflexivity.
      + constructor; [apply token_value_ok|exact Hok].
      + constructor; [apply token_value_ok|exact Hch].
      + constructor; [apply token_value_inv|exact Hinv].
    - eexists. split; [reflexivity|]. intros Hev.
      match goal with Hact : run_action _ _ = Ok _ |- _ =>
        epose proof (reduce_binv c _ _ _ _ _ HI Hact Hev) as R end.
      rewrite Htoks in R. exact R.
  Qed.

  (* at acceptance without ghost event the whole token list is under the returned tree *)
  Lemma bstep_final_ok lexerr c t evs :
    step tb lexerr c = Final (Ok t) evs -> BInv c -> all_trivial evs -> blink (VItem t) toks0.
  Proof.
    unfold step, do_shift, do_reduce, do_accept. intros H [segs [Hl [Ht [Hok [Hch Hinv]]]]] Hev.
    assert (Hmain : forall i below, c_vals c = VItem i :: below ->
              all_trivial (drops [stack_text below; render (c_toks c);
                                  match lexerr with Some e => snd e | None => [] end]) ->
              blink (VItem i) toks0).
    { intros i below Hv Hd. apply all_trivial_drops in Hd.
      apply Forall_cons_iff in Hd. destruct Hd as [E1 Hd]. apply Forall_cons_iff in Hd. destruct Hd as [E2 _].
      pose proof Hwf0 as Hwf. rewrite <- Ht in Hwf. apply Forall_app in Hwf. destruct Hwf as [Hw1 Hw2].
      apply render_nil_inv in E2; [|exact Hw2].
      rewrite Hv in Hl. revert Ht Hw1. inversion Hl as [|? sg ? segs' Hli Hlb]; subst. intros Ht Hw1.
      rewrite E2, app_nil_r in Ht. simpl in Ht, Hw1. rewrite concat_app in Ht, Hw1. simpl in Ht, Hw1.
      rewrite app_nil_r in Ht, Hw1. apply Forall_app in Hw1. destruct Hw1 as [Hw1 _].
      assert (Hb : concat (rev segs') = []).
      { apply render_nil_inv; [exact Hw1|]. rewrite <- (blinks_text (rev below) (rev segs')); [exact E1|].
        apply F2_rev. exact Hlb. }
      rewrite Hb in Ht. simpl in Ht. subst sg. exact Hli. }
    destruct (c_toks c) as [|tk rest] eqn:Htoks; simpl in H; break H; inversion H; subst; clear H;
      eapply Hmain; try reflexivity; exact Hev.
  Qed.

  Lemma brun_linked lexerr : forall fuel c t evs,
    run tb lexerr fuel c = Done (Ok t) evs -> BInv c ->
    (forall evs', evs = c_dropped c ++ evs' -> all_trivial evs') -> blink (VItem t) toks0.
  Proof.
    induction fuel as [|f IH]; intros c t evs H HI Hev; simpl in H; [discriminate|].
    destruct (step tb lexerr c) as [c'|r evs1] eqn:Hs.
    - destruct (bstep_next _ _ _ Hs HI) as [evs2 [Hd HI']].
      destruct (run_dropped_prefix _ _ _ _ _ _ H) as [rest Hrest].
      eapply IH; [exact H| |].
      + apply HI'. specialize (Hev (evs2 ++ rest)).
        assert (Ha : all_trivial (evs2 ++ rest)) by (apply Hev; rewrite Hrest, Hd, <- app_assoc; reflexivity).
        apply all_trivial_app in Ha. apply Ha.
      + intros evs' He. specialize (Hev (evs2 ++ evs')).
        assert (Ha : all_trivial (evs2 ++ evs')) by (apply Hev; rewrite He, Hd, <- app_assoc; reflexivity).
        apply all_trivial_app in Ha. apply Ha.
    - inversion H; subst; clear H. eapply bstep_final_ok; [exact Hs|exact HI|].
      apply Hev. reflexivity.
  Qed.
End AnyTablesBridge.

(* THE BRIDGE, any tables: a parse without ghost event returns a tree whose chunk sequence is, chunk by
   chunk, the text of consecutive non-empty groups of the query's tokens *)
Theorem parse_with_linked tb s t evs :
  parse_with tb s = Done (Ok t) evs -> all_trivial evs -> snd (lex s) = None ->
  blink (VItem t) (fst (lex s)).
Proof.
  unfold parse_with. destruct (lex s) as [toks e] eqn:Hlex. intros H Hev He. simpl in He. subst e. simpl.
  destruct (run_dropped_prefix _ _ _ _ _ _ H) as [rest Hrest]. simpl in Hrest.
  destruct (lex_heads _ _ Hlex) as [Hh _].
  eapply (brun_linked tb toks Hh (lex_tokens_wf _ _ _ Hlex)); [exact H| |].
  - exists []. simpl. repeat split; constructor.
  - intros evs' He. simpl in He. subst evs. apply app_inv_head in He. subst evs'.
    apply all_trivial_app in Hev. apply Hev.
Qed.

Theorem parse_with_groups tb s t evs :
  parse_with tb s = Done (Ok t) evs -> all_trivial evs -> snd (lex s) = None ->
  groups_of (chunk_texts t) (fst (lex s)).
Proof. intros H Hev He. apply (parse_with_linked tb s t evs H Hev He). Qed.

(* ================================================================ F. the round trip *)
Require Import C01 Lrespace LrespaceC18.

(* ---- blank heads and tails *)
Definition blank_ht (t : token) : Prop := all_space (tk_head t) = true /\ all_space (tk_tail t) = true.

Lemma lex_blank s toks : lex s = (toks, None) -> toks <> [] -> Forall blank_ht toks.
Proof.
  intros Hlex Hne. destruct (lex_heads _ _ Hlex) as [Hh Hb].
  destruct (lex_tchain _ _ Hlex Hne) as [h0 [s1 [_ Hch]]]. pose proof (tchain_tails _ _ _ Hch) as Ht.
  destruct toks as [|t0 r]; [congruence|]. inversion Ht as [|? ? Ht0 Htr]; subst.
  constructor; [split; assumption|]. unfold heads_ok in Hh. simpl in Hh.
  clear - Hh Htr. induction r as [|t r IH]; [constructor|].
  inversion Hh; subst. inversion Htr; subst. constructor; [|apply IH; assumption].
  split; [|assumption]. match goal with Hx : hn t |- _ => rewrite Hx end. reflexivity.
Qed.

Lemma Forall_concat_inv {A} (P : A -> Prop) : forall ls, Forall P (concat ls) -> Forall (Forall P) ls.
Proof.
  induction ls as [|l ls IH]; simpl; intros H; [constructor|]. apply Forall_app in H. destruct H as [H1 H2].
  constructor; auto.
Qed.

Lemma blank_fhead g : Forall blank_ht g -> all_space (fhead g) = true.
Proof. destruct g; [reflexivity|]. intros H. inversion H as [|? ? [Hx _] _]; subst. exact Hx. Qed.
Lemma blank_ltail : forall g, Forall blank_ht g -> all_space (ltail g) = true.
Proof.
  induction g as [|t r IH]; [reflexivity|]. intros H. inversion H as [|? ? [_ Hx] Hr]; subst.
  destruct r; [exact Hx|]. rewrite ltail_cons by discriminate. apply IH. exact Hr.
Qed.

(* the chunk is the group's text between blanks *)
Definition chunk_relb (c : str) (g : list token) : Prop :=
  exists h w, c = h ++ group_text g ++ w /\ all_space h = true /\ all_space w = true.

Lemma chunk_rel_blank c g : Forall blank_ht g -> chunk_rel c g -> chunk_relb c g.
Proof.
  intros Hb [h [h' [w [w' [E [Eh Ew]]]]]]. exists h, w. split; [exact E|].
  pose proof (blank_fhead _ Hb) as H1. pose proof (blank_ltail _ Hb) as H2. rewrite <- Eh in H1. rewrite <- Ew in H2.
  apply all_space_app_inv in H1. apply all_space_app_inv in H2. split; [apply H1|apply H2].
Qed.

Lemma chunk_rels_blank : forall cs groups, Forall (Forall blank_ht) groups ->
  Forall2 chunk_rel cs groups -> Forall2 chunk_relb cs groups.
Proof.
  intros cs groups Hb H. induction H as [|c g cs groups Hc _ IH]; [constructor|].
  inversion Hb; subst. constructor; [apply chunk_rel_blank; assumption|apply IH; assumption].
Qed.

(* ---- the chunks glued by separators: a chunked re-spacing between a blank head and a blank trailer *)
Lemma glued_wglued_trail : forall cs p, glued cs p -> forall groups, Forall2 chunk_relb cs groups ->
  exists h p2 w, p = h ++ p2 ++ w /\ all_space h = true /\ all_space w = true /\
                 wglued (map group_text groups) p2.
Proof.
  induction 1 as [c|c sep cs s Hs Hg IH]; intros groups HF.
  - inversion HF as [|? g ? gs [h [w [E [Hh Hw]]]] Hnil]; subst. inversion Hnil; subst.
    exists h, (group_text g), w. repeat split; try assumption. apply wg_one.
  - inversion HF as [|? g ? gs [h [w [E [Hh Hw]]]] Hrest]; subst.
    destruct (IH gs Hrest) as [h2 [p2 [w2 [E2 [Hh2 [Hw2 Hgl]]]]]]. subst s.
    destruct (ws_sep_blank _ Hs) as [Hne Hsp].
    exists h, (group_text g ++ (w ++ sep ++ h2) ++ p2), w2. split; [|split; [exact Hh|split; [exact Hw2|]]].
    + rewrite <- !app_assoc. reflexivity.
    + simpl. apply wg_cons; [|rewrite !all_space_app, Hw, Hsp, Hh2; reflexivity|exact Hgl].
      intros E. apply app_eq_nil in E. destruct E as [_ E]. apply app_eq_nil in E. destruct E as [E _]. congruence.
Qed.

(* ---- L-respace, chunked form with a blank trailer *)
Lemma wglued_respacing_trail : forall groups p' w,
  wglued (map group_text groups) p' -> all_space w = true ->
  Forall (fun g => g <> []) groups ->
  Forall (fun t => all_space (tk_tail t) = true) (concat groups) ->
  exists ts', p' ++ w = body_text ts' /\ map tok_key ts' = map tok_key (concat groups) /\
              forallb (fun u => is_nil (tk_head u) && all_space (tk_tail u)) ts' = true /\
              seps_kept (concat groups) ts' = true.
Proof.
  intros groups p' w H Hw. remember (map group_text groups) as cs eqn:Ecs. revert groups Ecs.
  induction H as [c|c sep cs s Hne Hsp Hg IH]; intros groups Ecs Hgne Htails.
  - destruct groups as [|g [|g2 gs]]; try discriminate. simpl in Ecs. injection Ecs as Ec. subst c.
    simpl in Htails |- *. rewrite app_nil_r in *. inversion Hgne as [|g0 l0 Hg0 _]; subst.
    exists (retail g w). repeat split.
    + rewrite retail_text; [reflexivity|exact Hg0].
    + apply retail_keys.
    + apply retail_layout; [exact Hw|exact Htails].
    + rewrite <- (app_nil_r g) at 1. rewrite <- (app_nil_r (retail g w)).
      apply retail_seps; [exact Hg0|left; reflexivity|reflexivity].
  - destruct groups as [|g gs]; [discriminate|]. simpl in Ecs. injection Ecs as Ec Ecs'. subst c.
    inversion Hgne as [|g0 l0 Hg0 Hgs]; subst. simpl in Htails. apply Forall_app in Htails.
    destruct Htails as [Ht1 Ht2].
    destruct (IH gs eq_refl Hgs Ht2) as [ts1 [E1 [E2 [E3 E4]]]].
    exists (retail g sep ++ ts1). simpl. repeat split.
    + rewrite body_text_app, retail_text, <- !app_assoc, E1; [reflexivity|exact Hg0].
    + rewrite !map_app, retail_keys, E2. reflexivity.
    + rewrite forallb_app, E3, andb_true_r. apply retail_layout; assumption.
    + apply retail_seps; [exact Hg0|right; exact Hne|exact E4].
Qed.

Theorem L_respace_glued_trail s toks groups h p' w :
  lex s = (toks, None) -> toks <> [] -> toks = concat groups -> Forall (fun g => g <> []) groups ->
  all_space h = true -> all_space w = true -> wglued (map group_text groups) p' ->
  map tok_key (fst (lex (h ++ p' ++ w))) = map tok_key toks /\ snd (lex (h ++ p' ++ w)) = None.
Proof.
  intros Hlex Hne Hcat Hg Hh Hw Hgl.
  destruct (lex_tchain _ _ Hlex Hne) as [h0 [s1 [_ Hch]]].
  pose proof (tchain_tails _ _ _ Hch) as Htails. rewrite Hcat in Htails.
  destruct (wglued_respacing_trail _ _ _ Hgl Hw Hg Htails) as [ts' [E1 [E2 [E3 E4]]]].
  rewrite <- Hcat in E2, E4.
  assert (Hts : ts' <> []) by (destruct ts'; [destruct toks; [congruence|discriminate]|discriminate]).
  destruct ts' as [|t1 r1]; [congruence|].
  assert (Er : h ++ p' ++ w = render (set_head h (t1 :: r1))).
  { rewrite E1. simpl in E3. apply andb_true_iff in E3. destruct E3 as [E3a E3b].
    destruct (render_body _ E3b) as [Eren _].
    change (render (set_head h (t1 :: r1))) with
      (tok_text (mkTok (tk_type t1) (tk_lexeme t1) (tk_pos t1) h (tk_tail t1)) ++ render r1).
    rewrite Eren, body_text_cons. unfold tok_text. simpl. rewrite <- !app_assoc. reflexivity. }
  rewrite Er. apply (L_respace_main s toks _ Hlex Hne).
  - exact E2.
  - simpl in E3 |- *. apply andb_true_iff in E3. destruct E3 as [E3a E3b].
    apply andb_true_iff in E3a. destruct E3a as [_ E3a]. rewrite Hh, E3a, E3b. reflexivity.
  - destruct toks as [|t0 r0]; [congruence|]. simpl in E4 |- *. exact E4.
Qed.

(* ---- the bridge on the generated tables *)
Theorem parsed_chunks_token_groups s t :
  parse s = Some (Ok t) -> parse_events s = [] ->
  exists groups, fst (lex s) = concat groups /\ Forall (fun g => g <> []) groups /\
                 Forall2 chunk_relb (chunk_texts t) groups.
Proof.
  intros Hp Hne. destruct (parse_ok_lexes s t Hp) as [He Hnt].
  unfold parse, parse_events, parse_full in *.
  destruct (parse_with gen_tables s) as [r evs|] eqn:Hpw; [|discriminate]. inversion Hp; subst.
  destruct (parse_with_groups _ _ _ _ Hpw (filter_nil_trivial _ Hne) He) as [groups [E [Hg HF]]].
  exists groups. split; [symmetry; exact E|]. split; [exact Hg|].
  apply chunk_rels_blank; [|exact HF]. apply Forall_concat_inv. rewrite E.
  destruct (lex s) as [toks e] eqn:Hlex. simpl in *. subst e. eapply lex_blank; eassumption.
Qed.

(* C18's conclusion for a parsed query without ghost event and without a newline in a chunk *)
Theorem pretty_round_trip s t cfg p :
  parse s = Some (Ok t) -> parse_events s = [] -> no_newline_in_chunks t = true -> pretty cfg t = Some p ->
  exists t', parse p = Some (Ok t') /\ item_eqb t' t = true.
Proof.
  intros Hp Hne Hnl Hpr.
  destruct (parsed_chunks_token_groups s t Hp Hne) as [groups [Hcat [Hg HF]]].
  destruct (pretty_glued cfg t p Hnl Hpr) as [k [p' [E Hgl]]]. subst p.
  destruct (glued_wglued_trail _ _ Hgl groups HF) as [h [p2 [w [E [Hh [Hw Hwg]]]]]]. subst p'.
  destruct (parse_ok_lexes s t Hp) as [He Hnt].
  destruct (lex s) as [toks e] eqn:Hl. simpl in *. subst e.
  assert (Hk : map tok_key (fst (lex (sp k ++ h ++ p2 ++ w))) = map tok_key toks /\
               snd (lex (sp k ++ h ++ p2 ++ w)) = None).
  { rewrite app_assoc. apply (L_respace_glued_trail s toks groups (sp k ++ h) p2 w Hl Hnt Hcat Hg); try assumption.
    rewrite all_space_app, all_space_sp, Hh. reflexivity. }
  destruct Hk as [Hk Hn].
  assert (H : outcome_sim (parse_with gen_tables s) (parse_with gen_tables (sp k ++ h ++ p2 ++ w))).
  { apply parse_layout_independent.
    - rewrite Hl. simpl. symmetry. exact Hk.
    - rewrite Hl. simpl. split; intros _; [exact Hn|reflexivity]. }
  unfold parse, parse_full in *. destruct (parse_with gen_tables s) as [r1 e1|]; [|discriminate].
  destruct (parse_with gen_tables (sp k ++ h ++ p2 ++ w)) as [r2 e2|]; [|contradiction]. simpl in H.
  inversion Hp; subst. destruct r2 as [t2|[m|m|n]]; simpl in H; try discriminate.
  exists t2. split; [reflexivity|]. inversion H as [Her]. apply layout_erase_eqb. exact Her.
Qed.

(* ================================================================ G. newlines in the layout only *)
(* The prettifier replaces every newline INSIDE a chunk by a separator (that is F11 when the newline is inside a
   phrase or a regex).  When no token lexeme contains a newline, the newlines of a chunk are in the tails of the
   chunk's tokens (and in the pieces of head / tail around): replacing them re-tails the group, which is again
   a re-spacing. *)

Definition no_newline_in_lexemes (s : str) : bool :=
  forallb (fun t => negb (has_nl (tk_lexeme t))) (fst (lex s)).

Lemma nlr_app_inv : forall a b x, nlr (a ++ b) x -> exists xa xb, x = xa ++ xb /\ nlr a xa /\ nlr b xb.
Proof.
  induction a as [|c a IH]; intros b x H.
  - exists [], x. repeat split; [constructor|exact H].
  - simpl in H. inversion H as [|x0 c0 c' Hx Hr|c0 c' sep Hs Hr]; subst.
    + destruct (IH _ _ Hr) as [xa [xb [E [Ha Hb]]]]. subst c'. exists (c :: xa), xb.
      repeat split; [constructor; assumption|exact Hb].
    + destruct (IH _ _ Hr) as [xa [xb [E [Ha Hb]]]]. subst c'. exists (sep ++ xa), xb.
      rewrite <- app_assoc. repeat split; [constructor; assumption|exact Hb].
Qed.

Lemma nlr_blank a x : nlr a x -> all_space a = true -> all_space x = true /\ (a <> [] -> x <> []).
Proof.
  induction 1 as [|x0 c c' Hx H IH|c c' sep Hs H IH]; intros Ha.
  - split; [reflexivity|congruence].
  - change (all_space (x0 :: c)) with (is_space x0 && all_space c) in Ha.
    apply andb_prop in Ha. destruct Ha as [H1 H2]. destruct (IH H2) as [H3 _].
    split; [change (all_space (x0 :: c')) with (is_space x0 && all_space c'); rewrite H1, H3; reflexivity|discriminate].
  - change (all_space (c_nl :: c)) with (is_space c_nl && all_space c) in Ha.
    apply andb_prop in Ha. destruct Ha as [_ H2]. destruct (IH H2) as [H3 _].
    destruct (ws_sep_blank _ Hs) as [Hne Hsp].
    split; [rewrite all_space_app, Hsp, H3; reflexivity|].
    intros _ E. apply app_eq_nil in E. destruct E; congruence.
Qed.

(* same type and lexeme, a blank tail, not empty where the original is not *)
Definition tl_rel (t t' : token) : Prop :=
  tok_key t' = tok_key t /\ all_space (tk_tail t') = true /\ (tk_tail t <> [] -> tk_tail t' <> []).
Definition tok_ok (t : token) : Prop := has_nl (tk_lexeme t) = false /\ all_space (tk_tail t) = true.

Lemma tl_rel_refl t : tok_ok t -> tl_rel t t.
Proof. intros [_ H]. repeat split; auto. Qed.

Lemma F2_nonempty {A B} (R : A -> B -> Prop) l l' : Forall2 R l l' -> l <> [] -> l' <> [].
Proof. intros H. destruct H; [congruence|discriminate]. Qed.

Lemma retail_group : forall g G', g <> [] -> Forall tok_ok g -> nlr (group_text g) G' ->
  exists g', Forall2 tl_rel g g' /\ G' = group_text g'.
Proof.
  induction g as [|t r IH]; intros G' Hne Hok H; [congruence|].
  inversion Hok as [|? ? [Hl Ht] Hr]; subst. destruct r as [|t2 r2].
  - simpl in H. rewrite (nlr_no_nl _ _ H Hl). exists [t]. split; [|reflexivity].
    constructor; [apply tl_rel_refl; split; assumption|constructor].
  - rewrite group_text_cons in H by discriminate.
    destruct (nlr_app_inv _ _ _ H) as [l' [x1 [E1 [Hl' H1]]]].
    destruct (nlr_app_inv _ _ _ H1) as [w' [x2 [E2 [Hw' H2]]]]. subst G' x1.
    rewrite (nlr_no_nl _ _ Hl' Hl). destruct (nlr_blank _ _ Hw' Ht) as [Hb Hn].
    destruct (IH x2 ltac:(discriminate) Hr H2) as [g2 [HF E]]. subst x2.
    exists (mkTok (tk_type t) (tk_lexeme t) (tk_pos t) (tk_head t) w' :: g2). split.
    + constructor; [|exact HF]. repeat split; assumption.
    + rewrite group_text_cons by (eapply F2_nonempty; [exact HF|discriminate]). reflexivity.
Qed.

Lemma chunk_relb_nlr c c' g : g <> [] -> Forall tok_ok g -> chunk_relb c g -> nlr c c' ->
  exists g', Forall2 tl_rel g g' /\ chunk_relb c' g'.
Proof.
  intros Hne Hok [h [w [E [Hh Hw]]]] H. subst c.
  destruct (nlr_app_inv _ _ _ H) as [h' [x1 [E1 [Hh' H1]]]].
  destruct (nlr_app_inv _ _ _ H1) as [G' [w' [E2 [HG Hw']]]]. subst c' x1.
  destruct (retail_group g G' Hne Hok HG) as [g' [HF E]]. subst G'.
  exists g'. split; [exact HF|]. exists h', w'. split; [reflexivity|].
  split; [apply (nlr_blank _ _ Hh' Hh)|apply (nlr_blank _ _ Hw' Hw)].
Qed.

(* the output of the prettifier (chunks with their newlines replaced, glued by separators) is a chunked
   re-spacing of re-tailed groups, between a blank head and a blank trailer *)
Lemma spaced_wglued_trail : forall cs p, spaced cs p -> forall groups,
  Forall2 chunk_relb cs groups -> Forall (fun g => g <> [] /\ Forall tok_ok g) groups ->
  exists groups', Forall2 (Forall2 tl_rel) groups groups' /\
    exists h p2 w, p = h ++ p2 ++ w /\ all_space h = true /\ all_space w = true /\
                   wglued (map group_text groups') p2.
Proof.
  induction 1 as [c c' Hc|c c' sep cs s Hc Hs Hg IH]; intros groups HF Hok.
  - inversion HF as [|? g ? gs Hcg Hnil]; subst. inversion Hnil; subst.
    inversion Hok as [|? ? [Hne Hg] _]; subst.
    destruct (chunk_relb_nlr c c' g Hne Hg Hcg Hc) as [g' [HF' [h [w [E [Hh Hw]]]]]]. subst c'.
    exists [g']. split; [constructor; [exact HF'|constructor]|].
    exists h, (group_text g'), w. repeat split; try assumption. apply wg_one.
  - inversion HF as [|? g ? gs Hcg Hrest]; subst. inversion Hok as [|? ? [Hne Hgk] Hoks]; subst.
    destruct (chunk_relb_nlr c c' g Hne Hgk Hcg Hc) as [g' [HF' [h [w [E [Hh Hw]]]]]]. subst c'.
    destruct (IH gs Hrest Hoks) as [gs' [HFs [h2 [p2 [w2 [E2 [Hh2 [Hw2 Hgl]]]]]]]]. subst s.
    destruct (ws_sep_blank _ Hs) as [Hsne Hsp].
    exists (g' :: gs'). split; [constructor; assumption|].
    exists h, (group_text g' ++ (w ++ sep ++ h2) ++ p2), w2. split; [|split; [exact Hh|split; [exact Hw2|]]].
    + rewrite <- !app_assoc. reflexivity.
    + simpl. apply wg_cons; [|rewrite !all_space_app, Hw, Hsp, Hh2; reflexivity|exact Hgl].
      intros E. apply app_eq_nil in E. destruct E as [_ E]. apply app_eq_nil in E. destruct E as [E _]. congruence.
Qed.

Lemma F2_concat {A B} (R : A -> B -> Prop) : forall ls ls', Forall2 (Forall2 R) ls ls' ->
  Forall2 R (concat ls) (concat ls').
Proof. induction 1; simpl; [constructor|apply Forall2_app; assumption]. Qed.

Lemma tl_rel_keys : forall a b, Forall2 tl_rel a b -> map tok_key b = map tok_key a.
Proof. induction 1 as [|t t' a b [H _] _ IH]; simpl; [reflexivity|]. rewrite H, IH. reflexivity. Qed.
Lemma tl_rel_tails : forall a b, Forall2 tl_rel a b -> Forall (fun t => all_space (tk_tail t) = true) b.
Proof. induction 1 as [|t t' a b [_ [H _]] _ IH]; constructor; assumption. Qed.
Lemma tl_rel_seps : forall a b, Forall2 tl_rel a b -> seps_kept a b = true.
Proof.
  induction 1 as [|t t' a b [_ [_ H]] _ IH]; [reflexivity|]. cbn [seps_kept]. rewrite IH, andb_true_r.
  destruct (is_nil a); [reflexivity|]. destruct (tk_tail t) as [|c w]; [reflexivity|].
  simpl. destruct (tk_tail t'); [exfalso; apply H; [discriminate|reflexivity]|reflexivity].
Qed.

Lemma seps_kept_trans : forall a b c, length a = length b ->
  seps_kept a b = true -> seps_kept b c = true -> seps_kept a c = true.
Proof.
  induction a as [|x a IH]; intros [|y b] [|z c] Hlen H1 H2; try reflexivity; try discriminate.
  cbn [seps_kept] in *. apply andb_true_iff in H1. destruct H1 as [H1 H1']. apply andb_true_iff in H2.
  destruct H2 as [H2 H2']. simpl in Hlen. injection Hlen as Hlen.
  rewrite (IH b c Hlen H1' H2'), andb_true_r.
  destruct a as [|x2 a]; [reflexivity|]. destruct b as [|y2 b]; [discriminate|]. simpl in H1, H2 |- *.
  destruct (tk_tail x); [reflexivity|]. simpl in H1 |- *. destruct (tk_tail y); [discriminate|]. simpl in H2. exact H2.
Qed.

(* L-respace, chunked form over re-tailed groups, with a blank trailer *)
Theorem L_respace_regrouped s toks groups' h p' w :
  lex s = (toks, None) -> toks <> [] -> Forall2 tl_rel toks (concat groups') ->
  Forall (fun g => g <> []) groups' ->
  all_space h = true -> all_space w = true -> wglued (map group_text groups') p' ->
  map tok_key (fst (lex (h ++ p' ++ w))) = map tok_key toks /\ snd (lex (h ++ p' ++ w)) = None.
Proof.
  intros Hlex Hne Hrel Hg Hh Hw Hgl.
  destruct (wglued_respacing_trail _ _ _ Hgl Hw Hg (tl_rel_tails _ _ Hrel)) as [ts' [E1 [E2 [E3 E4]]]].
  rewrite (tl_rel_keys _ _ Hrel) in E2.
  assert (E5 : seps_kept toks ts' = true).
  { apply (seps_kept_trans toks (concat groups') ts'); [|apply tl_rel_seps; exact Hrel|exact E4].
    rewrite <- (map_length tok_key toks), <- (tl_rel_keys _ _ Hrel), map_length. reflexivity. }
  assert (Hts : ts' <> []) by (destruct ts'; [destruct toks; [congruence|discriminate]|discriminate]).
  destruct ts' as [|t1 r1]; [congruence|].
  assert (Er : h ++ p' ++ w = render (set_head h (t1 :: r1))).
  { rewrite E1. simpl in E3. apply andb_true_iff in E3. destruct E3 as [E3a E3b].
    destruct (render_body _ E3b) as [Eren _].
    change (render (set_head h (t1 :: r1))) with
      (tok_text (mkTok (tk_type t1) (tk_lexeme t1) (tk_pos t1) h (tk_tail t1)) ++ render r1).
    rewrite Eren, body_text_cons. unfold tok_text. simpl. rewrite <- !app_assoc. reflexivity. }
  rewrite Er. apply (L_respace_main s toks _ Hlex Hne).
  - exact E2.
  - simpl in E3 |- *. apply andb_true_iff in E3. destruct E3 as [E3a E3b].
    apply andb_true_iff in E3a. destruct E3a as [_ E3a]. rewrite Hh, E3a, E3b. reflexivity.
  - destruct toks as [|t0 r0]; [congruence|]. simpl in E5 |- *. exact E5.
Qed.

(* C18's conclusion for a parsed query without ghost event and without a newline inside a token *)
Theorem pretty_round_trip_lexemes s t cfg p :
  parse s = Some (Ok t) -> parse_events s = [] -> no_newline_in_lexemes s = true -> pretty cfg t = Some p ->
  exists t', parse p = Some (Ok t') /\ item_eqb t' t = true.
Proof.
  intros Hp Hne Hnl Hpr.
  destruct (parsed_chunks_token_groups s t Hp Hne) as [groups [Hcat [Hg HF]]].
  destruct (pretty_spaced cfg t p Hpr) as [k [p' [E Hsp]]]. subst p.
  destruct (parse_ok_lexes s t Hp) as [He Hnt]. unfold no_newline_in_lexemes in Hnl.
  destruct (lex s) as [toks e] eqn:Hl. simpl in *. subst e.
  assert (Htok : Forall tok_ok toks).
  { pose proof (lex_blank _ _ Hl Hnt) as Hb. rewrite forallb_forall in Hnl. apply Forall_forall. intros x Hx.
    rewrite Forall_forall in Hb. split; [apply negb_true_iff, Hnl, Hx|apply (Hb x Hx)]. }
  assert (Hoks : Forall (fun g => g <> [] /\ Forall tok_ok g) groups).
  { rewrite Hcat in Htok. apply Forall_concat_inv in Htok. clear - Hg Htok.
    induction Hg as [|g gs Hg1 _ IH]; [constructor|]. inversion Htok; subst. constructor; [split; assumption|auto]. }
  destruct (spaced_wglued_trail _ _ Hsp groups HF Hoks) as [groups' [HFg [h [p2 [w [E [Hh [Hw Hwg]]]]]]]]. subst p'.
  assert (Hrel : Forall2 tl_rel toks (concat groups')) by (rewrite Hcat; apply F2_concat; exact HFg).
  assert (Hg' : Forall (fun g => g <> []) groups').
  { clear - Hg HFg. induction HFg as [|g g' gs gs' H1 _ IH]; [constructor|]. inversion Hg; subst.
    constructor; [eapply F2_nonempty; eassumption|auto]. }
  assert (Hk : map tok_key (fst (lex (sp k ++ h ++ p2 ++ w))) = map tok_key toks /\
               snd (lex (sp k ++ h ++ p2 ++ w)) = None).
  { rewrite app_assoc. apply (L_respace_regrouped s toks groups' (sp k ++ h) p2 w Hl Hnt Hrel Hg'); try assumption.
    rewrite all_space_app, all_space_sp, Hh. reflexivity. }
  destruct Hk as [Hk Hn].
  assert (H : outcome_sim (parse_with gen_tables s) (parse_with gen_tables (sp k ++ h ++ p2 ++ w))).
  { apply parse_layout_independent.
    - rewrite Hl. simpl. symmetry. exact Hk.
    - rewrite Hl. simpl. split; intros _; [exact Hn|reflexivity]. }
  unfold parse, parse_full in *. destruct (parse_with gen_tables s) as [r1 e1|]; [|discriminate].
  destruct (parse_with gen_tables (sp k ++ h ++ p2 ++ w)) as [r2 e2|]; [|contradiction]. simpl in H.
  inversion Hp; subst. destruct r2 as [t2|[m|m|n]]; simpl in H; try discriminate.
  exists t2. split; [reflexivity|]. inversion H as [Her]. apply layout_erase_eqb. exact Her.
Qed.
