(* C06 — each query term becomes exactly one ES clause: right field, value, kind, name; plain JSON;
   identical on every call.  Statements, theorems, witnesses, examples, Print Assumptions only.
   Model: model/EsBuild.v; vocabulary: model/EsSpec.v; lemmas: proofs/EsProofs.v.

   Clauses of the property text:
   (a) "each word, phrase or range appears exactly once as a leaf clause addressed to the fully
       qualified field, carrying the term's own text ... kind follows the documented table ...
       fuzziness / slop / boost ... per-field options merged in, its _name is the name of the nearest
       named enclosing element"                                       -> C06_leaves (multiset of the
       leaf clauses of the JSON = clauses of EsSpec.expected_leaves, which is computed directly on the
       tree), C06_eleaves (the same in document order on the E-tree) and C06_leaf_names (the names alone,
       against the direct reading EsSpec.expected_names).  FULL since the repair of F16
       (simplify_if_same spliced an operand of the operation's own class without looking at its name, so
       the name of an operation nested directly in an operation of the same class — or of `+` under `+` —
       never reached its elements; the repaired code keeps a same-class operand that has a name).  The
       theorems of earlier rounds, guarded by no_named_flattened, are kept as corollaries
       (C06_leaves_partial, C06_eleaves_partial); the refutations that relied on the defect were deleted
       with it and replaced by regression examples on the former witnesses (C06_F16_regression_plus, C06_F16_regression_and).
   (b) "the result is plain JSON data"                                -> C06_plain_json (full)
   (c) "identical on every call of the same or of a fresh builder"   -> C06_calls_independent in the
       pure model; what ties it to the code: the generated facts C06_tie_* (class-level defaults are
       tuples / str, the builder uses the standard E-classes) and the call-sequence correspondence.
   The rendering of ONE expected leaf record to its clause is EsBuild.leaf_json (kind = leaf_method,
   field, value under query / value, generated keys over the field options); that table is also
   checked on the implementation by the independent Python oracle of harness/c06.py. *)
Require Import Base Decimal Tree GenTree GenVisitors GenEs Visitor Json EsSpecs EsCheck EsBuild EsSpec
               TreeInd EsProofs.
From Coq Require Import Permutation.

(* ---- tie obligations on generated data *)
Lemma C06_tie_e_consts_immutable : gen_e_consts_immutable = true.
Proof. vm_compute. reflexivity. Qed.
Lemma C06_tie_builder_eclasses_standard : gen_builder_eclasses_standard = true.
Proof. vm_compute. reflexivity. Qed.
Lemma C06_tie_methods_known : builder_methods_known = true /\ chk_methods_known = true.
Proof. vm_compute. split; reflexivity. Qed.

(* ---- history clause: "identical on every call of the same or of a fresh builder" *)
(* call number k of a builder instance returns what a fresh builder returns for that tree *)
Definition C06_calls_independent_statement : Prop :=
  forall cfg ts k t, nth_error ts k = Some t ->
    nth_error (build_calls cfg ts) k = Some (build cfg t).

Theorem C06_calls_independent : C06_calls_independent_statement.
Proof. intros cfg ts k t H. unfold build_calls. apply map_nth_error. exact H. Qed.

(* what makes the pure model adequate: the per-instance ADDITIONAL_KEYS_TO_ADD is always the class-level
   tuple (generated: gen/GenEs.v) followed by what the instance appended, for every way the builder
   creates or updates a leaf item *)
Definition keys_extend_class (l : leaf) : Prop :=
  exists extra, l_addkeys l = class_addkeys (l_kind l) ++ extra.

Definition C06_class_defaults_untouched_statement : Prop :=
  (forall q m f n, keys_extend_class (mk_word q m f n)) /\
  (forall p f n, keys_extend_class (mk_phrase p f n)) /\
  (forall lk lo hk hi f n, keys_extend_class (mk_range lk lo hk hi f n)) /\
  (forall l d, keys_extend_class l ->
     keys_extend_class (leaf_set_boost d l) /\ keys_extend_class (leaf_set_fuzziness d l) /\
     keys_extend_class (leaf_set_slop d l) /\ forall z, keys_extend_class (leaf_set_ztq z l)).

Theorem C06_class_defaults_untouched : C06_class_defaults_untouched_statement.
Proof.
  unfold keys_extend_class. repeat split.
  - intros. exists []. reflexivity.
  - intros. exists []. reflexivity.
  - intros. eexists. reflexivity.
  - destruct H as [extra H]. exists extra. exact H.
  - destruct H as [extra H]. exists extra. exact H.
  - destruct H as [extra H]. unfold keys_extend_class. simpl. rewrite H.
    destruct (l_kind l); try (exists extra; reflexivity).
    exists (extra ++ [k_slop]). rewrite app_assoc. reflexivity.
  - intros z. destruct H as [extra H]. exists extra. exact H.
Qed.

(* ---- the `_name` clause: every leaf clause carries the name of the nearest named enclosing element *)
Definition C06_leaf_names_statement : Prop :=
  forall cfg t e, supported t = true -> wf_config cfg = true -> build_etree cfg t = ROk e ->
    map l_name (eleaves e) = expected_names t None.

Theorem C06_leaf_names : C06_leaf_names_statement.
Proof. intros cfg t e Hs _ Hb. exact (build_etree_names cfg t e Hs Hb). Qed.

(* ---- regression examples on the former witnesses of F16 (the inputs on which the unrepaired code lost
   the name) *)
Definition named_as (n : str) (t : item) : item := set_name t (Some n).
(*  + +a  with the inner Plus named "x" *)
Definition t_F16 : item :=
  Unary KPlus meta0 (named_as [120]%N (Unary KPlus meta0 (Term KWord meta0 [97]%N))).
(*  (a AND b) AND c  built as And(And(a, b), c), the inner AndOperation named "x" *)
Definition t_F16_and : item :=
  Op KAnd meta0 [named_as [120]%N (Op KAnd meta0 [Term KWord meta0 [97]%N; Term KWord meta0 [98]%N]);
                 Term KWord meta0 [99]%N].

(* match clause on the default field "text" with zero_terms_query "all", with / without a name *)
Definition must_clause (q : str) (name : option str) : json :=
  JObj [(k_match, JObj [([116;101;120;116]%N,
     JObj (match name with Some n => [(k_name, JStr n)] | None => [] end ++
           [(k_query, JStr q); (k_zero_terms_query, JStr k_all)]))])].
Definition must_of (js : list json) : json := JObj [(k_bool, JObj [(k_must, JList js)])].

(* the named inner `+` is kept as a nested bool clause and its element carries `_name: "x"` *)
Example C06_F16_regression_plus :
  supported t_F16 = true /\ no_named_flattened t_F16 = false  /\
  build default_config t_F16 = ROk (must_of [must_of [must_clause [97]%N (Some [120]%N)]])  /\
  expected_names t_F16 None = [Some [120]%N].
Proof. vm_compute. repeat split. Qed.

(* the named inner AndOperation is kept; the clauses of a and b carry `_name: "x"`, the one of c none *)
Example C06_F16_regression_and :
  supported t_F16_and = true /\ no_named_flattened t_F16_and = false  /\
  build default_config t_F16_and =
    ROk (must_of [must_of [must_clause [97]%N (Some [120]%N); must_clause [98]%N (Some [120]%N)];
                  must_clause [99]%N None])  /\
  expected_names t_F16_and None = [Some [120]%N; Some [120]%N; None].
Proof. vm_compute. repeat split. Qed.

(* un-named nesting is flattened as before *)
Example C06_unnamed_still_flattened :
  build default_config (Op KAnd meta0 [Op KAnd meta0 [Term KWord meta0 [97]%N; Term KWord meta0 [98]%N];
                                       Term KWord meta0 [99]%N]) =
  ROk (must_of [must_clause [97]%N None; must_clause [98]%N None; must_clause [99]%N None]).
Proof. vm_compute. reflexivity. Qed.

(* '' is a name for `get_name(child) is None` (the operand is kept) but is not propagated (`if name:`) *)
Example C06_empty_name_kept_not_propagated :
  build default_config (Op KAnd meta0 [named_as [] (Op KAnd meta0 [Term KWord meta0 [97]%N; Term KWord meta0 [98]%N]);
                                       Term KWord meta0 [99]%N]) =
  ROk (must_of [must_of [must_clause [97]%N None; must_clause [98]%N None]; must_clause [99]%N None]).
Proof. vm_compute. reflexivity. Qed.

(* ---- rows of the documented table, evaluated in the model (regression examples) *)
(* a.b:"x  y"~2^3 OR c:w?ld* with a.b nested and c not analysed, names n1 on the phrase *)
Definition cfg_tab : es_config :=
  mkEsConfig DShould [116;101;120;116]%N [[99]%N] (SDict [([97]%N, SList [[98]%N])]) SNone SNone
             [([97;46;98]%N, [([97;110;97;108;121;122;101;114]%N, JStr [115;116;100]%N)])] false.
Definition t_tab : item :=
  Op KOr meta0
     [SearchField meta0 [97;46;98]%N
        (Boost meta0 (Proximity meta0 (named_as [110;49]%N (Term KPhrase meta0 [34;120;32;32;121;34]%N)) 2 false)
               (mkDec false 3 0) false);
      SearchField meta0 [99]%N (Term KWord meta0 [119;63;108;100;42]%N)].

Example C06_table_rows :
  build cfg_tab t_tab =
  ROk (JObj [(k_bool, JObj [(k_should, JList [
    JObj [(k_nested, JObj [(k_path, JStr [97]%N);
      (k_query, JObj [(k_match_phrase, JObj [([97;46;98]%N, JObj [
         ([97;110;97;108;121;122;101;114]%N, JStr [115;116;100]%N);
         (k_boost, JNum (mkDec false 3 0)); (k_name, JStr [110;49]%N);
         (k_query, JStr [120;32;121]%N); (k_slop, JNum (mkDec false 2 0))])])])])];
    JObj [(k_wildcard, JObj [([99]%N, JObj [(k_value, JStr [119;63;108;100;42]%N)])])]])])]).
Proof. vm_compute. reflexivity. Qed.

Example C06_names_nonvacuous :
  exists e, build_etree cfg_tab t_tab = ROk e /\
            map l_name (eleaves e) = expected_names t_tab None /\
            expected_names t_tab None = [Some [110;49]%N; None] /\
            no_named_flattened t_tab = true.
Proof. eexists. split; [vm_compute; reflexivity|]. vm_compute. repeat split. Qed.

(* ---- clause (a): the leaf clauses *)
(* full strength: for every supported tree and well-formed configuration (options_not_reserved: no
   match_type / type option renames a clause kind to "bool" or "nested", which would make a leaf clause
   indistinguishable from a compound one) *)
Definition C06_leaves_statement : Prop :=
  forall cfg t j, supported t = true -> wf_config cfg = true -> options_not_reserved cfg = true ->
    build cfg t = ROk j -> Permutation (leaves j) (expected_clauses cfg t).

Theorem C06_leaves : C06_leaves_statement.
Proof.
  intros cfg t j Hs _ Hk Hb.
  exact (build_leaves cfg t j Hs (options_kinds_not_reserved cfg t Hk) Hb).
Qed.

(* the statement of earlier rounds, under the guard that removed exactly F16: now a corollary *)
Definition C06_leaves_partial_statement : Prop :=
  forall cfg t j, supported t = true -> wf_config cfg = true -> options_not_reserved cfg = true ->
    no_named_flattened t = true ->
    build cfg t = ROk j -> Permutation (leaves j) (expected_clauses cfg t).

Theorem C06_leaves_partial : C06_leaves_partial_statement.
Proof.
  intros cfg t j Hs Hwf Hk _ Hb. exact (C06_leaves cfg t j Hs Hwf Hk Hb).
Qed.

(* in document order, on the E-tree the JSON is rendered from (the json of a BoolOperation lists its
   must clauses first, so only the multiset survives in the JSON) *)
Definition C06_eleaves_statement : Prop :=
  forall cfg t e, supported t = true ->
    build_etree cfg t = ROk e -> eleaves e = expected_leaves cfg t.

Theorem C06_eleaves : C06_eleaves_statement.
Proof. intros cfg t e Hs Hb. exact (build_etree_leaves cfg t e Hs Hb). Qed.

Definition C06_eleaves_partial_statement : Prop :=
  forall cfg t e, supported t = true -> no_named_flattened t = true ->
    build_etree cfg t = ROk e -> eleaves e = expected_leaves cfg t.

Theorem C06_eleaves_partial : C06_eleaves_partial_statement.
Proof. intros cfg t e Hs _ Hb. exact (C06_eleaves cfg t e Hs Hb). Qed.

(* ---- clause (b): plain JSON data (every dict has pairwise distinct str keys, values are JSON) —
   for every tree, supported or not *)
Definition C06_plain_json_statement : Prop :=
  forall cfg t j, wf_config cfg = true -> build cfg t = ROk j -> json_wf j = true.

Theorem C06_plain_json : C06_plain_json_statement.
Proof. intros cfg t j Hwf Hb. exact (build_wf cfg t j Hwf Hb). Qed.

(* ---- non-vacuity of the guards *)
Example C06_leaves_nonvacuous :
  supported t_tab = true /\ wf_config cfg_tab = true /\ options_not_reserved cfg_tab = true /\
  no_named_flattened t_tab = true /\ exists j, build cfg_tab t_tab = ROk j /\ length (leaves j) = 2.
Proof. repeat split; try (vm_compute; reflexivity). eexists. split; vm_compute; reflexivity. Qed.

Print Assumptions C06_calls_independent.
Print Assumptions C06_class_defaults_untouched.
Print Assumptions C06_leaf_names.
Print Assumptions C06_leaves.
Print Assumptions C06_eleaves.
Print Assumptions C06_leaves_partial.
Print Assumptions C06_eleaves_partial.
Print Assumptions C06_plain_json.
