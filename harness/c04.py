"""C04 — parsing is total and pure: a tree or a ParseError, independent of history and entry point."""
import json
import os
import subprocess
import sys

import lib
import parsegen as PG

ENTRIES = ("module", "thread")      # luqum.parser.parser.parse | luqum.thread.parse


# ------------------------------------------------------------------ inputs

ILLEGAL_AT_0 = ["'", "\\", "\\\n", '"abc', "/abc", "' a", "\\ AND b"]
ILLEGAL_LATER = ["a '", " '", "a\\", "a \\\n", "(a AND ' b)", 'f:"x', "a b c /r", "  a 'b' c", "a^2 '"]
BLANK = ["", " ", "\n\t", "　　", "   "]
LEADING_WS = [" a", "  a b", "\ta AND b", "\n(a)", " 　f:x", " a ", "  \"p\"~2  ", " -a", " [1 TO 2]"]
BAD_NUMBERS = ["a^.", "a~1.2.3", '"a"~1.5', '"a"~.', "a^1..2", " a^.", "a~.. b", '"x y"~1.', "(a)^.", "f:a~1.2.3"]
SYNTAX = ["(", ")", "(a", "a)", "a AND", "AND a", "OR", "a OR OR b", "NOT", "+", "a:", ":a", "[a TO", "a TO b]",
          "~", "^", "a~~", "a^^2", "f:(a", "f:AND", "[a TO TO]", "a]", "}", " )", " a AND ", "a ~2"]


def category(s, kind, val):
    """measured class of an input, from what the implementation did with it"""
    import re
    if kind == "ok":
        return "accepted-leading-ws" if s[:1].isspace() else "accepted"
    if kind == "illegal":
        m = re.search(r"at position (\d+)$", val)
        return "illegal-at-0" if m and m.group(1) == "0" else "illegal-later"
    if kind == "syntax":
        if s.strip() == "":
            return "blank-or-empty"
        return "malformed-number" if "invalid number" in val else "syntax-error"
    return "other"


def pool(r, quick):
    g = PG.QGen(r, bad_numbers=0.05)
    out = list(PG.MALFORMED) + ILLEGAL_AT_0 + ILLEGAL_LATER + BLANK + LEADING_WS + BAD_NUMBERS + SYNTAX
    for _ in range(120 if quick else 1200):
        lex = g.expr(r.randrange(0, 3))
        out.append(PG.layout(r, lex, p_sep=r.choice([0.1, 0.5, 0.9])))
    for _ in range(30 if quick else 300):       # accepted inputs that start with a separator
        out.append(r.choice(PG.WS) + PG.layout(r, g.expr(r.randrange(0, 2)), minimal=True))
    for _ in range(20 if quick else 200):       # a legal prefix, then an illegal character
        out.append(PG.layout(r, g.expr(r.randrange(0, 2))) + r.choice([" '", "\\", ' "x', " /y"]))
    return out


def histories(r, strings, quick):
    """sequences of (entry, string); every history starts from a fresh import of luqum"""
    maxlen = 6 if quick else 40
    hs = []
    # fixed corpus first: the cases where the tracker attribute is absent or stale
    for e1 in ENTRIES:
        for first in (" a", "", " ", "'", "a '", "(a", "a^.", "a", "\ufeffa", "\u200b a"):
            hs.append([(e1, first)])
            for e2 in ENTRIES:
                hs.append([(e1, first), (e2, " a b "), (e1, " a b "), (e2, first)])
    hs.append([("module", "a b"), ("thread", " "), ("module", " "), ("thread", "  c  "), ("module", "  c  ")])
    # a FAILED parse that consumed leading blanks and never reached a token, then queries whose first token is
    # at offset 0 (a pending head must not survive), on every pair of entry points
    for e1 in ENTRIES:
        for ws_fail in ("   ", " '", "\t\n", "  \\", " \u3000", "\n )"):
            for e2 in ENTRIES:
                hs.append([(e2, "a"), (e2, "f:b c"), (e1, ws_fail), (e2, "a"), (e1, "a"), (e2, "f:b c"), (e1, "(x)")])
                # ... nor reach a first token that a lexer change might place after offset 0 (byte order mark,
                # zero-width characters: characters of a term today)
                hs.append([(e1, ws_fail), (e2, "\ufeffa"), (e1, ws_fail), (e1, "\u200bb c"), (e2, "\ufeff")])
    # a parse that fails in the middle of a construct (open range, open group, open phrase), then probes whose
    # reading could depend on a mode the failed parse left behind
    probes = ["TO~2", "TO:a", "<TO", "TO", "a TO b", "[a TO b]", "x]", "a)", 'a"', "a\nb"]
    for e1 in ENTRIES:
        for opener in ("[a TO", "x:{a TO b", "(a (b", '"abc', "f:[1 TO", "[a TO b] '", "a\nb ("):
            for e2 in ENTRIES:
                hs.append([(e2, p) for p in probes[:4]] + [(e1, opener)] + [(e2, p) for p in probes])
    # every string of the shared corpus of malformed and odd-but-legal queries is parsed at least once, through
    # both entry points (the random histories below only sample the pool)
    corpus = list(PG.MALFORMED)
    for i in range(0, len(corpus), 6):
        chunk = corpus[i:i + 6]
        hs.append([(ENTRIES[(i // 6 + j) % 2], s) for j, s in enumerate(chunk)] +
                  [(ENTRIES[(i // 6 + j + 1) % 2], s) for j, s in enumerate(chunk)])
    for _ in range(70 if quick else 500):
        n = r.randrange(1, maxlen + 1)
        hs.append([(r.choice(ENTRIES), r.choice(strings)) for _ in range(n)])
    return hs


# ------------------------------------------------------------------ implementation side

def canon(kind, val):
    """a hashable, JSON-able canonical outcome: the tree with ALL layout (Gallina literal) or class+message"""
    if kind == "ok":
        return ("ok", "None" if val is None else lib.g_item(val))
    return (kind, val)


def run_history(h):
    """fresh luqum state, then the calls in order; returns [(kind, val)]"""
    lib.import_luqum()
    import luqum.parser as P
    import luqum.thread as TH
    out = []
    for e, s in h:
        fn = P.parser.parse if e == "module" else TH.parse
        out.append(PG.impl_parse(s, fn))
    return out


SUB = r'''
import json, sys
scratch, harness, mode = sys.argv[1], sys.argv[2], sys.argv[3]
sys.path.insert(0, harness); sys.path.insert(0, scratch)
import lib, parsegen as PG
jobs = json.load(sys.stdin)

def fresh():
    for m in list(sys.modules):
        if m == "luqum" or m.startswith("luqum."):
            del sys.modules[m]
    import luqum.parser as P, luqum.thread as TH
    assert P.__file__.startswith(scratch), P.__file__
    if mode == "variant":
        # the plausible WRONG reset test of Histories.ResetAtPos0NonSep, patched over the scratch copy
        from luqum.head_tail import HeadTailLexer as H
        def handle(token, orig_value):
            if token.lexpos == 0 and token.type != "SEPARATOR":
                instance = H(); setattr(token.lexer, H.LEXER_ATTR, instance)
            else:
                instance = getattr(token.lexer, H.LEXER_ATTR)
            instance.handle_token(token, orig_value)
        P.token_headtail = handle
    return P, TH

res = []
for h in jobs:
    P, TH = fresh()
    out = []
    for e, s in h:
        k, v = PG.impl_parse(s, P.parser.parse if e == "module" else TH.parse)
        out.append([k, (lib.g_item(v) if v is not None else "None") if k == "ok" else v])
    res.append(out)
json.dump(res, sys.stdout)
'''


def run_sub(jobs, mode):
    """run histories in another interpreter (mode 'live' or 'variant'); each history after a fresh import"""
    env = dict(os.environ, PYTHONHASHSEED="0")
    p = subprocess.run([sys.executable, "-c", SUB, lib.scratch_dir(), os.path.dirname(os.path.abspath(__file__)), mode],
                       input=json.dumps(jobs), stdout=subprocess.PIPE, stderr=subprocess.PIPE, text=True,
                       timeout=600, env=env)
    if p.returncode != 0:
        raise RuntimeError("sub-interpreter failed: " + p.stderr[-1500:])
    return [[tuple(x) for x in h] for h in json.loads(p.stdout)]


# ------------------------------------------------------------------ model side: histories through Histories.exec_with

HIST_DEFS = """
Inductive pexp := PExpOk (t : item) | PExpSyntax (m : str) | PExpIllegal (m : str) | PExpAttr | PExpNone.
Definition same (r : option (res item)) (x : pexp) : bool :=
  match r, x with
  | Some (Ok t), PExpOk t' => item_beq t t'
  | Some (Err (ESyntax m)), PExpSyntax m' => str_eqb m m'
  | Some (Err (EIllegal m)), PExpIllegal m' => str_eqb m m'
  | Some (Err (EOther 9)), PExpAttr => true
  | _, _ => false
  end.
Fixpoint all_same (rs : list (option (res item))) (xs : list pexp) : bool :=
  match rs, xs with
  | [], [] => true
  | r :: rs', x :: xs' => same r x && all_same rs' xs'
  | _, _ => false
  end.
Definition chk (c : reset_rule * list (entry * str) * list pexp) : bool :=
  let '(rr, h, xs) := c in
  all_same (exec_with rr w0 (map (fun p => ParseCall (fst p) (snd p)) h)) xs.
"""
HIST_IMPORTS = PG.PARSE_IMPORTS + " Histories"


def pexp(k, v):
    if k == "ok":
        return "PExpNone" if v == "None" else "(PExpOk %s)" % v
    if k == "syntax":
        return "(PExpSyntax %s)" % lib.g_str(PG.canon_error(k, v) or v)     # wording is not part of the property
    if k == "illegal":
        return "(PExpIllegal %s)" % lib.g_str(PG.canon_error(k, v) or v)
    if k == "other" and v.startswith("AttributeError"):
        return "PExpAttr"
    return "PExpNone"


def run_parse_cases_canon(tag, strings, canon_results):
    """parsegen.run_parse_cases on already canonicalised outcomes (trees were serialised with lib.g_item right
    after the call: luqum is re-imported between histories, so the classes of old trees are no longer
    `luqum.tree`'s).  Same definitions, same comparison, same canary."""
    def term(k, v):
        if k == "ok":
            return "PExpNone" if v == "None" else "(PExpOk %s)" % v
        return PG.expected_term(k, v)
    cases = ["(%s, %s)" % (lib.g_str(s), term(k, v)) for s, (k, v) in zip(strings, canon_results)]
    canary = "([97]%N, PExpSyntax [97]%N)"
    bad = lib.eval_cases(tag, PG.PARSE_IMPORTS, PG.PARSE_DEFS, cases + [canary], "chk", shard=120)
    assert len(cases) in bad, "canary not detected"
    return [i for i in bad if i < len(cases)]


def hist_case(rule, h, outs):
    return "(%s, %s, %s)" % (
        rule,
        lib.g_list(["(%s, %s)" % ("Module" if e == "module" else "Thread", lib.g_str(s)) for e, s in h]),
        lib.g_list([pexp(k, v) for k, v in outs]))


# ------------------------------------------------------------------ the check

def correspond(model_ok, res):
    r = lib.rng("C04")
    quick = lib.tier() == "quick"
    strings = pool(r, quick)
    hs = histories(r, strings, quick)

    # --- implementation: every history from a fresh import, in this interpreter
    calls = []            # (hist index, position, entry, string, kind, canonical value)
    first_outcome = {}    # string -> canonical outcome of its first occurrence anywhere
    kinds, cats, lens, entries = {}, {}, {}, {"module": 0, "thread": 0}
    seen_nontrivial = set()
    for hi, h in enumerate(hs):
        outs = run_history(h)
        lens[min(len(h), 40) // 5 * 5] = lens.get(min(len(h), 40) // 5 * 5, 0) + 1
        prev = None
        for pos, ((e, s), (k, v)) in enumerate(zip(h, outs)):
            c = canon(k, v)
            calls.append((hi, pos, e, s, k, v, c))
            kinds[k] = kinds.get(k, 0) + 1
            entries[e] += 1
            cat = category(s, k, v)
            cats[cat] = cats.get(cat, 0) + 1
            ctx = {"history": [list(x) for x in h[:pos + 1]], "position": pos}
            # oracle 1: a tree or a ParseError, nothing else
            if k == "other":
                res.failures.append((dict(ctx, why="exception that is not a ParseError: " + v), None))
            elif k == "ok" and v is None:
                res.failures.append((dict(ctx, why="parse returned None"), None))
            # oracle 2: the outcome of a string never depends on what came before or on the entry point
            if s in first_outcome:
                if first_outcome[s][0] != c:
                    res.failures.append((dict(ctx, why="outcome differs from an earlier parse of the same string",
                                              first_seen=first_outcome[s][1], now=c[:1] + (str(c[1])[:300],),
                                              before=str(first_outcome[s][0][1])[:300]), None))
            else:
                first_outcome[s] = (c, ctx)
            if prev is not None:
                seen_nontrivial.add((s, e, prev))
            prev = (k, e)

    # --- oracle 3: a FRESH interpreter gives the same outcome (sample; first call of the process state)
    sample = sorted(first_outcome)                     # deterministic order
    r.shuffle(sample)
    sample = sample[:120 if quick else 1500]
    jobs = [[(r.choice(ENTRIES), s)] for s in sample]
    fresh = run_sub(jobs, "live")
    for (job, out) in zip(jobs, fresh):
        (e, s), (k, v) = job[0], out[0]
        if (k, v) != tuple(first_outcome[s][0]):
            res.failures.append(({"input": s, "entry": e, "why": "a fresh interpreter gives another outcome",
                                  "fresh": [k, str(v)[:300]], "in_history": first_outcome[s][1]}, None))
    # three really separate processes: the tracker attribute has never existed there
    for e, s in (("module", " a"), ("thread", " a"), ("thread", "")):
        out = run_sub([[(e, s)]], "live")[0][0]
        if s in first_outcome and tuple(out) != tuple(first_outcome[s][0]):
            res.failures.append(({"input": s, "entry": e, "why": "first call of a new process differs",
                                  "fresh": [out[0], str(out[1])[:300]]}, None))

    # --- numerals of a million digits (beyond decimal's default exponent range): Python oracle only, both entry
    # points; such a query is well formed, and in any case nothing but a tree or a ParseError may come out
    import luqum.parser as _P
    import luqum.thread as _Th
    huge = PG.huge_numerals()
    for s in huge:
        for e, fn in (("module", _P.parser.parse), ("thread", _Th.parse)):
            k, v = PG.impl_parse(s, fn)
            if k == "other":
                res.failures.append(({"input": s[:12] + "...(%d chars)" % len(s), "entry": e,
                                      "why": "exception that is not a ParseError: " + str(v)[:200]}, None))

    # --- very deep / very wide queries: both entry points, twice each; a tree or a ParseError, and the same
    # outcome everywhere (iterative comparison: these trees are too deep for recursive walks)
    deep = PG.deep_inputs()
    for s in deep:
        outs = []
        for e, fn in (("module", _P.parser.parse), ("thread", _Th.parse), ("thread", _Th.parse),
                      ("module", _P.parser.parse)):
            k, v = PG.impl_parse(s, fn)
            if k == "other":
                res.failures.append(({"input": s[:16] + "...(%d chars)" % len(s), "entry": e,
                                      "why": "exception that is not a ParseError: " + str(v)[:200]}, None))
            outs.append((k, PG.flat_dump(v) if k == "ok" else v))
        if any(o != outs[0] for o in outs[1:]):
            res.failures.append(({"input": s[:16] + "...(%d chars)" % len(s),
                                  "why": "the two entry points / two calls disagree on a deep query",
                                  "kinds": [o[0] for o in outs]}, None))

    res.cases = len(calls) + 2 * len(huge) + 4 * len(deep)
    res.nontrivial = len(seen_nontrivial)
    res.rule = ("histories of parse calls on both entry points, each started from a fresh import of luqum: a fixed "
                "corpus (first call blank / leading separator / illegal at 0 / syntax error / malformed number, then "
                "re-parsed after other calls on either entry point) and random sequences (length <= 6 quick, <= 40 "
                "thorough) over a pool of grammar-generated queries with random Unicode layout, queries starting "
                "with a separator, legal prefixes followed by an illegal character, parsegen.MALFORMED and "
                "hand-written blank / illegal / malformed-number inputs; non-trivial = distinct (string, entry, "
                "outcome kind and entry of the call just before it) among calls that are not the first of their history")
    res.samples = [[list(x) for x in h] for h in hs[50:54]] + [[list(x) for x in hs[-1][:6]]]
    res.distribution = {"outcomes": kinds, "input_categories": cats, "entry_points": entries,
                        "history_length_bucket": lens, "histories": len(hs),
                        "distinct_strings": len(first_outcome), "fresh_interpreter_samples": len(sample) + 3}
    if not model_ok:
        res.model_error = "model did not build"
        return

    try:
        # --- correspondence 1: every observed outcome == the model's parse of that string ALONE
        pairs, seen = [], set()
        for (_, _, e, s, k, v, c) in calls:
            if (s, c) not in seen:           # the same string with another outcome is another case
                seen.add((s, c))
                pairs.append((s, c))
        for i in run_parse_cases_canon("C04", [p[0] for p in pairs], [p[1] for p in pairs]):
            res.disagreements.append({"input": pairs[i][0], "implementation": pairs[i][1][0],
                                      "detail": str(pairs[i][1][1])[:300]})
        # --- correspondence 2: the STATEFUL model (Histories.exec_with) against whole histories, for the code's
        # reset rule and — so that the state is observable at all — for the wrong variant patched over the
        # scratch copy in a sub-interpreter (AttributeError and all)
        short = [h for h in hs if len(h) <= 8]
        n_fixed = sum(1 for h in short if h in hs[:67])
        short = (short[:n_fixed:2] + short[n_fixed:])[:60 if quick else 400]   # half of the fixed corpus + random ones
        live_out = run_sub(short, "live")
        var_out = run_sub(short, "variant")
        cases = [hist_case("ResetAtPos0", h, o) for h, o in zip(short, live_out)]
        cases += [hist_case("ResetAtPos0NonSep", h, o) for h, o in zip(short, var_out)]
        n_attr = sum(1 for o in var_out for k, v in o if k == "other" and v.startswith("AttributeError"))
        n_var_diff = sum(1 for a, b in zip(live_out, var_out) if a != b)
        canary = hist_case("ResetAtPos0", [("module", " a")], [("other", "AttributeError: canary")])
        bad = lib.eval_cases("C04h", HIST_IMPORTS, HIST_DEFS, cases + [canary], "chk", shard=40)
        assert len(cases) in bad, "canary not detected"
        for i in bad:
            if i < len(cases):
                which = "live" if i < len(short) else "variant"
                res.disagreements.append({"history": [list(x) for x in short[i % len(short)]], "rule": which,
                                          "what": "Histories.exec_with vs implementation"})
        res.cases += sum(len(h) for h in short) * 2
        res.distribution["stateful_model_histories"] = {"live": len(short), "variant": len(short),
                                                        "variant_attribute_errors": n_attr,
                                                        "variant_histories_differing_from_live": n_var_diff}
        if n_attr == 0:
            res.model_error = "the variant replay never produced an AttributeError: the stateful model is not exercised"
    except Exception as e:
        res.model_error = "%s: %s" % (type(e).__name__, e)


SPEC = {
    "id": "C04",
    "targets": ["props/C04.vo"],
    "model_targets": ["model/Parser.vo", "model/Histories.vo", "model/TreeEq.vo"],
    "module": "C04",
    "theorems": ["C04", "C04_ties", "C04_table_facts", "C04_terminates", "C04_total", "C04_only_parse_errors",
                 "C04_outcome", "C04_returns_real_tree", "C04_history_independent", "C04_every_result_pure",
                 "C04_call_pure_any_state", "C04_no_old_tree_mutated", "C04_variant_history_independent_refuted"],
    "correspond": correspond,
    "statement": "for every input string the parser model stops within its fuel (A) with a real tree, a "
                 "ParseSyntaxError or an IllegalCharacterError, never another exception (B); after any history of "
                 "parse calls on the module-level and thread-local entry points, from any state of the two lexers "
                 "and of the head/tail trackers, the outcome of a call is the pure function `parse` of its string (C)",
    "level_text": "Coq proofs on the GENERATED PLY tables: termination by a potential that uses two computed table "
                  "facts (no empty production; unit-reduction chains bounded for every state-below/state/lookahead); "
                  "absence of foreign exceptions by a validated LR stack-typing invariant (backward path check of "
                  "every reduce cell, accept only on $end after `expression`, $end never shifted, every semantic "
                  "action total on the kinds of its right-hand side); purity by a literal stateful model of "
                  "HeadTailLexer.handle over a heap of tracker objects shared by the module lexer and its "
                  "thread-local clone, proved equal to the pure lexer for every starting state. The stateful model "
                  "is additionally replayed against a patched wrong reset rule, where its state is observable.",
    "trusted_base": [
        "Coq 8.16.1 kernel (vm_compute for table facts, witnesses and correspondence; no native_compute); no axioms",
        "gen/gen_parser.py: live PLY action/goto/productions, token rules, \\s \\d classes, tracker scope (AST of "
        "HeadTailLexer.handle), thread lexer scope (source of luqum.thread.parse), parse entry",
        "hand-written models: Lexer.v, LR.v (PLY parseopt_notrack without error recovery), Actions.v, Decimal.v, "
        "Histories.v (state kept on PLY lexer objects; tokens lexed eagerly, PLY pulls them lazily — the purity "
        "lemma holds from every state, so what an aborted call leaves behind is immaterial) — tied by differential "
        "correspondence on every run",
        "PLY's LRParser allocates its stacks per call and `lexer.input` resets lexdata/lexpos (read in ply/yacc.py, "
        "ply/lex.py; not generated)",
    ],
    "assumptions": ["inputs are str (input=None, debug/tracking/tokenfunc and a caller-supplied lexer are not modelled)",
                    "one thread (interleavings are C14); CPython recursion/memory limits not modelled"],
}
