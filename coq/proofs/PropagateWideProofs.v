(* PropagateWideProofs.v — MatchingPropagator under the wider premise (PropagateSpecWide.v): named
   elements covering several terms may be reported too.  Builds on PropagateProofs.v: the weakest
   condition [good] on (matching, other) is re-derived from the wide premise. *)
Require Import Base Decimal Tree GenTree GenVisitors GenNaming Visitor Naming Propagate PropagateSpec
               PropagateSpecWide TreeInd NamingProofs PropagateProofs.
From Coq Require Import Lia.

(* ---------------------------------------------------------------- the value before the negation *)

Lemma pre_neg_xorb dor sigma n q :
  pre_neg dor sigma n q = xorb (is_negation n) (ev dor sigma n q).
Proof.
  destruct n as [| | | | | | | |[]| |]; simpl; try reflexivity;
    match goal with |- ?x = _ => destruct x; reflexivity end.
Qed.

Lemma pre_neg_true dor sigma n q :
  pre_neg dor sigma n q = true -> ev dor sigma n q = negb (is_negation n).
Proof.
  rewrite pre_neg_xorb. destruct (is_negation n), (ev dor sigma n q); simpl; congruence.
Qed.

(* ---------------------------------------------------------------- inherited status
   the top-down walk of the specification = the bottom-up recursion of _status_from_parent *)

Lemma inherit_walk_snoc M O : forall rest pre cur i,
  inherit_walk M O pre (rest ++ [i]) cur =
  if mem_path ((pre ++ rest) ++ [i]) M then true
  else if mem_path ((pre ++ rest) ++ [i]) O then false
  else inherit_walk M O pre rest cur.
Proof.
  induction rest as [|j rest IH]; intros pre cur i; simpl.
  - rewrite app_nil_r. reflexivity.
  - rewrite IH. rewrite <- (app_assoc pre [j] rest). reflexivity.
Qed.

Lemma inherited_sfp M O : forall r, status_from_parent M O r = inherited M O r.
Proof.
  unfold inherited. induction r as [|i r IH] using rev_ind.
  - rewrite sfp_nil. simpl. destruct (mem_path [] M), (mem_path [] O); reflexivity.
  - rewrite sfp_snoc, inherit_walk_snoc, IH. reflexivity.
Qed.

(* ---------------------------------------------------------------- from the wide premise to [good] *)

Section WideProofs.
  Variable d : cls.
  Variables M O : list path.
  Variable sigma : path -> bool.

  Notation dor := (cls_eqb d COrOperation).
  Notation sfp := (status_from_parent M O).
  Notation EV := (ev dor sigma).

  (* no guard on zero-operand operations: such an operation is any([]) / all([]) in the code, and
     the wide premise lets it be in `matching` only when that value is true *)
  Theorem wide_good t :
    reported_wide dor sigma t M O -> good d M O sigma t [].
  Proof.
    intros [R1 R2] r n Hs. simpl.
    assert (Hnamed_M : forall q, In q M -> In q (M ++ O)) by (intros; apply in_or_app; auto).
    (* leaves: covered by a named element covering just this term *)
    assert (Hleaf : is_leaf n = true -> sfp r = EV n r).
    { intros Hl. rewrite (ev_leaf d sigma _ _ Hl).
      destruct (R2 r n Hs Hl) as [q [n0 [Hnamed [Hq Hcov]]]].
      apply (sfp_covered M O sigma n0 q r Hcov).
      - intros r0 n' Hr0 Hin. pose proof (subexpr_app _ _ _ _ _ Hq Hr0) as Hq'.
        pose proof (R1 _ _ Hq' Hin) as H. rewrite (covered_sub _ _ _ _ _ Hcov Hr0) in H. apply H.
      - pose proof (R1 _ _ Hq Hnamed) as H. rewrite Hcov in H. destruct H as [H _].
        destruct (sigma r) eqn:Es.
        + apply sfp_in_M. apply H. reflexivity.
        + assert (Hnm : ~ In q M) by (intros Hin; apply H in Hin; discriminate).
          apply sfp_in_O; [exact Hnm|]. apply in_app_or in Hnamed.
          destruct Hnamed; [contradiction|assumption]. }
    (* operations and elements with one operand, reported as matching: true before their own
       negation *)
    assert (Hchain : In r M -> EV n r = negb (is_negation n)).
    { intros Hin. pose proof (R1 r n Hs (Hnamed_M _ Hin)) as H.
      destruct (covered n r) as [a|] eqn:Hcov.
      - destruct H as [H1 H2]. rewrite (covered_ev d sigma n r a Hcov (H2 Hin)).
        rewrite (proj1 H1 Hin). destruct (is_negation n); reflexivity.
      - apply pre_neg_true. exact (H Hin). }
    unfold node_good. destruct (is_leaf n) eqn:Hl; [apply Hleaf; reflexivity|exact Hchain].
  Qed.

  Theorem propagate_wide t ok ko :
    reported_wide dor sigma t M O ->
    propagate d M O t = (ok, ko) ->
    (forall p, In p ok <-> exists n, subexpr_at t p = Some n /\ EV n p = true) /\
    (forall p, In p ko <-> exists n, subexpr_at t p = Some n /\ EV n p = false).
  Proof.
    intros Hrep H. pose proof (wide_good t Hrep) as Hg. split.
    - exact (propagate_status d M O sigma t ok ko Hg H).
    - exact (propagate_status_ko d M O sigma t ok ko Hg H).
  Qed.

  (* the status the code gives to a leaf, under no premise: the inherited one *)
  Theorem propagate_leaf_status t ok ko r n :
    propagate d M O t = (ok, ko) -> subexpr_at t r = Some n -> is_leaf n = true ->
    (In r ok <-> inherited M O r = true).
  Proof.
    intros H Hs Hl.
    rewrite (propagate_bare_status d M O t ok ko r n H Hs (is_leaf_pchildren n Hl)).
    unfold bare_status. rewrite <- inherited_sfp.
    assert (Hop : is_op n = false) by (destruct n; simpl in Hl; try discriminate; reflexivity).
    rewrite Hop. destruct (mem_path r M) eqn:E; [|reflexivity].
    apply mem_path_In in E. rewrite (sfp_in_M M O r E). reflexivity.
  Qed.

  (* ---- the narrow premise implies the wide premise *)

  Theorem reported_reported_wide t : forall dor', reported sigma t M O -> reported_wide dor' sigma t M O.
  Proof.
    intros dor' [R1 R2]. split; [|exact R2].
    intros q n Hs Hin. pose proof (R1 q n Hs Hin) as H.
    destruct (covered n q); [exact H|]. intros HM. contradiction.
  Qed.
End WideProofs.

(* ---------------------------------------------------------------- executable premise / guards *)

Lemma reported_wide_b_iff dor sigma t M O :
  reported_wide_b dor sigma t M O = true <-> reported_wide dor sigma t M O.
Proof.
  unfold reported_wide_b. rewrite andb_true_iff, !forallb_forall. split.
  - intros [H1 H2]. split.
    + intros q n Hs Hin. apply cnodes_root in Hs. specialize (H1 (q, n) Hs). simpl in H1.
      apply mem_path_In in Hin. rewrite Hin in H1.
      destruct (covered n q) as [a|].
      * apply andb_prop in H1. destruct H1 as [Ha Hb]. apply Bool.eqb_prop in Ha. split.
        -- rewrite <- Ha. symmetry. apply mem_path_In.
        -- intros Hm. apply mem_path_In in Hm. rewrite Hm in Hb. simpl in Hb.
           destruct (neg_between n); [discriminate|reflexivity].
      * intros Hm. apply mem_path_In in Hm. rewrite Hm in H1. exact H1.
    + intros a l Hs Hl. apply cnodes_root in Hs. specialize (H2 (a, l) Hs). simpl in H2.
      rewrite Hl in H2. apply existsb_exists in H2. destruct H2 as [[q n] [Hin Hc]].
      apply andb_prop in Hc. destruct Hc as [Hm Hc]. exists q, n.
      split; [apply mem_path_In; exact Hm|]. split; [apply cnodes_root; exact Hin|].
      destruct (covered n q) as [a'|]; [|discriminate]. apply path_eqb_eq in Hc. congruence.
  - intros [R1 R2]. split.
    + intros [q n] Hin. apply cnodes_root in Hin.
      destruct (mem_path q (M ++ O)) eqn:E; [|reflexivity]. apply mem_path_In in E.
      pose proof (R1 q n Hin E) as H. destruct (covered n q) as [a|].
      * destruct H as [H1 H2]. apply andb_true_intro. split.
        -- destruct (mem_path q M) eqn:Em.
           ++ apply mem_path_In in Em. rewrite (proj1 H1 Em). reflexivity.
           ++ destruct (sigma a) eqn:Es; [|reflexivity].
              assert (Hq : In q M) by (apply H1; reflexivity).
              apply mem_path_In in Hq. congruence.
        -- destruct (mem_path q M) eqn:Em; [|reflexivity]. apply mem_path_In in Em.
           rewrite (H2 Em). reflexivity.
      * destruct (mem_path q M) eqn:Em; [|reflexivity]. apply mem_path_In in Em.
        simpl. exact (H Em).
    + intros [a l] Hin. apply cnodes_root in Hin. destruct (is_leaf l) eqn:Hl; [|reflexivity].
      destruct (R2 a l Hin Hl) as [q [n [Hnamed [Hq Hcov]]]].
      apply existsb_exists. exists (q, n). split; [apply cnodes_root; exact Hq|].
      apply andb_true_intro. split; [apply mem_path_In; exact Hnamed|].
      rewrite Hcov. apply path_eqb_eq. reflexivity.
Qed.

Lemma reported_after_b_sound dor sigma t M O :
  reported_after_b dor sigma t M O = true -> reported_after dor sigma t M O.
Proof.
  unfold reported_after_b. rewrite andb_true_iff, !forallb_forall.
  intros [H1 H2]. split.
  - intros q n Hs Hin. apply cnodes_root in Hs. specialize (H1 (q, n) Hs). simpl in H1.
    apply mem_path_In in Hin. rewrite Hin in H1.
    destruct (covered n q) as [a|].
    + apply andb_prop in H1. destruct H1 as [Ha Hb]. apply Bool.eqb_prop in Ha. split.
      * rewrite <- Ha. symmetry. apply mem_path_In.
      * intros Hm. apply mem_path_In in Hm. rewrite Hm in Hb. simpl in Hb.
        destruct (neg_between n); [discriminate|reflexivity].
    + intros Hm. apply mem_path_In in Hm. rewrite Hm in H1. exact H1.
  - intros a l Hs Hl. apply cnodes_root in Hs. specialize (H2 (a, l) Hs). simpl in H2.
    rewrite Hl in H2. apply existsb_exists in H2. destruct H2 as [[q n] [Hin Hc]].
    apply andb_prop in Hc. destruct Hc as [Hm Hc]. exists q, n.
    split; [apply mem_path_In; exact Hm|]. split; [apply cnodes_root; exact Hin|].
    destruct (covered n q) as [a'|]; [|discriminate]. apply path_eqb_eq in Hc. congruence.
Qed.

Lemma no_empty_op_b_sound t : no_empty_op_b t = true -> no_empty_op t.
Proof.
  unfold no_empty_op_b. rewrite forallb_forall. intros H p k m Hs.
  apply cnodes_root in Hs. specialize (H _ Hs). simpl in H. discriminate.
Qed.

(* ---------------------------------------------------------------- end to end with auto_name:
   the wide premise holds for the names of auto_name reported according to sigma, elements
   covering several terms included *)
Theorem auto_name_reported_wide dor sigma t t' m :
  auto_name t = Some (t', m) ->
  (* every named element is a sub-expression (no operation inside a range / fuzzy / proximity) *)
  (forall q, In q (map snd m) -> classified t q) ->
  (* no negation strictly between a reported element covering ONE term and that term *)
  (forall q n a, In q (map snd m) -> subexpr_at t q = Some n -> covered n q = Some a ->
                 sigma a = true -> neg_between n = false) ->
  reported_wide dor sigma t (fst (report_wide dor sigma t (map snd m)))
                            (snd (report_wide dor sigma t (map snd m))).
Proof.
  intros Ha Hcl Hneg. simpl.
  destruct (auto_name_with_spec gen_letters ltac:(vm_compute; discriminate) namer_handles t t' m Ha)
    as [_ [_ Hpaths]].
  set (named := map snd m) in *.
  set (et := elem_true_wide dor sigma t).
  assert (Hnamed : forall q, In q (filter et named ++ filter (fun q => negb (et q)) named) ->
                             In q named).
  { intros q Hin. apply in_app_or in Hin. destruct Hin as [Hin|Hin]; apply filter_In in Hin; apply Hin. }
  assert (Hback : forall q, In q named ->
            In q (filter et named ++ filter (fun q => negb (et q)) named)).
  { intros q Hin. apply in_or_app. destruct (et q) eqn:E.
    - left. apply filter_In. auto.
    - right. apply filter_In. rewrite E. auto. }
  split.
  - intros q n Hs Hin. apply Hnamed in Hin.
    assert (Het : et q = match covered n q with Some a => sigma a
                                              | None => pre_neg dor sigma n q end).
    { unfold et, elem_true_wide. rewrite Hs. reflexivity. }
    destruct (covered n q) as [a|] eqn:Hcov.
    + split.
      * rewrite filter_In, Het. tauto.
      * intros HM. apply filter_In in HM. destruct HM as [_ HM]. rewrite Het in HM.
        eapply Hneg; eauto.
    + rewrite filter_In, Het. intros [_ H]. exact H.
  - intros a l Hs Hl.
    destruct (cover_find t [] a l Hs Hl) as [Hc|[q0 [i [k [mm [ops [c [H1 [H2 H3]]]]]]]]]; simpl in *.
    + exists [], t. split; [|split; [reflexivity|exact Hc]]. apply Hback. apply Hpaths. right.
      split; [|reflexivity]. intros q' Hop.
      assert (Hin : In q' named) by (apply Hpaths; left; exact Hop).
      destruct (Hcl q' Hin) as [x Hx].
      destruct Hop as [q1 [i1 [n1 [Hq' [Hst [Hh _]]]]]]. subst q'.
      destruct (subexpr_split _ _ _ _ Hx) as [n1' [Hq1 _]].
      pose proof (proj1 (proj1 (subexpr_at_subtree _ _ _) Hq1)) as Hq1'. rewrite Hst in Hq1'.
      inversion Hq1'; subst n1'. rewrite namer_handles_op in Hh. destruct n1; try discriminate.
      rewrite (covered_op_none _ [] q1 _ _ _ Hq1) in Hc. discriminate.
    + exists (q0 ++ [i]), c. split; [|split].
      * apply Hback. apply Hpaths. left. exists q0, i, (Op k mm ops).
        split; [reflexivity|]. split; [apply subexpr_at_subtree in H1; apply H1|].
        split; [rewrite namer_handles_op; reflexivity|]. simpl. apply nth_error_Some. congruence.
      * eapply subexpr_app; [exact H1|]. simpl. change (pchildren (Op k mm ops)) with ops.
        rewrite H2. reflexivity.
      * exact H3.
Qed.
