(* C02 — every node's pos/size/head/tail locate its exact text in the original query.
   Model: Lexer.v, LR.v, Actions.v, Parser.v on the GENERATED tables; Spans.v (Item.span, slices, the
   layout predicate).  Lemmas: SpanProofs.v.

   Clauses of the property text -> statements:
     "the slice designated by pos and size is the node printed without head and tail, and the slice widened
      by head and tail is the node printed with them"            -> located / located' (up to numerals)
     "the widened spans of a node's children lie inside the node's own span, in order and without
      overlapping"                                               -> tiled  (C02_tiled_pairwise: pairwise)
     "the widened span of the root is the whole input"           -> span true t = Some (0, |s|)
     "for every accepted query and every node"                   -> forall s t p n, parse s = Some (Ok t) ->
                                                                    subtree_at t p = Some n -> ... *)
Require Import Base Decimal Tree GenTree GenParser Lexer Print Actions LR Parser Spans.
Require Import TreeInd LexerProofs ActionProofs LRProofs SpanProofs.
Require Import C01.
From Coq Require Import Lia.

(* ---- the property text as a statement *)

(* `located` up to the numeral re-spelling allowed by C01; spans are measured on the original text *)
Definition located' (s : str) (n : item) : Prop :=
  exists a b a' b',
    span false n = Some (a, b) /\ span true n = Some (a', b') /\
    (0 <= a' /\ a' <= a /\ a <= b /\ b <= b' /\ b' <= zlen s)%Z /\
    respelled (slice s a b) (print false n) /\ respelled (slice s a' b') (print true n).

Definition C02_statement : Prop :=
  forall s t, parse s = Some (Ok t) ->
    (forall p n, subtree_at t p = Some n -> located' s n /\ tiled n) /\
    span true t = Some (0%Z, zlen s).

(* ---- what holds of the code today *)

(* exact version, when no semantic action dropped text or re-spelled a token (same guard as C01_partial) *)
Definition C02_partial_statement : Prop :=
  forall s t, parse s = Some (Ok t) -> no_event s ->
    (forall p n, subtree_at t p = Some n -> located s n /\ tiled n) /\
    span true t = Some (0%Z, Z.of_nat (length s)).

(* for ANY action/goto tables.  The extra guard `parse_rflat tb s = false` excludes one shape of reduction
   whose size arithmetic is wrong in HeadTailManager.binary_operation (right operand of OR/AND already an
   operation of the same class, operator followed by blanks): see C02_latent_defect.  PLY's tables never
   perform it (C02_guard_holds_for_generated_tables), so C02_partial has no such guard. *)
Definition C02_any_tables_statement : Prop :=
  forall tb s t evs, parse_with tb s = Done (Ok t) evs -> all_trivial evs -> parse_rflat tb s = false ->
    (forall p n, subtree_at t p = Some n -> located s n /\ tiled n) /\
    span true t = Some (0%Z, Z.of_nat (length s)).

Definition C02_guard_holds_for_generated_tables_statement : Prop :=
  forall s, parse_rflat gen_tables s = false.

(* "in order, without overlapping": any two children, the earlier one ends before the later one starts,
   both inside the node's own span *)
Definition C02_tiled_pairwise_statement : Prop :=
  forall n, tiled n ->
    exists lo hi cs, span false n = Some (lo, hi) /\ map (span true) (children n) = map Some cs /\
      forall i j a b c d, i < j -> nth_error cs i = Some (a, b) -> nth_error cs j = Some (c, d) ->
        (lo <= a /\ a <= b /\ b <= c /\ c <= d /\ d <= hi)%Z.

Theorem C02_any_tables : C02_any_tables_statement.
Proof.
  intros tb s t evs Hp Htriv Hrf. destruct (parse_with_spans _ _ _ _ Hp Htriv Hrf) as [Hs Hpr].
  exact (spans_ok_root s t Hs Hpr).
Qed.

Theorem C02_guard_holds_for_generated_tables : C02_guard_holds_for_generated_tables_statement.
Proof. exact gen_no_rflat. Qed.

Theorem C02_partial : C02_partial_statement.
Proof.
  intros s t Hp Hne. unfold parse, no_event, parse_events, parse_full in *.
  destruct (parse_with gen_tables s) as [r evs|] eqn:Hpw; [|discriminate].
  inversion Hp; subst. eapply C02_any_tables; [exact Hpw| |apply gen_no_rflat].
  apply filter_nil_trivial. exact Hne.
Qed.

Theorem C02_tiled_pairwise : C02_tiled_pairwise_statement.
Proof.
  intros n [lo [hi [cs [Hs [Hm Ho]]]]]. exists lo, hi, cs. split; [exact Hs|]. split; [exact Hm|].
  intros i j a b c d Hij Hi Hj. eapply ordered_in_pairwise; eauto.
Qed.

(* the full statement is false today: with a blank between a field name and its colon the SearchField's
   span is the right one but its text is not (F1, as for C01) *)
Theorem C02_refuted : ~ C02_statement.
Proof.
  intros H.
  assert (Hp : exists t, parse f1_witness = Some (Ok t) /\ span false t = Some (0, 8)%Z /\
                         print false t = [102;111;111;58;98;97;114]%N).
  { eexists. split; [vm_compute; reflexivity|split; vm_compute; reflexivity]. }
  destruct Hp as [t [Hp [Hsp Hprint]]]. destruct (H _ _ Hp) as [Hall _].
  destruct (Hall [] t eq_refl) as [[a [b [a' [b' [Hf [_ [_ [Hr _]]]]]]]] _].
  rewrite Hsp in Hf. inversion Hf; subst a b. rewrite Hprint in Hr.
  change (slice f1_witness 0 8) with f1_witness in Hr.
  destruct Hr as [toks [toks' [Hlex [Hf2 Hr]]]].
  vm_compute in Hlex. inversion Hlex; subst toks; clear Hlex.
  inversion Hf2 as [|a1 b1 l1 l1' H1 Hf1]; subst. inversion Hf1 as [|a2 b2 l2 l2' H2 Hf3]; subst.
  inversion Hf3 as [|a3 b3 l3 l3' H3 Hf4]; subst. inversion Hf4; subst.
  destruct H1 as [T1 [Hh1 [Ht1 L1]]], H2 as [T2 [Hh2 [Ht2 L2]]], H3 as [T3 [Hh3 [Ht3 L3]]].
  simpl in *.
  destruct L1 as [L1|[[K|K] _]]; try discriminate.
  destruct L2 as [L2|[[K|K] _]]; try discriminate.
  destruct L3 as [L3|[[K|K] _]]; try discriminate.
  unfold render, tok_text in Hr. simpl in Hr.
  rewrite <- Hh1, <- Ht1, <- L1, <- Hh2, <- Ht2, <- L2, <- Hh3, <- Ht3, <- L3 in Hr. simpl in Hr. discriminate.
Qed.

(* which clause fails on the F1 witness "foo :bar": only the text of the SearchField itself (both slices);
   its child, the tiling and the root span are right *)
Example C02_f1_clauses :
  exists t e, parse f1_witness = Some (Ok t) /\ children t = [e] /\
    span false t = Some (0, 8)%Z /\ span true t = Some (0, 8)%Z /\
    slice f1_witness 0 8 = f1_witness /\
    print false t = [102;111;111;58;98;97;114]%N /\ print true t = [102;111;111;58;98;97;114]%N /\
    span true e = Some (5, 8)%Z /\ slice f1_witness 5 8 = print true e /\ spans_okb 5 e = true /\
    spans_okb 0 t = false.
Proof. do 2 eexists. repeat split; vm_compute; reflexivity. Qed.

(* ---- non-vacuity *)
(* the C01 example query (most productions, blanks everywhere, a tab and an ideographic space) has no
   event, is accepted, and every node of its tree is located and tiled *)
Example C02_nonvacuous :
  no_event ex_query /\ parse_rflat gen_tables ex_query = false /\
  exists t, parse ex_query = Some (Ok t) /\ spans_okb 0 t = true /\
            (forall p n, subtree_at t p = Some n -> located ex_query n /\ tiled n) /\
            exists n, subtree_at t [0; 0; 1; 0; 1] = Some n /\ span true n = Some (17, 19)%Z.
Proof.
  split; [vm_compute; reflexivity|]. split; [vm_compute; reflexivity|].
  assert (Hp : exists t, parse ex_query = Some (Ok t)) by (eexists; vm_compute; reflexivity).
  destruct Hp as [t Hp]. exists t. split; [exact Hp|].
  assert (Hne : no_event ex_query) by (vm_compute; reflexivity).
  split; [|split].
  - vm_compute in Hp. inversion Hp; subst t. vm_compute. reflexivity.
  - apply (C02_partial _ _ Hp Hne).
  - vm_compute in Hp. inversion Hp; subst t. eexists. split; vm_compute; reflexivity.
Qed.

(* the guard of C02_any_tables is needed: replaying p_expression_or on `a`, `OR` followed by a blank, and
   the already built OrOperation `b OR c` (what a right-associative table would do on "a OR b OR c") gives
   an OrOperation whose size is 10 while its text has 11 characters — although no text is lost *)
Definition latent_args : list symval :=
  let w (p : Z) (c : N) (h t : str) := Term KWord (mkMeta (Some p) (Some 1%Z) h t None) [c] in
  [VItem (w 0%Z 97%N [] [32%N]);
   VTok s_OR (Some s_OR) (mkMeta (Some 2%Z) (Some 2%Z) [] [32%N] None);
   VItem (Op KOr (mkMeta (Some 5%Z) (Some 6%Z) [] [] None) [w 5%Z 98%N [] [32%N]; w 10%Z 99%N [32%N] []])].

Example C02_latent_defect :
  exists v evs, run_action A_expression_or latent_args = Ok (v, evs) /\ all_trivial evs /\
                args_ok 0 latent_args /\ rflat_args A_expression_or latent_args = true /\
                full_text v = concat (map full_text latent_args) /\ ~ sv_spans_ok 0 v /\
                m_size (sv_meta v) = Some 10%Z /\ zlen (sv_inner v) = 11%Z.
Proof.
  do 2 eexists. split; [vm_compute; reflexivity|]. split; [repeat constructor|]. split.
  - simpl. repeat split; vm_compute; reflexivity.
  - split; [vm_compute; reflexivity|]. split; [vm_compute; reflexivity|]. split; [|split; vm_compute; reflexivity].
    intros Hs. match type of Hs with sv_spans_ok _ (VItem ?i) => change (spans_ok 0 i) in Hs end.
    apply spans_okb_iff in Hs. vm_compute in Hs. discriminate.
Qed.

Print Assumptions C02_any_tables.
Print Assumptions C02_guard_holds_for_generated_tables.
Print Assumptions C02_partial.
Print Assumptions C02_tiled_pairwise.
Print Assumptions C02_refuted.
