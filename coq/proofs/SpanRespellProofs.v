(* SpanRespellProofs.v — C02 up to numeral re-spelling, guarded only by "no text was dropped".

   pos and size always describe the ORIGINAL text (the size of a Fuzzy / Proximity / Boost node counts the
   numeral lexeme as it was written), so the layout predicate of SpanProofs is restated on an ORIGINAL TEXT o of
   each node: the printed form in which the literal text after the last child (the numeral) — and, for any
   tables, a field name — may be spelled as an equivalent numeral (RespellProofs.numeral_ev).
   1. onode_ok p n o  ==>  located_r / tiled for every node (ospans_root); located_r is `located` with the
      slices equal to the printed forms up to RespellProofs.resp (string level);
   2.-4. every semantic action keeps the predicate and spells EXACTLY the original texts of its parts when its
      ghost events are harmless (RespellProofs.ev_ok) (run_action_ospans);
   5. the driver, any tables (parse_with_ospans); generated tables: parse_ospans, guard dropped_texts s = []. *)
Require Import Base Decimal Tree GenTree GenParser Lexer Print Actions LR Parser Spans.
Require Import TreeInd LexerProofs ActionProofs LRProofs SpanProofs C01 RespellProofs.
From Coq Require Import Lia.

Local Open Scope Z_scope.

(* ================================================================ 1. the layout predicate on ORIGINAL texts *)

(* pos and size always describe the ORIGINAL text: the size of a Fuzzy / Proximity / Boost node counts the
   numeral lexeme as it was written.  `onode_ok p n o`: o is an original text of n (without head and tail):
   the printed form where the literal text after the last child (the numeral) may be spelled differently;
   pos = p, size = |o|, and the children sit where o puts them. *)
Definition ofull (n : item) (o : str) : str := head_of n ++ o ++ tail_of n.

Fixpoint oweave (sps : list str) (cs : list item) (os : list str) {struct cs} : str :=
  match cs, sps, os with
  | c :: cs', sp :: sps', o :: os' => sp ++ ofull c o ++ oweave sps' cs' os'
  | _, _, _ => []
  end.

Definition post_rel (n : item) (p' : str) : Prop := p' = post n \/ numeral_ev p' (post n).

(* the literal text in front of the first child that is a VALUE of the node (the field name), and the
   remaining literal separators *)
Definition opre (n : item) : str := match n with SearchField _ name _ => name | _ => [] end.
Definition oseps (n : item) : list str := match n with SearchField _ _ _ => [[c_colon]] | _ => seps n end.
Definition pre_rel (n : item) (q : str) : Prop := q = opre n \/ numeral_ev q (opre n).

Definition owalk (f : Z -> item -> str -> Prop) :=
  fix go (b : Z) (sps : list str) (l : list item) (os : list str) {struct l} : Prop :=
    match l, sps, os with
    | [], _, [] => True
    | c :: l', sp :: sps', o :: os' =>
        f (b + zlen sp + zlen (head_of c)) c o /\ go (b + zlen sp + zlen (ofull c o)) sps' l' os'
    | _, _, _ => False
    end.

Fixpoint onode_ok (p : Z) (n : item) (o : str) : Prop :=
  let via (cs : list item) :=
    m_pos (meta_of n) = Some p /\ m_size (meta_of n) = Some (zlen o) /\
    exists os q p', o = q ++ oweave (oseps n) cs os ++ p' /\ pre_rel n q /\ post_rel n p' /\
                    owalk onode_ok (p + zlen q) (oseps n) cs os in
  match n with
  | NoneItem _ => False
  | Term _ _ _ => via []
  | SearchField _ _ e | Grp _ _ e | Boost _ e _ _ => via [e]
  | Fuzzy _ x _ _ | Proximity _ x _ _ => via [x]
  | Unary _ _ a | ORange _ _ a _ => via [a]
  | Range _ lo hi _ _ => via [lo; hi]
  | Op _ _ ops => via ops
  end.

Lemma onode_ok_unfold p n o :
  onode_ok p n o <->
  not_none n /\ m_pos (meta_of n) = Some p /\ m_size (meta_of n) = Some (zlen o) /\
  exists os q p', o = q ++ oweave (oseps n) (children n) os ++ p' /\ pre_rel n q /\ post_rel n p' /\
                  owalk onode_ok (p + zlen q) (oseps n) (children n) os.
Proof. destruct n; simpl; tauto. Qed.

Lemma onode_ok_intro p n o os q p' :
  not_none n -> m_pos (meta_of n) = Some p -> m_size (meta_of n) = Some (zlen o) ->
  o = q ++ oweave (oseps n) (children n) os ++ p' -> pre_rel n q -> post_rel n p' ->
  owalk onode_ok (p + zlen q) (oseps n) (children n) os -> onode_ok p n o.
Proof. intros. apply onode_ok_unfold. eauto 12. Qed.

Lemma print_pieces' n : print false n = opre n ++ weave (oseps n) (map (print true) (children n)) ++ post n.
Proof.
  destruct n; try (rewrite print_pieces; reflexivity).
  simpl. unfold wrap. simpl. rewrite <- ?app_assoc, ?app_nil_r. reflexivity.
Qed.

Lemma pre_rel_resp n q : pre_rel n q -> resp q (opre n).
Proof. intros [->|H]; [apply resp_refl|apply resp_of_numeral_ev; exact H]. Qed.

Lemma onode_ok_not_none p n o : onode_ok p n o -> not_none n.
Proof. intros H. apply onode_ok_unfold in H. apply H. Qed.

Lemma onode_ok_cast p p' n o : onode_ok p n o -> p = p' -> onode_ok p' n o.
Proof. intros H E. subst. exact H. Qed.
Lemma owalk_cast (f : Z -> item -> str -> Prop) b b' sps l os : owalk f b sps l os -> b = b' -> owalk f b' sps l os.
Proof. intros H E. subst. exact H. Qed.

Lemma ofull_len n o : zlen (ofull n o) = zlen (head_of n) + zlen o + zlen (tail_of n).
Proof. unfold ofull. zl. lia. Qed.

(* ---- original text and printed text differ by numeral re-spelling only *)
Lemma post_rel_resp n p' : post_rel n p' -> resp p' (post n).
Proof. intros [->|H]; [apply resp_refl|apply resp_of_numeral_ev; exact H]. Qed.

Lemma owalk_resp : forall l,
  Forall (fun c => forall p o, onode_ok p c o -> resp (ofull c o) (print true c)) l ->
  forall sps b os, owalk onode_ok b sps l os -> resp (oweave sps l os) (weave sps (map (print true) l)).
Proof.
  induction l as [|c l IH]; intros HF sps b os Hw; [destruct sps, os; apply resp_refl|].
  destruct sps as [|sp sps]; [destruct Hw|]. destruct os as [|o os]; [destruct Hw|]. destruct Hw as [H1 H2].
  inversion HF as [|? ? Hc Hl]; subst. simpl.
  apply resp_app; [apply resp_refl|]. apply resp_app; [eapply Hc; exact H1|eapply IH; eauto].
Qed.

Lemma onode_resp : forall n p o, onode_ok p n o -> resp (ofull n o) (print true n).
Proof.
  apply (item_children_ind (fun n => forall p o, onode_ok p n o -> resp (ofull n o) (print true n))).
  intros n IH p o H. pose proof (onode_ok_not_none _ _ _ H) as Hn.
  apply onode_ok_unfold in H. destruct H as [_ [_ [_ [os [q [p' [Eo [Hq [Hp Hw]]]]]]]]].
  rewrite (print_true_split n Hn). unfold ofull. apply resp_app; [apply resp_refl|].
  apply resp_app; [|apply resp_refl]. rewrite Eo, (print_pieces' n).
  apply resp_app; [apply pre_rel_resp; exact Hq|].
  apply resp_app; [eapply owalk_resp; eauto|apply post_rel_resp; exact Hp].
Qed.

Lemma onode_resp_false n p o : onode_ok p n o -> resp o (print false n).
Proof.
  intros H. pose proof (onode_ok_not_none _ _ _ H) as Hn.
  apply onode_ok_unfold in H. destruct H as [_ [_ [_ [os [q [p' [Eo [Hq [Hp Hw]]]]]]]]].
  rewrite Eo, (print_pieces' n). apply resp_app; [apply pre_rel_resp; exact Hq|].
  apply resp_app; [|apply post_rel_resp; exact Hp].
  eapply owalk_resp; [|exact Hw]. apply Forall_forall. intros c _ pc oc Hc. eapply onode_resp. exact Hc.
Qed.

(* ---- the property up to numeral re-spelling, string level *)
Definition located_r (s : str) (n : item) : Prop :=
  exists a b a' b',
    span false n = Some (a, b) /\ span true n = Some (a', b') /\
    (0 <= a' /\ a' <= a /\ a <= b /\ b <= b' /\ b' <= zlen s) /\
    resp (slice s a b) (print false n) /\ resp (slice s a' b') (print true n).

Lemma onode_span p n o : onode_ok p n o ->
  span false n = Some (p, p + zlen o) /\
  span true n = Some (p - zlen (head_of n), p + zlen o + zlen (tail_of n)).
Proof.
  intros H. apply onode_ok_unfold in H. destruct H as [_ [Hp [Hs _]]]. unfold span. rewrite Hp, Hs. auto.
Qed.

Lemma onode_located s p n o :
  onode_ok p n o -> at_off s (p - zlen (head_of n)) (ofull n o) -> located_r s n.
Proof.
  intros Hn Hat. destruct (onode_span _ _ _ Hn) as [Hf Ht].
  destruct (at_off_slice _ _ _ Hat) as [Hs1 [Hlo Hhi]].
  unfold ofull in Hat. pose proof (at_off_inner _ _ _ _ _ Hat) as Hat2.
  destruct (at_off_slice _ _ _ Hat2) as [Hs2 _].
  pose proof (zlen_nonneg (head_of n)). pose proof (zlen_nonneg (tail_of n)). pose proof (zlen_nonneg o).
  rewrite ofull_len in Hhi, Hs1.
  do 4 eexists. split; [exact Hf|]. split; [exact Ht|]. split; [lia|]. split.
  - replace (slice s p (p + zlen o)) with o; [eapply onode_resp_false; exact Hn|].
    symmetry. etransitivity; [|exact Hs2]. f_equal; lia.
  - replace (slice s (p - zlen (head_of n)) (p + zlen o + zlen (tail_of n))) with (ofull n o);
      [eapply onode_resp; exact Hn|]. symmetry. etransitivity; [|exact Hs1]. f_equal; lia.
Qed.

Lemma owalk_nth s : forall l sps b os rest,
  owalk onode_ok b sps l os -> at_off s b (oweave sps l os ++ rest) ->
  forall i c, nth_error l i = Some c ->
  exists pc oc, onode_ok pc c oc /\ at_off s (pc - zlen (head_of c)) (ofull c oc).
Proof.
  induction l as [|d l IH]; intros sps b os rest Hw Hat i c Hn; [destruct i; discriminate|].
  destruct sps as [|sp sps]; [destruct Hw|]. destruct os as [|o os]; [destruct Hw|]. destruct Hw as [Hd Hw].
  simpl oweave in Hat. rewrite <- !app_assoc in Hat.
  destruct i as [|i]; simpl in Hn.
  - inversion Hn; subst. exists (b + zlen sp + zlen (head_of c)), o. split; [exact Hd|].
    replace (b + zlen sp + zlen (head_of c) - zlen (head_of c)) with (b + zlen sp) by lia.
    eapply at_off_inner. exact Hat.
  - eapply (IH sps _ os rest Hw); [|exact Hn].
    replace (b + zlen sp + zlen (ofull d o)) with (b + zlen (sp ++ ofull d o)) by (zl; lia).
    apply at_off_suffix. rewrite <- app_assoc. exact Hat.
Qed.

Lemma owalk_spans : forall l sps b os, owalk onode_ok b sps l os ->
  exists cs, map (span true) l = map Some cs /\ ordered_in b (b + zlen (oweave sps l os)) cs.
Proof.
  induction l as [|d l IH]; intros sps b os Hw.
  - exists []. simpl. split; [reflexivity|]. zl. lia.
  - destruct sps as [|sp sps]; [destruct Hw|]. destruct os as [|o os]; [destruct Hw|]. destruct Hw as [Hd Hw].
    destruct (IH _ _ _ Hw) as [cs [Hm Ho]]. destruct (onode_span _ _ _ Hd) as [_ Hs].
    exists ((b + zlen sp, b + zlen sp + zlen (ofull d o)) :: cs). split.
    + simpl. rewrite Hm, Hs. f_equal. f_equal. rewrite ofull_len. f_equal; lia.
    + simpl. pose proof (zlen_nonneg sp). pose proof (zlen_nonneg (ofull d o)).
      split; [lia|]. eapply ordered_in_weaken; [exact Ho|]. zl. lia.
Qed.

Lemma ordered_in_lower : forall l lo hi d, ordered_in (lo + d) hi l -> 0 <= d -> ordered_in lo hi l.
Proof. destruct l as [|[a b] l]; simpl; intros lo hi d H Hd; [lia|]. destruct H as [H1 H2]. split; [lia|exact H2]. Qed.

Lemma onode_tiled p n o : onode_ok p n o -> tiled n.
Proof.
  intros Hn. destruct (onode_span _ _ _ Hn) as [Hf _].
  apply onode_ok_unfold in Hn. destruct Hn as [_ [_ [_ [os [q [p' [Eo [_ [_ Hw]]]]]]]]].
  destruct (owalk_spans _ _ _ _ Hw) as [cs [Hm Ho]].
  exists p, (p + zlen o), cs. split; [exact Hf|]. split; [exact Hm|].
  pose proof (zlen_nonneg q). eapply ordered_in_lower; [|exact H].
  replace p with (p + zlen q - zlen q) at 1 by lia. replace (p + zlen q - zlen q + zlen q) with (p + zlen q) by lia.
  eapply ordered_in_weaken; [exact Ho|]. rewrite Eo. zl. pose proof (zlen_nonneg p'). lia.
Qed.

Lemma onode_child s p n o i c :
  onode_ok p n o -> at_off s (p - zlen (head_of n)) (ofull n o) -> nth_error (children n) i = Some c ->
  exists pc oc, onode_ok pc c oc /\ at_off s (pc - zlen (head_of c)) (ofull c oc).
Proof.
  intros Hn Hat Hc. apply onode_ok_unfold in Hn. destruct Hn as [_ [_ [_ [os [q [p' [Eo [_ [_ Hw]]]]]]]]].
  unfold ofull in Hat. rewrite Eo, <- !app_assoc in Hat. apply at_off_suffix in Hat. apply at_off_suffix in Hat.
  replace (p - zlen (head_of n) + zlen (head_of n)) with p in Hat by lia.
  eapply owalk_nth; eauto.
Qed.

Theorem ospans_everywhere s : forall q n p o d,
  onode_ok p n o -> at_off s (p - zlen (head_of n)) (ofull n o) -> subtree_at n q = Some d ->
  located_r s d /\ tiled d.
Proof.
  induction q as [|i q IH]; intros n p o d Hn Hat Hsub; simpl in Hsub.
  - inversion Hsub; subst. split; [eapply onode_located; eauto|eapply onode_tiled; eauto].
  - destruct (nth_error (children n) i) as [c|] eqn:Hc; [|discriminate].
    destruct (onode_child _ _ _ _ _ _ Hn Hat Hc) as [pc [oc [H1 H2]]]. eapply IH; eauto.
Qed.

Theorem ospans_root s t o :
  onode_ok (zlen (head_of t)) t o -> ofull t o = s ->
  (forall q d, subtree_at t q = Some d -> located_r s d /\ tiled d) /\ span true t = Some (0, zlen s).
Proof.
  intros Hn Hpr. split.
  - intros q d Hsub. eapply ospans_everywhere; [exact Hn| |exact Hsub].
    exists [], []. rewrite app_nil_r. simpl. split; [symmetry; exact Hpr|]. unfold zlen; simpl; lia.
  - destruct (onode_span _ _ _ Hn) as [_ Ht]. rewrite Ht, <- Hpr, ofull_len. f_equal. f_equal; lia.
Qed.


(* ================================================================ 2. values of the stack, HeadTailManager.pos *)
Definition osv_node_ok (p : Z) (v : symval) (o : str) : Prop :=
  match v with
  | VItem i => onode_ok p i o
  | VTok l _ m => m_pos m = Some p /\ m_size m = Some (zlen l) /\ o = l
  end.
Definition osv_ok (b : Z) (v : symval) (o : str) : Prop := osv_node_ok (b + zlen (sv_head v)) v o.
Definition ofull_sv (v : symval) (o : str) : str := sv_head v ++ o ++ sv_tail v.

Fixpoint oargs_ok (b : Z) (args : list symval) (os : list str) {struct args} : Prop :=
  match args, os with
  | [], [] => True
  | v :: r, o :: os' => osv_ok b v o /\ oargs_ok (b + zlen (ofull_sv v o)) r os'
  | _, _ => False
  end.
Fixpoint otexts (args : list symval) (os : list str) {struct args} : str :=
  match args, os with
  | v :: r, o :: os' => ofull_sv v o ++ otexts r os'
  | _, _ => []
  end.

Lemma osv_ok_facts b v o : osv_ok b v o ->
  val_ok v /\ m_pos (sv_meta v) = Some (b + zlen (sv_head v)) /\ m_size (sv_meta v) = Some (zlen o).
Proof.
  destruct v as [i|l vv m]; unfold osv_ok; simpl.
  - intros H. pose proof (onode_ok_not_none _ _ _ H). apply onode_ok_unfold in H. tauto.
  - intros [H1 [H2 ->]]. auto.
Qed.

Lemma oargs_ok_app : forall x ox y oy b, length x = length ox ->
  (oargs_ok b (x ++ y) (ox ++ oy) <-> oargs_ok b x ox /\ oargs_ok (b + zlen (otexts x ox)) y oy).
Proof.
  induction x as [|v x IH]; intros ox y oy b Hl; destruct ox as [|o ox]; try discriminate; simpl.
  - replace (b + zlen []) with b by (zl; lia). tauto.
  - simpl in Hl. injection Hl as Hl. rewrite (IH _ _ _ _ Hl). zl. rewrite Z.add_assoc. tauto.
Qed.

Lemma oargs_ok_length : forall args os b, oargs_ok b args os -> length args = length os.
Proof.
  induction args as [|v r IH]; intros [|o os] b H; simpl in *; try tauto. f_equal. eapply IH. apply H.
Qed.

Definition osum (args : list symval) (os : list str) : Z :=
  zlen (otexts args os).

Lemma ohtm_fold : forall args os acc,
  Forall2 (fun v o => m_size (sv_meta v) = Some (zlen o)) args os ->
  fold_left (fun acc v => acc + oz (m_size (sv_meta v)) + zlen (sv_head v) + zlen (sv_tail v)) args acc
  = acc + osum args os.
Proof.
  unfold osum. induction args as [|v r IH]; intros os acc H; inversion H; subst; simpl; [zl; lia|].
  rewrite (IH _ _ H4). rewrite H2. unfold ofull_sv. simpl. zl. lia.
Qed.

Lemma ohtm_pos_spec q p1 rest os ht tt :
  m_pos (sv_meta p1) = Some q ->
  Forall2 (fun v o => m_size (sv_meta v) = Some (zlen o)) (p1 :: rest) os ->
  htm_pos (p1 :: rest) ht tt =
  (Some (if ht then q else q - zlen (sv_head p1)),
   Some (osum (p1 :: rest) os - (if ht then zlen (sv_head p1) else 0)
         - (if tt then zlen (sv_tail (last (p1 :: rest) p1)) else 0))).
Proof.
  intros Hq Hs. unfold htm_pos. rewrite Hq, (ohtm_fold _ _ _ Hs).
  destruct ht, tt; f_equal; f_equal; lia.
Qed.

Local Opaque htm_pos.

Lemma oargs_sizes : forall args os b, oargs_ok b args os ->
  Forall2 (fun v o => m_size (sv_meta v) = Some (zlen o)) args os.
Proof.
  induction args as [|v r IH]; intros [|o os] b H; simpl in H; try tauto; [constructor|].
  destruct H as [H1 H2]. constructor; [apply (osv_ok_facts _ _ _ H1)|eapply IH; exact H2].
Qed.

(* ---- moving heads and tails *)
Lemma onode_ok_set_meta p i m o :
  m_pos m = m_pos (meta_of i) -> m_size m = m_size (meta_of i) -> onode_ok p i o -> onode_ok p (set_meta i m) o.
Proof.
  intros Hp Hs H. apply onode_ok_unfold in H. destruct H as [Hn [H1 [H2 [os [q [p' [Eo [Hq [Hpr Hw]]]]]]]]].
  apply onode_ok_unfold. rewrite meta_set_meta, children_set_meta.
  replace (oseps (set_meta i m)) with (oseps i) by (destruct i; reflexivity).
  split; [apply not_none_set_meta; exact Hn|]. rewrite Hp, Hs. split; [exact H1|]. split; [exact H2|].
  exists os, q, p'. split; [exact Eo|]. split; [|split; [|exact Hw]].
  - unfold pre_rel in *. replace (opre (set_meta i m)) with (opre i) by (destruct i; reflexivity). exact Hq.
  - unfold post_rel in *. replace (post (set_meta i m)) with (post i) by (destruct i; reflexivity). exact Hpr.
Qed.
Lemma onode_ok_add_head p i s o : onode_ok p i o -> onode_ok p (add_head i s) o.
Proof. intros H. apply onode_ok_set_meta; auto. Qed.
Lemma onode_ok_add_tail p i s o : onode_ok p i o -> onode_ok p (add_tail_i i s) o.
Proof. intros H. apply onode_ok_set_meta; auto. Qed.

Lemma tail_add_tail i s : tail_of (add_tail_i i s) = tail_of i ++ s.
Proof. unfold add_tail_i, set_tail, tail_of. rewrite meta_set_meta. reflexivity. Qed.
Lemma ofull_add_head i s o : ofull (add_head i s) o = s ++ ofull i o.
Proof. unfold ofull. rewrite head_add_head, tail_add_head, <- app_assoc. reflexivity. Qed.
Lemma ofull_add_tail i s o : ofull (add_tail_i i s) o = ofull i o ++ s.
Proof. unfold ofull. rewrite head_add_tail, tail_add_tail, <- !app_assoc. reflexivity. Qed.

(* ---- a printed token text that does not start with ~ or ^ was not re-spelled *)
Definition not_numeral_text (p : str) : Prop := forall d', p <> c_tilde :: d' /\ p <> c_caret :: d'.

Lemma ev_ok_eq l printed : ev_ok (GRespell l printed) -> not_numeral_text printed -> l = printed.
Proof.
  intros [E|[c [d [d' [[Hc|Hc] [_ [Eb _]]]]]]] Hn; [exact E| |]; subst c; destruct (Hn d'); congruence.
Qed.

Lemma post_rel_nil n p' : post n = [] -> post_rel n p' -> p' = [].
Proof.
  intros E [H|[c [d [d' [_ [_ [Eb _]]]]]]]; [rewrite H; exact E|]. rewrite E in Eb. discriminate.
Qed.

Lemma pre_rel_nil n q : opre n = [] -> pre_rel n q -> q = [].
Proof.
  intros E [H|[c [d [d' [_ [_ [Eb _]]]]]]]; [rewrite H; exact E|]. rewrite E in Eb. discriminate.
Qed.

Ltac nnt := let d := fresh "d" in let E := fresh "E" in intros d; split; intros E; vm_compute in E; discriminate E.

(* OP expr *)
Lemma unary_ht_ospans mk l vv m x printed v evs b ol ox :
  unary_ht mk (VTok l vv m) x printed = (v, evs) -> Forall ev_ok evs -> not_numeral_text printed ->
  oargs_ok b [VTok l vv m; VItem x] [ol; ox] ->
  (forall m' y, oseps (mk m' y) = [printed]) ->
  (forall m' y, opre (mk m' y) = []) ->
  (forall m' y, post (mk m' y) = []) ->
  (forall m' y, children (mk m' y) = [y]) ->
  (forall m' y, not_none (mk m' y)) ->
  (forall m' y, meta_of (mk m' y) = m') ->
  exists o, osv_ok b v o /\ ofull_sv v o = otexts [VTok l vv m; VItem x] [ol; ox].
Proof.
  unfold unary_ht. intros H Ht Hnn' Hargs Hseps Hpre Hpost Hch Hnn Hmeta. inversion H; subst; clear H.
  apply Forall_cons_iff in Ht. destruct Ht as [Hl _]. apply ev_ok_eq in Hl; [|exact Hnn']. simpl in Hl. subst printed.
  pose proof (oargs_sizes _ _ _ Hargs) as Hsz. destruct Hargs as [Ho [Hx _]].
  destruct (osv_ok_facts _ _ _ Ho) as [_ [Hpo _]]. destruct Ho as [_ [_ Eol]]. subst ol.
  unfold osv_ok in Hx. simpl in Hx, Hpo.
  rewrite (ohtm_pos_spec _ (VTok l vv m) [VItem x] _ true false Hpo Hsz).
  exists (l ++ ofull (add_head x (m_tail m)) ox). split.
  - unfold osv_ok, sv_head. simpl sv_meta. simpl osv_node_ok. rewrite Hmeta. simpl m_head.
    apply (onode_ok_intro _ _ _ [ox] [] []); rewrite ?Hmeta, ?Hseps, ?Hch; simpl.
    + apply Hnn.
    + reflexivity.
    + f_equal. unfold osum. simpl. rewrite ofull_add_head. unfold ofull_sv, sv_head, sv_tail, ofull, head_of, tail_of. simpl. zl. lia.
    + rewrite !app_nil_r. reflexivity.
    + left. symmetry. apply Hpre.
    + left. symmetry. apply Hpost.
    + split; [|exact I]. apply onode_ok_add_head. eapply onode_ok_cast; [exact Hx|].
      rewrite head_add_head. unfold ofull_sv, sv_head, sv_tail, head_of. simpl. zl. lia.
  - unfold ofull_sv, sv_head, sv_tail. simpl. rewrite Hmeta. simpl. rewrite ofull_add_head.
    unfold ofull, ofull_sv, sv_head, sv_tail, head_of, tail_of. simpl. norm_app. reflexivity.
Qed.

(* expr OP *)
Lemma post_unary_ht_ospans mk l vv m x printed v evs b ox ol :
  post_unary_ht mk x (VTok l vv m) [GRespell l printed] = (v, evs) -> Forall ev_ok evs ->
  oargs_ok b [VItem x; VTok l vv m] [ox; ol] ->
  (forall m' y, oseps (mk m' y) = [[]]) ->
  (forall m' y, opre (mk m' y) = []) ->
  (forall m' y, post (mk m' y) = printed) ->
  (forall m' y, children (mk m' y) = [y]) ->
  (forall m' y, not_none (mk m' y)) ->
  (forall m' y, meta_of (mk m' y) = m') ->
  exists o, osv_ok b v o /\ ofull_sv v o = otexts [VItem x; VTok l vv m] [ox; ol].
Proof.
  unfold post_unary_ht. intros H Ht Hargs Hseps Hpre Hpost Hch Hnn Hmeta. inversion H; subst; clear H.
  apply Forall_cons_iff in Ht. destruct Ht as [Hl _].
  pose proof (oargs_sizes _ _ _ Hargs) as Hsz. destruct Hargs as [Hx [Ho _]].
  destruct (osv_ok_facts _ _ _ Hx) as [_ [Hpx _]]. destruct Ho as [_ [_ Eol]]. subst ol.
  unfold osv_ok in Hx. simpl in Hx, Hpx.
  rewrite (ohtm_pos_spec _ (VItem x) [VTok l vv m] _ false true Hpx Hsz).
  exists (ofull (add_tail_i x (m_head m)) ox ++ l). split.
  - unfold osv_ok, sv_head. simpl sv_meta. simpl osv_node_ok. rewrite Hmeta. simpl m_head.
    apply (onode_ok_intro _ _ _ [ox] [] l); rewrite ?Hmeta, ?Hseps, ?Hch; simpl.
    + apply Hnn.
    + f_equal. unfold sv_head, head_of. simpl. zl. lia.
    + f_equal. unfold osum. simpl. rewrite ofull_add_tail. unfold ofull_sv, sv_head, sv_tail, ofull, head_of, tail_of. simpl. zl. lia.
    + rewrite !app_nil_r. reflexivity.
    + left. symmetry. apply Hpre.
    + unfold post_rel. rewrite Hpost. exact Hl.
    + split; [|exact I]. apply onode_ok_add_tail. eapply onode_ok_cast; [exact Hx|].
      rewrite head_add_tail. unfold sv_head, head_of. simpl. zl. lia.
  - unfold ofull_sv, sv_head, sv_tail. simpl. rewrite Hmeta. simpl. rewrite ofull_add_tail.
    unfold ofull, ofull_sv, sv_head, sv_tail, head_of, tail_of. simpl. norm_app. reflexivity.
Qed.

Lemma onode_ok_fieldgroup p e o :
  onode_ok p e o ->
  onode_ok p (match e with Grp KGroup m x => Grp KFieldGroup (clone_meta_nameless m) x | _ => e end) o
  /\ head_of (match e with Grp KGroup m x => Grp KFieldGroup (clone_meta_nameless m) x | _ => e end) = head_of e
  /\ tail_of (match e with Grp KGroup m x => Grp KFieldGroup (clone_meta_nameless m) x | _ => e end) = tail_of e.
Proof. destruct e; auto. destruct k; auto. Qed.


(* ================================================================ 3. create_operation / binary_operation *)
Lemma oweave_app : forall x s1 ox s2 y oy, length s1 = length x -> length ox = length x ->
  oweave (s1 ++ s2) (x ++ y) (ox ++ oy) = oweave s1 x ox ++ oweave s2 y oy.
Proof.
  induction x as [|c x IH]; intros s1 ox s2 y oy H1 H2; destruct s1 as [|sp s1]; destruct ox as [|o ox];
    try discriminate; simpl; [reflexivity|].
  simpl in H1, H2. injection H1 as H1. injection H2 as H2. rewrite (IH _ _ _ _ _ H1 H2), <- !app_assoc. reflexivity.
Qed.

Lemma owalk_app (f : Z -> item -> str -> Prop) : forall x s1 ox s2 y oy b,
  length s1 = length x -> length ox = length x ->
  (owalk f b (s1 ++ s2) (x ++ y) (ox ++ oy) <->
   owalk f b s1 x ox /\ owalk f (b + zlen (oweave s1 x ox)) s2 y oy).
Proof.
  induction x as [|c x IH]; intros s1 ox s2 y oy b H1 H2; destruct s1 as [|sp s1]; destruct ox as [|o ox];
    try discriminate.
  - simpl app. replace (b + zlen (oweave [] [] [])) with b by (simpl; zl; lia). simpl. tauto.
  - simpl in H1, H2. injection H1 as H1. injection H2 as H2. simpl app. simpl owalk.
    rewrite (IH _ _ _ _ _ _ H1 H2). simpl oweave.
    replace (b + zlen (sp ++ ofull c o ++ oweave s1 x ox))
      with (b + zlen sp + zlen (ofull c o) + zlen (oweave s1 x ox)) by (zl; lia).
    tauto.
Qed.

Lemma owalk_length (f : Z -> item -> str -> Prop) : forall l sps b os, owalk f b sps l os -> length os = length l.
Proof.
  induction l as [|c l IH]; intros sps b os H; destruct os as [|o os]; simpl in *; try tauto;
    destruct sps; try tauto. f_equal. eapply IH. apply H.
Qed.

Definition opt_otext (opv : option symval) (oo : str) : str :=
  match opv with Some v => ofull_sv v oo | None => [] end.

Lemma op_text_not_numeral k : not_numeral_text (op_text k).
Proof. destruct k; nnt. Qed.

Lemma binary_ospans k a opv b_ v evs base oa oo ob :
  binary k a opv b_ = Ok (v, evs) -> Forall ev_ok evs ->
  ((match b_ with Op k' _ _ => opk_eqb k k' | _ => false end) = true ->
   (match opv with Some o => sv_tail o | None => [] end) = []) ->
  onode_ok (base + zlen (head_of a)) a oa ->
  (match opv with Some o => osv_ok (base + zlen (ofull a oa)) o oo | None => True end) ->
  onode_ok (base + zlen (ofull a oa) + zlen (opt_otext opv oo) + zlen (head_of b_)) b_ ob ->
  exists o, osv_ok base v o /\ ofull_sv v o = ofull a oa ++ opt_otext opv oo ++ ofull b_ ob.
Proof.
  intros H Hev Hguard Ha Hopv Hb.
  unfold binary in H.
  set (a_same := match a with Op k' _ _ => opk_eqb k k' | _ => false end) in *.
  set (b_same := match b_ with Op k' _ _ => opk_eqb k k' | _ => false end) in *.
  set (T := match opv with Some o => sv_tail o | None => [] end) in *.
  set (opsA := if a_same then children a else [a]) in *.
  destruct (if b_same then children b_ else [b_]) as [|b0 brest] eqn:HopsB; [discriminate|].
  set (b_after := if b_same then b_ else add_head b_ T) in *.
  destruct (htm_pos _ false false) as [pos size] eqn:Hhtm.
  inversion H; subst v evs; clear H.
  apply Forall_app in Hev. destruct Hev as [Hd Hr].
  apply ev_ok_drops in Hd. rewrite !Forall_app in Hd. destruct Hd as [HdA [HdB [HdO HdE]]].
  set (op := op_str (cls_of_opk k)).
  assert (FA : a_same = true -> head_of a = [] /\ tail_of a = []).
  { intros E. rewrite E in HdA. inversion HdA as [|? ? Hh Ht']; subst. inversion Ht'; subst. auto. }
  assert (FB : b_same = true -> head_of b_ = [] /\ tail_of b_ = []).
  { intros E. rewrite E in HdB. inversion HdB as [|? ? Hh Ht']; subst. inversion Ht'; subst. auto. }
  assert (FE : opsA = [] -> op = []).
  { intros E. rewrite E in HdE. inversion HdE; subst. assumption. }
  assert (Fop : opt_otext opv oo = op ++ T /\
                match opv with
                | Some o => sv_head o = [] /\ m_size (sv_meta o) = Some (zlen oo) /\ oo = op
                | None => True end).
  { destruct opv as [[i|l vv m]|].
    - inversion HdO as [|? ? Hx _]. discriminate.
    - inversion HdO as [|? ? Hh _]; subst. inversion Hr as [|? ? Hre _]; subst.
      apply ev_ok_eq in Hre; [|apply op_text_not_numeral]. simpl in Hre.
      destruct (osv_ok_facts _ _ _ Hopv) as [_ [_ Hso]]. destruct Hopv as [_ [_ Eo]]. subst oo l.
      simpl opt_otext. unfold ofull_sv, sv_head. simpl. rewrite Hh. repeat split; auto.
    - inversion Hr as [|? ? Hre _]; subst. apply ev_ok_eq in Hre; [|apply op_text_not_numeral].
      simpl. unfold op. change (op_str (cls_of_opk k)) with (op_text k). rewrite <- Hre. auto. }
  destruct Fop as [Fop1 Fop2].
  (* the left operands *)
  assert (WA : exists osA, length osA = length opsA /\ owalk onode_ok base (sepl [] op opsA) opsA osA /\
                           oweave (sepl [] op opsA) opsA osA = ofull a oa).
  { subst opsA. destruct a_same eqn:Has.
    - destruct (FA eq_refl) as [Hh Ht'].
      subst a_same. destruct a; try discriminate. apply opk_eqb_eq in Has. subst k0.
      rewrite Hh in Ha. apply onode_ok_unfold in Ha. destruct Ha as [_ [_ [_ [os [q [p' [Eo [Hq [Hp Hw]]]]]]]]].
      apply post_rel_nil in Hp; [|reflexivity]. apply pre_rel_nil in Hq; [|reflexivity]. subst p' q.
      rewrite app_nil_r in Eo. simpl in Eo.
      exists os. split; [eapply owalk_length; exact Hw|]. split; [eapply owalk_cast; [exact Hw|zl; lia]|].
      unfold ofull. rewrite Hh, Ht', app_nil_r. simpl. symmetry. exact Eo.
    - exists [oa]. split; [reflexivity|]. split.
      + simpl. split; [|exact I]. eapply onode_ok_cast; [exact Ha|zl; lia].
      + simpl. rewrite !app_nil_r. reflexivity. }
  destruct WA as [osA [LA [WA EA]]].
  set (Bb := base + zlen (ofull a oa) + zlen (opt_otext opv oo)) in *.
  assert (WB : exists o0 osr, length osr = length brest /\
                 owalk onode_ok Bb ([] :: map (fun _ : item => op) brest) (b0 :: brest) (o0 :: osr) /\
                 oweave ([] :: map (fun _ : item => op) brest) (b0 :: brest) (o0 :: osr) = ofull b_ ob).
  { destruct b_same eqn:Hbs.
    - destruct (FB eq_refl) as [Hh Ht'].
      subst b_same. destruct b_; try discriminate. apply opk_eqb_eq in Hbs. subst k0.
      simpl in HopsB. subst ops.
      rewrite Hh in Hb. apply onode_ok_unfold in Hb. destruct Hb as [_ [_ [_ [os [q [p' [Eo [Hq [Hp Hw]]]]]]]]].
      apply post_rel_nil in Hp; [|reflexivity]. apply pre_rel_nil in Hq; [|reflexivity]. subst p' q.
      rewrite app_nil_r in Eo. simpl in Eo.
      pose proof (owalk_length _ _ _ _ _ Hw) as Hlen. destruct os as [|o0 osr]; [discriminate|].
      exists o0, osr. split; [simpl in Hlen; lia|]. split; [eapply owalk_cast; [exact Hw|zl; lia]|].
      unfold ofull. rewrite Hh, Ht', app_nil_r. simpl. symmetry. exact Eo.
    - inversion HopsB; subst. exists ob, []. split; [reflexivity|]. split.
      + simpl. split; [|exact I]. eapply onode_ok_cast; [exact Hb|zl; lia].
      + simpl. rewrite !app_nil_r. reflexivity. }
  destruct WB as [o0 [osr [LB [WB EB]]]].
  (* pos and size *)
  destruct (proj1 (onode_ok_unfold _ _ _) Ha) as [Hna [Hpos [Hsa _]]].
  destruct (proj1 (onode_ok_unfold _ _ _) Hb) as [Hnb [_ [Hsb0 _]]].
  assert (Hsb : m_size (meta_of b_after) = Some (zlen ob) /\
                zlen (ofull b_after ob) = zlen T + zlen (ofull b_ ob)).
  { subst b_after. destruct b_same eqn:Hbs.
    - rewrite (Hguard eq_refl). split; [exact Hsb0|]. zl. lia.
    - rewrite meta_add_head_size, ofull_add_head. split; [exact Hsb0|]. zl. lia. }
  destruct Hsb as [Hsb Hlb].
  assert (Hps : pos = Some base /\
                size = Some (zlen (ofull a oa) + zlen (opt_otext opv oo) + zlen (ofull b_ ob) + zlen T)).
  { destruct opv as [o|].
    - destruct Fop2 as [F1 [F2 F3]].
      rewrite (ohtm_pos_spec _ (VItem a) [o; VItem b_after] [oa; oo; ob] false false Hpos) in Hhtm
        by (repeat constructor; assumption).
      inversion Hhtm; subst pos size. split; [f_equal; unfold sv_head, head_of; simpl; lia|].
      f_equal. unfold osum. simpl otexts. zl. unfold opt_otext.
      change (ofull_sv (VItem a) oa) with (ofull a oa). change (ofull_sv (VItem b_after) ob) with (ofull b_after ob).
      rewrite Hlb. lia.
    - rewrite (ohtm_pos_spec _ (VItem a) [VItem b_after] [oa; ob] false false Hpos) in Hhtm
        by (repeat constructor; assumption).
      inversion Hhtm; subst pos size. split; [f_equal; unfold sv_head, head_of; simpl; lia|].
      f_equal. unfold osum. simpl otexts. zl. simpl opt_otext.
      change (ofull_sv (VItem a) oa) with (ofull a oa). change (ofull_sv (VItem b_after) ob) with (ofull b_after ob).
      rewrite Hlb. subst T. zl. lia. }
  destruct Hps as [Hp1 Hp2]. subst pos size.
  (* the new operand list *)
  pose proof (zlen_nonneg T) as HT0.
  assert (Hb0' : forall q, onode_ok (q + zlen (head_of b0)) b0 o0 ->
                 onode_ok (q - zlen T + zlen (head_of (add_head b0 T))) (add_head b0 T) o0).
  { intros q Hq. apply onode_ok_add_head. eapply onode_ok_cast; [exact Hq|]. rewrite head_add_head. zl. lia. }
  destruct WB as [WB1 WB2]. simpl in EB.
  set (sp1 := match opsA with [] => ([] : str) | _ => op end).
  assert (Hsp1 : sp1 = op) by (subst sp1; destruct opsA; [symmetry; apply FE; reflexivity|reflexivity]).
  assert (Hsepl : sepl [] op (opsA ++ add_head b0 T :: brest) =
                  sepl [] op opsA ++ (sp1 :: map (fun _ : item => op) brest)).
  { subst sp1. destruct opsA as [|c x]; [reflexivity|]. simpl. rewrite map_app. reflexivity. }
  assert (EB' : oweave (sp1 :: map (fun _ : item => op) brest) (add_head b0 T :: brest) (o0 :: osr)
                = op ++ T ++ ofull b_ ob).
  { simpl. rewrite ofull_add_head, Hsp1, <- EB, <- !app_assoc. reflexivity. }
  exists (oweave (sepl [] op (opsA ++ add_head b0 T :: brest)) (opsA ++ add_head b0 T :: brest) (osA ++ o0 :: osr)).
  assert (Eo : oweave (sepl [] op (opsA ++ add_head b0 T :: brest)) (opsA ++ add_head b0 T :: brest) (osA ++ o0 :: osr)
               = ofull a oa ++ op ++ T ++ ofull b_ ob).
  { rewrite Hsepl, oweave_app by (rewrite ?sepl_length; auto). rewrite EA, EB'. reflexivity. }
  split.
  - unfold osv_ok, osv_node_ok, sv_head. cbv beta iota. simpl sv_meta. simpl m_head.
    apply (onode_ok_intro _ _ _ (osA ++ o0 :: osr) [] []).
    + exact I.
    + simpl. f_equal. zl. lia.
    + simpl m_size. f_equal. rewrite Eo, Fop1. zl. lia.
    + simpl oseps. simpl children. fold op. rewrite app_nil_r. reflexivity.
    + left. reflexivity.
    + left. reflexivity.
    + simpl oseps. simpl children. fold op. rewrite Hsepl.
      apply owalk_app; [apply sepl_length|exact LA|]. split; [eapply owalk_cast; [exact WA|zl; lia]|].
      rewrite EA. simpl owalk. subst Bb. rewrite Fop1 in *. zl_in WB1. zl_in WB2. rewrite Hsp1. split.
      * eapply onode_ok_cast; [apply (Hb0' (base + zlen (ofull a oa) + zlen op + zlen T))|].
        -- eapply onode_ok_cast; [exact WB1|]. zl. lia.
        -- zl. lia.
      * eapply owalk_cast; [exact WB2|]. rewrite ofull_add_head. zl. lia.
  - unfold ofull_sv, sv_head, sv_tail. simpl. rewrite Eo, Fop1, app_nil_r, <- !app_assoc. reflexivity.
Qed.


(* ================================================================ 4. every semantic action *)
Ltac mk_ofacts := try (intros; reflexivity); try (intros; exact I).

Ltac split_oargs H :=
  repeat match type of H with
  | oargs_ok _ (_ :: _) ?os => destruct os as [|? ?]; [destruct H|]; let A := fresh "A" in destruct H as [A H]
  | oargs_ok _ [] ?os => destruct os as [|? ?]; [|destruct H]
  end.

Ltac fin_text := simpl otexts; unfold ofull, ofull_sv, sv_head, sv_tail, head_of, tail_of in *; simpl; norm_app; try reflexivity.

Theorem run_action_ospans a args v evs b os :
  run_action a args = Ok (v, evs) -> Forall ev_ok evs -> rflat_args a args = false ->
  oargs_ok b args os -> exists o, osv_ok b v o /\ ofull_sv v o = otexts args os.
Proof.
  intros H Hev Hg Hargs.
  assert (Hunit : forall x, args = [x] -> v = x -> exists o, osv_ok b v o /\ ofull_sv v o = otexts args os).
  { intros x E1 E2. subst. split_oargs Hargs. eexists. split; [exact A|]. simpl. rewrite app_nil_r. reflexivity. }
  destruct a; simpl in H;
    repeat match type of H with
    | match ?l with [] => _ | _ :: _ => _ end = _ => destruct l as [|? ?]; try discriminate
    | match ?x with VItem _ => _ | VTok _ _ _ => _ end = _ => destruct x; try discriminate
    | match ?o with Some _ => _ | None => _ end = _ => destruct o eqn:?; try discriminate
    | match ?i with Term _ _ _ => _ | _ => _ end = _ => destruct i; try discriminate
    end;
    try (inv_ok H; eapply Hunit; reflexivity); clear Hunit.
  - (* or *)
    split_oargs Hargs.
    match goal with A1 : osv_ok b (VItem ?x) ?o1, A2 : osv_ok _ (VTok _ _ _) ?o2, A3 : osv_ok _ (VItem _) ?o3 |- _ =>
      destruct (binary_ospans _ _ _ _ _ _ b o1 o2 o3 H Hev) as [o [R1 R2]]; [|exact A1|exact A2|exact A3|] end.
    + intros E. destruct i0; try discriminate. destruct k; try discriminate. simpl in Hg.
      apply Bool.negb_false_iff, str_eqb_eq in Hg. exact Hg.
    + exists o. split; [exact R1|]. rewrite R2. simpl. rewrite app_nil_r. reflexivity.
  - (* and *)
    split_oargs Hargs.
    match goal with A1 : osv_ok b (VItem ?x) ?o1, A2 : osv_ok _ (VTok _ _ _) ?o2, A3 : osv_ok _ (VItem _) ?o3 |- _ =>
      destruct (binary_ospans _ _ _ _ _ _ b o1 o2 o3 H Hev) as [o [R1 R2]]; [|exact A1|exact A2|exact A3|] end.
    + intros E. destruct i0; try discriminate. destruct k; try discriminate. simpl in Hg.
      apply Bool.negb_false_iff, str_eqb_eq in Hg. exact Hg.
    + exists o. split; [exact R1|]. rewrite R2. simpl. rewrite app_nil_r. reflexivity.
  - (* implicit *)
    split_oargs Hargs.
    match goal with A1 : osv_ok b (VItem ?x) ?o1, A3 : osv_ok _ (VItem _) ?o3 |- _ =>
      destruct (binary_ospans _ _ _ _ _ _ b o1 [] o3 H Hev) as [o [R1 R2]]; [auto|exact A1|exact I| |] end.
    + simpl opt_otext. eapply onode_ok_cast; [exact A0|]. unfold ofull_sv, ofull, sv_head, sv_tail, head_of, tail_of. simpl. zl. lia.
    + exists o. split; [exact R1|]. rewrite R2. simpl. rewrite app_nil_r. reflexivity.
  - (* plus *) match type of H with Ok ?e = Ok _ => assert (Hu : e = (v, evs)) by congruence end.
    split_oargs Hargs.
    eapply unary_ht_ospans; [exact Hu|exact Hev|nnt|simpl; eauto| | | | | |]; mk_ofacts.
  - (* minus *) match type of H with Ok ?e = Ok _ => assert (Hu : e = (v, evs)) by congruence end.
    split_oargs Hargs.
    eapply unary_ht_ospans; [exact Hu|exact Hev|nnt|simpl; eauto| | | | | |]; mk_ofacts.
  - (* not *) match type of H with Ok ?e = Ok _ => assert (Hu : e = (v, evs)) by congruence end.
    split_oargs Hargs.
    eapply unary_ht_ospans; [exact Hu|exact Hev|nnt|simpl; eauto| | | | | |]; mk_ofacts.
  - (* grouping *)
    inv_ok H. apply Forall_cons_iff in Hev. destruct Hev as [Hl Hev]. apply Forall_cons_iff in Hev.
    destruct Hev as [Hr _]. apply ev_ok_eq in Hl; [|nnt]. apply ev_ok_eq in Hr; [|nnt]. simpl in Hl, Hr. subst.
    pose proof (oargs_sizes _ _ _ Hargs) as Hsz. split_oargs Hargs.
    destruct (osv_ok_facts _ _ _ A) as [_ [P1 _]]. destruct A as [_ [_ E1]]. destruct A1 as [_ [_ E3]]. subst.
    rewrite (ohtm_pos_spec _ _ _ _ true true P1 Hsz).
    match goal with A0 : osv_ok _ (VItem ?i) ?oe |- context [add_tail_i (add_head ?i ?t) ?h] =>
      exists ([c_lparen] ++ ofull (add_tail_i (add_head i t) h) oe ++ [c_rparen]); split;
      [unfold osv_ok, osv_node_ok, sv_head; cbv beta iota; simpl sv_meta; simpl m_head;
       apply (onode_ok_intro _ _ _ [oe] [] [c_rparen]); simpl|] end.
    + exact I.
    + reflexivity.
    + f_equal. unfold osum. simpl otexts. rewrite ofull_add_tail, ofull_add_head.
      unfold ofull, ofull_sv, sv_head, sv_tail, head_of, tail_of. simpl. zl. lia.
    + norm_app. reflexivity.
    + left. reflexivity.
    + left. reflexivity.
    + split; [|exact I]. apply onode_ok_add_tail, onode_ok_add_head. eapply onode_ok_cast; [exact A0|].
      rewrite head_add_tail, head_add_head. unfold ofull_sv, sv_head, sv_tail, head_of. simpl. zl. lia.
    + rewrite ofull_add_tail, ofull_add_head. fin_text.
  - (* range *)
    inv_ok H. apply Forall_cons_iff in Hev. destruct Hev as [Hl Hev]. apply Forall_cons_iff in Hev.
    destruct Hev as [Hto Hev]. apply Forall_cons_iff in Hev. destruct Hev as [Hr _].
    apply ev_ok_eq in Hl; [|match goal with |- context [gen_low_char ?bb] => destruct bb end; nnt]. apply ev_ok_eq in Hto; [|nnt].
    apply ev_ok_eq in Hr; [|match goal with |- context [gen_high_char ?bb] => destruct bb end; nnt]. simpl in Hl, Hto, Hr. subst.
    pose proof (oargs_sizes _ _ _ Hargs) as Hsz. split_oargs Hargs.
    destruct (osv_ok_facts _ _ _ A) as [_ [P1 _]].
    destruct A as [_ [_ E1]]. destruct A1 as [_ [_ E3]]. destruct A3 as [_ [_ E5]]. subst.
    rewrite (ohtm_pos_spec _ _ _ _ true true P1 Hsz).
    match goal with A0 : osv_ok _ (VItem ?lo) ?olo, A2 : osv_ok _ (VItem ?hi) ?ohi
      |- context [Range _ (add_tail_i (add_head ?lo ?t1) ?h1) (add_tail_i (add_head ?hi ?t2) ?h2) ?il ?ih] =>
      exists (gen_low_char il ++ ofull (add_tail_i (add_head lo t1) h1) olo ++ s_TO
              ++ ofull (add_tail_i (add_head hi t2) h2) ohi ++ gen_high_char ih); split;
      [unfold osv_ok, osv_node_ok, sv_head; cbv beta iota; simpl sv_meta; simpl m_head;
       apply (onode_ok_intro _ _ _ [olo; ohi] [] (gen_high_char ih)); simpl|] end.
    + exact I.
    + reflexivity.
    + f_equal. unfold osum. simpl otexts. rewrite !ofull_add_tail, !ofull_add_head.
      unfold ofull, ofull_sv, sv_head, sv_tail, head_of, tail_of. simpl. zl. change (zlen s_TO) with 2. lia.
    + norm_app. reflexivity.
    + left. reflexivity.
    + left. reflexivity.
    + split; [|split; [|exact I]].
      * apply onode_ok_add_tail, onode_ok_add_head. eapply onode_ok_cast; [exact A0|].
        rewrite head_add_tail, head_add_head. unfold ofull_sv, sv_head, sv_tail, head_of. simpl. zl. lia.
      * apply onode_ok_add_tail, onode_ok_add_head. eapply onode_ok_cast; [exact A2|].
        rewrite head_add_tail, head_add_head, ofull_add_tail, ofull_add_head.
        unfold ofull, ofull_sv, sv_head, sv_tail, head_of, tail_of. simpl. zl. change (zlen s_TO) with 2. lia.
    + rewrite !ofull_add_tail, !ofull_add_head. fin_text.
  - (* possibly negative: MINUS phrase_or_term *)
    match type of H with Ok ?e = Ok _ => assert (Hu : e = (v, evs)) by congruence end.
    split_oargs Hargs.
    eapply unary_ht_ospans; [exact Hu|exact Hev|nnt|simpl; eauto| | | | | |]; mk_ofacts.
  - (* lessthan *)
    match type of H with Ok ?e = Ok _ => assert (Hu : e = (v, evs)) by congruence end.
    split_oargs Hargs.
    eapply unary_ht_ospans; [exact Hu|exact Hev|destruct (mem_char c_eq s); nnt|simpl; eauto| | | | | |]; mk_ofacts.
  - (* greaterthan *)
    match type of H with Ok ?e = Ok _ => assert (Hu : e = (v, evs)) by congruence end.
    split_oargs Hargs.
    eapply unary_ht_ospans; [exact Hu|exact Hev|destruct (mem_char c_eq s); nnt|simpl; eauto| | | | | |]; mk_ofacts.
  - (* field search *)
    inv_ok H. apply Forall_cons_iff in Hev. destruct Hev as [Hd1 Hev]. apply Forall_cons_iff in Hev.
    destruct Hev as [Hd2 Hev]. apply Forall_cons_iff in Hev. destruct Hev as [Hr _].
    apply ev_ok_eq in Hr; [|nnt]. simpl in Hr, Hd1, Hd2. subst.
    pose proof (oargs_sizes _ _ _ Hargs) as Hsz. split_oargs Hargs.
    destruct (osv_ok_facts _ _ _ A) as [_ [P1 _]]. destruct A0 as [_ [_ E2]]. subst.
    rewrite (ohtm_pos_spec _ _ _ _ true false P1 Hsz).
    unfold osv_ok in A1. simpl osv_node_ok in A1.
    destruct (onode_ok_fieldgroup _ _ _ A1) as [F1 [F2 F3]].
    (* the field name is the Word's own text, possibly re-spelled *)
    unfold osv_ok in A. cbv beta iota delta [osv_node_ok] in A.
    destruct (proj1 (onode_ok_unfold _ _ _) A) as [_ [_ [_ [os0 [q0 [p0 [Eo [Hq0 [Hp0 Hw0]]]]]]]]].
    apply pre_rel_nil in Hq0; [|reflexivity]. subst q0.
    simpl in Eo, Hw0. destruct os0; [|destruct Hw0]. simpl in Eo. subst p0.
    match goal with F1 : onode_ok _ ?e1 ?oe, A : onode_ok _ (Term _ _ ?name) ?ow
      |- context [SearchField _ ?name (add_head ?e1 ?t)] =>
      exists (ow ++ [c_colon] ++ ofull (add_head e1 t) oe); split;
      [unfold osv_ok, osv_node_ok, sv_head; cbv beta iota; simpl sv_meta; simpl m_head;
       apply (onode_ok_intro _ _ _ [oe] ow []); simpl|] end.
    + exact I.
    + reflexivity.
    + f_equal. unfold osum. simpl otexts. rewrite ofull_add_head.
      unfold ofull, ofull_sv, sv_head, sv_tail, head_of, tail_of in *. simpl in *. rewrite F2, F3, Hd1, Hd2. zl. lia.
    + norm_app. reflexivity.
    + exact Hp0.
    + left. reflexivity.
    + split; [|exact I]. apply onode_ok_add_head. eapply onode_ok_cast; [exact F1|].
      rewrite head_add_head. unfold ofull, ofull_sv, sv_head, sv_tail, head_of, tail_of in *. simpl in *.
      rewrite F2, Hd1, Hd2. zl. lia.
    + rewrite ofull_add_head. simpl otexts.
      unfold ofull, ofull_sv, sv_head, sv_tail, head_of, tail_of in *. simpl in *. rewrite F2, F3, Hd1, Hd2.
      norm_app. reflexivity.
  - (* proximity, explicit *)
    destruct (int_of_lexeme s); [|discriminate].
    match type of H with Ok ?e = Ok _ => assert (Hu : e = (v, evs)) by congruence end.
    split_oargs Hargs.
    eapply post_unary_ht_ospans; [exact Hu|exact Hev|simpl; eauto| | | | | |]; mk_ofacts.
  - (* proximity, implicit *)
    match type of H with Ok ?e = Ok _ => assert (Hu : e = (v, evs)) by congruence end.
    split_oargs Hargs.
    eapply post_unary_ht_ospans; [exact Hu|exact Hev|simpl; eauto| | | | | |]; mk_ofacts.
  - (* boost, explicit *)
    destruct (dec_of_lexeme s); [|discriminate].
    match type of H with Ok ?e = Ok _ => assert (Hu : e = (v, evs)) by congruence end.
    split_oargs Hargs.
    eapply post_unary_ht_ospans; [exact Hu|exact Hev|simpl; eauto| | | | | |]; mk_ofacts.
  - (* boost, implicit *)
    match type of H with Ok ?e = Ok _ => assert (Hu : e = (v, evs)) by congruence end.
    split_oargs Hargs.
    eapply post_unary_ht_ospans; [exact Hu|exact Hev|simpl; eauto| | | | | |]; mk_ofacts.
  - (* fuzzy, explicit *)
    destruct (dec_of_lexeme s); [|discriminate].
    match type of H with Ok ?e = Ok _ => assert (Hu : e = (v, evs)) by congruence end.
    split_oargs Hargs.
    eapply post_unary_ht_ospans; [exact Hu|exact Hev|simpl; eauto| | | | | |]; mk_ofacts.
  - (* fuzzy, implicit *)
    match type of H with Ok ?e = Ok _ => assert (Hu : e = (v, evs)) by congruence end.
    split_oargs Hargs.
    eapply post_unary_ht_ospans; [exact Hu|exact Hev|simpl; eauto| | | | | |]; mk_ofacts.
  - (* TO as a term *)
    inv_ok H. apply Forall_cons_iff in Hev. destruct Hev as [Hl _].
    pose proof (oargs_sizes _ _ _ Hargs) as Hsz. split_oargs Hargs.
    destruct (osv_ok_facts _ _ _ A) as [_ [P1 _]]. destruct A as [_ [_ E1]]. subst.
    rewrite (ohtm_pos_spec _ _ _ _ true true P1 Hsz).
    match goal with |- context [VTok ?l _ _] => exists l end. split.
    + unfold osv_ok, osv_node_ok, sv_head; cbv beta iota; simpl sv_meta; simpl m_head.
      match goal with |- context [VTok ?l _ _] => apply (onode_ok_intro _ _ _ [] [] l); simpl end.
      * exact I.
      * reflexivity.
      * f_equal. unfold osum. simpl otexts. unfold ofull_sv, sv_head, sv_tail. simpl. zl. lia.
      * reflexivity.
      * left. reflexivity.
      * exact Hl.
      * exact I.
    + fin_text.
Qed.

Local Close Scope Z_scope.

(* ================================================================ 5. the driver, any tables *)
Lemma resp_nil_iff a b : resp a b -> (a = [] <-> b = []).
Proof.
  induction 1 as [x|x y z _ IH1 _ IH2|x x' y y' _ IH1 _ IH2|c d d' _ _]; try tauto.
  - split; intros E; apply app_eq_nil in E; destruct E as [E1 E2]; [apply IH1 in E1; apply IH2 in E2|
      apply IH1 in E1; apply IH2 in E2]; subst; reflexivity.
  - split; discriminate.
Qed.

Lemma osv_resp b v o : osv_ok b v o -> resp (ofull_sv v o) (full_text v).
Proof.
  destruct v as [i|l vv m]; unfold osv_ok; simpl.
  - intros H. apply (onode_resp _ _ _ H).
  - intros [_ [_ ->]]. apply resp_refl.
Qed.

Lemma oargs_resp : forall args os b, oargs_ok b args os -> resp (otexts args os) (concat (map full_text args)).
Proof.
  induction args as [|v r IH]; intros [|o os] b H; simpl in H; try tauto; [apply resp_refl|].
  destruct H as [H1 H2]. simpl. apply resp_app; [eapply osv_resp; exact H1|eapply IH; exact H2].
Qed.

Lemma otexts_app : forall x ox y oy, length x = length ox ->
  otexts (x ++ y) (ox ++ oy) = otexts x ox ++ otexts y oy.
Proof.
  induction x as [|v x IH]; intros [|o ox] y oy Hl; try discriminate; simpl; [reflexivity|].
  simpl in Hl. injection Hl as Hl. rewrite (IH _ _ _ Hl), <- !app_assoc. reflexivity.
Qed.

Lemma oargs_ok_cast b b' args os : oargs_ok b args os -> b = b' -> oargs_ok b' args os.
Proof. intros H E. subst. exact H. Qed.

Lemma oargs_ok_split : forall x y os b, oargs_ok b (x ++ y) os ->
  exists ox oy, os = ox ++ oy /\ length x = length ox /\ oargs_ok b x ox /\
                oargs_ok (b + zlen (otexts x ox))%Z y oy.
Proof.
  induction x as [|v x IH]; intros y os b H.
  - exists [], os. simpl. repeat split; auto. replace (b + zlen [])%Z with b by (rewrite zlen_nil; lia). exact H.
  - destruct os as [|o os]; [destruct H|]. destruct H as [H1 H2].
    destruct (IH _ _ _ H2) as [ox [oy [E [Hl [Ha Hb]]]]]. exists (o :: ox), oy. subst os. simpl.
    repeat split; auto. eapply oargs_ok_cast; [exact Hb|]. rewrite zlen_app. lia.
Qed.

Lemma token_value_ospans t b :
  tk_pos t = b + length (tk_head t) ->
  osv_ok (Z.of_nat b) (token_value t) (tk_lexeme t) /\ ofull_sv (token_value t) (tk_lexeme t) = tok_text t.
Proof.
  intros H. split; [|unfold token_value, tok_text; destruct (tk_type t); reflexivity].
  unfold token_value. destruct (tk_type t); unfold osv_ok, sv_head, osv_node_ok; cbv beta iota;
    first [ apply (onode_ok_intro _ _ _ [] [] (tk_lexeme t)); simpl;
            [exact I|unfold zlen; rewrite H; f_equal; lia|reflexivity|reflexivity|left; reflexivity
            |left; reflexivity|exact I]
          | simpl; unfold zlen; rewrite H; repeat split; f_equal; lia ].
Qed.

Section AnyTablesO.
  Variable tb : tables.
  Variable s : str.

  Definition OInv (lexerr : option (nat * str)) (c : config) : Prop :=
    exists os, oargs_ok 0 (rev (c_vals c)) os /\
               otexts (rev (c_vals c)) os ++ render (c_toks c) ++ err_rest lexerr = s /\
               toks_pos_ok (length (otexts (rev (c_vals c)) os)) (c_toks c).

  Lemma ostep_next lexerr c c' :
    step tb lexerr c = Next c' -> OInv lexerr c -> rflat_step tb lexerr c = false ->
    exists evs, c_dropped c' = c_dropped c ++ evs /\ (Forall ev_ok evs -> OInv lexerr c').
  Proof.
    intros Hs [os [HA [HT HP]]] Hrf.
    destruct (step_cases _ _ _ _ Hs) as [[t [rest [n [Htoks [Hact Hc']]]]]|
                                         [p [lhs [rhs [a [v [evs [g [Hact [Hnth [Hlen [Hnr [Hrun [Hg Hc']]]]]]]]]]]]]].
    - subst c'. simpl. exists []. split; [rewrite app_nil_r; reflexivity|]. intros _.
      rewrite Htoks in HT, HP. simpl in HP. destruct HP as [HP1 HP2].
      destruct (token_value_ospans t _ HP1) as [Hv Htx].
      pose proof (oargs_ok_length _ _ _ HA) as Hl.
      exists (os ++ [tk_lexeme t]). simpl. split; [|split].
      + apply oargs_ok_app; [exact Hl|]. split; [exact HA|]. simpl. split; [exact Hv|exact I].
      + rewrite otexts_app by exact Hl. simpl. rewrite Htx, app_nil_r, <- HT.
        unfold render. simpl. rewrite <- !app_assoc. reflexivity.
      + rewrite otexts_app by exact Hl. simpl. rewrite Htx, app_nil_r, app_length. exact HP2.
    - subst c'. simpl. exists evs. split; [reflexivity|]. intros Hev.
      unfold rflat_step in Hrf. rewrite Hnr in Hrf.
      set (nn := length rhs) in *.
      rewrite <- (firstn_skipn nn (c_vals c)), rev_app_distr in HA, HT, HP.
      destruct (oargs_ok_split _ _ _ _ HA) as [ox [oy [E [Hl [HA1 HA2]]]]]. subst os.
      destruct (run_action_ospans _ _ _ _ _ _ Hrun Hev Hrf HA2) as [o [Hv Htx]].
      rewrite otexts_app in HT, HP by exact Hl.
      exists (ox ++ [o]). simpl. split; [|split].
      + apply oargs_ok_app; [exact Hl|]. split; [exact HA1|]. simpl. split; [exact Hv|exact I].
      + rewrite otexts_app by exact Hl. simpl. rewrite app_nil_r, Htx. exact HT.
      + rewrite otexts_app by exact Hl. simpl. rewrite app_nil_r, Htx. exact HP.
  Qed.

  Lemma orun lexerr : forall fuel c t evs,
    run tb lexerr fuel c = Done (Ok t) evs -> OInv lexerr c -> rflat_run tb lexerr fuel c = false ->
    (forall evs', evs = c_dropped c ++ evs' -> Forall ev_ok evs') ->
    exists o, onode_ok (zlen (head_of t)) t o /\ ofull t o = s.
  Proof.
    induction fuel as [|f IH]; intros c t evs H HI Hrf Hev; simpl in H; [discriminate|].
    simpl in Hrf. apply Bool.orb_false_iff in Hrf. destruct Hrf as [Hrf1 Hrf2].
    destruct (step tb lexerr c) as [c'|r evs1] eqn:Hs.
    - destruct (ostep_next _ _ _ Hs HI Hrf1) as [evs2 [Hd HI']].
      destruct (run_dropped_prefix _ _ _ _ _ _ H) as [rest Hrest].
      assert (Ha : Forall ev_ok (evs2 ++ rest)) by (apply Hev; rewrite Hrest, Hd, <- app_assoc; reflexivity).
      apply Forall_app in Ha. eapply IH; [exact H|apply HI'; apply Ha|exact Hrf2|].
      intros evs' He. specialize (Hev (evs2 ++ evs')).
      assert (Hb : Forall ev_ok (evs2 ++ evs')) by (apply Hev; rewrite He, Hd, <- app_assoc; reflexivity).
      apply Forall_app in Hb. apply Hb.
    - inversion H; subst; clear H. destruct (step_final _ _ _ _ _ Hs) as [below [Hv He]].
      specialize (Hev evs1 eq_refl). subst evs1. apply ev_ok_drops in Hev.
      apply Forall_cons_iff in Hev. destruct Hev as [E1 Hev]. apply Forall_cons_iff in Hev.
      destruct Hev as [E2 Hev]. apply Forall_cons_iff in Hev. destruct Hev as [E3 _].
      destruct HI as [os [HA [HT _]]]. rewrite Hv in HA, HT. simpl in HA, HT.
      destruct (oargs_ok_split _ _ _ _ HA) as [ox [oy [E [Hl [HA1 HA2]]]]]. subst os.
      destruct oy as [|o [|? ?]]; simpl in HA2; try tauto. destruct HA2 as [HA2 _].
      assert (Eb : otexts (rev below) ox = []).
      { apply (resp_nil_iff _ _ (oargs_resp _ _ _ HA1)). exact E1. }
      rewrite otexts_app in HT by exact Hl. rewrite Eb, E2 in *. simpl in HT.
      assert (E4 : err_rest lexerr = []) by (destruct lexerr as [[? ?]|]; [exact E3|reflexivity]).
      rewrite E4, !app_nil_r in HT. exists o. split; [|exact HT].
      unfold osv_ok in HA2. simpl in HA2. exact HA2.
  Qed.
End AnyTablesO.

Theorem parse_with_ospans tb s t evs :
  parse_with tb s = Done (Ok t) evs -> Forall ev_ok evs -> parse_rflat tb s = false ->
  (forall q d, subtree_at t q = Some d -> located_r s d /\ tiled d) /\ span true t = Some (0%Z, zlen s).
Proof.
  intros H Hev Hrf.
  unfold parse_with in H. unfold parse_rflat in Hrf. destruct (lex s) as [toks e] eqn:Hlex.
  destruct (run_dropped_prefix _ _ _ _ _ _ H) as [rest Hrest]. simpl in Hrest.
  destruct (orun tb s e _ _ _ _ H) as [o [Hn Ho]]; [|exact Hrf| |exact (ospans_root s t o Hn Ho)].
  - exists []. unfold init_config. simpl. split; [exact I|]. split; [|eapply lex_pos; exact Hlex].
    destruct toks as [|t0 toks'].
    + subst evs. apply Forall_cons_iff in Hev. destruct Hev as [E _]. simpl in E. subst s.
      unfold lex in Hlex. simpl in Hlex. inversion Hlex; subst. reflexivity.
    + apply (lex_lossless s (t0 :: toks') e Hlex). discriminate.
  - intros evs' He. simpl in He. subst evs. apply app_inv_head in He. subst evs'.
    apply Forall_app in Hev. apply Hev.
Qed.

(* generated tables: the only guard is "no text was dropped" *)
Theorem parse_ospans s t :
  parse s = Some (Ok t) -> dropped_texts s = [] ->
  (forall q d, subtree_at t q = Some d -> located_r s d /\ tiled d) /\ span true t = Some (0%Z, zlen s).
Proof.
  unfold parse. destruct (parse_full s) as [r evs|] eqn:Hp; [|discriminate]. intros E Hd. inversion E; subst.
  eapply parse_with_ospans; [exact Hp| |apply gen_no_rflat].
  apply ev_ok_of_respell_ok; [eapply parse_full_respell_ok; exact Hp|eapply dropped_texts_nil; eassumption].
Qed.
