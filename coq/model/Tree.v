(* Tree.v — the luqum.tree item classes as an inductive type, with layout metadata,
   children access, index paths and pre-order enumeration.  Executable definitions only.

   One constructor per concrete class of luqum.tree, grouped where only a tag differs:
     Term KWord/KPhrase/KRegex            = Word / Phrase / Regex
     Grp KGroup/KFieldGroup               = Group / FieldGroup
     Op KAnd/KOr/KUnknown/KBool           = AndOperation / OrOperation / UnknownOperation / BoolOperation
     Unary KPlus/KNot/KProhibit           = Plus / Not / Prohibit
     ORange KFrom/KTo                     = From / To
   The model has no object identity: a Python object occurring twice in a tree is two equal
   sub-terms. *)
Require Import Base Decimal.

Record meta := mkMeta {
  m_pos : option Z; m_size : option Z; m_head : str; m_tail : str;
  m_name : option str        (* the attached _luqum_name attribute, if any *)
}.
Definition meta0 : meta := mkMeta None None [] [] None.

Inductive termk := KWord | KPhrase | KRegex.
Inductive groupk := KGroup | KFieldGroup.
Inductive opk := KAnd | KOr | KUnknown | KBool.
Inductive unk := KPlus | KNot | KProhibit.
Inductive ork := KFrom | KTo.

Inductive item :=
| Term (k : termk) (m : meta) (v : str)
| SearchField (m : meta) (fname : str) (e : item)
| Grp (k : groupk) (m : meta) (e : item)
| Range (m : meta) (lo hi : item) (il ih : bool)
| Fuzzy (m : meta) (t : item) (deg : dec) (impl : bool)
| Proximity (m : meta) (t : item) (deg : Z) (impl : bool)
| Boost (m : meta) (e : item) (force : dec) (impl : bool)
| Op (k : opk) (m : meta) (ops : list item)
| Unary (k : unk) (m : meta) (a : item)
| ORange (k : ork) (m : meta) (a : item) (incl : bool)
| NoneItem (m : meta).

(* concrete class names, as the translator emits them *)
Inductive cls :=
| CWord | CPhrase | CRegex | CSearchField | CGroup | CFieldGroup | CRange | CFuzzy | CProximity
| CBoost | CAndOperation | COrOperation | CUnknownOperation | CBoolOperation | CPlus | CNot
| CProhibit | CFrom | CTo | CNoneItem
(* abstract bases, only ever seen in MROs *)
| CItem | CTerm | CBaseGroup | CBaseApprox | CBaseOperation | CUnary | CUnaryOperator | COpenRange
| CObject.

Definition cls_eqb (a b : cls) : bool :=
  match a, b with
  | CWord, CWord | CPhrase, CPhrase | CRegex, CRegex | CSearchField, CSearchField
  | CGroup, CGroup | CFieldGroup, CFieldGroup | CRange, CRange | CFuzzy, CFuzzy
  | CProximity, CProximity | CBoost, CBoost | CAndOperation, CAndOperation
  | COrOperation, COrOperation | CUnknownOperation, CUnknownOperation
  | CBoolOperation, CBoolOperation | CPlus, CPlus | CNot, CNot | CProhibit, CProhibit
  | CFrom, CFrom | CTo, CTo | CNoneItem, CNoneItem | CItem, CItem | CTerm, CTerm
  | CBaseGroup, CBaseGroup | CBaseApprox, CBaseApprox | CBaseOperation, CBaseOperation
  | CUnary, CUnary | CUnaryOperator, CUnaryOperator | COpenRange, COpenRange
  | CObject, CObject => true
  | _, _ => false
  end.

Definition cls_of_termk k := match k with KWord => CWord | KPhrase => CPhrase | KRegex => CRegex end.
Definition cls_of_groupk k := match k with KGroup => CGroup | KFieldGroup => CFieldGroup end.
Definition cls_of_opk k :=
  match k with KAnd => CAndOperation | KOr => COrOperation | KUnknown => CUnknownOperation
             | KBool => CBoolOperation end.
Definition cls_of_unk k := match k with KPlus => CPlus | KNot => CNot | KProhibit => CProhibit end.
Definition cls_of_ork k := match k with KFrom => CFrom | KTo => CTo end.

Definition cls_of (t : item) : cls :=
  match t with
  | Term k _ _ => cls_of_termk k
  | SearchField _ _ _ => CSearchField
  | Grp k _ _ => cls_of_groupk k
  | Range _ _ _ _ _ => CRange
  | Fuzzy _ _ _ _ => CFuzzy
  | Proximity _ _ _ _ => CProximity
  | Boost _ _ _ _ => CBoost
  | Op k _ _ => cls_of_opk k
  | Unary k _ _ => cls_of_unk k
  | ORange k _ _ _ => cls_of_ork k
  | NoneItem _ => CNoneItem
  end.

Definition meta_of (t : item) : meta :=
  match t with
  | Term _ m _ | SearchField m _ _ | Grp _ m _ | Range m _ _ _ _ | Fuzzy m _ _ _
  | Proximity m _ _ _ | Boost m _ _ _ | Op _ m _ | Unary _ m _ | ORange _ m _ _
  | NoneItem m => m
  end.

Definition set_meta (t : item) (m : meta) : item :=
  match t with
  | Term k _ v => Term k m v
  | SearchField _ n e => SearchField m n e
  | Grp k _ e => Grp k m e
  | Range _ lo hi il ih => Range m lo hi il ih
  | Fuzzy _ t d i => Fuzzy m t d i
  | Proximity _ t d i => Proximity m t d i
  | Boost _ e f i => Boost m e f i
  | Op k _ ops => Op k m ops
  | Unary k _ a => Unary k m a
  | ORange k _ a i => ORange k m a i
  | NoneItem _ => NoneItem m
  end.

Definition head_of t := m_head (meta_of t).
Definition tail_of t := m_tail (meta_of t).
Definition name_of t := m_name (meta_of t).

Definition with_head (m : meta) (h : str) := mkMeta (m_pos m) (m_size m) h (m_tail m) (m_name m).
Definition with_tail (m : meta) (tl : str) := mkMeta (m_pos m) (m_size m) (m_head m) tl (m_name m).
Definition with_name (m : meta) (n : option str) := mkMeta (m_pos m) (m_size m) (m_head m) (m_tail m) n.
Definition set_head t h := set_meta t (with_head (meta_of t) h).
Definition set_tail t tl := set_meta t (with_tail (meta_of t) tl).
Definition set_name t n := set_meta t (with_name (meta_of t) n).

Definition children (t : item) : list item :=
  match t with
  | Term _ _ _ | NoneItem _ => []
  | SearchField _ _ e | Grp _ _ e | Boost _ e _ _ => [e]
  | Range _ lo hi _ _ => [lo; hi]
  | Fuzzy _ t _ _ | Proximity _ t _ _ => [t]
  | Op _ _ ops => ops
  | Unary _ _ a | ORange _ _ a _ => [a]
  end.

(* the `children` setter: None models the ValueError of the generic setter on arity mismatch *)
Definition set_children (t : item) (cs : list item) : option item :=
  match t, cs with
  | Term k m v, [] => Some (Term k m v)
  | NoneItem m, [] => Some (NoneItem m)
  | SearchField m n _, [e] => Some (SearchField m n e)
  | Grp k m _, [e] => Some (Grp k m e)
  | Boost m _ f i, [e] => Some (Boost m e f i)
  | Range m _ _ il ih, [lo; hi] => Some (Range m lo hi il ih)
  | Fuzzy m _ d i, [t] => Some (Fuzzy m t d i)
  | Proximity m _ d i, [t] => Some (Proximity m t d i)
  | Op k m _, cs => Some (Op k m cs)
  | Unary k m _, [a] => Some (Unary k m a)
  | ORange k m _ i, [a] => Some (ORange k m a i)
  | _, _ => None
  end.

(* put back a list of children (total: an arity mismatch leaves the node as it is) *)
Definition rebuild (t : item) (cs : list item) : item :=
  match set_children t cs with Some t' => t' | None => t end.

Definition is_op (t : item) : bool := match t with Op _ _ _ => true | _ => false end.

(* element_from_path *)
Fixpoint subtree_at (t : item) (p : path) : option item :=
  match p with
  | [] => Some t
  | i :: p' => match nth_error (children t) i with
               | Some c => subtree_at c p'
               | None => None
               end
  end.

(* all index paths of the tree in document (pre-)order, relative to prefix `pre` *)
Fixpoint preorder_paths (pre : path) (t : item) : list path :=
  pre ::
  match t with
  | Term _ _ _ | NoneItem _ => []
  | SearchField _ _ e | Grp _ _ e | Boost _ e _ _ => preorder_paths (pre ++ [0]) e
  | Range _ lo hi _ _ => preorder_paths (pre ++ [0]) lo ++ preorder_paths (pre ++ [1]) hi
  | Fuzzy _ t _ _ | Proximity _ t _ _ => preorder_paths (pre ++ [0]) t
  | Op _ _ ops =>
      (fix go (i : nat) (l : list item) : list path :=
         match l with
         | [] => []
         | c :: l' => preorder_paths (pre ++ [i]) c ++ go (S i) l'
         end) 0 ops
  | Unary _ _ a | ORange _ _ a _ => preorder_paths (pre ++ [0]) a
  end.

Fixpoint size_of (t : item) : nat :=
  S match t with
    | Term _ _ _ | NoneItem _ => 0
    | SearchField _ _ e | Grp _ _ e | Boost _ e _ _ => size_of e
    | Range _ lo hi _ _ => size_of lo + size_of hi
    | Fuzzy _ t _ _ | Proximity _ t _ _ => size_of t
    | Op _ _ ops => (fix go (l : list item) : nat :=
                       match l with [] => 0 | c :: l' => size_of c + go l' end) ops
    | Unary _ _ a | ORange _ _ a _ => size_of a
    end.
