#!/bin/sh
# tools/build.sh [make targets relative to /verif/coq, e.g. props/C15.vo]
# Regenerates coq/gen from /repo, refreshes _CoqProject/Makefile and runs make under the shared build lock.
cd "$(dirname "$0")/.." || exit 2
exec /venv/bin/python - "$@" <<'PY'
import sys, os
sys.path.insert(0, "harness")
import lib
lib.import_luqum()
r = lib.build(sys.argv[1:] or None)
for g, m in r.tie_errors:
    print("TIE-ERROR", g, m)
print(r.log[-6000:])
print("BUILD", "OK" if r.ok else "FAILED")
sys.exit(0 if r.ok else 1)
PY
