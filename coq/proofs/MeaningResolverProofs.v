(* MeaningResolverProofs.v — for C11: on a tree without any UnknownOperation the resolver (any target, any
   add_head, Lucene mode included) is the default copy.  Kept apart from MeaningProofs.v because
   ResolverProofs.v has its own `sem`. *)
Require Import Base Decimal Tree GenTree GenVisitors Visitor Eq Print TreeInd Traverse Resolver.
Require Import TraverseProofs ResolverProofs.

Definition no_unknown (t : item) : Prop := forall p n, subtree_at t p = Some n -> is_unknown n = false.

Lemma no_unknown_children t : no_unknown t -> Forall no_unknown (children t).
Proof.
  intros H. apply Forall_forall. intros c Hin. apply In_nth_error in Hin. destruct Hin as [i Hi].
  intros p n Hp. apply (H (i :: p)). simpl. rewrite Hi. exact Hp.
Qed.

(* generic_visit of a node whose children have been copied *)
Lemma finish_dcopy ah t : finish ah t None (map dcopy (children t)) = Some (dcopy t).
Proof.
  unfold finish. pose proof (copy_dcopy t) as H. rewrite copy_unfold in H.
  rewrite (copy_list_map (children t)) in H; [exact H|].
  apply Forall_forall. intros c _. apply copy_dcopy.
Qed.

Section NoUnknown.
  Variables (tg : option opk) (ah : str).

  Definition copies (r : item) : Prop :=
    no_unknown r -> forall ctx ps pre s, exists s', vis tg ah r ctx ps pre s = Some (dcopy r, s').

  Lemma walk_copies ctx ps pre : forall l i s, Forall copies l -> Forall no_unknown l ->
    exists s', walk (vis tg ah) ctx ps pre i l s = Some (map dcopy l, s').
  Proof.
    induction l as [|c l IH]; intros i s HF HC; simpl; [eauto|].
    inversion HF as [|? ? Hc HFl]; inversion HC as [|? ? Hcc HCl]; subst.
    destruct (Hc Hcc ctx ps (pre ++ [i]) s) as [s1 Hv]. rewrite Hv.
    destruct (IH (S i) s1 HFl HCl) as [s2 Hw]. rewrite Hw. eauto.
  Qed.

  Lemma vis_copies : forall r, copies r.
  Proof.
    apply item_children_ind. intros r IH Hc ctx ps pre s.
    pose proof (Hc [] r eq_refl) as Hn.
    rewrite vis_unfold.
    destruct (pre_act_known tg r ctx ps s Hn) as [ctx1 [s1 Hp]]. rewrite Hp.
    destruct (walk_copies ctx1 (ps ++ [(pre, cls_of r)]) pre _ 0 s1 IH (no_unknown_children _ Hc)) as [s2 Hw].
    rewrite Hw, finish_dcopy. eauto.
  Qed.
End NoUnknown.

Theorem resolve_no_unknown_is_copy tg ah t :
  valid_target tg = true -> no_unknown t -> resolve tg ah t = copy t.
Proof.
  intros Hv Hn. unfold resolve. rewrite Hv.
  destruct (vis_copies tg ah t Hn None [] [] []) as [s' Hx]. rewrite Hx, copy_dcopy. reflexivity.
Qed.

(* boolean form of the guard *)
Fixpoint no_unknownb (t : item) : bool :=
  match t with
  | Op k _ ops => (match k with KUnknown => false | _ => true end) && forallb no_unknownb ops
  | SearchField _ _ e | Grp _ _ e | Boost _ e _ _ => no_unknownb e
  | Fuzzy _ x _ _ | Proximity _ x _ _ => no_unknownb x
  | Unary _ _ a | ORange _ _ a _ => no_unknownb a
  | Range _ lo hi _ _ => no_unknownb lo && no_unknownb hi
  | Term _ _ _ | NoneItem _ => true
  end.

Lemma no_unknownb_unfold t : no_unknownb t = negb (is_unknown t) && forallb no_unknownb (children t).
Proof.
  destruct t as [| | | | | | |[]| | |]; cbn [no_unknownb children forallb is_unknown negb andb];
    rewrite ?andb_true_r; reflexivity.
Qed.

Lemma no_unknownb_spec : forall p t n, no_unknownb t = true -> subtree_at t p = Some n -> is_unknown n = false.
Proof.
  induction p as [|i p IH]; intros t n Hb Hs; simpl in Hs.
  - inversion Hs; subst. rewrite no_unknownb_unfold in Hb. apply andb_prop in Hb. destruct Hb as [Hb _].
    destruct (is_unknown n); [discriminate|reflexivity].
  - destruct (nth_error (children t) i) as [c|] eqn:Hc; [|discriminate].
    apply (IH c n); [|exact Hs]. rewrite no_unknownb_unfold in Hb. apply andb_prop in Hb. destruct Hb as [_ Hb].
    rewrite forallb_forall in Hb. apply Hb. eapply nth_error_In. exact Hc.
Qed.

Lemma no_unknownb_ok t : no_unknownb t = true -> no_unknown t.
Proof. intros H p n Hp. eapply no_unknownb_spec; eassumption. Qed.
