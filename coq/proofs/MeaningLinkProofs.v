(* MeaningLinkProofs.v — for C11m: the link between the OUTPUT of a shipped transformer and its INPUT, in the
   vocabulary of Meaning.v (fingerprints, `fsem`, `sem`).  C11r.v proves that a transformed tree t' inside the guard
   `regen_ok` prints to a query that parses to a tree with the meaning of t'; this file proves what t' means in terms
   of the input t:

     A  vocabulary: `read_as d t`, the fingerprint of t in which the implicit operation at path p is the operation d p
        (`fingerprint t` with relabelled UnknownOperations); `fp_known`, `fsem_dflt_irrelevant`: without implicit
        operation the default operator is irrelevant;
     B  the resolver (induction over ResolverProofs.resolution, like C10's resolution_sem, but for Meaning.v's
        fingerprint): `resolve_fingerprint`: fingerprint (resolve t) = read_as (chosen (resolve t)) t, with no implicit
        operation left; `resolve_fingerprint_explicit`: = read_as (fun _ => k) t for the target k;
        `resolve_chosen_allowed` (C10's Lucene rule); `resolve_std_attrs`;
     C  open ranges (induction over OpenRangeProofs.Conv): `canon`, every comparison read as the one-sided range it
        abbreviates; without merging `conv_fingerprint`: fingerprint t' = canon (fingerprint t); with merging the
        fingerprints differ ([1 TO *] AND [* TO 5} becomes [1 TO 5}) and the link is semantic, `conv_link`, for the
        valuations that read a range atom as "lower condition and upper condition, * = no condition"
        (`range_respecting`; the convention of harness/c12.py's oracle, and of C12's `holds`), on trees whose leaves
        hold values only (`flat`);
     D  `regen_ok_flat`: every tree inside C11r's guard is flat;
     E  the links, transformer by transformer;
     F  `read_default`: on a flat tree reading every implicit operation as AND (OR) is Meaning.v's reading with the
        default operator AND (OR); `resolution_flat`: flatness goes back from the resolver's output to its input. *)
Require Import Base Decimal Tree TreeEq GenTree GenVisitors Visitor Eq EqSpec Print TreeInd.
Require Import Traverse Resolver OpenRange AutoHeadTail Meaning EqProofs AutoHeadTailProofs.
Require Import Regen TraverseProofs ResolverProofs OpenRangeProofs MeaningProofs.
From Coq Require Import Lia.

(* ================================================================ A. vocabulary: reading a tree *)

(* the fingerprint of a node from the fingerprints of its children; `rl` relabels the operator *)
Definition fp_node (rl : opk -> opk) (t : item) (fs : list fp) : fp :=
  match t, fs with
  | Term k _ v, _ => FTerm k v
  | SearchField _ n _, [e] => FField n e
  | Grp k _ _, [e] => FGroup k e
  | Range _ _ _ il ih, [lo; hi] => FRange il ih lo hi
  | Fuzzy _ _ d _, [x] => FFuzzy (dec_canon d) x
  | Proximity _ _ d _, [x] => FProximity d x
  | Boost _ _ f _, [e] => FBoost (dec_canon f) e
  | Op k _ _, _ => FOp (rl k) fs
  | Unary k _ _, [a] => FUnary k a
  | ORange k _ _ i, [a] => FORange k i a
  | _, _ => FNone
  end.

Definition same_op (k : opk) : opk := k.
Definition relab (d : path -> opk) (k : opk) : opk := match k with KUnknown => d [] | _ => k end.

Lemma fingerprint_unfold t : fingerprint t = fp_node same_op t (map fingerprint (children t)).
Proof. destruct t; reflexivity. Qed.

Definition rd_list (f : (path -> opk) -> item -> fp) (d : path -> opk) :=
  fix go (i : nat) (l : list item) : list fp :=
    match l with
    | [] => []
    | c :: l' => f (shift d i) c :: go (S i) l'
    end.

(* the fingerprint of t in which the implicit operation at path p is the operation d p *)
Fixpoint read_as (d : path -> opk) (t : item) : fp :=
  let via (cs : list item) := fp_node (relab d) t (rd_list read_as d 0 cs) in
  match t with
  | Term _ _ _ | NoneItem _ => via []
  | SearchField _ _ e | Grp _ _ e | Boost _ e _ _ => via [e]
  | Fuzzy _ x _ _ | Proximity _ x _ _ => via [x]
  | Unary _ _ a | ORange _ _ a _ => via [a]
  | Range _ lo hi _ _ => via [lo; hi]
  | Op _ _ ops => via ops
  end.

Lemma read_as_unfold d t : read_as d t = fp_node (relab d) t (rd_list read_as d 0 (children t)).
Proof. destruct t; reflexivity. Qed.

(* no implicit operation in a fingerprint *)
Fixpoint fp_known (f : fp) : bool :=
  match f with
  | FField _ e | FGroup _ e | FBoost _ e | FFuzzy _ e | FProximity _ e | FUnary _ e | FORange _ _ e => fp_known e
  | FRange _ _ lo hi => fp_known lo && fp_known hi
  | FOp k ops => (match k with KUnknown => false | _ => true end) && forallb fp_known ops
  | FTerm _ _ | FNone => true
  end.

Lemma fsem_dflt_irrelevant v : forall f cx b b', fp_known f = true -> fsem b v cx f = fsem b' v cx f.
Proof.
  induction f using fp_ind'; intros cx b b' Hk; simpl in *; auto.
  - apply andb_prop in Hk. destruct Hk as [Hk Hops].
    assert (E : forall c, In c ops -> fsem b v cx c = fsem b' v cx c).
    { intros c Hc. rewrite Forall_forall in H. apply (H c Hc). rewrite forallb_forall in Hops. auto. }
    destruct k; try discriminate.
    + apply forallb_ext_in. exact E.
    + apply existsb_ext_in. exact E.
    + unfold bool_reading. f_equal.
      * apply forallb_ext_in. intros c Hc. rewrite (E c Hc). reflexivity.
      * destruct (existsb is_plain ops && negb (existsb is_plus ops)); [|reflexivity].
        apply existsb_ext_in. intros c Hc. rewrite (E c Hc). reflexivity.
  - destruct k; rewrite (IHf cx b b' Hk); reflexivity.
Qed.

(* ================================================================ B. the resolver: fingerprint of the result *)

Lemma fingerprint_set_head c h : fingerprint (set_head c h) = fingerprint c.
Proof. destruct c; reflexivity. Qed.
Lemma fingerprint_set_tail c h : fingerprint (set_tail c h) = fingerprint c.
Proof. destruct c; reflexivity. Qed.

Lemma map_fp_add_heads ah cs : map fingerprint (add_heads ah cs) = map fingerprint cs.
Proof.
  destruct cs as [|c l]; simpl; [reflexivity|]. f_equal. rewrite map_map. apply map_ext.
  intros x. apply fingerprint_set_head.
Qed.

Lemma rd_list_ext (f : (path -> opk) -> item -> fp) : forall l i d d',
  Forall (fun c => forall d d', (forall q, d q = d' q) -> f d c = f d' c) l ->
  (forall q, d q = d' q) -> rd_list f d i l = rd_list f d' i l.
Proof.
  induction l as [|c l IH]; intros i d d' HF He; simpl; [reflexivity|].
  inversion HF as [|? ? Hc HFl]; subst. rewrite (IH (S i) d d' HFl He). f_equal.
  apply Hc. intros q. unfold shift. apply He.
Qed.

Lemma read_as_ext : forall t d d', (forall q, d q = d' q) -> read_as d t = read_as d' t.
Proof.
  apply (item_children_ind (fun t => forall d d', (forall q, d q = d' q) -> read_as d t = read_as d' t)).
  intros t IH d d' He. rewrite !read_as_unfold. rewrite (rd_list_ext read_as (children t) 0 d d' IH He).
  destruct t as [| | | | | | |[]| | |]; simpl; try reflexivity. unfold relab. rewrite He. reflexivity.
Qed.

(* what the induction needs of one operand c and its image c'' *)
Definition fp_ok (c c'' : item) : Prop :=
  fingerprint c'' = read_as (chosen c'') c /\ fp_known (fingerprint c'') = true.

Lemma fp_ok_set_head c c' h : fp_ok c c' -> fp_ok c (set_head c' h).
Proof.
  intros [H1 H2]. split; rewrite fingerprint_set_head; [|exact H2].
  rewrite H1. apply read_as_ext. intros q. symmetry. apply chosen_set_head.
Qed.

Lemma add_heads_fp_ok ah : forall l cs', Forall2 fp_ok l cs' -> Forall2 fp_ok l (add_heads ah cs').
Proof.
  intros l cs' H. destruct H as [|c c' l cs' Hc H]; simpl; constructor; [exact Hc|].
  induction H; simpl; constructor; [apply fp_ok_set_head; assumption|assumption].
Qed.

Lemma rd_list_res dr : forall l cs'' i,
  Forall2 fp_ok l cs'' ->
  (forall j c'', nth_error cs'' j = Some c'' -> forall q, dr ((i + j) :: q) = chosen c'' q) ->
  map fingerprint cs'' = rd_list read_as dr i l.
Proof.
  intros l cs'' i H2. revert i. induction H2 as [|c c'' l cs'' [H1 Hk] H2 IH]; intros i Hd; simpl; [reflexivity|].
  rewrite (IH (S i)).
  - f_equal. rewrite H1. apply read_as_ext. intros q. unfold shift.
    rewrite <- (Hd 0 c'' eq_refl q), Nat.add_0_r. reflexivity.
  - intros j c2 Hn q. replace (S i + j) with (i + S j) by lia. apply Hd. exact Hn.
Qed.

Lemma fp_ok_known : forall l cs', Forall2 fp_ok l cs' -> forallb fp_known (map fingerprint cs') = true.
Proof. intros l cs' H. induction H as [|c c' l cs' [_ Hk] _ IH]; simpl; [reflexivity|]. rewrite Hk, IH. reflexivity. Qed.

Lemma fp_known_node t fs : is_unknown t = false -> forallb fp_known fs = true -> fp_known (fp_node same_op t fs) = true.
Proof.
  intros Hu Hf.
  destruct t as [k m v|m n e|k m e|m lo hi il ih|m x d i|m x d i|m e f i|k m ops|k m a|k m a i|m]; simpl;
    try reflexivity;
    try (destruct fs as [|f1 [|f2 [|f3 fs]]]; simpl in *; rewrite ?andb_true_r in Hf; try reflexivity; exact Hf).
  destruct k; try discriminate; simpl; exact Hf.
Qed.

Lemma fp_node_known_op d t fs : is_unknown t = false -> fp_node (relab d) t fs = fp_node same_op t fs.
Proof. destruct t as [| | | | | | |[]| | |]; try reflexivity. discriminate. Qed.

Lemma copy_node_fp t cs' r :
  set_children (clone_node t) cs' = Some r -> std_node t ->
  children r = cs' /\ fingerprint r = fp_node same_op t (map fingerprint cs').
Proof.
  destruct t as [k m v|m n e|k m e|m lo hi il ih|m x d i|m x d i|m e f i|k m ops|k m a|k m a i|m];
    simpl; intros Hs Hstd; try destruct i; simpl in Hs;
    try (inversion Hs; subst; split; reflexivity);
    do 3 (try (destruct cs' as [|? cs']; try discriminate));
    inversion Hs; subst; split; try reflexivity; simpl; rewrite ?Hstd, ?dec_canon_normalize; reflexivity.
Qed.

Lemma resolution_fp tg ah : valid_target tg = true ->
  forall t r, resolution tg ah t r -> std_attrs t -> fp_ok t r.
Proof.
  intros Hvalid.
  apply (item_children_ind (fun t => forall r, resolution tg ah t r -> std_attrs t -> fp_ok t r)).
  intros t IH r Hr Hstd.
  assert (HF : forall cs', Forall2 (resolution tg ah) (children t) cs' -> Forall2 fp_ok (children t) cs').
  { pose proof (std_attrs_children _ Hstd) as Hsc. revert IH Hsc. generalize (children t).
    intros l IH Hsc cs' H2. induction H2 as [|c c' l cs' Hc H2 IH2]; constructor.
    - inversion IH; inversion Hsc; subst. auto.
    - inversion IH; inversion Hsc; subst. apply IH2; assumption. }
  inversion Hr as [m ops k cs' Hal HF2|t0 c cs' r0 Hu HF2 Hc Hs]; subst.
  - simpl in HF. pose proof (add_heads_fp_ok ah _ _ (HF _ HF2)) as Hok.
    assert (Hk : k <> KUnknown).
    { destruct tg as [k0|]; simpl in Hal; [|destruct Hal; subst; discriminate].
      subst k0. intros ->. discriminate. }
    split.
    + rewrite read_as_unfold. cbn [fingerprint fp_node children].
      replace (relab (chosen (Op k (clone_meta m) (add_heads ah cs'))) KUnknown) with k by reflexivity.
      f_equal. apply rd_list_res; [exact Hok|].
      intros j c2 Hn q. unfold chosen. cbn [subtree_at children Nat.add]. rewrite Hn. reflexivity.
    + cbn [fingerprint fp_known]. rewrite (fp_ok_known _ _ Hok). destruct k; try reflexivity. exfalso. apply Hk. reflexivity.
  - rewrite clone_item_node in Hc. inversion Hc; subst c; clear Hc.
    destruct (copy_node_fp _ _ _ Hs (Hstd [] t eq_refl)) as [Hch Hfp].
    pose proof (HF _ HF2) as Hok.
    split.
    + rewrite read_as_unfold, fp_node_known_op by exact Hu. rewrite Hfp. f_equal.
      apply rd_list_res; [exact Hok|].
      intros j c2 Hn q. unfold chosen. cbn [subtree_at Nat.add]. rewrite Hch, Hn. reflexivity.
    + rewrite Hfp. apply fp_known_node; [exact Hu|]. apply (fp_ok_known _ _ Hok).
Qed.

(* the resolved tree has the fingerprint of the input read with the operators found in the result *)
Theorem resolve_fingerprint tg ah t r :
  resolve tg ah t = Some r -> std_attrs t ->
  fingerprint r = read_as (chosen r) t /\ fp_known (fingerprint r) = true.
Proof.
  intros H Hstd.
  assert (Hv : valid_target tg = true) by (unfold resolve in H; destruct (valid_target tg); [reflexivity|discriminate]).
  apply (resolution_fp tg ah Hv t r (resolve_resolution _ _ _ _ H) Hstd).
Qed.

(* the operator chosen for every implicit operation is one the target allows *)
Lemma resolve_chosen_allowed tg ah t r : resolve tg ah t = Some r ->
  forall p m ops, subtree_at t p = Some (Op KUnknown m ops) -> allowed tg (chosen r p).
Proof.
  intros H p m ops Hp.
  assert (Hv : valid_target tg = true) by (unfold resolve in H; destruct (valid_target tg); [reflexivity|discriminate]).
  pose proof (resolution_pointwise tg ah Hv t r (resolve_resolution _ _ _ _ H) p) as Hpw.
  rewrite Hp in Hpw. destruct (subtree_at r p) as [n'|] eqn:Hr; [|contradiction].
  destruct Hpw as [[k [Hal Hk]] _]. destruct (cls_is_op _ _ Hk) as [m' [ops' Hn]].
  unfold chosen. rewrite Hr, Hn. exact Hal.
Qed.

Lemma rd_list_ext_on : forall l i d d',
  Forall (fun c => forall d d', agree_on c d d' -> read_as d c = read_as d' c) l ->
  (forall j c, nth_error l j = Some c -> agree_on c (shift d (i + j)) (shift d' (i + j))) ->
  rd_list read_as d i l = rd_list read_as d' i l.
Proof.
  induction l as [|c l IH]; intros i d d' HF He; simpl; [reflexivity|].
  inversion HF as [|? ? Hc HFl]; subst.
  pose proof (He 0 c eq_refl) as H0. rewrite Nat.add_0_r in H0.
  rewrite (IH (S i) d d' HFl).
  - f_equal. apply Hc. exact H0.
  - intros j c2 Hn. replace (S i + j) with (i + S j) by lia. apply He. exact Hn.
Qed.

(* the reading only looks at d where the tree has an implicit operation *)
Lemma read_as_ext_on : forall t d d', agree_on t d d' -> read_as d t = read_as d' t.
Proof.
  apply (item_children_ind (fun t => forall d d', agree_on t d d' -> read_as d t = read_as d' t)).
  intros t IH d d' He. rewrite !read_as_unfold.
  rewrite (rd_list_ext_on (children t) 0 d d' IH).
  - destruct t as [| | | | | | |[]| | |]; simpl; try reflexivity. unfold relab. rewrite (He [] _ eq_refl eq_refl). reflexivity.
  - intros j c Hn q n Hq Hu. unfold shift. simpl. apply (He (j :: q) n); [|exact Hu]. simpl. rewrite Hn. exact Hq.
Qed.

(* explicit target: the input read with the target everywhere *)
Theorem resolve_fingerprint_explicit k ah t r :
  resolve (Some k) ah t = Some r -> std_attrs t -> fingerprint r = read_as (fun _ => k) t.
Proof.
  intros H Hstd. rewrite (proj1 (resolve_fingerprint _ _ _ _ H Hstd)).
  apply read_as_ext_on. intros q n Hq Hu.
  destruct n as [| | | | | | |[] m ops| | |]; try discriminate.
  exact (resolve_chosen_allowed _ _ _ _ H q m ops Hq).
Qed.

(* the result of the resolver satisfies the constructor invariant again *)
Lemma resolve_std_attrs tg ah t r : resolve tg ah t = Some r -> std_attrs t -> std_attrs r.
Proof.
  intros H Hstd.
  assert (Hv : valid_target tg = true) by (unfold resolve in H; destruct (valid_target tg); [reflexivity|discriminate]).
  pose proof (resolution_pointwise tg ah Hv t r (resolve_resolution _ _ _ _ H)) as Hpw.
  intros p n' Hp. specialize (Hpw p). rewrite Hp in Hpw. destruct (subtree_at t p) as [n|] eqn:Ht; [|contradiction].
  exact (proj2 (proj2 (node_res_clean _ _ _ _ Hpw (Hstd p n Ht)))).
Qed.

(* ================================================================ C. open ranges *)

Definition fstar : fp := FTerm KWord [c_star].
Definition is_fstar (f : fp) : bool := match f with FTerm KWord v => str_eqb v [c_star] | _ => false end.

(* every comparison read as the one-sided range it abbreviates: >x = {x TO *], >=x = [x TO *],
   <x = [* TO x}, <=x = [* TO x] *)
Fixpoint canon (f : fp) : fp :=
  match f with
  | FTerm _ _ | FNone => f
  | FField n e => FField n (canon e)
  | FGroup k e => FGroup k (canon e)
  | FRange il ih lo hi => FRange il ih (canon lo) (canon hi)
  | FFuzzy d x => FFuzzy d (canon x)
  | FProximity d x => FProximity d (canon x)
  | FBoost f e => FBoost f (canon e)
  | FOp k ops => FOp k (map canon ops)
  | FUnary k a => FUnary k (canon a)
  | FORange KFrom i a => FRange i true (canon a) fstar
  | FORange KTo i a => FRange true i fstar (canon a)
  end.

Definition cnode (t : item) (fs : list fp) : fp :=
  match t, fs with
  | ORange KFrom _ _ i, [a] => FRange i true a fstar
  | ORange KTo _ _ i, [a] => FRange true i fstar a
  | _, _ => fp_node same_op t fs
  end.

Lemma canon_node t fs : canon (fp_node same_op t fs) = cnode t (map canon fs).
Proof.
  destruct t as [k m v|m n e|k m e|m lo hi il ih|m x d i|m x d i|m e f i|k m ops|[] m a|[] m a i|m];
    try reflexivity; destruct fs as [|f1 [|f2 [|f3 fs]]]; reflexivity.
Qed.

Lemma cnode_plain t fs : (forall k m a i, t <> ORange k m a i) -> cnode t fs = fp_node same_op t fs.
Proof. destruct t; try reflexivity. intros H. exfalso. eapply H. reflexivity. Qed.

Lemma canon_fingerprint_unfold t : canon (fingerprint t) = cnode t (map canon (map fingerprint (children t))).
Proof. rewrite fingerprint_unfold at 1. apply canon_node. Qed.

Lemma map_fp_conv (R : item -> item -> Prop) l cs :
  Forall2 R l cs ->
  Forall (fun c => forall c', R c c' -> std_attrs c -> fingerprint c' = canon (fingerprint c)) l ->
  Forall std_attrs l -> map fingerprint cs = map canon (map fingerprint l).
Proof.
  intros HF2. induction HF2 as [|x y l cs Hxy _ IH2]; intros IH Hsc; simpl; [reflexivity|].
  inversion IH; inversion Hsc; subst. f_equal; auto.
Qed.

(* ---- without merging: the output has the canonical fingerprint of the input *)
Lemma conv_fingerprint ah : forall t t', Conv false ah t t' -> std_attrs t ->
  fingerprint t' = canon (fingerprint t).
Proof.
  apply (item_children_ind (fun t => forall t', Conv false ah t t' -> std_attrs t ->
                                                 fingerprint t' = canon (fingerprint t))).
  intros t IH t' HC Hstd. pose proof (std_attrs_children _ Hstd) as Hsc.
  inversion HC as [m a incl a' Ha|m a incl a' Ha|t0 c cs cs' t0' Hno Hcl HF2 Hcond Hset]; subst.
  - simpl in IH, Hsc. inversion IH as [|? ? IHa _]; inversion Hsc as [|? ? Hsa _]; subst.
    unfold add_tail, star. simpl. rewrite fingerprint_set_tail, (IHa a' Ha Hsa). reflexivity.
  - simpl in IH, Hsc. inversion IH as [|? ? IHa _]; inversion Hsc as [|? ? Hsa _]; subst.
    unfold add_head_, star. simpl. rewrite fingerprint_set_head, (IHa a' Ha Hsa). reflexivity.
  - simpl in Hcond. subst cs'. rewrite clone_item_node in Hcl. inversion Hcl; subst c; clear Hcl.
    destruct (copy_node_fp _ _ _ Hset (Hstd [] t eq_refl)) as [_ Hfp].
    rewrite Hfp, canon_fingerprint_unfold, (cnode_plain _ _ Hno). f_equal.
    exact (map_fp_conv _ _ _ HF2 IH Hsc).
Qed.

(* ---- with merging *)

(* a value, possibly negated: what the grammar allows as a range bound / under ~ *)
Definition termish (t : item) : bool :=
  match t with Term _ _ _ => true | Unary _ _ (Term _ _ _) => true | _ => false end.

(* the leaves of the meaning (ranges, approximations, comparisons) hold values only, and there is no
   BoolOperation: true of every tree inside C11r's guard `regen_ok` (gsh_flat below) *)
Fixpoint flat (t : item) : bool :=
  match t with
  | Term _ _ _ | NoneItem _ => true
  | SearchField _ _ e | Grp _ _ e | Boost _ e _ _ | Unary _ _ e => flat e
  | Fuzzy _ x _ _ | Proximity _ x _ _ | ORange _ _ x _ => termish x
  | Range _ lo hi _ _ => termish lo && termish hi
  | Op k _ ops => (match k with KBool => false | _ => true end) && forallb flat ops
  end.

Lemma termish_flat x : termish x = true -> flat x = true.
Proof.
  destruct x as [| | | | | | | |k m a| |]; try discriminate; try reflexivity.
  destruct a; try discriminate; reflexivity.
Qed.
Lemma termish_set_tail x s : termish (set_tail x s) = termish x.
Proof. destruct x; reflexivity. Qed.
Lemma termish_set_head x s : termish (set_head x s) = termish x.
Proof. destruct x; reflexivity. Qed.

(* valuations that read a range atom as the conjunction of a condition on its lower bound and a condition
   on its upper bound, `*` being no condition (the convention of harness/c12.py's oracle, where L / H compare
   a field value with the bound; here L and H are arbitrary) *)
Definition range_respecting (v : atom -> bool) : Prop :=
  exists (L H : list ctxel -> bool -> fp -> bool),
    forall cx il ih lo hi,
      v (cx, FRange il ih lo hi) = (is_fstar lo || L cx il lo) && (is_fstar hi || H cx ih hi).

Lemma wildcard_fstar t : is_wildcard t = true -> fingerprint t = fstar.
Proof. intros H. apply is_wildcard_spec in H. destruct H as [m ->]. reflexivity. Qed.

Lemma wildcard_termish t : is_wildcard t = true -> termish t = true.
Proof. intros H. apply is_wildcard_spec in H. destruct H as [m ->]. reflexivity. Qed.

Section Merge.
  Variables (ah : str) (d : bool) (v : atom -> bool).
  Hypothesis Hrr : range_respecting v.

  Definition fs (cx : list ctxel) (c : item) : bool := fsem d v cx (fingerprint c).

  Lemma merge_step_fsem cx l l' : merge_step l l' -> forallb (fs cx) l = forallb (fs cx) l'.
  Proof.
    destruct Hrr as [L [H Hv]].
    assert (Hr : forall m lo hi il ih, fs cx (Range m lo hi il ih) =
                   (is_fstar (fingerprint lo) || L cx il (fingerprint lo)) &&
                   (is_fstar (fingerprint hi) || H cx ih (fingerprint hi))).
    { intros. unfold fs. simpl. apply Hv. }
    intros Hs. destruct Hs as [l1 l2 l3 m1 lo1 hi1 il1 ih1 m2 lo2 hi2 il2 ih2 [_ Hh1] [Hl2 _]
                              |l1 l2 l3 m1 lo1 hi1 il1 ih1 m2 lo2 hi2 il2 ih2 [Hl1 _] [_ Hh2]];
      rewrite !forallb_app; cbn [forallb]; rewrite !forallb_app; cbn [forallb]; rewrite !Hr.
    - rewrite (wildcard_fstar _ Hh1), (wildcard_fstar _ Hl2). simpl.
      destruct (forallb (fs cx) l1), (forallb (fs cx) l2), (forallb (fs cx) l3),
        (is_fstar (fingerprint lo1) || L cx il1 (fingerprint lo1)),
        (is_fstar (fingerprint hi2) || H cx ih2 (fingerprint hi2)); reflexivity.
    - rewrite (wildcard_fstar _ Hl1), (wildcard_fstar _ Hh2). simpl.
      destruct (forallb (fs cx) l1), (forallb (fs cx) l2), (forallb (fs cx) l3),
        (is_fstar (fingerprint lo2) || L cx il2 (fingerprint lo2)),
        (is_fstar (fingerprint hi1) || H cx ih1 (fingerprint hi1)); reflexivity.
  Qed.

  Lemma merge_steps_fsem cx l l' : merge_steps l l' -> forallb (fs cx) l = forallb (fs cx) l'.
  Proof. induction 1 as [|a b c Hs _ IH]; [reflexivity|]. rewrite (merge_step_fsem cx _ _ Hs). exact IH. Qed.

  Lemma merge_step_flat l l' : merge_step l l' -> forallb flat l' = true -> forallb flat l = true.
  Proof.
    intros Hs. destruct Hs as [l1 l2 l3 m1 lo1 hi1 il1 ih1 m2 lo2 hi2 il2 ih2 [_ Hh1] [Hl2 _]
                              |l1 l2 l3 m1 lo1 hi1 il1 ih1 m2 lo2 hi2 il2 ih2 [Hl1 _] [_ Hh2]];
      rewrite !forallb_app; simpl; rewrite !forallb_app; simpl.
    - rewrite (wildcard_termish _ Hh1), (wildcard_termish _ Hl2).
      destruct (forallb flat l1), (forallb flat l2), (forallb flat l3), (termish lo1), (termish hi2); auto.
    - rewrite (wildcard_termish _ Hl1), (wildcard_termish _ Hh2).
      destruct (forallb flat l1), (forallb flat l2), (forallb flat l3), (termish lo2), (termish hi1); auto.
  Qed.

  Lemma merge_steps_flat l l' : merge_steps l l' -> forallb flat l' = true -> forallb flat l = true.
  Proof. induction 1 as [|a b c Hs _ IH]; [auto|]. intros H. apply (merge_step_flat _ _ Hs). auto. Qed.

  (* what the induction gives for an input node t and its image t' *)
  Definition link_ok (t t' : item) : Prop :=
    (termish t' = true -> fingerprint t' = canon (fingerprint t)) /\
    (forall cx, fsem d v cx (fingerprint t') = fsem d v cx (canon (fingerprint t))).

  Lemma link_of_eq t t' : fingerprint t' = canon (fingerprint t) -> link_ok t t'.
  Proof. intros H. split; [intros _; exact H|intros cx; rewrite H; reflexivity]. Qed.

  Definition step_ok (c : item) : Prop :=
    forall c', Conv true ah c c' -> std_attrs c -> flat c' = true -> link_ok c c'.

  Lemma children_link l cs :
    Forall2 (Conv true ah) l cs -> Forall step_ok l -> Forall std_attrs l -> forallb flat cs = true ->
    Forall2 link_ok l cs.
  Proof.
    intros HF2. induction HF2 as [|x y l cs Hxy _ IH2]; intros IH Hsc Hfl; [constructor|].
    inversion IH; inversion Hsc; subst. simpl in Hfl. apply andb_prop in Hfl. destruct Hfl as [Hy Hcs].
    constructor; auto.
  Qed.

  Lemma link_terms l cs : Forall2 link_ok l cs -> forallb termish cs = true ->
    map fingerprint cs = map canon (map fingerprint l).
  Proof.
    intros HF2. induction HF2 as [|x y l cs [Hxy _] _ IH2]; intros Ht; simpl; [reflexivity|].
    simpl in Ht. apply andb_prop in Ht. destruct Ht as [Hy Hcs]. f_equal; auto.
  Qed.

  Lemma link_forallb cx l cs : Forall2 link_ok l cs ->
    forallb (fsem d v cx) (map fingerprint cs) = forallb (fsem d v cx) (map canon (map fingerprint l)).
  Proof. intros HF2. induction HF2 as [|x y l cs [_ Hxy] _ IH2]; simpl; [reflexivity|]. rewrite Hxy, IH2. reflexivity. Qed.

  Lemma link_existsb cx l cs : Forall2 link_ok l cs ->
    existsb (fsem d v cx) (map fingerprint cs) = existsb (fsem d v cx) (map canon (map fingerprint l)).
  Proof. intros HF2. induction HF2 as [|x y l cs [_ Hxy] _ IH2]; simpl; [reflexivity|]. rewrite Hxy, IH2. reflexivity. Qed.

  Lemma forallb_termish_flat cs : forallb termish cs = true -> forallb flat cs = true.
  Proof.
    induction cs as [|c cs IH]; simpl; [auto|]. intros H. apply andb_prop in H. destruct H as [H1 H2].
    rewrite (termish_flat _ H1), (IH H2). reflexivity.
  Qed.

  Lemma forallb_fs cx l : forallb (fs cx) l = forallb (fsem d v cx) (map fingerprint l).
  Proof. induction l as [|c l IH]; simpl; [reflexivity|]. rewrite IH. reflexivity. Qed.

  Lemma conv_link : forall t, step_ok t.
  Proof.
    apply (item_children_ind step_ok). intros t IH t' HC Hstd Hfl.
    pose proof (std_attrs_children _ Hstd) as Hsc.
    inversion HC as [m a incl a' Ha|m a incl a' Ha|t0 c cs cs' t0' Hno Hcl HF2 Hcond Hset]; subst.
    - (* From *)
      simpl in IH, Hsc. inversion IH as [|? ? IHa _]; inversion Hsc as [|? ? Hsa _]; subst.
      assert (Hta : termish a' = true).
      { simpl in Hfl. apply andb_prop in Hfl. destruct Hfl as [Hfl _]. unfold add_tail in Hfl.
        rewrite termish_set_tail in Hfl. exact Hfl. }
      destruct (IHa a' Ha Hsa (termish_flat _ Hta)) as [H1 _]. specialize (H1 Hta).
      apply link_of_eq. unfold add_tail, star. simpl. rewrite fingerprint_set_tail, H1. reflexivity.
    - (* To *)
      simpl in IH, Hsc. inversion IH as [|? ? IHa _]; inversion Hsc as [|? ? Hsa _]; subst.
      assert (Hta : termish a' = true).
      { simpl in Hfl. unfold add_head_ in Hfl. rewrite termish_set_head in Hfl. exact Hfl. }
      destruct (IHa a' Ha Hsa (termish_flat _ Hta)) as [H1 _]. specialize (H1 Hta).
      apply link_of_eq. unfold add_head_, star. simpl. rewrite fingerprint_set_head, H1. reflexivity.
    - (* every other node *)
      rewrite clone_item_node in Hcl. inversion Hcl; subst c; clear Hcl.
      destruct (copy_node_fp _ _ _ Hset (Hstd [] t eq_refl)) as [_ Hfp].
      assert (Hatom : forallb termish cs = true -> cs' = cs -> link_ok t t').
      { intros Ht ->. apply link_of_eq.
        rewrite Hfp, canon_fingerprint_unfold, (cnode_plain _ _ Hno). f_equal.
        apply link_terms; [|exact Ht]. apply children_link; auto. apply forallb_termish_flat. exact Ht. }
      destruct t as [k m v0|m n e|k m e|m lo hi il ih|m x dg i|m x dg i|m e f i|k m ops|k m a|k m a i|m];
        cbn [children] in *.
      + (* Term *) inversion HF2; subst. apply Hatom; [reflexivity|exact Hcond].
      + (* SearchField *)
        simpl in Hcond. subst cs'. inversion HF2 as [|? e' ? ? Hce HF2']; subst. inversion HF2'; subst.
        simpl in Hset. inversion Hset; subst t'. simpl in Hfl.
        inversion IH as [|? ? IHe _]; inversion Hsc as [|? ? Hse _]; subst.
        destruct (IHe e' Hce Hse Hfl) as [_ H2].
        split; [discriminate|]. intros cx. simpl. apply H2.
      + (* Grp *)
        simpl in Hcond. subst cs'. inversion HF2 as [|? e' ? ? Hce HF2']; subst. inversion HF2'; subst.
        simpl in Hset. inversion Hset; subst t'. simpl in Hfl.
        inversion IH as [|? ? IHe _]; inversion Hsc as [|? ? Hse _]; subst.
        destruct (IHe e' Hce Hse Hfl) as [_ H2].
        split; [discriminate|]. intros cx. simpl. apply H2.
      + (* Range *)
        simpl in Hcond. subst cs'. inversion HF2 as [|? lo' ? ? Hclo HF2']; subst.
        inversion HF2' as [|? hi' ? ? Hchi HF2'']; subst. inversion HF2''; subst.
        simpl in Hset. inversion Hset; subst t'. simpl in Hfl. apply Hatom; [|reflexivity].
        simpl. rewrite andb_true_r. exact Hfl.
      + (* Fuzzy *)
        simpl in Hcond. subst cs'. inversion HF2 as [|? x' ? ? Hcx HF2']; subst. inversion HF2'; subst.
        assert (Hx : termish x' = true).
        { destruct i; simpl in Hset; inversion Hset; subst t'; exact Hfl. }
        apply Hatom; [|reflexivity]. simpl. rewrite Hx. reflexivity.
      + (* Proximity *)
        simpl in Hcond. subst cs'. inversion HF2 as [|? x' ? ? Hcx HF2']; subst. inversion HF2'; subst.
        assert (Hx : termish x' = true).
        { destruct i; simpl in Hset; inversion Hset; subst t'; exact Hfl. }
        apply Hatom; [|reflexivity]. simpl. rewrite Hx. reflexivity.
      + (* Boost *)
        simpl in Hcond. subst cs'. inversion HF2 as [|? e' ? ? Hce HF2']; subst. inversion HF2'; subst.
        assert (Hfe : flat e' = true).
        { destruct i; simpl in Hset; inversion Hset; subst t'; exact Hfl. }
        inversion IH as [|? ? IHe _]; inversion Hsc as [|? ? Hse _]; subst.
        destruct (IHe e' Hce Hse Hfe) as [_ H2].
        split; [destruct i; simpl in Hset; inversion Hset; subst t'; discriminate|].
        intros cx. rewrite Hfp. simpl. apply H2.
      + (* operations *)
        simpl in Hset. inversion Hset; subst t'. clear Hset.
        simpl in Hfl. apply andb_prop in Hfl. destruct Hfl as [Hk Hfl].
        split; [discriminate|]. intros cx.
        destruct k; try discriminate; simpl in Hcond.
        * destruct Hcond as [Hms _].
          pose proof (children_link _ _ HF2 IH Hsc (merge_steps_flat _ _ Hms Hfl)) as Hl.
          simpl. rewrite <- (link_forallb cx _ _ Hl), <- !forallb_fs. symmetry. apply merge_steps_fsem. exact Hms.
        * subst cs'. pose proof (children_link _ _ HF2 IH Hsc Hfl) as Hl. simpl. apply link_existsb. exact Hl.
        * subst cs'. pose proof (children_link _ _ HF2 IH Hsc Hfl) as Hl. simpl.
          pose proof (link_forallb cx _ _ Hl) as A. pose proof (link_existsb cx _ _ Hl) as B.
          revert A B. destruct d; intros A B; [exact A|exact B].
      + (* Plus / Not / Prohibit *)
        simpl in Hcond. subst cs'. inversion HF2 as [|? a' ? ? Hca HF2']; subst. inversion HF2'; subst.
        simpl in Hset. inversion Hset; subst t'. simpl in Hfl.
        inversion IH as [|? ? IHa _]; inversion Hsc as [|? ? Hsa _]; subst.
        destruct (IHa a' Hca Hsa Hfl) as [H1 H2].
        split.
        * intros Ht. simpl. f_equal. apply H1. simpl in Ht. destruct a'; try discriminate; reflexivity.
        * intros cx. simpl. destruct k; rewrite H2; reflexivity.
      + (* a comparison is not copied *)
        exfalso. eapply Hno. reflexivity.
      + (* NoneItem *) inversion HF2; subst. apply Hatom; [reflexivity|exact Hcond].
  Qed.
End Merge.

(* ================================================================ D. inside C11r's guard the leaves are flat *)

Lemma val_term_termish x : val_term x = true -> termish x = true.
Proof. destruct x; try discriminate. reflexivity. Qed.

Lemma bound_sh_termish x : bound_sh x = true -> termish x = true.
Proof.
  destruct x as [| | | | | | | |k m a| |]; try discriminate; try reflexivity.
  destruct k; simpl; try discriminate. intros H. destruct a; try discriminate. reflexivity.
Qed.

Lemma forallb_gsh_flat n ops :
  Forall (fun c => forall lv, gsh lv c = true -> flat c = true) ops ->
  forallb (gsh n) ops = true -> forallb flat ops = true.
Proof.
  induction 1 as [|c l Hc _ IH]; simpl; [auto|]. intros H. apply andb_prop in H. destruct H as [H1 H2].
  rewrite (Hc _ H1), (IH H2). reflexivity.
Qed.

Lemma gsh_flat_both : forall t,
  (forall lv, gsh lv t = true -> flat t = true) /\
  (forall m x, t = Grp KFieldGroup m x -> gsh 0 x = true -> flat t = true).
Proof.
  induction t using item_ind'; (split; [intros lv Hg|intros m0 x0 Heq Hg0; try discriminate]);
    try (cbn [gsh] in Hg; apply andb_prop in Hg; destruct Hg as [_ Hg]).
  - reflexivity.
  - (* SearchField *)
    destruct IHt as [IH1 IH2]. apply andb_prop in Hg. destruct Hg as [_ Hg]. cbn [flat].
    destruct t as [| |[]| | | | | | | |]; try discriminate; try (apply (IH1 3); exact Hg).
    eapply IH2; [reflexivity|exact Hg].
  - (* Grp *)
    destruct IHt as [IH1 _]. destruct k; [|discriminate]. cbn [flat]. apply (IH1 0). exact Hg.
  - destruct IHt as [IH1 _]. inversion Heq; subst. cbn [flat]. apply (IH1 0). exact Hg0.
  - (* Range *)
    apply andb_prop in Hg. destruct Hg as [H1 H2]. cbn [flat].
    rewrite (bound_sh_termish _ H1), (bound_sh_termish _ H2). reflexivity.
  - (* Fuzzy *)
    apply andb_prop in Hg. destruct Hg as [H1 _]. cbn [flat]. destruct t; try discriminate. reflexivity.
  - (* Proximity *)
    apply andb_prop in Hg. destruct Hg as [H1 _]. cbn [flat]. destruct t; try discriminate. reflexivity.
  - (* Boost *)
    destruct IHt as [IH1 _]. apply andb_prop in Hg. destruct Hg as [H1 _]. cbn [flat]. apply (IH1 4). exact H1.
  - (* operations *)
    assert (HF : Forall (fun c => forall lv, gsh lv c = true -> flat c = true) ops).
    { eapply Forall_impl; [|exact H]. intros c [Hc _]. exact Hc. }
    cbn [flat]. destruct k; try discriminate; destruct ops as [|c [|c2 r]]; try discriminate; simpl;
      try (inversion HF; subst; rewrite (H2 _ Hg); reflexivity);
      apply andb_prop in Hg; destruct Hg as [_ Hg].
    + apply (forallb_gsh_flat 2 _ HF Hg).
    + apply (forallb_gsh_flat 1 _ HF Hg).
    + apply andb_prop in Hg. destruct Hg as [Hg _]. apply (forallb_gsh_flat 1 _ HF Hg).
  - (* unary *)
    destruct IHt as [IH1 _]. cbn [flat]. apply (IH1 3). exact Hg.
  - (* comparison *)
    cbn [flat]. apply val_term_termish. exact Hg.
  - reflexivity.
Qed.

Theorem regen_ok_flat t : regen_ok t = true -> flat t = true.
Proof.
  unfold regen_ok, gshape. intros H. apply andb_prop in H. destruct H as [H _].
  exact (proj1 (gsh_flat_both t) 0 H).
Qed.

(* ================================================================ E. the links, transformer by transformer *)

(* the resolver: the output means what the input means when each implicit operation is read as the operator
   found at its path in the output; no implicit operation is left, so the default operator is irrelevant *)
Theorem resolve_link tg ah t t' : resolve tg ah t = Some t' -> std_attrs t ->
  forall d d' v, Meaning.sem d v t' = fsem d' v [] (read_as (chosen t') t).
Proof.
  intros H Hs d d' v. destruct (resolve_fingerprint _ _ _ _ H Hs) as [Hf Hk]. unfold Meaning.sem.
  rewrite (fsem_dflt_irrelevant v _ [] d d' Hk), Hf. reflexivity.
Qed.

Theorem resolve_link_explicit k ah t t' : resolve (Some k) ah t = Some t' -> std_attrs t ->
  forall d d' v, Meaning.sem d v t' = fsem d' v [] (read_as (fun _ => k) t).
Proof.
  intros H Hs d d' v. rewrite (resolve_link _ _ _ _ H Hs d d' v).
  rewrite <- (resolve_fingerprint_explicit _ _ _ _ H Hs), (proj1 (resolve_fingerprint _ _ _ _ H Hs)). reflexivity.
Qed.

(* the open-range transformer *)
Theorem open_range_conv' mg ah t t' : open_range mg ah t = Some t' -> Conv mg ah t t'.
Proof.
  intros H. destruct (open_range_conv mg ah t) as [t1 [H1 [H2 _]]]. rewrite H in H1. inversion H1; subst. exact H2.
Qed.

Theorem open_range_link_plain ah t t' : open_range false ah t = Some t' -> std_attrs t ->
  fingerprint t' = canon (fingerprint t).
Proof. intros H Hs. exact (conv_fingerprint ah t t' (open_range_conv' _ _ _ _ H) Hs). Qed.

Theorem open_range_link_merge ah t t' : open_range true ah t = Some t' -> std_attrs t -> flat t' = true ->
  forall d v, range_respecting v -> Meaning.sem d v t' = fsem d v [] (canon (fingerprint t)).
Proof.
  intros H Hs Hf d v Hv. unfold Meaning.sem.
  exact (proj2 (conv_link ah d v Hv t t' (open_range_conv' _ _ _ _ H) Hs Hf) []).
Qed.

(* both at once: for every valuation without merging, for the range-respecting ones with merging *)
Theorem open_range_link mg ah t t' : open_range mg ah t = Some t' -> std_attrs t -> flat t' = true ->
  forall d v, mg = false \/ range_respecting v -> Meaning.sem d v t' = fsem d v [] (canon (fingerprint t)).
Proof.
  intros H Hs Hf d v Hv. destruct mg.
  - destruct Hv as [Hv|Hv]; [discriminate|]. exact (open_range_link_merge ah t t' H Hs Hf d v Hv).
  - unfold Meaning.sem. rewrite (open_range_link_plain ah t t' H Hs). reflexivity.
Qed.

(* the default copy and auto_head_tail: same fingerprint *)
Theorem copy_link t t' : copy t = Some t' -> std_attrs t -> fingerprint t' = fingerprint t.
Proof.
  intros H Hs. rewrite copy_dcopy in H. inversion H; subst. apply eq_iff_fingerprint. apply dcopy_eq.
  eapply all_nodes_impl; [|exact Hs]. intros n Hn. apply (wf_node_stable n Hn).
Qed.

Theorem aht_link t t' : aht t = Some t' -> std_attrs t -> fingerprint t' = fingerprint t.
Proof.
  intros H Hs. destruct (aht_some t t' H) as [_ ->]. apply eq_iff_fingerprint. apply daht_eq.
  eapply all_nodes_impl; [|exact Hs]. intros n Hn. apply (wf_node_stable n Hn).
Qed.

Lemma canon_known : forall f, fp_known f = true -> fp_known (canon f) = true.
Proof.
  induction f using fp_ind'; simpl; intros Hk; auto.
  - apply andb_prop in Hk. destruct Hk as [H1 H2]. rewrite (IHf1 H1), (IHf2 H2). reflexivity.
  - apply andb_prop in Hk. destruct Hk as [H1 H2]. rewrite H1. simpl. clear H1.
    induction H as [|c l Hc _ IH]; simpl; [reflexivity|]. simpl in H2. apply andb_prop in H2. destruct H2 as [H3 H4].
    rewrite (Hc H3), (IH H4). reflexivity.
  - destruct k; simpl; rewrite (IHf Hk); reflexivity.
Qed.

(* canon on a reading: the composition resolve-then-open-ranges *)
Theorem resolve_open_link tg mg ah ah2 t t1 t' :
  resolve tg ah t = Some t1 -> open_range mg ah2 t1 = Some t' -> std_attrs t -> flat t' = true ->
  forall d d' v, mg = false \/ range_respecting v ->
    Meaning.sem d v t' = fsem d' v [] (canon (read_as (chosen t1) t)).
Proof.
  intros Hr Ho Hs Hf d d' v Hv.
  rewrite (open_range_link mg ah2 t1 t' Ho (resolve_std_attrs _ _ _ _ Hr Hs) Hf d v Hv).
  destruct (resolve_fingerprint _ _ _ _ Hr Hs) as [Hfp Hk]. rewrite <- Hfp.
  apply fsem_dflt_irrelevant. apply canon_known. exact Hk.
Qed.

(* ================================================================ F. the reading and the default operator *)

Lemma rd_list_const k : forall l i, rd_list read_as (fun _ => k) i l = map (read_as (fun _ => k)) l.
Proof. induction l as [|c l IH]; intros i; simpl; [reflexivity|]. rewrite IH. reflexivity. Qed.

Lemma termish_read d x : termish x = true -> read_as d x = fingerprint x.
Proof.
  destruct x as [| | | | | | | |k m a| |]; try discriminate; try reflexivity.
  destruct a; try discriminate. reflexivity.
Qed.

Definition dflt_op (d : bool) : opk := if d then KAnd else KOr.

(* on a flat tree, reading every implicit operation as AND (as OR) is Meaning.v's reading under the default
   operator AND (OR) *)
Lemma read_default (d : bool) v : forall t, flat t = true ->
  forall cx d', fsem d' v cx (read_as (fun _ => dflt_op d) t) = fsem d v cx (fingerprint t).
Proof.
  induction t using item_ind'; intros Hf cx d'; cbn [flat] in Hf; rewrite read_as_unfold, rd_list_const;
    cbn [children map fp_node fingerprint].
  - reflexivity.
  - simpl. apply IHt. exact Hf.
  - simpl. apply IHt. exact Hf.
  - apply andb_prop in Hf. destruct Hf as [H1 H2]. rewrite (termish_read _ _ H1), (termish_read _ _ H2). reflexivity.
  - rewrite (termish_read _ _ Hf). reflexivity.
  - rewrite (termish_read _ _ Hf). reflexivity.
  - simpl. apply IHt. exact Hf.
  - apply andb_prop in Hf. destruct Hf as [Hk Hf].
    assert (E : forall b, forallb (fsem b v cx) (map (read_as (fun _ => dflt_op d)) ops) =
                          forallb (fsem d v cx) (map fingerprint ops) /\
                          existsb (fsem b v cx) (map (read_as (fun _ => dflt_op d)) ops) =
                          existsb (fsem d v cx) (map fingerprint ops)).
    { intros b. clear Hk. induction H as [|c l Hc _ IH]; simpl; [auto|].
      simpl in Hf. apply andb_prop in Hf. destruct Hf as [Hc1 Hl]. destruct (IH Hl) as [E1 E2].
      rewrite (Hc Hc1 cx b), E1, E2. auto. }
    destruct k; try discriminate; simpl.
    + apply E.
    + apply E.
    + destruct d; simpl; apply E.
  - simpl. destruct k; rewrite (IHt Hf cx d'); reflexivity.
  - rewrite (termish_read _ _ Hf). reflexivity.
  - reflexivity.
Qed.

(* ---- flatness goes back from the resolver's output to its input *)
Lemma flat_set_head c h : flat (set_head c h) = flat c.
Proof. destruct c; reflexivity. Qed.

Lemma forallb_flat_add_heads ah cs : forallb flat (add_heads ah cs) = forallb flat cs.
Proof.
  destruct cs as [|c l]; simpl; [reflexivity|]. f_equal.
  induction l as [|x l IH]; simpl; [reflexivity|]. rewrite flat_set_head, IH. reflexivity.
Qed.

Lemma resolution_term tg ah t k m v : resolution tg ah t (Term k m v) -> exists m0, t = Term k m0 v.
Proof.
  intros H. inversion H as [|t0 c cs' r0 Hu HF2 Hc Hs]; subst.
  rewrite clone_item_node in Hc. inversion Hc; subst c; clear Hc.
  destruct t as [k0 m0 v0|m0 n e|k0 m0 e|m0 lo hi il ih|m0 x dg i|m0 x dg i|m0 e f i|k0 m0 ops|k0 m0 a|k0 m0 a i|m0];
    try destruct i; simpl in Hs; do 3 (try (destruct cs' as [|? cs']; try discriminate)); inversion Hs; subst.
  eauto.
Qed.

Lemma resolution_termish tg ah t r : resolution tg ah t r -> termish r = true -> termish t = true.
Proof.
  intros H Ht. destruct r as [k m v| | | | | | | |k m a| |]; try discriminate.
  - destruct (resolution_term _ _ _ _ _ _ H) as [m0 ->]. reflexivity.
  - destruct a as [k1 m1 v1| | | | | | | | | |]; try discriminate.
    inversion H as [|t0 c cs' r0 Hu HF2 Hc Hs]; subst.
    rewrite clone_item_node in Hc. inversion Hc; subst c; clear Hc.
    destruct t as [k0 m0 v0|m0 n e|k0 m0 e|m0 lo hi il ih|m0 x dg i|m0 x dg i|m0 e f i|k0 m0 ops|k0 m0 a|k0 m0 a i|m0];
      try destruct i; simpl in Hs; do 3 (try (destruct cs' as [|? cs']; try discriminate)); inversion Hs; subst.
    simpl in HF2. inversion HF2 as [|? ? ? ? Ha _]; subst.
    destruct (resolution_term _ _ _ _ _ _ Ha) as [m2 ->]. reflexivity.
Qed.

Definition flat_node (t : item) (cs : list item) : bool :=
  match t with
  | Term _ _ _ | NoneItem _ => true
  | SearchField _ _ _ | Grp _ _ _ | Boost _ _ _ _ | Unary _ _ _ => forallb flat cs
  | Fuzzy _ _ _ _ | Proximity _ _ _ _ | ORange _ _ _ _ | Range _ _ _ _ _ => forallb termish cs
  | Op k _ _ => (match k with KBool => false | _ => true end) && forallb flat cs
  end.

Lemma flat_unfold t : flat t = flat_node t (children t).
Proof. destruct t; simpl; rewrite ?andb_true_r; reflexivity. Qed.

Lemma copy_node_flat t cs' r : set_children (clone_node t) cs' = Some r -> flat r = flat_node t cs'.
Proof.
  destruct t as [k0 m0 v0|m0 n e|k0 m0 e|m0 lo hi il ih|m0 x dg i|m0 x dg i|m0 e f i|k0 m0 ops|k0 m0 a|k0 m0 a i|m0];
    try destruct i; simpl; intros Hs; try (inversion Hs; subst; reflexivity);
    do 3 (try (destruct cs' as [|? cs']; try discriminate)); inversion Hs; subst; simpl; rewrite ?andb_true_r; reflexivity.
Qed.

Lemma resolution_flat tg ah : forall t r, resolution tg ah t r -> flat r = true -> flat t = true.
Proof.
  apply (item_children_ind (fun t => forall r, resolution tg ah t r -> flat r = true -> flat t = true)).
  intros t IH r Hr Hf.
  assert (HL : forall cs', Forall2 (resolution tg ah) (children t) cs' -> forallb flat cs' = true ->
                           forallb flat (children t) = true).
  { revert IH. generalize (children t). intros l IH cs' H2. induction H2 as [|c c' l cs' Hc H2 IH2]; [auto|].
    simpl. intros Hcs. apply andb_prop in Hcs. destruct Hcs as [H1 H3]. inversion IH; subst.
    rewrite (H4 _ Hc H1), (IH2 H5 H3). reflexivity. }
  assert (HT : forall cs', Forall2 (resolution tg ah) (children t) cs' -> forallb termish cs' = true ->
                           forallb termish (children t) = true).
  { generalize (children t). intros l cs' H2. induction H2 as [|c c' l cs' Hc H2 IH2]; [auto|].
    simpl. intros Hcs. apply andb_prop in Hcs. destruct Hcs as [H1 H3].
    rewrite (resolution_termish _ _ _ _ Hc H1), (IH2 H3). reflexivity. }
  inversion Hr as [m ops k cs' Hal HF2|t0 c cs' r0 Hu HF2 Hc Hs]; subst.
  - simpl in Hf. apply andb_prop in Hf. destruct Hf as [_ Hf]. rewrite forallb_flat_add_heads in Hf.
    simpl. exact (HL _ HF2 Hf).
  - rewrite clone_item_node in Hc. inversion Hc; subst c; clear Hc.
    rewrite (copy_node_flat _ _ _ Hs) in Hf. rewrite flat_unfold.
    destruct t as [k0 m0 v0|m0 n e|k0 m0 e|m0 lo hi il ih|m0 x dg i|m0 x dg i|m0 e f i|k0 m0 ops|k0 m0 a|k0 m0 a i|m0];
      cbn [flat_node] in *; try reflexivity; try (exact (HL _ HF2 Hf)); try (exact (HT _ HF2 Hf)).
    apply andb_prop in Hf. destruct Hf as [Hk Hf]. rewrite Hk. exact (HL _ HF2 Hf).
Qed.

(* explicit target AND / OR, in Meaning.v's own vocabulary: under ANY default operator the resolved tree means
   what the input means under the default operator AND (OR) *)
Theorem resolve_link_default (d0 : bool) ah t t' :
  resolve (Some (dflt_op d0)) ah t = Some t' -> std_attrs t -> flat t' = true ->
  forall d v, Meaning.sem d v t' = Meaning.sem d0 v t.
Proof.
  intros H Hs Hf d v. rewrite (resolve_link_explicit _ _ _ _ H Hs d d v).
  apply read_default. exact (resolution_flat _ _ _ _ (resolve_resolution _ _ _ _ H) Hf).
Qed.

(* the Lucene-like mode on a query without explicit AND / OR is the target AND *)
Theorem resolve_link_lucene_default ah t t' :
  resolve None ah t = Some t' -> no_andor t -> std_attrs t ->
  read_as (chosen t') t = read_as (fun _ => KAnd) t.
Proof.
  intros H Hn Hs. rewrite (resolve_default_and ah t Hn) in H.
  rewrite <- (resolve_fingerprint_explicit _ _ _ _ H Hs). symmetry. exact (proj1 (resolve_fingerprint _ _ _ _ H Hs)).
Qed.
