"""C02 — every node's pos/size/head/tail locate its exact text in the original query."""
import lib
import parsegen as PG
import c01


def nodes(t, path=()):
    yield path, t
    for i, c in enumerate(t.children):
        yield from nodes(c, path + (i,))


def oracle(s, t, canon):
    """the property, evaluated on the implementation's tree; returns a list of reasons (empty = holds).
    `canon` is applied to both sides of every text comparison (identity for the exact version)."""
    why = []
    for path, n in nodes(t):
        if n.pos is None or n.size is None:
            why.append("%s %s: pos/size missing" % (list(path), type(n).__name__))
            continue
        a, b = n.pos, n.pos + n.size
        a2, b2 = a - len(n.head), b + len(n.tail)
        if (a, b) != n.span() or (a2, b2) != n.span(head_tail=True):
            why.append("%s: span() is not (pos, pos+size) widened by head/tail" % list(path))
        if not (0 <= a2 <= a <= b <= b2 <= len(s)):
            why.append("%s %s: span %r / %r outside the input" % (list(path), type(n).__name__, (a, b), (a2, b2)))
            continue
        if canon(s[a:b]) != canon(n.__str__()):
            why.append("%s %s: s[pos:pos+size]=%r but str(node)=%r" % (list(path), type(n).__name__, s[a:b], str(n)))
        if canon(s[a2:b2]) != canon(n.__str__(head_tail=True)):
            why.append("%s %s: widened slice %r but str(node, head_tail)=%r"
                       % (list(path), type(n).__name__, s[a2:b2], n.__str__(head_tail=True)))
        prev = a
        for i, c in enumerate(n.children):
            if c.pos is None or c.size is None:
                continue
            ca, cb = c.span(head_tail=True)
            if not (prev <= ca <= cb <= b):
                why.append("%s %s: child %d widened span %r not inside %r after %d"
                           % (list(path), type(n).__name__, i, (ca, cb), (a, b), prev))
            prev = cb
    if t.span(head_tail=True) != (0, len(s)):
        why.append("root widened span %r is not (0, %d)" % (t.span(head_tail=True), len(s)))
    return why


def ghost_oracle(s, t):
    """C02f (no guard): the GHOST tree - the blank run F1 drops put back at the end of each field name, read off
    pos / size - satisfies the property on every accepted input; returns a list of reasons (empty = holds)"""
    import copy
    from luqum.tree import SearchField
    g = copy.deepcopy(t)
    why = []
    for path, n in nodes(g):
        if isinstance(n, SearchField) and n.pos is not None and n.size is not None and n.expr.size is not None:
            e = n.expr
            k = n.size - 1 - (len(e.head) + e.size + len(e.tail))
            name2 = s[n.pos:n.pos + k]
            if not (k >= len(n.name) and name2.startswith(n.name) and all(c.isspace() for c in name2[len(n.name):])):
                why.append("%s: source text before the colon %r is not the name %r followed by blanks"
                           % (list(path), name2, n.name))
            n.name = name2
    return why + oracle(s, g, c01.canon)


def latent_replay():
    """replay p_expression_or on  a | OR+blank | OrOperation(b, c)  (what a right-associative table would
    do on 'a OR b OR c'): returns the implementation's result as a Gallina item"""
    import luqum.tree as T
    from luqum.head_tail import head_tail, TokenValue

    def w(v, pos, head="", tail=""):
        x = T.Word(v, pos=pos, size=1, head=head, tail=tail)
        return x
    a = w("a", 0, tail=" ")
    b = T.OrOperation(w("b", 5, tail=" "), w("c", 10, head=" "), pos=5, size=6)
    op = TokenValue("OR")
    op.pos, op.size, op.tail = 2, 2, " "
    p = [None, a, op, b]
    p[0] = T.create_operation(T.OrOperation, p[1], p[3], op_tail=p[2].tail)
    head_tail.binary_operation(p, op_tail=p[2].tail)
    return p[0]


def correspond(model_ok, res):
    from luqum.parser import parser
    r = lib.rng("C02")
    quick = lib.tier() == "quick"
    strings = c01.gen_strings(r, quick)
    results = [PG.impl_parse(s, parser.parse) for s in strings]
    kinds = {}
    seen = set()
    span_cases, span_inputs = [], []
    n_nodes = 0
    n_f1 = 0
    classes = {}
    for s, (k, v) in zip(strings, results):
        kinds[k] = kinds.get(k, 0) + 1
        if k == "other":
            res.failures.append(({"input": s, "why": "exception that is not a ParseError: " + v}, None))
        if k != "ok" or v is None:
            continue
        f1 = c01.f1_pattern(s)
        why = oracle(s, v, c01.canon)
        exact = oracle(s, v, lambda x: x)
        if why:
            res.failures.append(({"input": s, "why": why[:5]}, "F1" if f1 else None))
        elif exact and not c01.NUM.search(s):
            res.failures.append(({"input": s, "why": ["text differs outside numerals"] + exact[:3]}, None))
        gwhy = ghost_oracle(s, v)          # C02f: holds on EVERY accepted input, F1 included
        if gwhy:
            res.failures.append(({"input": s, "why": ["C02f: the ghost tree (blanks put back after field names) "
                                                       "is not located"] + gwhy[:5]}, None))
        n_f1 += 1 if f1 else 0
        cnt = 0
        for _, n in nodes(v):
            cnt += 1
            classes[type(n).__name__] = classes.get(type(n).__name__, 0) + 1
        n_nodes += cnt
        if len(s) > 3 and cnt >= 2:
            seen.add(s)
        printed_exact = v.__str__(head_tail=True) == s
        span_cases.append("(%s, %s, %s)" % (lib.g_str(s), lib.g_bool(printed_exact), lib.g_bool(not exact)))
        span_inputs.append(s)
    res.cases = len(strings)
    res.nontrivial = len(seen)
    res.rule = ("inputs of C01 (grammar-directed queries over every production with random Unicode-whitespace "
                "layout, blank-separated variants, all token-type sequences up to length 2 (3 thorough), a "
                "malformed corpus); every node of every accepted tree is checked; non-trivial = distinct "
                "accepted input longer than 3 chars whose tree has at least 2 nodes")
    res.samples = [s for s in strings[len(PG.MALFORMED):len(PG.MALFORMED) + 6]]
    res.distribution = {"outcomes": kinds, "max_len": max(map(len, strings)), "nodes_checked": n_nodes,
                        "node_classes": classes, "accepted_with_blank_before_colon(F1)": n_f1}
    res.notes.append("C02f: on every accepted input (%d of them F1 inputs) the ghost tree - field names followed by "
                     "the blank run up to the colon, read off pos/size - satisfies the whole property on the "
                     "implementation's tree (every node, both slices up to numerals, tiling, root span)" % n_f1)
    if not model_ok:
        res.model_error = "model did not build"
        return
    try:
        for i in PG.run_parse_cases("C02", strings, results):
            res.disagreements.append({"input": strings[i], "implementation": results[i][0],
                                      "detail": str(results[i][1])[:300]})
        # the layout predicate on the MODEL's tree:  no ghost event -> spans_okb ;
        # spans_okb and print = input -> the implementation's tree satisfies the exact property
        defs = ("Definition chk (c : str * bool * bool) : bool :=\n"
                "  let '(s, printed_exact, py_exact) := c in\n"
                "  match parse s with\n"
                "  | Some (Ok t) =>\n"
                "      let ok := spans_okb 0 t in\n"
                "      implb (match parse_events s with [] => true | _ => false end) ok &&\n"
                "      implb (ok && printed_exact) py_exact &&\n"
                "      negb (parse_rflat gen_tables s)\n"
                "  | _ => false\n"
                "  end.")
        canary = "([97;32;98]%N, true, false)"     # "a b": spans are right, so claiming py_exact = false must fail
        bad = lib.eval_cases("C02sp", PG.PARSE_IMPORTS + " Spans", defs, span_cases + [canary], "chk", shard=150)
        assert len(span_cases) in bad, "canary not detected"
        for i in bad:
            if i < len(span_cases):
                res.disagreements.append({"input": span_inputs[i], "what": "spans_okb on the model's tree vs "
                                          "ghost events / implementation oracle"})
        # the latent defect of binary_operation (Coq: C02_latent_defect) is the implementation's behaviour
        lat = latent_replay()
        if not (lat.size == 10 and len(str(lat)) == 11):
            res.notes.append("latent right-flatten size defect no longer shows on the implementation: size=%r len=%d"
                             % (lat.size, len(str(lat))))
        defs2 = ("Definition w (p : Z) (c : N) (h t : str) := Term KWord (mkMeta (Some p) (Some 1%Z) h t None) [c].\n"
                 "Definition largs : list symval :=\n"
                 "  [VItem (w 0%Z 97%N [] [32%N]);\n"
                 "   VTok s_OR (Some s_OR) (mkMeta (Some 2%Z) (Some 2%Z) [] [32%N] None);\n"
                 "   VItem (Op KOr (mkMeta (Some 5%Z) (Some 6%Z) [] [] None) [w 5%Z 98%N [] [32%N]; w 10%Z 99%N [32%N] []])].\n"
                 "Definition chk2 (e : item) : bool :=\n"
                 "  match run_action A_expression_or largs with Ok (VItem i, _) => item_beq i e | _ => false end.")
        bad2 = lib.eval_cases("C02lat", PG.PARSE_IMPORTS + " Spans", defs2,
                              [lib.g_item(lat), "(NoneItem meta0)"], "chk2", shard=10)
        assert 1 in bad2, "canary not detected"
        if 0 in bad2:
            res.disagreements.append({"what": "replay of p_expression_or with a right operand of the same class",
                                      "implementation": repr(lat), "size": lat.size})
        res.cases += 1
    except Exception as e:
        res.model_error = "%s: %s" % (type(e).__name__, e)


SPEC = {
    "id": "C02",
    "targets": ["props/C02.vo"],
    "model_targets": ["model/Spans.vo", "model/TreeEq.vo"],
    "module": "C02",
    "theorems": ["C02_any_tables", "C02_guard_holds_for_generated_tables", "C02_partial", "C02_tiled_pairwise",
                 "C02_refuted"],
    "more": [{"module": "C02r", "target": "props/C02r.vo",
              "theorems": ["C02_respelled_any_tables", "C02_respelled_partial", "C02_located_r_non_numchars",
                           "C02_respelled_unguarded_refuted"]},
             # the token-level slice clause (proofs/SpanTokenProofs.v: lexer locality + a node predicate kept by
             # every semantic action)
             {"module": "C02t", "target": "props/C02t.vo",
              "theorems": ["C02_token_any_tables", "C02_token_partial", "C02_guarded", "C02_token_exact",
                           "C02t_lexer_locality", "C02t_context_free_lexing_refuted", "C02t_any_slice_refuted",
                           "C02t_nonvacuous"]},
             # no guard: the property holds of the ghost tree (proofs/SpanDropProofs.v)
             {"module": "C02f", "target": "props/C02f.vo",
              "theorems": ["C02f", "C02f_ghost", "C02f_no_field", "C02f_same_spans", "C02f_action"]}],
    "correspond": correspond,
    "statement": "C02f (NO guard): for EVERY accepted input and every node at every path, both spans lie inside the "
                 "input, the children's widened spans tile the node's span, the root's widened span is the whole input, "
                 "and the two slices are the printed forms (up to numeral re-spelling) of the node's GHOST: the same "
                 "node with the blank runs that search_field drops put back at the end of the field names (same classes, "
                 "pos, size, head, tail everywhere) - F1 changes the printed text of a SearchField and of what is above "
                 "it, never a position; a node with no SearchField at or below it is located as the guarded theorems say "
                 "(C02f_no_field). "
                 "Guarded forms: if parsing s returns a tree and no semantic action dropped text or re-spelled a token (ghost events "
                 "of the model), then for every node s[pos:pos+size] = str(node), the slice widened by head/tail = "
                 "str(node, head_tail=True), the children's widened spans lie inside the node's span in order "
                 "without overlapping, and the root's widened span is (0, len(s)); for ANY LR tables under the extra "
                 "guard that no OR/AND reduction has a right operand of the same class (a latent size defect of "
                 "binary_operation, proved unreachable with PLY's tables); the full statement (with numeral "
                 "re-spelling) is refuted by 'foo :bar' (F1). C02r: under the single guard 'no text was dropped' "
                 "(dropped_texts s = [], i.e. not F1; numerals may be re-spelled) every node's two slices equal its "
                 "printed forms up to numeral re-spelling at STRING level (resp), with exact spans, tiling and root "
                 "span. C02t (C02_token_partial): under the same single guard the TOKEN-level clause holds for every "
                 "node at every path: s[pos:pos+size] is exactly the text of a contiguous non-empty run of the input's "
                 "tokens between blanks, the widened slice adds the node's blank head and tail, each slice lexed in "
                 "isolation yields the (type, lexeme) sequence of that run, and str(node) / str(node, head_tail=True) "
                 "are the slices' tokens rendered with only APPROX/BOOST numerals re-spelled as numerically equal "
                 "plain decimals (C01.respelled) - i.e. C02.C02_statement itself under the guard (C02_guarded); for "
                 "ANY tables (C02_token_any_tables); with no ghost event the slices are the printed forms and these "
                 "lex to the node's tokens (C02_token_exact). Lexer locality (C02t_lexer_locality) needs no side "
                 "condition at token boundaries although TIME_RE's look-behind reads the consumed prefix; below token "
                 "level it fails ('12:30' inside 'T12:30': C02t_context_free_lexing_refuted, C02t_any_slice_refuted)",
    "level_text": "Coq proof: a recursive layout predicate (pos = offset, size = printed length, children where the "
                  "printed form puts them) is kept by every semantic action (HeadTailManager.pos arithmetic with "
                  "head/tail transfers, create_operation flattening) and by the LR driver for any tables, starting "
                  "from lexer positions proved to be offsets; it implies the slice/tiling clauses for every node. "
                  "C02r redoes the invariant on the ORIGINAL text of each node (sizes count the numeral lexemes as "
                  "written), so re-spelled numerals are covered by proof at string level. C02t adds the token level: a "
                  "lexer-locality theorem (a run of the input's tokens re-read in isolation between blanks lexes to "
                  "the same tokens; a token start never exposes TIME_RE's look-behind window) and a node predicate "
                  "(pos/size designate the text of a token run, the printed inner text is that run with numerals "
                  "re-spelled, heads/tails are blank) kept for every node by every semantic action and by the driver "
                  "for any tables. C02f removes the guard: a table-free congruence theorem (every semantic action maps "
                  "arguments related by 'field names extended by blanks' to related results with the same events) and a "
                  "stack invariant in which every value carries its ghost, located by running the C02r action lemma on "
                  "the ghosts (search_field: on the name token that keeps its tail in its lexeme). F1 inputs still "
                  "violate the property's own text (the SearchField does not print its slice): KNOWN-FINDING, now with "
                  "the exact deviation proved. Table facts (left associativity of OR/AND) are "
                  "checked by computation on the generated tables on every run.",
    "trusted_base": [
        "Coq 8.16.1 kernel (vm_compute for witnesses, table facts and correspondence; no native_compute); no axioms",
        "gen/gen_parser.py: live PLY action/goto/productions, token rule order and regex sources, \\s \\d classes",
        "hand-written models: Lexer.v, LR.v, Actions.v (HeadTailManager.pos, binary_operation, create_operation), "
        "Spans.v (Item.span), Print.v, Decimal.v — tied by differential correspondence on every run (full trees "
        "including pos/size/head/tail are compared)",
    ],
    "assumptions": ["no defaulted LR states (generated fact)", "inputs are str; debug/tracking/tokenfunc unused",
                    "slice s a b models s[a:b] only for 0 <= a <= b <= len(s) (the statements carry the bounds)"],
}
