(* C07 — the ES builder refuses ambiguous AND/OR mixes and container-field misuse, only those.
   Statements, theorems, witnesses, non-vacuity examples, Print Assumptions only.
   Model: model/{EsSpecs,EsCheck,EsBuild}.v; vocabulary (supported, mix, container_misuse — written
   without the builder): model/EsSpec.v; lemmas: proofs/EsProofs.v.  Handlers and MROs are the
   generated ones (gen/GenVisitors.v, gen/GenTree.v): the theorems are re-checked against them.

   Clauses of the property text:
   (a) "raises NestedSearchFieldException / ObjectSearchFieldException exactly when a term is
       attached directly to a declared nested or object container, or to an undeclared dotted
       field while object and sub fields are both declared"            -> C07_container
   (b) "raises OrAndAndOnSameLevel exactly for trees in which an AND-like operation has an
       un-parenthesised OR-like operation as a direct operand or vice versa (implicit operations
       counting as the configured default)"                            -> C07_mix
       (the nesting checker runs to completion first: a tree with both defects gets (a))
   (c) "on supported constructs no other exception escapes, and every query that is not refused is
       translated"                                                     -> C07_translated
   The unchanged code violates all three: F8 (a nested / object container none of whose children
   is a leaf is not recognised) breaks (a) and (b); F7 (a range bound under `-` makes visit_range
   read `.value` of a Prohibit: AttributeError) breaks (b) and (c). *)
Require Import Base Decimal Tree GenTree GenVisitors Visitor Json EsSpecs EsCheck EsBuild EsSpec
               TreeInd EsProofs.

(* ---- tie obligations on generated data *)
Lemma chk_methods_known_ok : chk_methods_known = true.
Proof. vm_compute. reflexivity. Qed.
Lemma builder_methods_known_ok : builder_methods_known = true.
Proof. vm_compute. reflexivity. Qed.

(* ---- statements (full strength) *)
Definition C07_container_statement : Prop :=
  forall cfg t, supported t = true -> wf_config cfg = true ->
    (is_nested_exc (build cfg t) <-> container_misuse cfg t).

Definition C07_mix_statement : Prop :=
  forall cfg t, supported t = true -> wf_config cfg = true ->
    (is_mix_exc (build cfg t) <-> ~ container_misuse cfg t /\ mix cfg t).

Definition C07_translated_statement : Prop :=
  forall cfg t, supported t = true -> wf_config cfg = true ->
    ~ container_misuse cfg t -> ~ mix cfg t -> exists j, build cfg t = ROk j.

(* ---- partial statements: the guards remove exactly the two findings
   containers_have_leaf cfg : every ancestor of a declared nested / object path is the parent of a
                              declared path (not F8)
   range_bounds_plain t     : every range has a word or a phrase on both sides (not F7) *)
Definition C07_container_partial_statement : Prop :=
  forall cfg t, supported t = true -> wf_config cfg = true ->
    containers_have_leaf cfg = true -> range_bounds_plain t = true ->
    (is_nested_exc (build cfg t) <-> container_misuse cfg t).

Definition C07_mix_partial_statement : Prop :=
  forall cfg t, supported t = true -> wf_config cfg = true ->
    containers_have_leaf cfg = true -> range_bounds_plain t = true ->
    (is_mix_exc (build cfg t) <-> ~ container_misuse cfg t /\ mix cfg t).

Definition C07_translated_partial_statement : Prop :=
  forall cfg t, supported t = true -> wf_config cfg = true ->
    range_bounds_plain t = true ->
    ~ container_misuse cfg t -> ~ mix cfg t -> exists j, build cfg t = ROk j.

(* whatever the configuration declares, a refusal by the nesting checker is a real misuse (this
   direction needs no guard on the configuration) *)
Definition C07_container_sound_statement : Prop :=
  forall cfg t, supported t = true -> wf_config cfg = true -> range_bounds_plain t = true ->
    is_nested_exc (build cfg t) -> container_misuse cfg t.

(* ---- proofs *)
Lemma build_cases cfg t :
  supported t = true -> wf_config cfg = true -> range_bounds_plain t = true ->
  (exists e, (e = XNested \/ e = XObject) /\ build cfg t = RExc e /\
             misuse_with cfg (parent_containers cfg) t) \/
  (~ misuse_with cfg (parent_containers cfg) t /\
   ((mix cfg t /\ build cfg t = RExc XMix) \/ (~ mix cfg t /\ exists j, build cfg t = ROk j))).
Proof.
  intros Hs Hwf Hr. pose proof (build_spec cfg t Hs Hr Hwf) as Hb.
  destruct (check_nested_spec cfg t) as [Hnone Hsome].
  destruct (check_nested (ev_chk (mk_env cfg)) t) as [e|].
  - left. destruct (Hsome e eq_refl) as [Hk Hm]. exists e. auto.
  - right. split; [apply Hnone; reflexivity|].
    destruct (mixb cfg t) eqn:Hm.
    + left. split; [apply mixb_mix; exact Hm|exact Hb].
    + right. split; [|exact Hb]. intros H. apply mixb_mix in H. congruence.
Qed.

Theorem C07_container_sound : C07_container_sound_statement.
Proof.
  intros cfg t Hs Hwf Hr Hn.
  destruct (build_cases cfg t Hs Hwf Hr) as [[e [He [Hb Hm]]]|[_ [[_ Hb]|[_ [j Hb]]]]].
  - apply misuse_mono. exact Hm.
  - destruct Hn as [Hn|Hn]; rewrite Hb in Hn; discriminate.
  - destruct Hn as [Hn|Hn]; rewrite Hb in Hn; discriminate.
Qed.

Theorem C07_container_partial : C07_container_partial_statement.
Proof.
  intros cfg t Hs Hwf Hc Hr. split; [apply C07_container_sound; assumption|].
  intros Hm. apply (misuse_closed cfg t Hc) in Hm.
  destruct (build_cases cfg t Hs Hwf Hr) as [[e [He [Hb _]]]|[Hno _]]; [|contradiction].
  unfold is_nested_exc. rewrite Hb. destruct He; subst; auto.
Qed.

Theorem C07_mix_partial : C07_mix_partial_statement.
Proof.
  intros cfg t Hs Hwf Hc Hr. unfold is_mix_exc.
  destruct (build_cases cfg t Hs Hwf Hr) as [[e [He [Hb Hm]]]|[Hno [[Hmix Hb]|[Hmix [j Hb]]]]];
    rewrite Hb.
  - split.
    + intros H. destruct He; subst; discriminate.
    + intros [H _]. exfalso. apply H. apply misuse_mono. exact Hm.
  - split; [|reflexivity]. intros _. split; [|exact Hmix].
    intros H. apply Hno. apply (misuse_closed cfg t Hc). exact H.
  - split; [discriminate|]. intros [_ H]. contradiction.
Qed.

Theorem C07_translated_partial : C07_translated_partial_statement.
Proof.
  intros cfg t Hs Hwf Hr Hnm Hnx.
  destruct (build_cases cfg t Hs Hwf Hr) as [[e [He [Hb Hm]]]|[Hno [[Hmix Hb]|[Hmix Hb]]]].
  - exfalso. apply Hnm. apply misuse_mono. exact Hm.
  - contradiction.
  - exact Hb.
Qed.

(* ---- refutations of the full statements on the unchanged code *)
Definition w (s : str) : item := Term KWord meta0 s.

(* F8: nested_fields = {'a': {'b': {'c': {}}}}, query  a:y  *)
Definition cfg_F8 : es_config :=
  mkEsConfig DShould [116;101;120;116]%N []
             (SDict [([97]%N, SDict [([98]%N, SDict [([99]%N, SDict [])])])]) SNone SNone [] false.
Definition t_F8 : item := SearchField meta0 [97]%N (w [121]%N).

Lemma F8_misuse : container_misuse cfg_F8 t_F8.
Proof. exists [0], KWord, meta0, [121]%N. split; vm_compute; reflexivity. Qed.

Lemma F8_translated :
  build cfg_F8 t_F8 =
  ROk (JObj [(k_match, JObj [([97]%N, JObj [(k_query, JStr [121]%N);
                                           (k_zero_terms_query, JStr k_none)])])]).
Proof. vm_compute. reflexivity. Qed.

Theorem C07_container_refuted : ~ C07_container_statement.
Proof.
  intros H. destruct (H cfg_F8 t_F8 eq_refl eq_refl) as [_ H2].
  destruct (H2 F8_misuse) as [Hn|Hn]; rewrite F8_translated in Hn; discriminate.
Qed.

(* F7: query  [-1 TO 5] AND (b OR c)  written without the parentheses: the range comes first *)
Definition t_F7 : item :=
  Range meta0 (Unary KProhibit meta0 (w [49]%N)) (w [53]%N) true true.
Definition t_F7_mix : item :=
  Op KAnd meta0 [t_F7; Op KOr meta0 [w [98]%N; w [99]%N]].

Lemma default_no_misuse t :
  check_nested (ev_chk (mk_env default_config)) t = None -> ~ container_misuse default_config t.
Proof.
  intros Hc Hm. apply (misuse_closed default_config t eq_refl) in Hm.
  apply (proj1 (check_nested_spec default_config t)) in Hc. contradiction.
Qed.

Theorem C07_mix_refuted : ~ C07_mix_statement.
Proof.
  intros H. destruct (H default_config t_F7_mix eq_refl eq_refl) as [_ H2].
  assert (Hmix : mix default_config t_F7_mix) by (apply mixb_mix; vm_compute; reflexivity).
  assert (Hno : ~ container_misuse default_config t_F7_mix)
    by (apply default_no_misuse; vm_compute; reflexivity).
  specialize (H2 (conj Hno Hmix)). vm_compute in H2. discriminate.
Qed.

(* F7: query  a:[-1 TO 5]  *)
Theorem C07_translated_refuted : ~ C07_translated_statement.
Proof.
  intros H.
  assert (Hno : ~ container_misuse default_config (SearchField meta0 [97]%N t_F7))
    by (apply default_no_misuse; vm_compute; reflexivity).
  assert (Hnx : ~ mix default_config (SearchField meta0 [97]%N t_F7)).
  { intros Hm. apply mixb_mix in Hm. vm_compute in Hm. discriminate. }
  destruct (H default_config (SearchField meta0 [97]%N t_F7) eq_refl eq_refl Hno Hnx) as [j Hj].
  vm_compute in Hj. discriminate.
Qed.

Example F7_outcome :
  build default_config (SearchField meta0 [97]%N t_F7) = RExc (XOther KAttributeError).
Proof. vm_compute. reflexivity. Qed.

(* ---- non-vacuity: a configuration and trees satisfying every guard, with the three outcomes *)
(* nested_fields = {'a': ['b'], 'n': {'o': {'h': None}, 's': None}}, object_fields = ['x.y'],
   sub_fields = ['x.y.raw'], default operator must *)
Definition cfg_ex : es_config :=
  mkEsConfig DMust [116;101;120;116]%N []
    (SDict [([97]%N, SList [[98]%N]);
            ([110]%N, SDict [([111]%N, SDict [([104]%N, SNone)]); ([115]%N, SNone)])])
    (SList [[120;46;121]%N]) (SList [[120;46;121;46;114;97;119]%N]) [] false.
Definition fld (n : str) (e : item) : item := SearchField meta0 n e.

(* a.b:x (n.o.h:[1 TO 5] OR "p q"~2) -z   : translated, with nested clauses *)
Definition t_ok : item :=
  Op KUnknown meta0
     [fld [97;46;98]%N (w [120]%N);
      Grp KGroup meta0
          (Op KOr meta0 [fld [110;46;111;46;104]%N (Range meta0 (w [49]%N) (w [53]%N) true true);
                         Proximity meta0 (Term KPhrase meta0 [34;112;32;113;34]%N) 2 false]);
      Unary KProhibit meta0 (w [122]%N)].
(* same with the group's parentheses removed: an OR directly under the implicit AND *)
Definition t_mix : item :=
  Op KUnknown meta0
     [fld [97;46;98]%N (w [120]%N);
      Op KOr meta0 [fld [110;46;111;46;104]%N (Range meta0 (w [49]%N) (w [53]%N) true true);
                    Proximity meta0 (Term KPhrase meta0 [34;112;32;113;34]%N) 2 false]].
(* n:(o:x)  : a term on the nested container n.o;  x.z:1 : undeclared dotted field *)
Definition t_nested : item := fld [110]%N (Grp KFieldGroup meta0 (fld [111]%N (w [120]%N))).
Definition t_object : item := fld [120;46;122]%N (w [49]%N).

Example C07_guards_nonvacuous :
  wf_config cfg_ex = true /\ containers_have_leaf cfg_ex = true /\
  supported t_ok = true /\ range_bounds_plain t_ok = true /\
  supported t_mix = true /\ range_bounds_plain t_mix = true /\
  supported t_nested = true /\ supported t_object = true.
Proof. vm_compute. repeat split. Qed.

Example C07_outcomes :
  (exists j, build cfg_ex t_ok = ROk j) /\
  build cfg_ex t_mix = RExc XMix /\
  build cfg_ex t_nested = RExc XNested /\
  build cfg_ex t_object = RExc XObject.
Proof. vm_compute. repeat split. eexists. reflexivity. Qed.

Example C07_predicates_nonvacuous :
  mix cfg_ex t_mix /\ ~ mix cfg_ex t_ok /\ container_misuse cfg_ex t_nested /\
  container_misuse cfg_ex t_object /\ ~ container_misuse cfg_ex t_ok.
Proof.
  split; [apply mixb_mix; vm_compute; reflexivity|].
  split; [intros H; apply mixb_mix in H; vm_compute in H; discriminate|].
  split; [exists [0; 0; 0], KWord, meta0, [120]%N; split; vm_compute; reflexivity|].
  split; [exists [0], KWord, meta0, [49]%N; split; vm_compute; reflexivity|].
  intros H. apply (misuse_closed cfg_ex t_ok eq_refl) in H.
  apply (proj1 (check_nested_spec cfg_ex t_ok)) in H; [exact H|vm_compute; reflexivity].
Qed.

Print Assumptions C07_container_partial.
Print Assumptions C07_container_sound.
Print Assumptions C07_mix_partial.
Print Assumptions C07_translated_partial.
Print Assumptions C07_container_refuted.
Print Assumptions C07_mix_refuted.
Print Assumptions C07_translated_refuted.
