(* TraverseProofs.v — lemmas about visitor traversal, the dispatch cache and the default
   transformer (model: Traverse.v). *)
Require Import Base Decimal Tree GenTree GenVisitors Visitor Eq Print TreeInd Traverse.
From Coq Require Import Lia Sorted.

(* ---------------------------------------------------------------- classes *)

Lemma cls_eqb_eq : forall a b, cls_eqb a b = true <-> a = b.
Proof. intros a b. destruct a, b; simpl; split; intro H; try reflexivity; discriminate. Qed.

Lemma cls_eqb_refl : forall a, cls_eqb a a = true.
Proof. intros a. apply cls_eqb_eq. reflexivity. Qed.

Lemma mem_cls_In : forall k l, mem_cls k l = true <-> In k l.
Proof.
  induction l as [|x l IH]; simpl; [split; [discriminate|tauto]|].
  rewrite orb_true_iff, IH, cls_eqb_eq. split; intros [H|H]; auto.
Qed.

Lemma isinstance_In c k : isinstance c k = true <-> In k (gen_mro c).
Proof. apply mem_cls_In. Qed.

(* ---------------------------------------------------------------- dispatch = first of the MRO in H *)

Definition first_in (H : list cls) (l : list cls) (k : cls) : Prop :=
  exists l1 l2, l = l1 ++ k :: l2 /\ In k H /\ forall x, In x l1 -> ~ In x H.

Lemma find_first H : forall l k,
  find (fun x => mem_cls x H) l = Some k <-> first_in H l k.
Proof.
  induction l as [|x l IH]; intros k; simpl.
  - split; [discriminate|]. intros [l1 [l2 [E _]]]. destruct l1; discriminate.
  - destruct (mem_cls x H) eqn:Hx.
    + apply mem_cls_In in Hx. split.
      * intros E; inversion E; subst. exists [], l. repeat split; auto.
      * intros [l1 [l2 [E [Hk Hn]]]]. destruct l1 as [|y l1]; simpl in E; inversion E; subst; [reflexivity|].
        exfalso. apply (Hn y); [left; reflexivity|exact Hx].
    + rewrite IH. split.
      * intros [l1 [l2 [E [Hk Hn]]]]. exists (x :: l1), l2. subst. repeat split; auto.
        intros y [Hy|Hy]; [subst y|auto]. intros Hin. apply mem_cls_In in Hin. congruence.
      * intros [l1 [l2 [E [Hk Hn]]]]. destruct l1 as [|y l1]; simpl in E; inversion E; subst.
        -- apply mem_cls_In in Hk. congruence.
        -- exists l1, l2. repeat split; auto. intros z Hz. apply Hn. right. exact Hz.
Qed.

Lemma find_none H : forall l,
  find (fun x => mem_cls x H) l = None <-> forall x, In x l -> ~ In x H.
Proof.
  induction l as [|x l IH]; simpl.
  - split; [intros _ x []|reflexivity].
  - destruct (mem_cls x H) eqn:Hx.
    + apply mem_cls_In in Hx. split; [discriminate|]. intros Hn. exfalso. apply (Hn x); auto.
    + rewrite IH. split.
      * intros Hn y [Hy|Hy]; [subst y|auto]. intros Hin. apply mem_cls_In in Hin. congruence.
      * intros Hn y Hy. apply Hn. auto.
Qed.

Lemma dispatch_first H c k : dispatch H c = Some k <-> first_in H (gen_mro c) k.
Proof. apply find_first. Qed.

Lemma dispatch_none H c : dispatch H c = None <-> forall x, In x (gen_mro c) -> ~ In x H.
Proof. apply find_none. Qed.

(* ---- table fact: every suffix of an MRO is the MRO of its first class (single inheritance
   linearisation): a class is listed before all its bases, and the MRO is a chain *)
Fixpoint suffix_okb (l : list cls) : bool :=
  match l with
  | [] => true
  | k :: l' => list_eqb cls_eqb (gen_mro k) (k :: l') && suffix_okb l'
  end.

Lemma mro_suffix_table : forall c, suffix_okb (gen_mro c) = true.
Proof. destruct c; vm_compute; reflexivity. Qed.

Lemma suffix_okb_spec : forall l, suffix_okb l = true ->
  forall l1 k l2, l = l1 ++ k :: l2 -> gen_mro k = k :: l2.
Proof.
  induction l as [|x l IH]; intros Hs l1 k l2 E.
  - destruct l1; discriminate.
  - simpl in Hs. apply andb_prop in Hs as [H1 H2].
    destruct l1 as [|y l1]; simpl in E; inversion E; subst.
    + apply (list_eqb_eq cls_eqb cls_eqb_eq) in H1. exact H1.
    + eapply IH; eauto.
Qed.

Lemma mro_suffix c l1 k l2 : gen_mro c = l1 ++ k :: l2 -> gen_mro k = k :: l2.
Proof. apply suffix_okb_spec. apply mro_suffix_table. Qed.

(* a class is listed before its bases: a proper base of a listed class comes later in the list *)
Lemma mro_bases_after c l1 k l2 k' :
  gen_mro c = l1 ++ k :: l2 -> isinstance k k' = true -> k' = k \/ In k' l2.
Proof.
  intros E Hi. apply isinstance_In in Hi. rewrite (mro_suffix _ _ _ _ E) in Hi.
  destruct Hi as [Hi|Hi]; auto.
Qed.

Lemma isinstance_refl k : isinstance k k = true.
Proof. destruct k; reflexivity. Qed.

Lemma isinstance_antisym : forall a b, isinstance a b = true -> isinstance b a = true -> a = b.
Proof. intros a b. destruct a, b; vm_compute; intros H1 H2; try reflexivity; discriminate. Qed.

(* "most specific", stated without reference to the order of the MRO list: k has a handler, the
   node is an instance of k, and k is a subclass of every other class that has a handler and of
   which the node is an instance *)
Definition is_most_specific (H : list cls) (c k : cls) : Prop :=
  In k H /\ isinstance c k = true /\
  forall k', In k' H -> isinstance c k' = true -> isinstance k k' = true.

Lemma dispatch_most_specific H c k : dispatch H c = Some k -> is_most_specific H c k.
Proof.
  intros Hd. apply dispatch_first in Hd. destruct Hd as [l1 [l2 [E [Hk Hn]]]].
  split; [exact Hk|]. split.
  - apply isinstance_In. rewrite E. apply in_or_app. right. left. reflexivity.
  - intros k' Hk' Hi. apply isinstance_In in Hi. rewrite E in Hi. apply in_app_or in Hi.
    destruct Hi as [Hi|Hi]; [exfalso; apply (Hn k' Hi Hk')|].
    apply isinstance_In. rewrite (mro_suffix _ _ _ _ E). exact Hi.
Qed.

Lemma most_specific_unique H c k k' : is_most_specific H c k -> is_most_specific H c k' -> k = k'.
Proof.
  intros [H1 [H2 H3]] [H1' [H2' H3']]. apply isinstance_antisym; auto.
Qed.

Lemma dispatch_iff_most_specific H c k : dispatch H c = Some k <-> is_most_specific H c k.
Proof.
  split; [apply dispatch_most_specific|]. intros Hm.
  destruct (dispatch H c) as [k0|] eqn:Hd.
  - f_equal. eapply most_specific_unique; [apply dispatch_most_specific; exact Hd|exact Hm].
  - exfalso. destruct Hm as [H1 [H2 _]]. apply isinstance_In in H2.
    apply (proj1 (dispatch_none H c) Hd k H2 H1).
Qed.

Lemma dispatch_none_iff H c : dispatch H c = None <-> forall k, In k H -> isinstance c k = false.
Proof.
  rewrite dispatch_none. split.
  - intros Hn k Hk. destruct (isinstance c k) eqn:Hi; [|reflexivity].
    exfalso. apply isinstance_In in Hi. apply (Hn k Hi Hk).
  - intros Hn x Hx Hin. apply isinstance_In in Hx. rewrite (Hn x Hin) in Hx. discriminate.
Qed.

Lemma cls_of_concrete t : In (cls_of t) concrete_classes.
Proof. destruct t as [[]| |[]| | | | |[]|[]|[]|]; simpl; tauto. Qed.

(* every node is an Item: a visit_item handler catches everything *)
Lemma concrete_isinstance_item : forall c, In c concrete_classes -> isinstance c CItem = true.
Proof. intros c Hc. simpl in Hc. repeat (destruct Hc as [Hc|Hc]; [subst c; reflexivity|]). destruct Hc. Qed.

(* ---------------------------------------------------------------- paths *)

Definition pp_children (f : path -> item -> list path) (pre : path) :=
  fix go (i : nat) (l : list item) : list path :=
    match l with
    | [] => []
    | c :: l' => f (pre ++ [i]) c ++ go (S i) l'
    end.

Lemma preorder_paths_unfold pre t :
  preorder_paths pre t = pre :: pp_children preorder_paths pre 0 (children t).
Proof. destruct t; simpl; rewrite ?app_nil_r; reflexivity. Qed.

Lemma subtree_at_app : forall p t q,
  subtree_at t (p ++ q) = match subtree_at t p with Some n => subtree_at n q | None => None end.
Proof.
  induction p as [|i p IH]; intros t q; simpl; [reflexivity|].
  destruct (nth_error (children t) i); [apply IH|reflexivity].
Qed.

Lemma subtree_at_snoc t p i n :
  subtree_at t p = Some n -> subtree_at t (p ++ [i]) = nth_error (children n) i.
Proof.
  intros H. rewrite subtree_at_app, H. simpl. destruct (nth_error (children n) i); reflexivity.
Qed.

(* every listed path extends the prefix *)
Lemma preorder_paths_prefix : forall t pre p, In p (preorder_paths pre t) -> exists q, p = pre ++ q.
Proof.
  apply (item_children_ind (fun t => forall pre p, In p (preorder_paths pre t) -> exists q, p = pre ++ q)).
  intros t IH pre p. rewrite preorder_paths_unfold. intros [Hp|Hp].
  - exists []. rewrite app_nil_r. auto.
  - revert Hp. generalize 0. induction IH as [|c l Hc _ IHl]; intros i Hp; simpl in Hp; [destruct Hp|].
    apply in_app_or in Hp. destruct Hp as [Hp|Hp].
    + destruct (Hc _ _ Hp) as [q Hq]. exists (i :: q). rewrite Hq, <- app_assoc. reflexivity.
    + eapply IHl; eauto.
Qed.

Lemma pp_children_in pre : forall l i p,
  In p (pp_children preorder_paths pre i l) ->
  exists j c q, nth_error l j = Some c /\ p = pre ++ (i + j) :: q /\ In p (preorder_paths (pre ++ [i + j]) c).
Proof.
  induction l as [|c l IH]; intros i p Hp; simpl in Hp; [destruct Hp|].
  apply in_app_or in Hp. destruct Hp as [Hp|Hp].
  - destruct (preorder_paths_prefix _ _ _ Hp) as [q Hq]. exists 0, c, q. rewrite Nat.add_0_r.
    split; [reflexivity|]. split; [rewrite Hq, <- app_assoc; reflexivity|exact Hp].
  - destruct (IH _ _ Hp) as [j [c' [q [H1 [H2 H3]]]]]. exists (S j), c', q.
    replace (i + S j) with (S i + j) by lia. auto.
Qed.

Lemma NoDup_app' {A} (l1 l2 : list A) :
  NoDup l1 -> NoDup l2 -> (forall x, In x l1 -> ~ In x l2) -> NoDup (l1 ++ l2).
Proof.
  induction l1 as [|x l1 IH]; simpl; intros H1 H2 Hd; [exact H2|].
  inversion H1; subst. constructor.
  - intros Hin. apply in_app_or in Hin. destruct Hin as [Hin|Hin]; [auto|]. apply (Hd x); auto.
  - apply IH; auto.
Qed.

Lemma app_inv_head' : forall (pre a b : path), pre ++ a = pre ++ b -> a = b.
Proof. intros. eapply app_inv_head; eauto. Qed.

(* each node exactly once *)
Lemma preorder_paths_NoDup : forall t pre, NoDup (preorder_paths pre t).
Proof.
  apply (item_children_ind (fun t => forall pre, NoDup (preorder_paths pre t))).
  intros t IH pre. rewrite preorder_paths_unfold. constructor.
  - intros Hin. apply pp_children_in in Hin. destruct Hin as [j [c [q [_ [E _]]]]].
    rewrite <- (app_nil_r pre) in E at 1. apply app_inv_head in E. discriminate.
  - generalize 0. induction IH as [|c l Hc _ IHl]; intros i; simpl; [constructor|].
    apply NoDup_app'; [apply Hc|apply IHl|].
    intros p Hp Hq. destruct (preorder_paths_prefix _ _ _ Hp) as [q1 E1].
    apply pp_children_in in Hq. destruct Hq as [j [c' [q2 [_ [E2 _]]]]].
    rewrite E1, <- app_assoc in E2. apply app_inv_head in E2. simpl in E2. inversion E2. lia.
Qed.

(* the listed paths are exactly the positions of the tree *)
Lemma preorder_paths_complete : forall t pre q,
  In (pre ++ q) (preorder_paths pre t) <-> exists n, subtree_at t q = Some n.
Proof.
  apply (item_children_ind (fun t => forall pre q,
    In (pre ++ q) (preorder_paths pre t) <-> exists n, subtree_at t q = Some n)).
  intros t IH pre q. rewrite preorder_paths_unfold. rewrite Forall_forall in IH. split.
  - intros [Hp|Hp].
    + rewrite <- (app_nil_r pre) in Hp at 1. apply app_inv_head in Hp. subst q. simpl. eauto.
    + apply pp_children_in in Hp. destruct Hp as [j [c [q' [Hn [E Hin]]]]].
      apply app_inv_head in E. subst q. simpl in *. rewrite Hn.
      replace (pre ++ j :: q') with ((pre ++ [j]) ++ q') in Hin by (rewrite <- app_assoc; reflexivity).
      apply (IH c (nth_error_In _ _ Hn)) in Hin. exact Hin.
  - intros [n Hn]. destruct q as [|j q']; [left; rewrite app_nil_r; reflexivity|right].
    simpl in Hn. destruct (nth_error (children t) j) as [c|] eqn:Hc; [|discriminate].
    assert (Hin : In ((pre ++ [j]) ++ q') (preorder_paths (pre ++ [j]) c)).
    { apply (IH c (nth_error_In _ _ Hc)). eauto. }
    rewrite <- app_assoc in Hin. simpl in Hin.
    clear IH Hn. revert j Hc Hin. generalize (children t) as l.
    assert (G : forall l i j, nth_error l j = Some c ->
              In (pre ++ (i + j) :: q') (preorder_paths (pre ++ [i + j]) c) ->
              In (pre ++ (i + j) :: q') (pp_children preorder_paths pre i l)).
    { induction l as [|x l IHl]; intros i j Hj Hin; [destruct j; discriminate|].
      simpl. apply in_or_app. destruct j as [|j]; simpl in Hj.
      - inversion Hj; subst x. left. rewrite Nat.add_0_r in Hin. rewrite Nat.add_0_r. exact Hin.
      - right. replace (i + S j) with (S i + j) in * by lia. apply IHl; auto. }
    intros l j Hc Hin. apply (G l 0 j Hc Hin).
Qed.

(* ---- ancestors: the nodes at the proper prefixes of a path, root first *)
Definition prefixes (p : path) : list path := map (fun k => firstn k p) (seq 0 (length p)).

Definition ancestors (t : item) (p : path) : list item :=
  flat_map (fun q => match subtree_at t q with Some n => [n] | None => [] end) (prefixes p).

Lemma prefixes_snoc p i : prefixes (p ++ [i]) = prefixes p ++ [p].
Proof.
  unfold prefixes. rewrite app_length. simpl. rewrite Nat.add_1_r, seq_S, map_app. simpl.
  rewrite firstn_app, Nat.sub_diag, firstn_all. simpl. rewrite app_nil_r. f_equal.
  apply map_ext_in. intros k Hk. apply in_seq in Hk.
  rewrite firstn_app. replace (k - length p) with 0 by lia. simpl. rewrite app_nil_r. reflexivity.
Qed.

Lemma ancestors_snoc t p i n :
  subtree_at t p = Some n -> ancestors t (p ++ [i]) = ancestors t p ++ [n].
Proof.
  intros H. unfold ancestors. rewrite prefixes_snoc, flat_map_app. simpl. rewrite H. reflexivity.
Qed.

Lemma ancestors_nil t : ancestors t [] = [].
Proof. reflexivity. Qed.

(* ---------------------------------------------------------------- traversal = specification *)

Lemma tr_go_unfold v t cx :
  tr_go v t cx =
  here_events (v_lg v) (dispatch (v_H v) (cls_of t)) t cx ++ tr_list (tr_go v) (v_tp v) t cx 0 (children t).
Proof. destruct t; reflexivity. Qed.

(* what is emitted for the position p of the tree `root` — written from the tree alone *)
Definition spec_event (v : vconf) (root : item) (p : path) (n : item) (h : option cls) : event :=
  mkEv (if v_pt v then Some p else None) h (if v_tp v then ancestors root p else []) n.

Definition emits (v : vconf) (n : item) : bool :=
  match dispatch (v_H v) (cls_of n) with Some _ => true | None => v_lg v end.

Definition spec_here (v : vconf) (root : item) (p : path) : list event :=
  match subtree_at root p with
  | None => []
  | Some n => if emits v n then [spec_event v root p n (dispatch (v_H v) (cls_of n))] else []
  end.

Definition ctx_ok (v : vconf) (root : item) (pre : path) (cx : ctx) : Prop :=
  c_path cx = (if v_pt v then Some pre else None) /\
  match c_parents cx with Some l => l | None => [] end = (if v_tp v then ancestors root pre else []).

Lemma ctx_ok_root v root : ctx_ok v root [] (root_ctx v).
Proof. unfold ctx_ok, root_ctx. simpl. destruct (v_pt v), (v_tp v); auto. Qed.

Lemma ctx_ok_child v root pre cx node i :
  subtree_at root pre = Some node -> ctx_ok v root pre cx ->
  ctx_ok v root (pre ++ [i]) (child_ctx (v_tp v) node i cx).
Proof.
  intros Hs [H1 H2]. unfold ctx_ok, child_ctx. simpl. split.
  - rewrite H1. destruct (v_pt v); reflexivity.
  - destruct (v_tp v) eqn:Htp.
    + rewrite H2, (ancestors_snoc _ _ _ _ Hs). reflexivity.
    + exact H2.
Qed.

Lemma here_events_spec v root pre t cx :
  subtree_at root pre = Some t -> ctx_ok v root pre cx ->
  here_events (v_lg v) (dispatch (v_H v) (cls_of t)) t cx = spec_here v root pre.
Proof.
  intros Hs [H1 H2]. unfold spec_here, here_events, emits, spec_event, mk_event. rewrite Hs, H1, H2.
  destruct (dispatch (v_H v) (cls_of t)); [reflexivity|]. destruct (v_lg v); reflexivity.
Qed.

Definition tr_spec_at (v : vconf) (t : item) : Prop :=
  forall root pre cx, subtree_at root pre = Some t -> ctx_ok v root pre cx ->
    tr_go v t cx = flat_map (spec_here v root) (preorder_paths pre t).

Lemma tr_go_spec v : forall t, tr_spec_at v t.
Proof.
  apply item_children_ind. intros t IH root pre cx Hs Hc.
  rewrite tr_go_unfold, preorder_paths_unfold. simpl.
  rewrite (here_events_spec _ _ _ _ _ Hs Hc). f_equal.
  assert (G : forall l i, (forall j c, nth_error l j = Some c -> nth_error (children t) (i + j) = Some c) ->
            Forall (tr_spec_at v) l ->
            tr_list (tr_go v) (v_tp v) t cx i l =
            flat_map (spec_here v root) (pp_children preorder_paths pre i l)).
  { induction l as [|c l IHl]; intros i Hnth HF; simpl; [reflexivity|].
    inversion HF as [|? ? Hc1 HFl]; subst. rewrite flat_map_app. f_equal.
    - apply Hc1; [|apply ctx_ok_child; assumption].
      rewrite (subtree_at_snoc _ _ _ _ Hs). rewrite <- (Nat.add_0_r i). apply Hnth. reflexivity.
    - apply IHl; [|exact HFl]. intros j c' Hj. replace (S i + j) with (i + S j) by lia. apply Hnth. exact Hj. }
  apply G; [intros j c Hj; exact Hj|exact IH].
Qed.

Theorem traverse_spec v t : traverse v t = flat_map (spec_here v t) (preorder_paths [] t).
Proof. apply tr_go_spec; [reflexivity|apply ctx_ok_root]. Qed.

(* events aligned one to one with the emitting positions, in pre-order *)
Definition emits_at (v : vconf) (t : item) (p : path) : bool :=
  match subtree_at t p with Some n => emits v n | None => false end.

Definition event_true (v : vconf) (t : item) (e : event) (p : path) : Prop :=
  subtree_at t p = Some (ev_node e) /\
  ev_handler e = dispatch (v_H v) (cls_of (ev_node e)) /\
  ev_parents e = (if v_tp v then ancestors t p else []) /\
  ev_path e = (if v_pt v then Some p else None).

Lemma spec_here_aligned v t : forall l,
  Forall2 (event_true v t) (flat_map (spec_here v t) l) (filter (emits_at v t) l).
Proof.
  induction l as [|p l IH]; simpl; [constructor|].
  unfold spec_here at 1, emits_at at 1. destruct (subtree_at t p) as [n|] eqn:Hs; [|exact IH].
  destruct (emits v n); [|exact IH]. simpl. constructor; [|exact IH].
  unfold event_true, spec_event. simpl. auto.
Qed.

Theorem traverse_aligned v t :
  Forall2 (event_true v t) (traverse v t) (filter (emits_at v t) (preorder_paths [] t)).
Proof. rewrite traverse_spec. apply spec_here_aligned. Qed.

Lemma preorder_paths_valid t p : In p (preorder_paths [] t) -> exists n, subtree_at t p = Some n.
Proof. intros H. apply (preorder_paths_complete t [] p). exact H. Qed.

Lemma filter_all {A} (f : A -> bool) l : (forall x, In x l -> f x = true) -> filter f l = l.
Proof.
  induction l as [|x l IH]; simpl; intros H; [reflexivity|].
  rewrite (H x (or_introl eq_refl)). f_equal. apply IH. intros y Hy. apply H. right. exact Hy.
Qed.

(* a visitor that emits at every node (generic_visit wrapped, or a visit_item handler) *)
Lemma emits_all_filter v t :
  (forall n, emits v n = true) -> filter (emits_at v t) (preorder_paths [] t) = preorder_paths [] t.
Proof.
  intros He. apply filter_all. intros p Hp. unfold emits_at.
  destruct (preorder_paths_valid _ _ Hp) as [n Hn]. rewrite Hn. apply He.
Qed.

Lemma emits_item v : In CItem (v_H v) -> forall n, emits v n = true.
Proof.
  intros Hin n. unfold emits. destruct (dispatch (v_H v) (cls_of n)) eqn:Hd; [reflexivity|].
  exfalso. rewrite dispatch_none_iff in Hd. specialize (Hd CItem Hin).
  rewrite (concrete_isinstance_item _ (cls_of_concrete n)) in Hd. discriminate.
Qed.

Lemma Forall2_map_eq {A B C} (R : A -> B -> Prop) (f : A -> C) (g : B -> C) l1 l2 :
  Forall2 R l1 l2 -> (forall a b, R a b -> f a = g b) -> map f l1 = map g l2.
Proof. intros H Hfg. induction H; simpl; [reflexivity|]. f_equal; auto. Qed.

(* ---------------------------------------------------------------- the cache *)

Lemma ckey_eqb_eq a b : ckey_eqb a b = true <-> a = b.
Proof.
  destruct a as [[i|] c], b as [[j|] d]; unfold ckey_eqb; simpl.
  - rewrite andb_true_iff, cls_eqb_eq, Nat.eqb_eq. split; [intros [H1 H2]; subst; reflexivity|].
    intros H; inversion H; auto.
  - split; [discriminate|intros H; inversion H].
  - split; [discriminate|intros H; inversion H].
  - rewrite cls_eqb_eq. split; [intros H; subst; reflexivity|intros H; inversion H; auto].
Qed.

Definition cache_ok (Hof : nat -> list cls) (ch : cache) : Prop :=
  forall i c b, cache_get (Some i, c) ch = Some b -> b = (i, dispatch (Hof i) c).

Lemma cache_ok_nil Hof : cache_ok Hof [].
Proof. intros i c b H. discriminate. Qed.

Lemma get_method_sound Hof i c ch b ch' :
  cache_ok Hof ch -> get_method false (Hof i) i c ch = (b, ch') ->
  b = (i, dispatch (Hof i) c) /\ cache_ok Hof ch'.
Proof.
  intros Hok. unfold get_method, cache_key. destruct (cache_get (Some i, c) ch) as [b0|] eqn:Hg.
  - intros E; inversion E; subst. split; [apply Hok; exact Hg|exact Hok].
  - intros E; inversion E; subst. split; [reflexivity|].
    intros j d b' Hget. simpl in Hget. destruct (ckey_eqb (Some j, d) (Some i, c)) eqn:Hk.
    + apply ckey_eqb_eq in Hk. inversion Hk; subst. inversion Hget; subst. reflexivity.
    + apply Hok. exact Hget.
Qed.

Definition expected_bound (Hof : nat -> list cls) (o : op) : bound :=
  match o with Visit i c => (i, dispatch (Hof i) c) end.

Theorem run_history_sound Hof : forall h ch bs ch',
  cache_ok Hof ch -> run_history false Hof h ch = (bs, ch') ->
  bs = map (expected_bound Hof) h /\ cache_ok Hof ch'.
Proof.
  induction h as [|[i c] h IH]; intros ch bs ch' Hok H; simpl in H.
  - inversion H; subst. auto.
  - destruct (get_method false (Hof i) i c ch) as [b ch1] eqn:Hg.
    destruct (run_history false Hof h ch1) as [bs1 ch2] eqn:Hr.
    inversion H; subst.
    destruct (get_method_sound _ _ _ _ _ _ Hok Hg) as [Hb Hok1].
    destruct (IH _ _ _ Hok1 Hr) as [Hbs Hok2]. simpl. subst. auto.
Qed.

(* tree level: with per-instance caches the cached traversal is the cache-free one *)
Lemma trc_go_unfold shared vc i t cx ch :
  trc_go shared vc i t cx ch =
  let '(b, ch1) := get_method shared (v_H (vc i)) i (cls_of t) ch in
  let v := vc (fst b) in
  let '(es, ch2) := trc_list (trc_go shared vc (fst b)) (v_tp v) t cx 0 (children t) ch1 in
  (here_events (v_lg v) (snd b) t cx ++ es, ch2).
Proof. destruct t; reflexivity. Qed.

Section CachedTraversal.
  Variable vc : nat -> vconf.
  Let Hof := fun i => v_H (vc i).

  Definition trc_ok_at (t : item) : Prop :=
    forall i cx ch, cache_ok Hof ch ->
      exists ch', trc_go false vc i t cx ch = (tr_go (vc i) t cx, ch') /\ cache_ok Hof ch'.

  Lemma trc_go_ok : forall t, trc_ok_at t.
  Proof.
    apply item_children_ind. intros t IH i cx ch Hok.
    rewrite trc_go_unfold, tr_go_unfold.
    destruct (get_method false (v_H (vc i)) i (cls_of t) ch) as [b ch1] eqn:Hg.
    destruct (get_method_sound Hof i _ _ _ _ Hok Hg) as [Hb Hok1]. subst b. simpl fst. simpl snd.
    assert (G : forall l k ch0, Forall trc_ok_at l -> cache_ok Hof ch0 ->
              exists ch', trc_list (trc_go false vc i) (v_tp (vc i)) t cx k l ch0 =
                          (tr_list (tr_go (vc i)) (v_tp (vc i)) t cx k l, ch') /\ cache_ok Hof ch').
    { induction l as [|c l IHl]; intros k ch0 HF Hok0; simpl; [eauto|].
      inversion HF as [|? ? Hc HFl]; subst.
      destruct (Hc i (child_ctx (v_tp (vc i)) t k cx) ch0 Hok0) as [ch1' [E1 Hok1']]. rewrite E1.
      destruct (IHl (S k) ch1' HFl Hok1') as [ch2' [E2 Hok2']]. rewrite E2. eauto. }
    destruct (G (children t) 0 ch1 IH Hok1) as [ch' [E Hok']]. cbv zeta. rewrite E. eauto.
  Qed.

  Theorem run_visits_sound : forall h ch,
    cache_ok Hof ch ->
    exists ch', run_visits false vc h ch = (map (fun it => traverse (vc (fst it)) (snd it)) h, ch')
                /\ cache_ok Hof ch'.
  Proof.
    induction h as [|[i t] h IH]; intros ch Hok; simpl; [eauto|].
    destruct (trc_go_ok t i (root_ctx (vc i)) ch Hok) as [ch1 [E1 Hok1]]. rewrite E1.
    destruct (IH ch1 Hok1) as [ch2 [E2 Hok2]]. rewrite E2. eauto.
  Qed.
End CachedTraversal.

(* ---------------------------------------------------------------- default transformer *)

Lemma copy_unfold t :
  copy t =
  match clone_item t with
  | None => None
  | Some n => match copy_list copy (children t) with
              | None => None
              | Some cs' => set_children n cs'
              end
  end.
Proof. destruct t; reflexivity. Qed.

(* the copy, written directly: same constructor, layout kept, name dropped, an implicit degree /
   force stays implicit with the default value recomputed, an explicit force re-normalised *)
Fixpoint dcopy (t : item) : item :=
  match t with
  | Term k m v => Term k (clone_meta m) v
  | SearchField m n e => SearchField (clone_meta m) n (dcopy e)
  | Grp k m e => Grp k (clone_meta m) (dcopy e)
  | Range m lo hi il ih => Range (clone_meta m) (dcopy lo) (dcopy hi) il ih
  | Fuzzy m x d impl =>
      if impl then Fuzzy (clone_meta m) (dcopy x) dec_half true else Fuzzy (clone_meta m) (dcopy x) d false
  | Proximity m x d impl =>
      if impl then Proximity (clone_meta m) (dcopy x) 1%Z true else Proximity (clone_meta m) (dcopy x) d false
  | Boost m e f impl =>
      if impl then Boost (clone_meta m) (dcopy e) dec_one true
      else Boost (clone_meta m) (dcopy e) (dec_normalize f) false
  | Op k m ops => Op k (clone_meta m) (map dcopy ops)
  | Unary k m a => Unary k (clone_meta m) (dcopy a)
  | ORange k m a i => ORange k (clone_meta m) (dcopy a) i
  | NoneItem m => NoneItem (clone_meta m)
  end.

Lemma copy_list_map : forall l, Forall (fun c => copy c = Some (dcopy c)) l ->
  copy_list copy l = Some (map dcopy l).
Proof.
  induction l as [|c l IH]; intros HF; simpl; [reflexivity|].
  inversion HF as [|? ? Hc HFl]; subst. rewrite Hc, (IH HFl). reflexivity.
Qed.

(* uses the generated _equality_attrs table by computation, class by class *)
Theorem copy_dcopy : forall t, copy t = Some (dcopy t).
Proof.
  apply item_children_ind. intros t IH. rewrite copy_unfold, (copy_list_map _ IH).
  destruct t as [[]|m n e|[]|m lo hi il ih|m x d [] |m x d []|m e f []|[]|[]|[]|m]; reflexivity.
Qed.

Lemma children_dcopy t : children (dcopy t) = map dcopy (children t).
Proof. destruct t as [| | | |? ? ? []|? ? ? []|? ? ? []| | | |]; reflexivity. Qed.

Lemma cls_dcopy t : cls_of (dcopy t) = cls_of t.
Proof. destruct t as [| | | |? ? ? []|? ? ? []|? ? ? []| | | |]; reflexivity. Qed.

Lemma meta_dcopy t : meta_of (dcopy t) = clone_meta (meta_of t).
Proof. destruct t as [| | | |? ? ? []|? ? ? []|? ? ? []| | | |]; reflexivity. Qed.

Lemma subtree_dcopy : forall p t,
  subtree_at (dcopy t) p = match subtree_at t p with Some n => Some (dcopy n) | None => None end.
Proof.
  induction p as [|i p IH]; intros t; simpl; [reflexivity|].
  rewrite children_dcopy, nth_error_map. destruct (nth_error (children t) i); simpl; [apply IH|reflexivity].
Qed.

(* ---- decimals: normalisation (which no longer rounds) keeps the numeric value *)

Lemma strip_zeros_stripped : forall fuel c e c' e',
  c <> 0%N -> (c < 2 ^ N.of_nat fuel)%N -> strip_zeros fuel c e = (c', e') ->
  c' <> 0%N /\ (c' mod 10 <> 0)%N.
Proof.
  induction fuel as [|f IH]; intros c e c' e' Hc Hlt H.
  - simpl in Hlt. lia.
  - simpl in H. destruct (N.eqb c 0) eqn:E0; [apply N.eqb_eq in E0; congruence|].
    destruct (N.eqb (c mod 10) 0) eqn:E1.
    + apply N.eqb_eq in E1. apply (IH (c / 10)%N (e + 1)%Z c' e'); auto.
      * intros Hz. apply N.div_small_iff in Hz; [|lia].
        rewrite (N.mod_small c 10) in E1 by lia. congruence.
      * apply N.div_lt_upper_bound; [lia|].
        rewrite Nat2N.inj_succ, N.pow_succ_r' in Hlt. lia.
    + apply N.eqb_neq in E1. inversion H; subst. auto.
Qed.

Lemma strip_zeros_fix : forall fuel c e, c <> 0%N -> (c mod 10 <> 0)%N -> strip_zeros fuel c e = (c, e).
Proof.
  intros [|f] c e Hc Hm; simpl; [reflexivity|].
  destruct (N.eqb c 0); [reflexivity|]. apply N.eqb_neq in Hm. rewrite Hm. reflexivity.
Qed.

Lemma size_bound c : (c < 2 ^ N.of_nat (S (N.to_nat (N.size c))))%N.
Proof.
  rewrite Nat2N.inj_succ, N2Nat.id, N.pow_succ_r'. pose proof (N.size_gt c). lia.
Qed.

Lemma dec_struct_eqb_refl d : dec_struct_eqb d d = true.
Proof. unfold dec_struct_eqb. rewrite Bool.eqb_reflx, N.eqb_refl, Z.eqb_refl. reflexivity. Qed.

Lemma dec_canon_normalize f : dec_canon (dec_normalize f) = dec_canon f.
Proof.
  unfold dec_normalize, dec_canon. destruct (N.eqb (dcoef f) 0) eqn:E0; [reflexivity|].
  apply N.eqb_neq in E0.
  destruct (strip_zeros (S (N.to_nat (N.size (dcoef f)))) (dcoef f) (dexp f)) as [c e] eqn:Hs.
  destruct (strip_zeros_stripped _ _ _ _ _ E0 (size_bound _) Hs) as [Hc Hm]. cbn [dcoef dexp dsign].
  apply N.eqb_neq in Hc. rewrite Hc. apply N.eqb_neq in Hc.
  rewrite (strip_zeros_fix _ _ _ Hc Hm). reflexivity.
Qed.

Lemma dec_eqb_normalize f : dec_eqb (dec_normalize f) f = true.
Proof. unfold dec_eqb. rewrite dec_canon_normalize. apply dec_struct_eqb_refl. Qed.

(* ---- guards *)
Definition all_nodes (P : item -> Prop) (t : item) : Prop :=
  forall p n, subtree_at t p = Some n -> P n.

Lemma all_nodes_here P t : all_nodes P t -> P t.
Proof. intros H. apply (H [] t). reflexivity. Qed.

Lemma all_nodes_children P t : all_nodes P t -> Forall (all_nodes P) (children t).
Proof.
  intros H. apply Forall_forall. intros c Hc. apply In_nth_error in Hc. destruct Hc as [i Hi].
  intros p n Hp. apply (H (i :: p) n). simpl. rewrite Hi. exact Hp.
Qed.

(* what `==` between the copy and the original needs at one node *)
Definition eq_stable (n : item) : Prop :=
  match n with
  | Fuzzy _ _ d true => dec_eqb dec_half d = true
  | Proximity _ _ d true => d = 1%Z
  | Boost _ _ f true => dec_eqb dec_one f = true
  | _ => True
  end.

(* what printing needs at one node *)
Definition print_stable (n : item) : Prop :=
  match n with
  | Boost _ _ f false => dec_to_fstr (dec_normalize f) = dec_to_fstr f
  | _ => True
  end.

(* the invariant every luqum constructor establishes *)
Definition wf_node (n : item) : Prop :=
  match n with
  | Fuzzy _ _ d true => d = dec_half
  | Proximity _ _ d true => d = 1%Z
  | Boost _ _ f true => f = dec_one
  | Boost _ _ f false => dec_normalize f = f
  | _ => True
  end.

Lemma dec_eqb_refl d : dec_eqb d d = true.
Proof. apply dec_struct_eqb_refl. Qed.

Lemma wf_node_stable n : wf_node n -> eq_stable n /\ print_stable n.
Proof.
  destruct n as [| | | |? ? ? []|? ? ? []|? ? ? []| | | |]; simpl; intros H; subst; auto.
  rewrite H. auto.
Qed.

Lemma all_nodes_impl (P Q : item -> Prop) t : (forall n, P n -> Q n) -> all_nodes P t -> all_nodes Q t.
Proof. intros HPQ H p n Hp. apply HPQ. eapply H; eauto. Qed.

(* ---- equal in luqum's sense *)
Lemma str_eqb_refl' s : str_eqb s s = true.
Proof. apply str_eqb_refl. Qed.

Lemma item_eqb_unfold_op k m ops k' m' ops' :
  item_eqb (Op k m ops) (Op k' m' ops') =
  cls_eqb (cls_of_opk k) (cls_of_opk k') && Nat.eqb (length ops) (length ops') &&
  attrs_eqb (Op k m ops) (Op k' m' ops') &&
  (fix go (l l' : list item) : bool :=
     match l, l' with
     | c :: r, c' :: r' => item_eqb c c' && go r r'
     | _, _ => true
     end) ops ops'.
Proof. reflexivity. Qed.

Lemma dcopy_eq : forall t, all_nodes eq_stable t -> item_eqb (dcopy t) t = true.
Proof.
  induction t using item_ind'; intros Hg;
    pose proof (all_nodes_here _ _ Hg) as Hh; pose proof (all_nodes_children _ _ Hg) as Hc; simpl in Hc.
  - destruct k; simpl; unfold attrs_eqb; simpl; rewrite str_eqb_refl; reflexivity.
  - inversion Hc; subst. simpl. unfold attrs_eqb. simpl. rewrite str_eqb_refl, IHt; auto.
  - inversion Hc; subst. destruct k; simpl; rewrite IHt; auto.
  - inversion Hc as [|? ? H1 H2]; subst. inversion H2; subst. simpl. unfold attrs_eqb. simpl.
    rewrite !Bool.eqb_reflx, IHt1, IHt2; auto.
  - inversion Hc; subst. destruct i; simpl in *; unfold attrs_eqb; simpl.
    + rewrite Hh, IHt; auto.
    + rewrite dec_eqb_refl, IHt; auto.
  - inversion Hc; subst. destruct i; simpl in *; unfold attrs_eqb; simpl.
    + subst d. rewrite IHt; auto.
    + rewrite Z.eqb_refl, IHt; auto.
  - inversion Hc; subst. destruct i; simpl in *; unfold attrs_eqb; simpl.
    + rewrite Hh, IHt; auto.
    + rewrite dec_eqb_normalize, IHt; auto.
  - simpl dcopy. rewrite item_eqb_unfold_op. rewrite map_length, Nat.eqb_refl, cls_eqb_refl.
    replace (attrs_eqb (Op k (clone_meta m) (map dcopy ops)) (Op k m ops)) with true by (destruct k; reflexivity).
    simpl. clear Hg Hh. induction H as [|c l Hc1 _ IHl]; simpl; [reflexivity|].
    inversion Hc; subst. rewrite Hc1, IHl; auto.
  - inversion Hc; subst. destruct k; simpl; rewrite IHt; auto.
  - inversion Hc; subst. destruct k; simpl; unfold attrs_eqb; simpl; rewrite Bool.eqb_reflx, IHt; auto.
  - reflexivity.
Qed.

(* ---- prints the same *)
Lemma wrap_clone ht m v : wrap ht (clone_meta m) v = wrap ht m v.
Proof. reflexivity. Qed.

Lemma dcopy_print : forall t, all_nodes print_stable t -> forall ht, print ht (dcopy t) = print ht t.
Proof.
  induction t using item_ind'; intros Hg ht;
    pose proof (all_nodes_here _ _ Hg) as Hh; pose proof (all_nodes_children _ _ Hg) as Hc; simpl in Hc.
  - reflexivity.
  - inversion Hc; subst. simpl. rewrite IHt; auto.
  - inversion Hc; subst. simpl. rewrite IHt; auto.
  - inversion Hc as [|? ? H1 H2]; subst. inversion H2; subst. simpl. rewrite IHt1, IHt2; auto.
  - inversion Hc; subst. destruct i; simpl; rewrite IHt; auto.
  - inversion Hc; subst. destruct i; simpl; rewrite IHt; auto.
  - inversion Hc; subst. destruct i; simpl in *; rewrite IHt; auto. rewrite Hh. reflexivity.
  - simpl. rewrite wrap_clone. f_equal. f_equal. rewrite map_map. clear Hg Hh.
    induction H as [|c l Hc1 _ IHl]; simpl; [reflexivity|]. inversion Hc; subst. rewrite Hc1, IHl; auto.
  - inversion Hc; subst. simpl. rewrite IHt; auto.
  - inversion Hc; subst. simpl. rewrite IHt; auto.
  - reflexivity.
Qed.

(* ---- layout at every position; names *)
Definition layout_of (n : item) : option Z * option Z * str * str :=
  (m_pos (meta_of n), m_size (meta_of n), m_head (meta_of n), m_tail (meta_of n)).

Lemma layout_dcopy n : layout_of (dcopy n) = layout_of n.
Proof. unfold layout_of. rewrite meta_dcopy. reflexivity. Qed.

Lemma name_dcopy n : name_of (dcopy n) = None.
Proof. unfold name_of. rewrite meta_dcopy. reflexivity. Qed.

(* shape, classes and layout at every position *)
Definition same_layout (c t : item) : Prop :=
  forall p, match subtree_at c p, subtree_at t p with
            | Some a, Some b => cls_of a = cls_of b /\ layout_of a = layout_of b
            | None, None => True
            | _, _ => False
            end.

Lemma dcopy_same_layout t : same_layout (dcopy t) t.
Proof.
  intros p. rewrite subtree_dcopy. destruct (subtree_at t p) as [n|]; [|exact I].
  split; [apply cls_dcopy|apply layout_dcopy].
Qed.

Lemma dcopy_no_names t p n : subtree_at (dcopy t) p = Some n -> name_of n = None.
Proof.
  rewrite subtree_dcopy. destruct (subtree_at t p) as [n0|]; [|discriminate].
  intros E; inversion E; subst. apply name_dcopy.
Qed.

(* ---- boolean versions of the guards (for examples and for the correspondence) *)
Definition all_nodesb (f : item -> bool) (t : item) : bool :=
  forallb (fun p => match subtree_at t p with Some n => f n | None => true end) (preorder_paths [] t).

Lemma all_nodesb_spec (f : item -> bool) (P : item -> Prop) t :
  (forall n, f n = true -> P n) -> all_nodesb f t = true -> all_nodes P t.
Proof.
  intros HfP Hb p n Hp. unfold all_nodesb in Hb. rewrite forallb_forall in Hb.
  assert (Hin : In p (preorder_paths [] t)) by (apply (preorder_paths_complete t [] p); eauto).
  specialize (Hb p Hin). rewrite Hp in Hb. apply HfP. exact Hb.
Qed.

Lemma dec_struct_eqb_eq a b : dec_struct_eqb a b = true -> a = b.
Proof.
  unfold dec_struct_eqb. intros H. apply andb_prop in H as [H H3]. apply andb_prop in H as [H1 H2].
  apply Bool.eqb_prop in H1. apply N.eqb_eq in H2. apply Z.eqb_eq in H3.
  destruct a, b; simpl in *; subst; reflexivity.
Qed.

Definition eq_stableb (n : item) : bool :=
  match n with
  | Fuzzy _ _ d true => dec_eqb dec_half d
  | Proximity _ _ d true => Z.eqb d 1
  | Boost _ _ f true => dec_eqb dec_one f
  | _ => true
  end.

Definition print_stableb (n : item) : bool :=
  match n with
  | Boost _ _ f false => str_eqb (dec_to_fstr (dec_normalize f)) (dec_to_fstr f)
  | _ => true
  end.

Definition wf_nodeb (n : item) : bool :=
  match n with
  | Fuzzy _ _ d true => dec_struct_eqb d dec_half
  | Proximity _ _ d true => Z.eqb d 1
  | Boost _ _ f true => dec_struct_eqb f dec_one
  | Boost _ _ f false => dec_struct_eqb (dec_normalize f) f
  | _ => true
  end.

Lemma eq_stableb_ok n : eq_stableb n = true -> eq_stable n.
Proof.
  destruct n as [| | | |? ? ? []|? ? ? []|? ? ? []| | | |]; simpl; auto. apply Z.eqb_eq.
Qed.

Lemma print_stableb_ok n : print_stableb n = true -> print_stable n.
Proof.
  destruct n as [| | | | | |? ? ? []| | | |]; simpl; auto. apply str_eqb_eq.
Qed.

Lemma wf_nodeb_ok n : wf_nodeb n = true -> wf_node n.
Proof.
  destruct n as [| | | |? ? ? []|? ? ? []|? ? ? []| | | |]; simpl; auto;
    try apply dec_struct_eqb_eq. apply Z.eqb_eq.
Qed.

Lemma Forall2_In_l {A B} (R : A -> B -> Prop) l1 l2 a :
  Forall2 R l1 l2 -> In a l1 -> exists b, In b l2 /\ R a b.
Proof.
  intros H. induction H as [|x y l1' l2' Hxy _ IH]; intros Hin; [destruct Hin|].
  destruct Hin as [Hin|Hin]; [subst; exists y; simpl; auto|].
  destruct (IH Hin) as [b [Hb Hr]]. exists b. simpl. auto.
Qed.

Lemma emits_iff v n :
  emits v n = true <-> v_lg v = true \/ exists k, In k (v_H v) /\ isinstance (cls_of n) k = true.
Proof.
  unfold emits. destruct (dispatch (v_H v) (cls_of n)) as [k|] eqn:Hd.
  - split; [|reflexivity]. intros _. right. apply dispatch_most_specific in Hd.
    destruct Hd as [H1 [H2 _]]. eauto.
  - rewrite dispatch_none_iff in Hd. split; [auto|]. intros [H|[k [H1 H2]]]; [exact H|].
    rewrite (Hd k H1) in H2. discriminate.
Qed.

Lemma Forall2_impl' {A B} (R S : A -> B -> Prop) l1 l2 :
  (forall a b, R a b -> S a b) -> Forall2 R l1 l2 -> Forall2 S l1 l2.
Proof. intros HRS H. induction H; constructor; auto. Qed.

Lemma NoDup_map_inj {A B} (f : A -> B) l : (forall a b, f a = f b -> a = b) -> NoDup l -> NoDup (map f l).
Proof.
  intros Hinj H. induction H as [|x l Hx _ IH]; simpl; constructor; [|exact IH].
  intros Hin. apply in_map_iff in Hin. destruct Hin as [y [E Hy]]. apply Hinj in E. subst. auto.
Qed.


(* ---- document order: lexicographic order on index paths, a prefix first *)
Fixpoint path_lt (a b : path) : Prop :=
  match a, b with
  | [], [] => False
  | [], _ :: _ => True
  | _ :: _, [] => False
  | i :: a', j :: b' => i < j \/ (i = j /\ path_lt a' b')
  end.

Lemma path_lt_app pre a b : path_lt a b -> path_lt (pre ++ a) (pre ++ b).
Proof. induction pre as [|x pre IH]; simpl; auto. Qed.

Lemma SSorted_app {A} (R : A -> A -> Prop) l1 l2 :
  StronglySorted R l1 -> StronglySorted R l2 -> (forall x y, In x l1 -> In y l2 -> R x y) ->
  StronglySorted R (l1 ++ l2).
Proof.
  induction l1 as [|x l1 IH]; simpl; intros H1 H2 H12; [exact H2|].
  inversion H1; subst. constructor.
  - apply IH; auto.
  - apply Forall_app. split; [assumption|]. apply Forall_forall. intros y Hy. apply H12; auto.
Qed.

Lemma preorder_paths_sorted : forall t pre, StronglySorted path_lt (preorder_paths pre t).
Proof.
  apply (item_children_ind (fun t => forall pre, StronglySorted path_lt (preorder_paths pre t))).
  intros t IH pre. rewrite preorder_paths_unfold. constructor.
  - generalize 0. induction IH as [|c l Hc _ IHl]; intros i; simpl; [constructor|].
    apply SSorted_app; [apply Hc|apply IHl|].
    intros x y Hx Hy. destruct (preorder_paths_prefix _ _ _ Hx) as [q1 E1].
    apply pp_children_in in Hy. destruct Hy as [j [c' [q2 [_ [E2 _]]]]]. subst x y.
    rewrite <- app_assoc. apply path_lt_app. simpl. left. lia.
  - apply Forall_forall. intros y Hy. apply pp_children_in in Hy.
    destruct Hy as [j [c' [q2 [_ [E2 _]]]]]. subst y.
    rewrite <- (app_nil_r pre) at 1. apply path_lt_app. exact I.
Qed.
