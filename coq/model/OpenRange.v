(* OpenRange.v — luqum.utils.OpenRangeTransformer (with visitor.TreeTransformer.generic_visit /
   clone_children and tree.Item.clone_item).  Executable definitions only.

   The context / parents tracking of the transformer (track_parents=True) is never read by any of
   its methods, so it is not modelled.  Every visit method of this transformer yields exactly one
   node, so `clone_children` yields exactly one new child per child. *)
Require Import Base Decimal Tree GenTree GenVisitors Visitor Eq.

Inductive side := SLow | SHigh.      (* 'low' / 'high' *)
Definition side_eqb (a b : side) : bool :=
  match a, b with SLow, SLow | SHigh, SHigh => true | _, _ => false end.
(* comparison of possible_ranges_bound_side (None at the start) with child_bound_side *)
Definition oside_eqb (a b : option side) : bool :=
  match a, b with
  | None, None => true
  | Some x, Some y => side_eqb x y
  | _, _ => false
  end.

(* WILDCARD_WORD = Word("*") *)
Definition wildcard_word : item := Term KWord meta0 [c_star].

(* `x == self.WILDCARD_WORD` : luqum's __eq__ (class Word and value "*"; layout is irrelevant) *)
Definition is_wildcard (t : item) : bool := item_eqb t wildcard_word.

(* OpenRangeTransformer._get_node_bound_side *)
Definition bound_side (t : item) : option side :=
  if isinstance (cls_of t) CRange then
    match t with
    | Range _ lo hi _ _ =>
        if is_wildcard lo && negb (is_wildcard hi) then Some SHigh
        else if negb (is_wildcard lo) && is_wildcard hi then Some SLow
        else None
    | _ => None       (* unreachable: only Range has CRange in its MRO *)
    end
  else None.

(* ---------------------------------------------------------------- the merge of visit_and_operation *)

Fixpoint upd (j : nat) (f : item -> item) (l : list item) : list item :=
  match l, j with
  | [], _ => []
  | x :: l', O => f x :: l'
  | x :: l', S j' => x :: upd j' f l'
  end.

(* joining_child.<s> = child.<s> ; joining_child.include_<s> = child.include_<s>
   (c = the child merged away, whose bound side is s; j = the joining child, already emitted).
   Both are Range objects whenever this is called (their bound side is not None); the last branch
   is unreachable. *)
Definition join_range (s : side) (c j : item) : item :=
  match j, c with
  | Range mj loj hij ilj ihj, Range _ loc hic ilc ihc =>
      match s with
      | SLow => Range mj loc hij ilc ihj
      | SHigh => Range mj loj hic ilj ihc
      end
  | _, _ => j
  end.

(* state of the loop: new_node.children so far, possible_ranges as indices into it (the Python list
   holds the very objects that sit in new_node.children and mutates them in place),
   possible_ranges_bound_side *)
Record mstate := mkM { m_emitted : list item; m_pending : list nat; m_side : option side }.

Definition mstep (st : mstate) (c : item) : mstate :=
  let em := m_emitted st in
  match bound_side c with
  | None => mkM (em ++ [c]) (m_pending st) (m_side st)
  | Some s =>
      match m_pending st with
      | [] => mkM (em ++ [c]) [length em] (Some s)                 (* not possible_ranges *)
      | j :: rest =>
          if oside_eqb (m_side st) (Some s)
          then mkM (em ++ [c]) (m_pending st ++ [length em]) (Some s)
          else mkM (upd j (join_range s c) em) rest (m_side st)    (* pop(0), join, `continue` *)
      end
  end.

Definition merge_children (cs : list item) : list item :=
  m_emitted (fold_left mstep cs (mkM [] [] None)).

(* ---------------------------------------------------------------- the transformer *)

(* clone_children: the new children, in order (each child yields exactly one node) *)
Definition visit_children (f : item -> option item) :=
  fix go (l : list item) : option (list item) :=
    match l with
    | [] => Some []
    | c :: l' =>
        match f c with
        | None => None
        | Some c' => match go l' with None => None | Some cs => Some (c' :: cs) end
        end
    end.

(* TreeTransformer.generic_visit: clone_item, then the `children` setter (ValueError on arity) *)
Definition generic_result (t : item) (cs' : list item) : option item :=
  match clone_item t with
  | None => None
  | Some c => set_children c cs'
  end.

(* _visit_from_to.  None: AttributeError (`include`) / IndexError ([0] of no child) *)
Definition from_to (s : side) (add_head : str) (t : item) (cs' : list item) : option item :=
  match t, cs' with
  | ORange _ m _ incl, c :: _ =>
      match clone_item wildcard_word with
      | None => None
      | Some w =>
          let m' := clone_meta m in       (* Range(..., pos=, size=, head=, tail=): no name *)
          Some (match s with
                | SLow => Range m' (set_tail c (tail_of c ++ add_head))
                                   (set_head w (head_of w ++ add_head)) incl true
                | SHigh => Range m' (set_tail w (tail_of w ++ add_head))
                                    (set_head c (head_of c ++ add_head)) true incl
                end)
      end
  | _, _ => None
  end.

(* what the method selected by _get_method does with the node, given its transformed children *)
Definition node_result (merge : bool) (add_head : str) (t : item) (cs' : list item) : option item :=
  match dispatch gen_methods_OpenRangeTransformer (cls_of t) with
  | None => generic_result t cs'
  | Some CAndOperation =>
      if merge then Some (Op KAnd (clone_meta (meta_of t)) (merge_children cs'))
      else generic_result t cs'
  | Some CFrom => from_to SLow add_head t cs'
  | Some CTo => from_to SHigh add_head t cs'
  | Some _ => None          (* a handler this model does not know: see open_range_methods_known *)
  end.

(* OpenRangeTransformer(merge_ranges, add_head)(tree) ; None = an exception *)
Fixpoint open_range (merge : bool) (add_head : str) (t : item) : option item :=
  let via (cs : list item) :=
    match visit_children (open_range merge add_head) cs with
    | None => None
    | Some cs' => node_result merge add_head t cs'
    end in
  match t with
  | Term _ _ _ | NoneItem _ => via []
  | SearchField _ _ e | Grp _ _ e | Boost _ e _ _ => via [e]
  | Fuzzy _ x _ _ | Proximity _ x _ _ => via [x]
  | Unary _ _ a | ORange _ _ a _ => via [a]
  | Range _ lo hi _ _ => via [lo; hi]
  | Op _ _ ops => via ops
  end.

(* tie obligation: every specific handler of the transformer is one the model knows *)
Definition open_range_methods_known : bool :=
  forallb (fun c => mem_cls c [CAndOperation; CFrom; CTo]) gen_methods_OpenRangeTransformer.
