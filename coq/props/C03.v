(* C03 — parsed structure follows the documented grammar and precedence, independent of layout.
   (a) layout independence: proved for ANY tables (proofs/LayoutProofs.v);
   (b) lexical clauses: proved on the lexer / action models;
   (c) agreement with the documented grammar (model/Grammar.v, a reference parser that knows nothing
       of the LR tables): full statement visible, REFUTED by F4; validated, not proved, by the
       exhaustive comparison of harness/c03.py on every run. *)
Require Import Base Decimal Tree GenTree GenParser Lexer Print Actions LR Parser Erase Grammar.
Require Import TreeInd LexerProofs LayoutProofs.

(* ---- (a) two queries that differ only in the whitespace between tokens give equal trees *)
Definition C03_layout_independent_statement : Prop :=
  forall tb s1 s2,
    map tok_key (fst (lex s1)) = map tok_key (fst (lex s2)) ->
    (snd (lex s1) = None <-> snd (lex s2) = None) ->
    outcome_sim (parse_with tb s1) (parse_with tb s2).

Theorem C03_layout_independent : C03_layout_independent_statement.
Proof. exact parse_layout_independent. Qed.

(* in terms of what the caller sees, for the generated tables *)
Corollary C03_layout_independent_trees s1 s2 t1 :
  map tok_key (fst (lex s1)) = map tok_key (fst (lex s2)) ->
  (snd (lex s1) = None <-> snd (lex s2) = None) ->
  parse s1 = Some (Ok t1) -> exists t2, parse s2 = Some (Ok t2) /\ erase t1 = erase t2.
Proof.
  intros Hk He Hp. pose proof (parse_layout_independent gen_tables s1 s2 Hk He) as H.
  unfold parse, parse_full in *. destruct (parse_with gen_tables s1) as [r1 e1|]; [|discriminate].
  destruct (parse_with gen_tables s2) as [r2 e2|]; [|contradiction]. simpl in H.
  inversion Hp; subst. destruct r2 as [t2|[m|m|n]]; simpl in H; try discriminate.
  exists t2. split; [reflexivity|]. inversion H. reflexivity.
Qed.

(* ---- (b) reserved words are operators only as whole unescaped tokens *)
Definition reserved_type (k : tok) : Prop := k = T_AND_OP \/ k = T_OR_OP \/ k = T_NOT \/ k = T_TO.

Definition C03_reserved_words_statement : Prop :=
  forall rp s k l r, lex_one rp s = Some (RTok k, l, r) ->
    (reserved_type k -> In (l, k) gen_reserved) /\
    (forall w k', In (w, k') gen_reserved -> l = w -> k <> T_TERM).

Lemma find_reserved l p : find (fun p => str_eqb l (fst p)) gen_reserved = Some p -> In p gen_reserved /\ l = fst p.
Proof.
  intros H. apply find_some in H. destruct H as [H1 H2]. split; [exact H1|]. apply str_eqb_eq. exact H2.
Qed.

Theorem C03_reserved_words : C03_reserved_words_statement.
Proof.
  intros rp s k l r H. unfold lex_one in H. destruct s as [|c s1]; [discriminate|].
  destruct (is_space c).
  { destruct (span_while is_space (c :: s1) []). discriminate. }
  destruct (lex_term rp (c :: s1)) as [[l0 r0]|] eqn:Ht.
  - cbv zeta in H.
    destruct (find (fun p => str_eqb l0 (fst p)) gen_reserved) as [[w t]|] eqn:Hf;
      inversion H; subst; clear H.
    + destruct (find_reserved _ _ Hf) as [Hin Hl]. simpl in Hl. subst w. split.
      * intros _. exact Hin.
      * intros w k' Hin' Hw E. subst.
        (* every reserved word maps to a non-TERM type: a finite fact about the generated table *)
        revert Hin. vm_compute. intros [Hx|[Hx|[Hx|[Hx|[]]]]]; inversion Hx.
    + split.
      * intros [E|[E|[E|E]]]; discriminate.
      * intros w k' Hin Hw _. subst w.
        apply (find_none _ _ Hf) in Hin. simpl in Hin. rewrite str_eqb_refl in Hin. discriminate.
  - (* every other rule yields a fixed token type that is neither reserved nor TERM *)
    repeat match type of H with
    | (if ?b then _ else _) = _ => destruct b eqn:?
    | match ?x with _ => _ end = _ => destruct x eqn:?; try discriminate
    | (let '(_, _) := ?x in _) = _ => destruct x eqn:?
    end; inversion H; subst; clear H;
    (split; [intros [E|[E|[E|E]]]; discriminate|intros w k' Hin Hw E; discriminate]).
Qed.

(* bracket kind and the presence of `=` set the inclusiveness *)
Definition C03_inclusiveness_statement : Prop :=
  (forall l1 m1 lo t hi l5 m5 v evs,
     run_action A_range [VTok l1 (Some l1) m1; VItem lo; t; VItem hi; VTok l5 (Some l5) m5] = Ok (v, evs) ->
     exists m lo' hi', v = VItem (Range m lo' hi' (str_eqb l1 [c_lbrack]) (str_eqb l5 [c_rbrack]))) /\
  (forall l m x v evs,
     run_action A_lessthan [VTok l (Some l) m; VItem x] = Ok (v, evs) ->
     exists m' x', v = VItem (ORange KTo m' x' (mem_N c_eq l))) /\
  (forall l m x v evs,
     run_action A_greaterthan [VTok l (Some l) m; VItem x] = Ok (v, evs) ->
     exists m' x', v = VItem (ORange KFrom m' x' (mem_N c_eq l))).

Theorem C03_inclusiveness : C03_inclusiveness_statement.
Proof.
  split; [|split].
  - intros l1 m1 lo t hi l5 m5 v evs H. simpl in H. destruct t; [discriminate|].
    inversion H; subst. eexists _, _, _. reflexivity.
  - intros l m x v evs H. simpl in H. inversion H; subst. eexists _, _. reflexivity.
  - intros l m x v evs H. simpl in H. inversion H; subst. eexists _, _. reflexivity.
Qed.

(* ---- (c) the tree is the one dictated by the documented grammar *)
Definition keys (s : str) : list key := map tok_key (fst (lex s)).

Definition C03_grammar_statement : Prop :=
  forall s, snd (lex s) = None ->
    match parse s with
    | Some (Ok t) => spec_parse (keys s) = Some (erase t)
    | Some (Err _) => spec_parse (keys s) = None
    | None => False
    end.

(* F4: "a AND b -c" *)
Definition f4_witness : str := [97;32;65;78;68;32;98;32;45;99]%N.

Theorem C03_grammar_refuted : ~ C03_grammar_statement.
Proof.
  intros H. specialize (H f4_witness). revert H. vm_compute. intros H. specialize (H eq_refl). discriminate.
Qed.

(* the witness is in the F4 input class, and the two readings differ as described *)
Example C03_f4_class : f4_input (keys f4_witness) = true.
Proof. vm_compute. reflexivity. Qed.

(* non-vacuity of (c) on inputs outside F4: every construct, precedence and flattening *)
Definition ex1 : str :=   (* a b OR c AND d^2 f:(x y) +e -"p q"~3 NOT [1 TO 2} <=5 *)
  [97;32;98;32;79;82;32;99;32;65;78;68;32;100;94;50;32;102;58;40;120;32;121;41;32;43;101;32;45;34;112;32;113;34;126;51;32;78;79;84;32;91;49;32;84;79;32;50;125;32;60;61;53]%N.
Example C03_grammar_nonvacuous :
  snd (lex ex1) = None /\ f4_input (keys ex1) = false /\
  exists t, parse ex1 = Some (Ok t) /\ spec_parse (keys ex1) = Some (erase t).
Proof. split; [vm_compute; reflexivity|]. split; [vm_compute; reflexivity|]. eexists. split; vm_compute; reflexivity. Qed.

(* reserved words are words when escaped or part of a longer lexeme *)
Example C03_reserved_examples :
  map tok_key (fst (lex [92;65;78;68;32;65;78;68;120;32;65;78;68]%N)) =     (* \AND ANDx AND *)
  [(T_TERM, [92;65;78;68]%N); (T_TERM, [65;78;68;120]%N); (T_AND_OP, [65;78;68]%N)].
Proof. vm_compute. reflexivity. Qed.

Print Assumptions C03_layout_independent.
Print Assumptions C03_layout_independent_trees.
Print Assumptions C03_reserved_words.
Print Assumptions C03_inclusiveness.
Print Assumptions C03_grammar_refuted.
