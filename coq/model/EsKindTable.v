(* EsKindTable.v — the documented table "one query term -> one Elasticsearch leaf clause", written from the
   property text of C06 and from luqum's documentation, NOT from the model of the builder.  Definitions only.

   Sources: the docstring of ElasticsearchQueryBuilder (field_options "allows you to give defaults options for
   each fields.  They will be applied unless, overwritten by generated parameters.  For match query, the
   `match_type` parameter modifies the type of match query"; match_word_as_phrase; zero_terms_query "all" in an
   AND expression, "none" in OR / AND NOT), docs/source/quick_start.rst (term / match / match_phrase / range /
   query_string / exists / fuzzy examples), CHANGELOG (0.7.0 match for single words, 0.7.2 no zero_terms_query on
   match_phrase, 0.7.3 no wildcard in phrases, 0.8.0 `match_type` preferred over `type`, multi_match), the
   docstrings and comments of luqum/elasticsearch/tree.py ("field:* is transformed to exists query", "on a term
   query the ~ is always fuziness", "in the case of a term, parenthesis are just there to escape spaces or
   colons"), and experiments on the unchanged code for the rows the documentation leaves open (they are marked
   OBSERVED below).

   What this file does NOT use: EsBuild.leaf / mk_word / mk_phrase / mk_range / leaf_set_* / leaf_method /
   leaf_json / add_key / base_options / has_wildcard / collapse_ws / strip_ends / range_bound_value, nor the
   string constants k_* of EsBuild.v (the spelling of every kind and parameter is written again here), nor
   EsSpec.xl / expected_leaves / clause.  Shared: the configuration record es_config, the context record ectx
   with its accessors (field path, analysed flag, inherited name: EsBuild.ctx_fields / ctx_is_analyzed /
   get_name / propagate_name / field_prefix), the syntactic predicates of the property's vocabulary
   EsSpec.single_leaf / direct_leaf / field_ctx, the association-list operations of Json.v, and the generated
   character class \s (gen/GenChars.v).

   THE TABLE (f = dotted field; an = f is not in not_analyzed_fields; opts = field_options[f]):

   term as written                         | kind                               | parameters generated
   ----------------------------------------+------------------------------------+---------------------------------
   word  *                                 | exists                             | {field: f [, _name]} — no options,
                                           |                                    |   no boost (OBSERVED)
   word with an unescaped * or ?, not an   | wildcard                           | value
   word with an unescaped * or ?, an       | query_string (no field level)      | query, default_field = f,
                                           |                                    |   analyze_wildcard = true and
                                           |                                    |   allow_leading_wildcard = true
                                           |                                    |   UNLESS opts says otherwise
                                           |   — both also under ~ : the wildcard wins, the clause carries fuzziness
   word under ~ (no wildcard)              | fuzzy                              | fuzziness, value
   word, not an                            | term                               | value
   word, an                                | opts.match_type, else opts.type,   | query (+ zero_terms_query when
                                           |   else match (match_phrase with    |   the kind is exactly "match");
                                           |   match_word_as_phrase)            |   value for a kind without "match"
   phrase, an                              | opts.match_type, else opts.type,   | query = text between the quotes,
                                           |   else match_phrase; fuzzy under a |   blank runs collapsed; slop from
                                           |   (hand-built) Fuzzy               |   a ~ (Proximity)
   phrase, not an                          | as a WORD whose text is what stands between the quotes (blanks kept);
                                           |   every word row applies, also wildcard and exists (OBSERVED: "the
                                           |   quotes are just there to escape spaces or colons"); a ~ is a fuzziness
   range                                   | range (fuzzy under a hand-built ~) | high bound under lte / lt, low
                                           |                                    |   bound under gte / gt by bracket
                                           |                                    |   kind; a bound * (or empty) is
                                           |                                    |   absent; a phrase bound keeps
                                           |                                    |   its quotes, -x is "-x"
   every kind but exists: boost from the outermost ^, fuzziness from the outermost ~-as-fuzziness, _name;
   then the kind's own parameters; ALL of them overwrite an option of the same name ("generated parameters"),
   the options (minus match_type, minus type unless match_type is given and truthy) stay otherwise, for every
   kind, term-level ones included; kinds query_string and multi_match have no field level.
   A kind taken from the options is laid out by its NAME: a name containing "match" carries `query`, the name
   "query_string" the query_string parameters, any other name `value`.
   zero_terms_query is "all" exactly for a direct item of a conjunction (AND, the implicit operation when
   default_operator is not "should", +), else "none".
   Hand-built shapes the grammar never produces (a Fuzzy on a phrase or a range, a Proximity on a word, several
   ~ / ^ on one term) are in the table as the setters treat them: the outermost modifier of a sort wins, a slop is
   rendered on analysed phrases only.
   Domain of the table theorem (desc_ok, end of this file): the text of a word — of a phrase on a not-analysed
   field — has no run of three backslashes. *)
Require Import Base Decimal Tree GenChars Json EsSpecs EsBuild EsSpec.

(* ---------------------------------------------------------------- spelling of kinds and parameters *)
Definition kw_term : str := [116;101;114;109]%N.   (* "term" *)
Definition kw_match : str := [109;97;116;99;104]%N.   (* "match" *)
Definition kw_match_phrase : str := [109;97;116;99;104;95;112;104;114;97;115;101]%N.   (* "match_phrase" *)
Definition kw_range : str := [114;97;110;103;101]%N.   (* "range" *)
Definition kw_fuzzy : str := [102;117;122;122;121]%N.   (* "fuzzy" *)
Definition kw_wildcard : str := [119;105;108;100;99;97;114;100]%N.   (* "wildcard" *)
Definition kw_query_string : str := [113;117;101;114;121;95;115;116;114;105;110;103]%N.   (* "query_string" *)
Definition kw_multi_match : str := [109;117;108;116;105;95;109;97;116;99;104]%N.   (* "multi_match" *)
Definition kw_exists : str := [101;120;105;115;116;115]%N.   (* "exists" *)
Definition kw_match_type : str := [109;97;116;99;104;95;116;121;112;101]%N.   (* "match_type" *)
Definition kw_type : str := [116;121;112;101]%N.   (* "type" *)
Definition kw_boost : str := [98;111;111;115;116]%N.   (* "boost" *)
Definition kw_fuzziness : str := [102;117;122;122;105;110;101;115;115]%N.   (* "fuzziness" *)
Definition kw_name : str := [95;110;97;109;101]%N.   (* "_name" *)
Definition kw_slop : str := [115;108;111;112]%N.   (* "slop" *)
Definition kw_lt : str := [108;116]%N.   (* "lt" *)
Definition kw_lte : str := [108;116;101]%N.   (* "lte" *)
Definition kw_gt : str := [103;116]%N.   (* "gt" *)
Definition kw_gte : str := [103;116;101]%N.   (* "gte" *)
Definition kw_query : str := [113;117;101;114;121]%N.   (* "query" *)
Definition kw_zero_terms_query : str := [122;101;114;111;95;116;101;114;109;115;95;113;117;101;114;121]%N.   (* "zero_terms_query" *)
Definition kw_default_field : str := [100;101;102;97;117;108;116;95;102;105;101;108;100]%N.   (* "default_field" *)
Definition kw_analyze_wildcard : str := [97;110;97;108;121;122;101;95;119;105;108;100;99;97;114;100]%N.   (* "analyze_wildcard" *)
Definition kw_allow_leading_wildcard : str := [97;108;108;111;119;95;108;101;97;100;105;110;103;95;119;105;108;100;99;97;114;100]%N.   (* "allow_leading_wildcard" *)
Definition kw_value : str := [118;97;108;117;101]%N.   (* "value" *)
Definition kw_field : str := [102;105;101;108;100]%N.   (* "field" *)
Definition kw_all : str := [97;108;108]%N.   (* "all" *)
Definition kw_none : str := [110;111;110;101]%N.   (* "none" *)
Definition kw_star : str := [42]%N.   (* "*" *)

(* ---------------------------------------------------------------- one query term, as written in the query *)
Inductive qterm :=
| QWord (text : str)                                   (* a word *)
| QPhrase (text : str)                                 (* a phrase, WITH its quotes *)
| QRange (low : str) (low_included : bool) (high : str) (high_included : bool).
                                                       (* [low TO high] / {low TO high} / mixed *)

(* a ~ or ^ that applies to the term: a ~ on a word (Fuzzy) is a fuzziness, a ~ on a phrase (Proximity) is a slop on
   an analysed field and a fuzziness on a not-analysed one ("on a term query the ~ is always fuziness") *)
Inductive modifier := MBoost (force : dec) | MFuzziness (degree : dec) | MSlop (degree : dec).

Record tdesc := mkT {
  d_term : qterm;
  d_fields : list str;          (* the enclosing field names (components), the default field when there is none *)
  d_mods : list modifier;       (* the ~ / ^ applying to the term, INNERMOST FIRST *)
  d_conj : bool;                (* the clause is a direct item of a conjunction *)
  d_name : option str }.        (* own name, else that of the nearest named enclosing element *)

(* ---------------------------------------------------------------- text normalisation *)
(* s[1:-1]: the text between the two delimiting quotes *)
Definition between_quotes (s : str) : str := firstn (length s - 2) (skipn 1 s).

Definition blank (c : char) : bool := in_ranges gen_cc_space c.      (* Python's \s *)

(* every run of blanks becomes one space: a blank followed by a blank disappears, the last blank of a run is a
   space *)
Fixpoint collapse_blanks (s : str) : str :=
  match s with
  | [] => []
  | c :: s' =>
      if blank c
      then match s' with
           | c' :: _ => if blank c' then collapse_blanks s' else c_space :: collapse_blanks s'
           | [] => [c_space]
           end
      else c :: collapse_blanks s'
  end.

(* an UNESCAPED * or ? : a backslash escapes the character that follows it, whatever it is *)
Definition wild (c : char) : bool := N.eqb c 42%N || N.eqb c 63%N.      (* '*', '?' *)
Fixpoint unescaped_wildcard (s : str) : bool :=
  match s with
  | [] => false
  | c :: s' =>
      if N.eqb c 92%N                                     (* backslash *)
      then match s' with [] => false | _ :: s'' => unescaped_wildcard s'' end
      else wild c || unescaped_wildcard s'
  end.

(* ---------------------------------------------------------------- options *)
Definition field_of (d : tdesc) : str := dotted (d_fields d).
Definition analysed (cfg : es_config) (f : str) : bool := negb (mem_str f (c_not_analyzed cfg)).
Definition options_of (cfg : es_config) (f : str) : jobj :=
  match obj_get f (c_field_options cfg) with Some o => o | None => [] end.

(* the kind a match-family clause takes from the options: match_type, else type ("for backward compatibility") *)
Definition kind_option (o : jobj) : option json :=
  match obj_get kw_match_type o with Some v => Some v | None => obj_get kw_type o end.
Definition match_kind (cfg : es_config) (f : str) (default : str) : str :=
  match kind_option (options_of cfg f) with
  | Some (JStr m) => m
  | Some _ => default          (* not a str: the builder raises TypeError; excluded by wf_config *)
  | None => default
  end.

(* the options that are parameters of the clause: match_type never is; type only next to a truthy match_type *)
Definition default_params (o : jobj) : jobj :=
  let rest := obj_remove kw_match_type o in
  match obj_get kw_match_type o with
  | Some v => if json_truthy v then rest else obj_remove kw_type rest
  | None => obj_remove kw_type rest
  end.

(* "They will be applied unless, overwritten by generated parameters": dict.update *)
Definition overwrite (defaults generated : jobj) : jobj :=
  fold_left (fun o kv => obj_set (fst kv) (snd kv) o) generated defaults.
(* reading aid: the value a list of generated parameters gives to k — the last one listed *)
Definition last_given (k : str) (g : jobj) : option json :=
  fold_left (fun acc kv => if str_eqb k (fst kv) then Some (snd kv) else acc) g None.
(* the converse, for the two wildcard switches of query_string: the value applies unless the options give one *)
Definition unless_given (k : str) (v : json) (o : jobj) : jobj := if obj_has k o then o else o ++ [(k, v)].

(* ---------------------------------------------------------------- modifiers *)
Definition boost_of (m : modifier) : option dec := match m with MBoost f => Some f | _ => None end.
Definition fuzziness_of (m : modifier) : option dec := match m with MFuzziness d => Some d | _ => None end.
Definition slop_of (m : modifier) : option dec := match m with MSlop d => Some d | _ => None end.
(* the OUTERMOST modifier of a sort wins (the list is innermost first) *)
Definition outermost (pick : modifier -> option dec) (ms : list modifier) : option dec :=
  fold_left (fun acc m => match pick m with Some x => Some x | None => acc end) ms None.

Definition param (k : str) (v : option json) : jobj := match v with Some j => [(k, j)] | None => [] end.

(* boost, fuzziness, _name: the same for every kind *)
Definition mod_params (boost fuzziness : option dec) (name : option str) : jobj :=
  param kw_boost (option_map JNum boost) ++ param kw_fuzziness (option_map JNum fuzziness) ++
  param kw_name (option_map JStr name).
Definition modifier_params (d : tdesc) : jobj :=
  mod_params (outermost boost_of (d_mods d)) (outermost fuzziness_of (d_mods d)) (d_name d).
Definition under_fuzziness (d : tdesc) : bool :=
  match outermost fuzziness_of (d_mods d) with Some _ => true | None => false end.

Definition ztq (d : tdesc) : str := if d_conj d then kw_all else kw_none.

(* ---------------------------------------------------------------- layout *)
(* query_string and multi_match address their field(s) through parameters, every other kind has a field level *)
Definition layout (kind f : str) (params : jobj) : json :=
  if str_eqb kind kw_query_string || str_eqb kind kw_multi_match
  then JObj [(kind, JObj params)]
  else JObj [(kind, JObj [(f, JObj params)])].

(* the parameters that carry the text q, by kind (z = the zero_terms_query of the term) *)
Definition text_params (kind f q z : str) : jobj :=
  if contains kw_match kind then
    (kw_query, JStr q) :: (if str_eqb kind kw_match then [(kw_zero_terms_query, JStr z)] else [])
  else if str_eqb kind kw_query_string then [(kw_query, JStr q); (kw_default_field, JStr f)]
  else [(kw_value, JStr q)].

Definition wildcard_switches (kind : str) (o : jobj) : jobj :=
  if str_eqb kind kw_query_string
  then unless_given kw_allow_leading_wildcard (JBool true) (unless_given kw_analyze_wildcard (JBool true) o)
  else o.

(* a clause of kind `kind` carrying the text q (+ `extra`: the slop of a phrase) *)
Definition text_clause (cfg : es_config) (d : tdesc) (kind q : str) (extra : jobj) : json :=
  let f := field_of d in
  layout kind f
    (overwrite
       (wildcard_switches kind
          (overwrite (default_params (options_of cfg f)) (modifier_params d ++ text_params kind f q (ztq d))))
       extra).

(* ---------------------------------------------------------------- the rows *)
(* a word, or the text of a phrase on a not-analysed field *)
Definition word_clause (cfg : es_config) (d : tdesc) (q : str) : json :=
  let f := field_of d in
  if str_eqb q kw_star then
    JObj [(kw_exists, JObj ((kw_field, JStr f) :: param kw_name (option_map JStr (d_name d))))]
  else
    let kind :=
      if unescaped_wildcard q then (if analysed cfg f then kw_query_string else kw_wildcard)
      else if under_fuzziness d then kw_fuzzy
      else if analysed cfg f
           then match_kind cfg f (if c_match_word_as_phrase cfg then kw_match_phrase else kw_match)
           else kw_term in
    text_clause cfg d kind q [].

(* a phrase on an analysed field; q = its normalised text *)
Definition phrase_clause (cfg : es_config) (d : tdesc) (q : str) : json :=
  let kind := if under_fuzziness d then kw_fuzzy else match_kind cfg (field_of d) kw_match_phrase in
  text_clause cfg d kind q (param kw_slop (option_map JNum (outermost slop_of (d_mods d)))).

Definition unbounded (v : str) : bool := match v with [] => true | _ => str_eqb v kw_star end.
Definition bound_param (key v : str) : jobj := if unbounded v then [] else [(key, JStr v)].

Definition range_clause (cfg : es_config) (d : tdesc) (lo : str) (il : bool) (hi : str) (ih : bool) : json :=
  let f := field_of d in
  layout (if under_fuzziness d then kw_fuzzy else kw_range) f
    (overwrite (default_params (options_of cfg f))
       (modifier_params d ++
        bound_param (if ih then kw_lte else kw_lt) hi ++ bound_param (if il then kw_gte else kw_gt) lo)).

(* THE TABLE *)
Definition spec_clause (cfg : es_config) (d : tdesc) : json :=
  match d_term d with
  | QWord v => word_clause cfg d v
  | QPhrase v =>
      if analysed cfg (field_of d)
      then phrase_clause cfg d (between_quotes (collapse_blanks v))
      else word_clause cfg d (between_quotes v)
  | QRange lo il hi ih => range_clause cfg d lo il hi ih
  end.

(* ---------------------------------------------------------------- the terms of a tree *)
(* the text of a range bound: a word or a phrase as it is written (a phrase keeps its quotes), `-x` for a bound
   under - *)
Definition bound_text (b : item) : option str :=
  match b with
  | Term _ _ v => Some v
  | Unary KProhibit _ (Term _ _ v) => Some (c_minus :: v)
  | _ => None
  end.

(* AND, the implicit operation when the default operator is not "should", and + *)
Definition conjunction (cfg : es_config) (t : item) : bool :=
  match t with
  | Op KAnd _ _ => true
  | Op KUnknown _ _ => match c_default_operator cfg with DShould => false | _ => true end
  | Unary KPlus _ _ => true
  | _ => false
  end.

Definition add_modifier (m : modifier) (d : tdesc) : tdesc :=
  mkT (d_term d) (d_fields d) (d_mods d ++ [m]) (d_conj d) (d_name d).
Definition under_conjunction (d : tdesc) : tdesc :=
  mkT (d_term d) (d_fields d) (d_mods d) true (d_name d).

(* The terms of the tree in document order, each with its field, the ~ / ^ that apply to it (a ~ / ^ applies to the
   SINGLE term below it, through parentheses, field wrappers and other modifiers: EsSpec.single_leaf), whether it
   is a direct item of a conjunction (EsSpec.direct_leaf: single, and no nested clause in between) and its name.
   Same traversal as EsSpec.xl, but it produces DESCRIPTIONS of what is written in the query, not E-items. *)
Fixpoint xt (cfg : es_config) (t : item) (cx : ectx) : list tdesc :=
  let cx' := propagate_name t cx in
  let sub (c : item) :=
    if conjunction cfg t && direct_leaf cfg (field_prefix cx') c
    then map under_conjunction (xt cfg c cx') else xt cfg c cx' in
  match t with
  | Term KWord _ v => [mkT (QWord v) (ctx_fields cfg cx) [] false (get_name t cx)]
  | Term KPhrase _ v => [mkT (QPhrase v) (ctx_fields cfg cx) [] false (get_name t cx)]
  | Term KRegex _ _ => []
  | Range _ lo hi il ih =>
      match bound_text lo, bound_text hi with
      | Some vlo, Some vhi => [mkT (QRange vlo il vhi ih) (ctx_fields cfg cx) [] false (get_name t cx)]
      | _, _ => []
      end
  | SearchField _ n e => xt cfg e (field_ctx cfg t n cx)
  | Grp _ _ e => xt cfg e cx'
  | Boost _ e f _ =>
      if single_leaf e then map (add_modifier (MBoost f)) (xt cfg e cx') else xt cfg e cx'
  | Fuzzy _ x dg _ =>
      if single_leaf x then map (add_modifier (MFuzziness dg)) (xt cfg x cx') else xt cfg x cx'
  | Proximity _ x z _ =>
      if single_leaf x
      then map (add_modifier (if ctx_is_analyzed cfg cx then MSlop (dec_of_Z z) else MFuzziness (dec_of_Z z)))
               (xt cfg x cx')
      else xt cfg x cx'
  | Op _ _ ops => (fix go (l : list item) : list tdesc :=
                     match l with [] => [] | c :: l' => sub c ++ go l' end) ops
  | Unary _ _ a => sub a
  | ORange _ _ a _ => xt cfg a cx'
  | NoneItem _ => []
  end.

Definition expected_terms (cfg : es_config) (t : item) : list tdesc := xt cfg t ctx0.

(* the clauses the table predicts for a tree *)
Definition table_clauses (cfg : es_config) (t : item) : list json :=
  map (spec_clause cfg) (expected_terms cfg t).

(* ---------------------------------------------------------------- the domain of the table theorem *)
(* no run of three backslashes in the text of a word / phrase.  (The builder finds wildcards with the regular
   expression ((?<=[^\\])[?*]|\\\\[?*]|^[?*]), which reads `\\\*` — an escaped backslash, then an escaped * — as a
   wildcard: on such texts it deviates from "unescaped * or ?".) *)
Fixpoint no_backslash_run3 (s : str) : bool :=
  match s with
  | a :: ((b :: c :: _) as s') =>
      negb (N.eqb a 92%N && N.eqb b 92%N && N.eqb c 92%N) && no_backslash_run3 s'
  | _ => true
  end.

Definition desc_ok (cfg : es_config) (d : tdesc) : bool :=
  match d_term d with
  | QWord v => no_backslash_run3 v
  | QPhrase v =>
      (* a phrase on an analysed field is never searched for wildcards *)
      analysed cfg (field_of d) || no_backslash_run3 (between_quotes v)
  | QRange _ _ _ _ => true
  end.

(* the same on a tree: every word / phrase outside range bounds *)
Fixpoint texts_plain (t : item) : bool :=
  match t with
  | Term _ _ v => no_backslash_run3 v
  | NoneItem _ | Range _ _ _ _ _ => true
  | SearchField _ _ e | Grp _ _ e | Boost _ e _ _ => texts_plain e
  | Fuzzy _ x _ _ | Proximity _ x _ _ => texts_plain x
  | Unary _ _ a | ORange _ _ a _ => texts_plain a
  | Op _ _ ops => (fix go (l : list item) : bool :=
                     match l with [] => true | c :: l' => texts_plain c && go l' end) ops
  end.

(* every term of the tree is in the domain of the table theorem (executable; implied by texts_plain) *)
Definition terms_in_table (cfg : es_config) (t : item) : bool :=
  forallb (desc_ok cfg) (expected_terms cfg t).
