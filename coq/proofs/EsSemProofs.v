(* EsSemProofs.v — lemmas relating the Elasticsearch query builder model (EsBuild.v) to the reference
   semantics (EsSem.v).  Used by props/C05.v. *)
Require Import Base Decimal Tree GenTree GenVisitors GenChars Visitor Json EsSpecs EsCheck EsBuild EsSpec
               EsSem TreeInd EsProofs.
From Coq Require Import Lia.

(* ---------------------------------------------------------------- outcomes *)
Definition documented_inconsistency (e : es_exc) : Prop := e = XNested \/ e = XObject \/ e = XMix.

(* on supported trees the builder raises nothing but the three documented exceptions *)
Lemma build_exc_documented cfg t e :
  supported t = true -> wf_config cfg = true -> build cfg t = RExc e -> documented_inconsistency e.
Proof.
  intros Hs Hwf Hb. pose proof (build_spec cfg t Hs Hwf) as H.
  destruct (check_nested (ev_chk (mk_env cfg)) t) as [e'|] eqn:Hc.
  - rewrite H in Hb. inversion Hb; subst. apply chk_go_kind in Hc. destruct Hc; subst; red; auto.
  - destruct (mixb cfg t).
    + rewrite H in Hb. inversion Hb; subst. red; auto.
    + destruct H as [j Hj]. rewrite Hj in Hb. discriminate.
Qed.

(* ================================================================ A. leaves that differ in boost / name / ztq *)
Section Strip.
  Variable K : str -> bool.
  Definition stripK (o : jobj) : jobj := filter (fun kv => negb (K (fst kv))) o.

  Lemma stripK_set_sem k v o : K k = true -> stripK (obj_set k v o) = stripK o.
  Proof.
    intros Hk. induction o as [|[k' v'] o IH]; simpl.
    - rewrite Hk. reflexivity.
    - destruct (str_eqb k k') eqn:He; simpl.
      + apply str_eqb_eq in He. subst k'. rewrite Hk. reflexivity.
      + rewrite IH. reflexivity.
  Qed.

  Lemma stripK_set_other k v o o' :
    K k = false -> stripK o = stripK o' -> stripK (obj_set k v o) = stripK (obj_set k v o').
  Proof.
    intros Hk. revert o'. induction o as [|[k1 v1] o IH]; intros o' H.
    - induction o' as [|[k2 v2] o' IH']; [reflexivity|].
      simpl in H. destruct (K k2) eqn:H2; simpl in H; [|discriminate].
      simpl. destruct (str_eqb k k2) eqn:He.
      + apply str_eqb_eq in He. subst. congruence.
      + simpl. rewrite H2. simpl. apply IH'. exact H.
    - simpl in H. destruct (K k1) eqn:H1; simpl in H.
      + simpl. destruct (str_eqb k k1) eqn:He.
        * apply str_eqb_eq in He. subst. congruence.
        * simpl. rewrite H1. simpl. apply IH. exact H.
      + induction o' as [|[k2 v2] o' IH']; [discriminate|].
        simpl in H. destruct (K k2) eqn:H2; simpl in H.
        * simpl (obj_set k v ((k2, v2) :: o')). destruct (str_eqb k k2) eqn:He.
          { apply str_eqb_eq in He. subst. congruence. }
          simpl. rewrite H2. simpl. apply IH'. exact H.
        * inversion H; subst k2 v2. simpl. destruct (str_eqb k k1) eqn:He; simpl; rewrite H1; simpl.
          { f_equal. assumption. }
          { f_equal. apply IH. assumption. }
  Qed.

  Lemma obj_get_stripK k (o : jobj) : K k = false -> obj_get k (stripK o) = obj_get k o.
  Proof.
    intros Hk. induction o as [|[k' v'] o IH]; simpl; [reflexivity|].
    destruct (K k') eqn:H1; simpl.
    - destruct (str_eqb k k') eqn:He; [|exact IH].
      apply str_eqb_eq in He. subst. congruence.
    - destruct (str_eqb k k'); [reflexivity|exact IH].
  Qed.

  Lemma obj_get_stripK_eq k (o o' : jobj) :
    K k = false -> stripK o = stripK o' -> obj_get k o = obj_get k o'.
  Proof. intros Hk H. rewrite <- (obj_get_stripK k o Hk), <- (obj_get_stripK k o' Hk), H. reflexivity. Qed.
End Strip.

Definition sem_key (k : str) : bool := mem_str k not_semantics.
Lemma strip_opts_K o : strip_opts o = stripK sem_key o.
Proof. reflexivity. Qed.
Definition leaf_sim (l l' : leaf) : Prop :=
  l_kind l = l_kind l' /\ l_method l = l_method l' /\ l_fields l = l_fields l' /\ l_q l = l_q l' /\
  l_bounds l = l_bounds l' /\ l_fuzzy l = l_fuzzy l' /\ l_slop l = l_slop l' /\
  l_addkeys l = l_addkeys l'.

Lemma leaf_sim_refl l : leaf_sim l l.
Proof. repeat split. Qed.

Lemma leaf_sim_trans a b c : leaf_sim a b -> leaf_sim b c -> leaf_sim a c.
Proof. unfold leaf_sim. intuition congruence. Qed.

Lemma leaf_sim_sym a b : leaf_sim a b -> leaf_sim b a.
Proof. unfold leaf_sim. intuition congruence. Qed.

Lemma add_key_sim l l' m a b key :
  leaf_sim l l' -> stripK sem_key a = stripK sem_key b ->
  stripK sem_key (add_key l m a key) = stripK sem_key (add_key l' m b key).
Proof.
  intros (Hk & Hm & Hf & Hq & Hb & Hfz & Hs & Ha) H.
  destruct (str_eqb key k_boost) eqn:E1.
  { apply str_eqb_eq in E1. subst key. unfold add_key.
    change (leaf_attr l k_boost) with (option_map JNum (l_boost l)).
    change (leaf_attr l' k_boost) with (option_map JNum (l_boost l')).
    change (str_eqb k_boost k_q) with false. cbv iota.
    destruct (l_boost l) as [x|], (l_boost l') as [y|]; simpl option_map; cbv iota;
      try rewrite (stripK_set_sem sem_key k_boost (JNum x) a eq_refl);
      try rewrite (stripK_set_sem sem_key k_boost (JNum y) b eq_refl); exact H. }
  destruct (str_eqb key k_name) eqn:E2.
  { apply str_eqb_eq in E2. subst key. unfold add_key.
    change (leaf_attr l k_name) with (option_map JStr (l_name l)).
    change (leaf_attr l' k_name) with (option_map JStr (l_name l')).
    change (str_eqb k_name k_q) with false. cbv iota.
    destruct (l_name l) as [x|], (l_name l') as [y|]; simpl option_map; cbv iota;
      try rewrite (stripK_set_sem sem_key k_name (JStr x) a eq_refl);
      try rewrite (stripK_set_sem sem_key k_name (JStr y) b eq_refl); exact H. }
  assert (Hattr : leaf_attr l key = leaf_attr l' key).
  { unfold leaf_attr. rewrite E1, E2, Hfz, Hq, Hs, Hb. reflexivity. }
  unfold add_key. rewrite <- Hattr. destruct (leaf_attr l key) as [v|]; [|exact H].
  assert (Hlf : leaf_field l = leaf_field l') by (unfold leaf_field; rewrite Hf; reflexivity).
  destruct (str_eqb key k_q).
  - destruct (contains k_match m).
    + destruct (str_eqb m k_match).
      * rewrite (stripK_set_sem sem_key k_zero_terms_query (JStr (l_ztq l)) _ eq_refl),
                (stripK_set_sem sem_key k_zero_terms_query (JStr (l_ztq l')) _ eq_refl).
        apply stripK_set_other; [reflexivity|exact H].
      * apply stripK_set_other; [reflexivity|exact H].
    + destruct (str_eqb m k_query_string).
      * rewrite <- Hlf.
        set (a2 := obj_set k_default_field (JStr (leaf_field l)) (obj_set k_query v a)).
        set (b2 := obj_set k_default_field (JStr (leaf_field l)) (obj_set k_query v b)).
        assert (H2 : stripK sem_key a2 = stripK sem_key b2).
        { apply stripK_set_other; [reflexivity|]. apply stripK_set_other; [reflexivity|exact H]. }
        assert (G1 : obj_get_default k_analyze_wildcard (JBool true) a2 =
                     obj_get_default k_analyze_wildcard (JBool true) b2).
        { unfold obj_get_default. rewrite (obj_get_stripK_eq sem_key k_analyze_wildcard a2 b2 eq_refl H2). reflexivity. }
        rewrite G1.
        set (a3 := obj_set k_analyze_wildcard _ a2). set (b3 := obj_set k_analyze_wildcard _ b2).
        assert (H3 : stripK sem_key a3 = stripK sem_key b3).
        { apply stripK_set_other; [reflexivity|exact H2]. }
        assert (G2 : obj_get_default k_allow_leading_wildcard (JBool true) a3 =
                     obj_get_default k_allow_leading_wildcard (JBool true) b3).
        { unfold obj_get_default. rewrite (obj_get_stripK_eq sem_key k_allow_leading_wildcard a3 b3 eq_refl H3). reflexivity. }
        rewrite G2. apply stripK_set_other; [reflexivity|exact H3].
      * apply stripK_set_other; [reflexivity|exact H].
  - destruct (sem_key key) eqn:Ek.
    + rewrite (stripK_set_sem sem_key key v a Ek), (stripK_set_sem sem_key key v b Ek). exact H.
    + apply stripK_set_other; [exact Ek|exact H].
Qed.

Lemma fold_add_key_sim l l' m keys : forall a b,
  leaf_sim l l' -> stripK sem_key a = stripK sem_key b ->
  stripK sem_key (fold_left (add_key l m) keys a) = stripK sem_key (fold_left (add_key l' m) keys b).
Proof.
  induction keys as [|k keys IH]; intros a b Hs H; simpl; [exact H|].
  apply IH; [exact Hs|]. apply add_key_sim; assumption.
Qed.

Definition onorm (r : eres json) : option json :=
  match r with ROk j => Some (norm_clause j) | RExc _ => None end.

Lemma leaf_method_sim cfg l l' : leaf_sim l l' -> leaf_method cfg l = leaf_method cfg l'.
Proof.
  intros (Hk & Hm & Hf & Hq & _). unfold leaf_method, leaf_has_wildcard, leaf_field.
  rewrite Hk, Hm, Hf, Hq. reflexivity.
Qed.

Lemma leaf_json_sim cfg l l' : leaf_sim l l' -> onorm (leaf_json cfg l) = onorm (leaf_json cfg l').
Proof.
  intros Hs. pose proof Hs as (Hk & Hm & Hf & Hq & Hb & Hfz & Hsl & Ha).
  unfold leaf_json. rewrite <- (leaf_method_sim cfg l l' Hs).
  assert (Hlf : leaf_field l = leaf_field l') by (unfold leaf_field; rewrite Hf; reflexivity).
  rewrite <- Hlf, <- Hk, <- Hq.
  destruct (match l_kind l, l_q l with LWord, Some q => str_eqb q k_star | _, _ => false end).
  - destruct (l_name l), (l_name l'); reflexivity.
  - destruct (leaf_method cfg l) as [| | |m| |]; try reflexivity.
    pose proof (fold_add_key_sim l l' m (class_keys (l_kind l) ++ l_addkeys l)
                  (base_options cfg (leaf_field l)) (base_options cfg (leaf_field l)) Hs eq_refl) as Hin.
    rewrite <- Ha.
    set (ia := fold_left (add_key l m) _ _) in *. set (ib := fold_left (add_key l' m) _ _) in *.
    destruct (str_eqb m k_query_string || str_eqb m k_multi_match); unfold onorm, norm_clause.
    + rewrite !strip_opts_K, Hin. reflexivity.
    + rewrite (strip_opts_K [(leaf_field l, JObj ia)]), (strip_opts_K [(leaf_field l, JObj ib)]).
      unfold stripK at 1 2. cbn [filter fst].
      destruct (sem_key (leaf_field l)); cbn [negb map fst snd]; [reflexivity|].
      rewrite !strip_opts_K, Hin. reflexivity.
Qed.

(* ================================================================ B. reading the builder's JSON *)
Definition is_leaf_clause (j : json) : bool :=
  match j with
  | JObj [(m, JObj _)] => negb (str_eqb m k_bool) && negb (str_eqb m k_nested)
  | _ => false
  end.

Lemma es_eval_leaf np j lvl d :
  is_leaf_clause j = true -> es_eval np j lvl d = clause_holds np j lvl d.
Proof.
  destruct j as [| | | | |o]; try (intros H; discriminate H).
  destruct o as [|[m v] [|? ?]]; try (intros H; discriminate H);
    destruct v; try (intros H; discriminate H).
  simpl is_leaf_clause. intros H. apply andb_prop in H as [H1 H2].
  apply negb_true_iff in H1. apply negb_true_iff in H2.
  cbn [es_eval]. rewrite H1, H2. reflexivity.
Qed.

(* the clauses of a bool query under one key, evaluated *)
Definition part (np : list str) (lvl : level) (d : doc) :=
  fix part (key : str) (o : list (str * json)) : list bool :=
    match o with
    | [] => []
    | (k', v) :: o' =>
        if str_eqb key k'
        then match v with
             | JList l => (fix evs (l : list json) : list bool :=
                             match l with [] => [] | q :: l' => es_eval np q lvl d :: evs l' end) l
             | _ => [es_eval np v lvl d]
             end
        else part key o'
    end.

Lemma es_eval_bool np body lvl d :
  es_eval np (JObj [(k_bool, JObj body)]) lvl d =
  bool_matches (part np lvl d k_must body ++ part np lvl d k_filter body) (part np lvl d k_should body)
               (part np lvl d k_must_not body).
Proof. reflexivity. Qed.

Lemma evs_map np lvl d l :
  (fix evs (l : list json) : list bool :=
     match l with [] => [] | q :: l' => es_eval np q lvl d :: evs l' end) l
  = map (fun q => es_eval np q lvl d) l.
Proof. induction l as [|q l IH]; simpl; [reflexivity|]. rewrite IH. reflexivity. Qed.

Lemma part_hit np lvl d key l o :
  part np lvl d key ((key, JList l) :: o) = map (fun q => es_eval np q lvl d) l.
Proof. simpl. rewrite str_eqb_refl. apply evs_map. Qed.

Lemma part_miss np lvl d key k' v o :
  str_eqb key k' = false -> part np lvl d key ((k', v) :: o) = part np lvl d key o.
Proof. intros H. simpl. rewrite H. reflexivity. Qed.

Lemma es_eval_nested np p jq rest lvl d :
  es_eval np (JObj [(k_nested, JObj ((k_path, JStr p) :: (k_query, jq) :: rest))]) lvl d =
  existsb (fun ob => es_eval np jq (split_on c_dot p) ob) (objects_at np lvl (split_on c_dot p) d).
Proof. reflexivity. Qed.

(* ---- the same reading on E-items *)
Definition eparts (ev : eitem -> bool) :=
  fix go (items : list eitem) : list bool * list bool * list bool :=
    match items with
    | [] => ([], [], [])
    | it :: l' =>
        let '(m2, s2, n2) := go l' in
        match it with
        | EOp EKMust sub => (map ev sub ++ m2, s2, n2)
        | EOp EKMustNot sub => (m2, s2, map ev sub ++ n2)
        | _ => (m2, ev it :: s2, n2)
        end
    end.

Fixpoint eeval (cfg : es_config) (np : list str) (e : eitem) (lvl : level) (d : doc) {struct e} : bool :=
  match e with
  | ELeaf l => match leaf_json cfg l with ROk j => clause_holds np j lvl d | RExc _ => false end
  | ENested p _ it =>
      existsb (fun ob => eeval cfg np it (split_on c_dot p) ob) (objects_at np lvl (split_on c_dot p) d)
  | EOp k items =>
      let ev := fun x => eeval cfg np x lvl d in
      match k with
      | EKMust => bool_matches (map ev items) [] []
      | EKShould => bool_matches [] (map ev items) []
      | EKMustNot => bool_matches [] [] (map ev items)
      | EKBool => let '(m, s, n) := eparts ev items in bool_matches m s n
      end
  end.

Definition good_leaf (l : leaf) : bool :=
  mem_str (l_method l) [k_term; k_match; k_match_phrase; k_range; k_fuzzy].
Fixpoint egood (e : eitem) : bool :=
  match e with
  | ELeaf l => good_leaf l
  | ENested _ _ it => egood it
  | EOp _ items => forallb egood items
  end.

Lemma field_opts_sem cfg field :
  sem_config cfg = true ->
  not_structural (obj_get k_match_type (field_opts cfg field)) = true /\
  not_structural (obj_get k_type (field_opts cfg field)) = true.
Proof.
  intros Hs. unfold field_opts. destruct (obj_get field (c_field_options cfg)) as [o|] eqn:Ho.
  - apply obj_get_in in Ho as [k' Hin]. unfold sem_config in Hs. rewrite forallb_forall in Hs.
    specialize (Hs _ Hin). simpl in Hs. apply andb_prop in Hs. exact Hs.
  - split; reflexivity.
Qed.

Lemma leaf_method_not_structural cfg l m :
  sem_config cfg = true -> good_leaf l = true -> leaf_method cfg l = JStr m ->
  mem_str m k_structural = false.
Proof.
  intros Hs Hg. unfold leaf_method.
  destruct (field_opts_sem cfg (leaf_field l) Hs) as [H1 H2].
  assert (Hgm : mem_str (l_method l) k_structural = false).
  { unfold good_leaf in Hg. simpl in Hg.
    repeat (apply orb_prop in Hg as [Hg|Hg]; [apply str_eqb_eq in Hg; rewrite Hg; reflexivity|]).
    discriminate. }
  destruct (negb (negb (mem_str (leaf_field l) (c_not_analyzed cfg))) && leaf_has_wildcard l);
    [intros H; inversion H; reflexivity|].
  destruct (negb (mem_str (leaf_field l) (c_not_analyzed cfg)) && leaf_has_wildcard l);
    [intros H; inversion H; reflexivity|].
  destruct (negb (mem_str (leaf_field l) (c_not_analyzed cfg)) && starts_with k_match (l_method l));
    [|intros H; inversion H; subst; exact Hgm].
  destruct (obj_get k_match_type (field_opts cfg (leaf_field l))) as [v|].
  - intros H. subst v. simpl in H1. apply negb_true_iff in H1. exact H1.
  - destruct (obj_get k_type (field_opts cfg (leaf_field l))) as [v|].
    + intros H. subst v. simpl in H2. apply negb_true_iff in H2. exact H2.
    + intros H; inversion H; subst; exact Hgm.
Qed.

Lemma leaf_json_clause cfg l j :
  sem_config cfg = true -> good_leaf l = true -> leaf_json cfg l = ROk j -> is_leaf_clause j = true.
Proof.
  intros Hs Hg. unfold leaf_json.
  destruct (match l_kind l, l_q l with LWord, Some q => str_eqb q k_star | _, _ => false end).
  - intros H. inversion H. reflexivity.
  - destruct (leaf_method cfg l) as [| | |m| |] eqn:Hm; try discriminate.
    pose proof (leaf_method_not_structural cfg l m Hs Hg Hm) as Hn.
    simpl in Hn. apply orb_false_elim in Hn as [Hn1 Hn2]. apply orb_false_elim in Hn2 as [Hn2 _].
    destruct (str_eqb m k_query_string || str_eqb m k_multi_match);
      intros H; inversion H; simpl; rewrite Hn1, Hn2; reflexivity.
Qed.

Lemma jmap_inv (f : eitem -> eres json) items : forall js,
  jmap f items = ROk js -> Forall2 (fun it j => f it = ROk j) items js.
Proof.
  induction items as [|it items IH]; simpl; intros js H.
  - inversion H. constructor.
  - destruct (f it) as [j|] eqn:Hj; [|discriminate].
    destruct (jmap f items) as [js'|]; [|discriminate]. inversion H; subst.
    constructor; [exact Hj|apply IH; reflexivity].
Qed.

(* the items EBoolOperation.json puts under must / should / must_not *)
Fixpoint epart_items (items : list eitem) : list eitem * list eitem * list eitem :=
  match items with
  | [] => ([], [], [])
  | it :: l' =>
      let '(m2, s2, n2) := epart_items l' in
      match it with
      | EOp EKMust sub => (sub ++ m2, s2, n2)
      | EOp EKMustNot sub => (m2, s2, sub ++ n2)
      | _ => (m2, it :: s2, n2)
      end
  end.

Lemma eparts_items ev items :
  eparts ev items = let '(Mx, Sx, Nx) := epart_items items in (map ev Mx, map ev Sx, map ev Nx).
Proof.
  induction items as [|it items IH]; [reflexivity|].
  simpl. rewrite IH. destruct (epart_items items) as [[Mx Sx] Nx].
  destruct it as [l|p n it'|[] sub]; simpl; rewrite ?map_app; reflexivity.
Qed.

Lemma Forall2_app_R {A B} (R : A -> B -> Prop) a1 a2 b1 b2 :
  Forall2 R a1 b1 -> Forall2 R a2 b2 -> Forall2 R (a1 ++ a2) (b1 ++ b2).
Proof. induction 1; simpl; intros H2; [exact H2|constructor; auto]. Qed.

Lemma bool_parts_inv (f : eitem -> eres json) items : forall m s n,
  bool_parts f items = ROk (m, s, n) ->
  let '(Mx, Sx, Nx) := epart_items items in
  Forall2 (fun it j => f it = ROk j) Mx m /\ Forall2 (fun it j => f it = ROk j) Sx s /\
  Forall2 (fun it j => f it = ROk j) Nx n.
Proof.
  induction items as [|it items IH]; intros m s n H.
  - simpl in H. inversion H. simpl. repeat split; constructor.
  - simpl in H. simpl epart_items. destruct (epart_items items) as [[Mx Sx] Nx].
    destruct it as [l|p nm it'|k sub].
    + destruct (f (ELeaf l)) as [j|] eqn:Hj; [|discriminate].
      destruct (bool_parts f items) as [[[m2 s2] n2]|]; [|discriminate]. inversion H; subst.
      destruct (IH _ _ _ eq_refl) as (H1 & H2 & H3). repeat split; auto.
    + destruct (f (ENested p nm it')) as [j|] eqn:Hj; [|discriminate].
      destruct (bool_parts f items) as [[[m2 s2] n2]|]; [|discriminate]. inversion H; subst.
      destruct (IH _ _ _ eq_refl) as (H1 & H2 & H3). repeat split; auto.
    + destruct k.
      * destruct (jmap f sub) as [js|] eqn:Hj; [|discriminate].
        destruct (bool_parts f items) as [[[m2 s2] n2]|]; [|discriminate]. inversion H; subst.
        destruct (IH _ _ _ eq_refl) as (H1 & H2 & H3). repeat split; auto.
        apply Forall2_app_R; [apply jmap_inv; exact Hj|exact H1].
      * destruct (f (EOp EKShould sub)) as [j|] eqn:Hj; [|discriminate].
        destruct (bool_parts f items) as [[[m2 s2] n2]|]; [|discriminate]. inversion H; subst.
        destruct (IH _ _ _ eq_refl) as (H1 & H2 & H3). repeat split; auto.
      * destruct (jmap f sub) as [js|] eqn:Hj; [|discriminate].
        destruct (bool_parts f items) as [[[m2 s2] n2]|]; [|discriminate]. inversion H; subst.
        destruct (IH _ _ _ eq_refl) as (H1 & H2 & H3). repeat split; auto.
        apply Forall2_app_R; [apply jmap_inv; exact Hj|exact H3].
      * destruct (f (EOp EKBool sub)) as [j|] eqn:Hj; [|discriminate].
        destruct (bool_parts f items) as [[[m2 s2] n2]|]; [|discriminate]. inversion H; subst.
        destruct (IH _ _ _ eq_refl) as (H1 & H2 & H3). repeat split; auto.
Qed.

Section ReadJson.
  Variable cfg : es_config.
  Variable np : list str.

  Definition PJ (e : eitem) : Prop :=
    forall j lvl d, egood e = true -> ejson cfg e = ROk j -> es_eval np j lvl d = eeval cfg np e lvl d.
  Definition QJ (e : eitem) : Prop :=
    PJ e /\ match e with EOp _ sub => Forall PJ sub /\ (egood e = true -> forallb egood sub = true)
                    | _ => True end.

  Lemma map_eval items : forall js lvl d,
    Forall PJ items -> forallb egood items = true ->
    Forall2 (fun it j => ejson cfg it = ROk j) items js ->
    map (fun q => es_eval np q lvl d) js = map (fun x => eeval cfg np x lvl d) items.
  Proof.
    induction items as [|it items IH]; intros js lvl d HP Hg H2;
      inversion H2 as [|? j ? js' Hj Hjs]; subst; [reflexivity|].
    inversion HP as [|? ? HPit HPits]; subst. simpl in Hg. apply andb_prop in Hg as [Hg1 Hg2]. simpl.
    rewrite (HPit _ lvl d Hg1 Hj). f_equal. apply IH; assumption.
  Qed.

  Lemma epart_items_P items :
    Forall QJ items -> forallb egood items = true ->
    let '(Mx, Sx, Nx) := epart_items items in
    (Forall PJ Mx /\ forallb egood Mx = true) /\ (Forall PJ Sx /\ forallb egood Sx = true) /\
    (Forall PJ Nx /\ forallb egood Nx = true).
  Proof.
    induction items as [|it items IH]; intros HQ Hg.
    - simpl. repeat split; constructor.
    - inversion HQ as [|? ? [HP Hsub] HQ']; subst. simpl in Hg. apply andb_prop in Hg as [Hg1 Hg2].
      specialize (IH HQ' Hg2). simpl epart_items. destruct (epart_items items) as [[Mx Sx] Nx].
      destruct IH as ((M1 & M2) & (S1 & S2) & (N1 & N2)).
      destruct it as [l|p nm it'|k sub].
      + repeat split; auto. cbn [forallb]. rewrite Hg1, S2. reflexivity.
      + repeat split; auto. cbn [forallb]. rewrite Hg1, S2. reflexivity.
      + destruct Hsub as [Hsub Hgs]. specialize (Hgs Hg1). destruct k.
        * repeat split; auto; [apply Forall_app; auto|rewrite forallb_app, Hgs, M2; reflexivity].
        * repeat split; auto. cbn [forallb]. rewrite Hg1, S2. reflexivity.
        * repeat split; auto; [apply Forall_app; auto|rewrite forallb_app, Hgs, N2; reflexivity].
        * repeat split; auto. cbn [forallb]. rewrite Hg1, S2. reflexivity.
  Qed.

  Lemma parts_of_bool lvl d m s n :
    let body := opt_entry k_must m ++ opt_entry k_should s ++ opt_entry k_must_not n in
    let es := map (fun q => es_eval np q lvl d) in
    part np lvl d k_must body = es m /\ part np lvl d k_filter body = [] /\
    part np lvl d k_should body = es s /\ part np lvl d k_must_not body = es n.
  Proof.
    destruct m, s, n; repeat split; cbn -[es_eval]; rewrite ?evs_map; reflexivity.
  Qed.

  Hypothesis Hsem : sem_config cfg = true.

  Lemma read_json : forall e, QJ e.
  Proof.
    intros e. induction e as [l|p nm it [IH _]|k items IH] using eitem_ind'.
    - split; [|exact I]. intros j lvl d Hg Hj. simpl in Hg, Hj. simpl. rewrite Hj.
      apply es_eval_leaf. eapply leaf_json_clause; eauto.
    - split; [|exact I]. intros j lvl d Hg Hj. simpl in Hg, Hj.
      destruct (ejson cfg it) as [j'|] eqn:Hj'; [|discriminate]. inversion Hj; subst j.
      simpl app. rewrite es_eval_nested. simpl eeval. apply existsb_ext_in. intros ob _.
      apply IH; [exact Hg|exact Hj'].
    - assert (HP : Forall PJ items).
      { rewrite Forall_forall in *. intros x Hx. exact (proj1 (IH x Hx)). }
      split; [|split; [exact HP|intros Hg; exact Hg]].
      intros j lvl d Hg Hj. simpl in Hg.
      destruct k.
      + simpl in Hj. destruct (jmap (ejson cfg) items) as [js|] eqn:Hjs; [|discriminate].
        inversion Hj; subst j. rewrite es_eval_bool.
        change (op_key EKMust) with k_must. rewrite part_hit.
        rewrite !part_miss by reflexivity. simpl part. rewrite app_nil_r. simpl eeval.
        rewrite (map_eval items js lvl d HP Hg (jmap_inv _ _ _ Hjs)). reflexivity.
      + simpl in Hj. destruct (jmap (ejson cfg) items) as [js|] eqn:Hjs; [|discriminate].
        inversion Hj; subst j. rewrite es_eval_bool.
        change (op_key EKShould) with k_should. rewrite part_hit.
        rewrite !part_miss by reflexivity. simpl part. simpl eeval.
        rewrite (map_eval items js lvl d HP Hg (jmap_inv _ _ _ Hjs)). reflexivity.
      + simpl in Hj. destruct (jmap (ejson cfg) items) as [js|] eqn:Hjs; [|discriminate].
        inversion Hj; subst j. rewrite es_eval_bool.
        change (op_key EKMustNot) with k_must_not. rewrite part_hit.
        rewrite !part_miss by reflexivity. simpl part. simpl eeval.
        rewrite (map_eval items js lvl d HP Hg (jmap_inv _ _ _ Hjs)). reflexivity.
      + simpl in Hj. destruct (bool_parts (ejson cfg) items) as [[[m s] n]|] eqn:Hbp; [|discriminate].
        inversion Hj; subst j. rewrite es_eval_bool.
        destruct (parts_of_bool lvl d m s n) as (E1 & E2 & E3 & E4). rewrite E1, E2, E3, E4, app_nil_r.
        simpl eeval. rewrite eparts_items.
        pose proof (bool_parts_inv _ _ _ _ _ Hbp) as Hinv.
        pose proof (epart_items_P items IH Hg) as HPs.
        destruct (epart_items items) as [[Mx Sx] Nx].
        destruct Hinv as (I1 & I2 & I3). destruct HPs as ((M1 & M2) & (S1 & S2) & (N1 & N2)).
        rewrite (map_eval Mx m lvl d M1 M2 I1), (map_eval Sx s lvl d S1 S2 I2),
                (map_eval Nx n lvl d N1 N2 I3). reflexivity.
  Qed.

  Lemma es_eval_ejson e j lvl d :
    egood e = true -> ejson cfg e = ROk j -> es_eval np j lvl d = eeval cfg np e lvl d.
  Proof. intros Hg Hj. exact (proj1 (read_json e) j lvl d Hg Hj). Qed.
End ReadJson.
