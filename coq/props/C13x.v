(* C13x — the ROUND TRIP clause of C13 for a wider class than C13r.v: bracketed ranges and signed operands in
   juxtaposition (outside F4) are now INSIDE the proved guard.
   Only statements, short glue, non-vacuity examples, Print Assumptions.
   Guard: model/AhtRoundTripMore.v (`rt_ok2`, executable); lemmas: proofs/AhtRoundTripMoreProofs.v (which reuses the
   lexer-chain machinery of proofs/AhtRoundTripProofs.v) and, for the LR half, C03d_grammar_trees_parse.

   Clause of the property text -> statement
     "for any tree built without layout whose shape the grammar can express ... its printed form is accepted
      by the parser and parses to an equal tree"
          C13x_round_trip_partial_statement  forall t, rt_ok2 t = true -> roundtrips t             PROVED
          C13x_round_trip_tokens_statement   ... and the printed form lexes to the yield of the syntax tree
                                             `synq t` (a C03d `qtree`: well-formed, f4free, value t)  PROVED
          C13x_subsumes_C13r_statement       forall t, rt_ok t = true -> rt_ok2 t = true            PROVED
                                             (so C13_round_trip_partial of C13r.v is a corollary: C13x_implies_C13r)
          C13x_guard_excludes_f4_statement   inside rt_ok2 finding F4's predicate is false          PROVED

   `rt_ok2` = `rt_ok` of C13r.v with two exclusions lifted; the new components and why each is there (every
   witness below was replayed on the implementation, /repo at HEAD):
     (1) Range nodes.  A bound must be what `phrase_or_possibly_negative_term` derives:
           a Word that is one TERM lexeme and not reserved / a Phrase that is one lexeme / Prohibit of these.
         needed:  Range(Word('-1'), Word('5')) prints `[-1 TO 5]` = Range(Prohibit(Word('1')), Word('5')): the
                  Word('-1') is not a TERM lexeme (a TERM does not start with `-`)          C13x_bound_lexeme_needed
                  Range(Word('TO'), b), Range(a, Word('TO')): syntax errors                  C13x_bound_reserved_needed
                  Range(Plus(1), 5) `[+1 TO 5]`, Range(Prohibit(Prohibit(1)), 5) `[--1 TO 5]`,
                  Range(Regex, b), Range(Fuzzy, b), Range(Not(a), b): syntax errors          C13x_bound_form_needed
         inside:  Range(Prohibit(Word('1')), Word('5')), `{-"a b" TO -*}`, `[1 TO T12:30:45}`   C13x_bounds_inside
     (2) In an implicit operation an operand may start with `+`, `-` or the word TO unless the operand just
         before is an AND / OR operation, which is finding F4's pattern itself:
         needed:  C13x_f4_needed (a AND b -c, a OR b +c, a AND b TO);
         inside:  `a +b`, `-a -b TO`, `a -b OR c`, `a b -c`                                  C13x_signed_inside
   Still outside although it round-trips (validated only, harness/c13.py): degrees that are not canonical
   numerals, BoolOperation, trees with partial layout                                         C13x_still_outside *)
Require Import Base Decimal Tree GenTree GenVisitors GenParser Visitor Eq Traverse Print Lexer Actions LR Parser Erase Grammar.
Require Import AutoHeadTail AhtRoundTrip AhtRoundTripMore TreeInd TraverseProofs AutoHeadTailProofs AutoHeadTailRoundtrip.
Require Import PrecedenceProofs PrecedenceGeneral MeaningProofs GrammarMoreProofs AhtRoundTripProofs AhtRoundTripMoreProofs.
Require Import C03d C13 C13r.

(* ---------------------------------------------------------------- statements *)

(* the property's observation `parser.parse(str(auto_head_tail(t))) == t` (C13.roundtrips), for every tree
   within the wider guard *)
Definition C13x_round_trip_partial_statement : Prop := forall t, rt_ok2 t = true -> roundtrips t.

(* the same with what happens in between: the printed form has no lexical error and its (type, lexeme)
   sequence is the yield of a syntax tree of the documented grammar (ranges included) that is well-formed,
   satisfies C03d's guard and whose value is t *)
Definition C13x_round_trip_tokens_statement : Prop :=
  forall t, rt_ok2 t = true ->
    exists t' p, aht t = Some t' /\ snd (lex (print true t')) = None /\
                 map tok_key (fst (lex (print true t'))) = map tok_key (flq p) /\
                 wfs p = true /\ f4free p = true /\ valq p = erase t.

(* the new theorem subsumes the old one *)
Definition C13x_subsumes_C13r_statement : Prop := forall t, rt_ok t = true -> rt_ok2 t = true.

(* the guard contains not-F4 (C13.v's executable predicate of the finding) *)
Definition C13x_guard_excludes_f4_statement : Prop := forall t, rt_ok2 t = true -> f4_patternb t = false.

(* ---------------------------------------------------------------- theorems *)

Theorem C13x_round_trip_tokens : C13x_round_trip_tokens_statement.
Proof.
  intros t H. destruct (rt2_syntax t H) as [Ha [W [F [V [Hk He]]]]].
  exists (daht t), (synq t). auto 10.
Qed.

Theorem C13x_round_trip_partial : C13x_round_trip_partial_statement.
Proof.
  intros t H. destruct (rt2_syntax t H) as [Ha [W [F [V [Hk He]]]]].
  destruct (C03d_grammar_trees_parse (print true (daht t)) (synq t) He W F Hk) as [b [Hp [_ Hv]]].
  exists (daht t), b. split; [exact Ha|]. split; [exact Hp|].
  apply same_erase_item_eqb. rewrite Hv. exact V.
Qed.

Theorem C13x_subsumes_C13r : C13x_subsumes_C13r_statement.
Proof. exact rt_ok_rt_ok2. Qed.

(* C13r.v's theorem as a corollary of this one *)
Corollary C13x_implies_C13r : C13_round_trip_partial_statement.
Proof. intros t H. apply C13x_round_trip_partial. apply C13x_subsumes_C13r. exact H. Qed.

Theorem C13x_guard_excludes_f4 : C13x_guard_excludes_f4_statement.
Proof. intros t H. exact (rt2_no_f4 t 0 (rtx2_of_rt _ _ H)). Qed.

(* ---------------------------------------------------------------- the new guard components are needed *)
(* conjunctions only are split (never an equation: `split` on an equation would try to convert it) *)
Ltac conj_vm := repeat match goal with |- _ /\ _ => split end; vm_compute; reflexivity.
Definition w1 := W [49]%N. Definition w5 := W [53]%N.
Definition rng (lo hi : item) : item := Range meta0 lo hi true true.

(* (1a) Range(Word('-1'), Word('5')) prints `[-1 TO 5]`, which parses to Range(Prohibit(Word('1')), Word('5')):
   `-1` is not a TERM lexeme.  Same for Word('a]') (`[a] TO b]`: syntax error). *)
Definition bound_minus_word : item := rng (W [45;49]%N) w5.
Definition bound_bracket_word : item := rng (W [97;93]%N) wb.
Example C13x_bound_lexeme_needed :
  (rt_ok2 bound_minus_word = false /\ roundtripb bound_minus_word = false) /\
  (rt_ok2 bound_bracket_word = false /\ roundtripb bound_bracket_word = false) /\
  (exists t', aht bound_minus_word = Some t' /\
     exists b, parse (print true t') = Some (Ok b) /\
               erase b = rng (Unary KProhibit meta0 w1) w5).
Proof.
  split; [conj_vm|]. split; [conj_vm|].
  eexists. split; [vm_compute; reflexivity|]. eexists. split; vm_compute; reflexivity.
Qed.

(* (1b) the word TO is a term everywhere except as a range bound: `[TO TO b]`, `[a TO TO]` are syntax errors *)
Definition w_to := W [84;79]%N.
Example C13x_bound_reserved_needed :
  (rt_ok2 (rng w_to wb) = false /\ roundtripb (rng w_to wb) = false) /\
  (rt_ok2 (rng wa w_to) = false /\ roundtripb (rng wa w_to) = false) /\
  rt_ok2 w_to = true.
Proof. conj_vm. Qed.

(* (1c) no other node is a bound: `[+1 TO 5]`, `[--1 TO 5]`, `[/a/ TO b]`, `[a~1 TO b]`, `[NOT a TO b]` *)
Example C13x_bound_form_needed :
  map (fun t => (rt_ok2 t, roundtripb t))
    [ rng (Unary KPlus meta0 w1) w5;
      rng (Unary KProhibit meta0 (Unary KProhibit meta0 w1)) w5;
      rng (Term KRegex meta0 [47;97;47]%N) wb;
      rng (Fuzzy meta0 wa (mkDec false 1 0) false) wb;
      rng (Unary KNot meta0 wa) wb;
      rng wa (Unary KPlus meta0 wb) ]
  = [(false, false); (false, false); (false, false); (false, false); (false, false); (false, false)].
Proof. vm_compute. reflexivity. Qed.

(* what IS inside: [-1 TO 5]   {-"a b" TO -*}   [1 TO T12:30:45}   [* TO *]   ["a" TO b\]] *)
Definition bounds_in : list item :=
  [ rng (Unary KProhibit meta0 w1) w5;
    Range meta0 (Unary KProhibit meta0 (Term KPhrase meta0 [34;97;32;98;34]%N)) (Unary KProhibit meta0 (W [42]%N)) false false;
    Range meta0 w1 (W [84;49;50;58;51;48;58;52;53]%N) true false;
    rng (W [42]%N) (W [42]%N);
    rng (Term KPhrase meta0 [34;97;34]%N) (W [98;92;93]%N) ].
Example C13x_bounds_inside :
  forallb rt_ok2 bounds_in = true /\ forallb roundtripb bounds_in = true /\ Forall roundtrips bounds_in.
Proof.
  split; [vm_compute; reflexivity|]. split; [vm_compute; reflexivity|].
  repeat constructor; apply C13x_round_trip_partial; vm_compute; reflexivity.
Qed.

(* (2) F4 itself: a AND b -c, a OR b +c, a AND b TO, and one level down (x (a AND b -c)) *)
Definition f4_or_plus : item := Op KUnknown meta0 [Op KOr meta0 [wa; wb]; Unary KPlus meta0 wc].
Definition f4_and_to : item := Op KUnknown meta0 [Op KAnd meta0 [wa; wb]; w_to].
Definition f4_nested : item := Op KAnd meta0 [W [120]%N; Grp KGroup meta0 f4_witness].
Example C13x_f4_needed :
  map (fun t => (rt_ok2 t, roundtripb t, f4_patternb t)) [f4_witness; f4_or_plus; f4_and_to; f4_nested]
  = [(false, false, true); (false, false, true); (false, false, true); (false, false, true)].
Proof. vm_compute. reflexivity. Qed.

(* signed operands in juxtaposition outside F4 are inside now (they were outside rt_ok):
   a +b    -a -b TO    a -b OR c    a b -c    a AND b c -d *)
Definition signed_in : list item :=
  [ juxt_signed;
    Op KUnknown meta0 [Unary KProhibit meta0 wa; Unary KProhibit meta0 wb; w_to];
    Op KUnknown meta0 [wa; Op KOr meta0 [Unary KProhibit meta0 wb; wc]];
    Op KUnknown meta0 [wa; wb; Unary KProhibit meta0 wc];
    Op KUnknown meta0 [Op KAnd meta0 [wa; wb]; wc; Unary KProhibit meta0 (W [100]%N)] ].
Example C13x_signed_inside :
  forallb rt_ok2 signed_in = true /\ forallb rt_ok signed_in = false /\ map rt_ok signed_in = [false; false; false; false; false] /\
  forallb roundtripb signed_in = true /\ Forall roundtrips signed_in.
Proof.
  split; [vm_compute; reflexivity|]. split; [vm_compute; reflexivity|]. split; [vm_compute; reflexivity|].
  split; [vm_compute; reflexivity|].
  repeat constructor; apply C13x_round_trip_partial; vm_compute; reflexivity.
Qed.

(* C13r's "outside" examples that are inside now *)
Example C13x_was_outside :
  rt_ok ex_rich = false /\ rt_ok2 ex_rich = true /\ roundtrips ex_rich /\
  rt_ok juxt_signed = false /\ rt_ok2 juxt_signed = true.
Proof.
  split; [vm_compute; reflexivity|]. split; [vm_compute; reflexivity|].
  split; [apply C13x_round_trip_partial; vm_compute; reflexivity|]. conj_vm.
Qed.

(* ---- what the guard still leaves out although it round-trips (validated only, harness/c13.py) *)
Example C13x_still_outside : rt_ok2 fuzzy_noncanonical = false /\ roundtripb fuzzy_noncanonical = true.
Proof. conj_vm. Qed.

(* ---- the known findings are outside the guard *)
Example C13x_findings_outside :
  rt_ok2 f4_witness = false /\ rt_ok2 f15_witness_colon = false /\ rt_ok2 f15_witness_lt = false.
Proof. conj_vm. Qed.

(* ---------------------------------------------------------------- non-vacuity: a deep mixed tree
   f:(a OR [1 TO 5}^2 AND NOT {-"x y" TO *]) -g:[a TO -b] +(c -d TO) x AND y z -t:{* TO 3]^0.5 ((e +[2 TO 3]))
   ranges inside a field group / under a boost / under NOT / directly under a field / under + ; signed operands
   after a field, after another signed operand, after a plain word, the word TO last in a group *)
Definition ex_deep2 : item :=
  let ph (s : str) := Term KPhrase meta0 s in
  let star := W [42]%N in
  Op KUnknown meta0
    [SearchField meta0 [102]%N
       (Grp KFieldGroup meta0
          (Op KOr meta0
             [wa;
              Op KAnd meta0
                [Boost meta0 (Range meta0 w1 w5 true false) (mkDec false 2 0) false;
                 Unary KNot meta0 (Range meta0 (Unary KProhibit meta0 (ph [34;120;32;121;34]%N)) star false true)]]));
     Unary KProhibit meta0 (SearchField meta0 [103]%N (Range meta0 wa (Unary KProhibit meta0 wb) true true));
     Unary KPlus meta0 (Grp KGroup meta0 (Op KUnknown meta0 [wc; Unary KProhibit meta0 (W [100]%N); w_to]));
     Op KAnd meta0 [W [120]%N; W [121]%N];
     W [122]%N;
     Unary KProhibit meta0
       (SearchField meta0 [116]%N (Boost meta0 (Range meta0 star (W [51]%N) false true) dec_half false));
     Grp KGroup meta0
       (Grp KGroup meta0
          (Op KUnknown meta0 [W [101]%N; Unary KPlus meta0 (Range meta0 (W [50]%N) (W [51]%N) true true)]))].

Example C13x_nonvacuous :
  rt_ok2 ex_deep2 = true /\ rt_ok ex_deep2 = false /\ roundtrips ex_deep2 /\
  (exists t', aht ex_deep2 = Some t' /\
     print true t' =
       [102;58;40;97;32;79;82;32;91;49;32;84;79;32;53;125;94;50;32;65;78;68;32;78;79;84;32;123;45;34;120;32;121;34;32;84;79;32;42;93;41;
        32;45;103;58;91;97;32;84;79;32;45;98;93;
        32;43;40;99;32;45;100;32;84;79;41;
        32;120;32;65;78;68;32;121;32;122;
        32;45;116;58;123;42;32;84;79;32;51;93;94;48;46;53;
        32;40;40;101;32;43;91;50;32;84;79;32;51;93;41;41]%N) /\
  length (flq (synq ex_deep2)) = 60.
Proof.
  split; [vm_compute; reflexivity|]. split; [vm_compute; reflexivity|].
  split; [apply C13x_round_trip_partial; vm_compute; reflexivity|].
  split; [eexists; split; vm_compute; reflexivity|]. vm_compute. reflexivity.
Qed.

(* the conclusion also computes on the parser model (independent of the proof) *)
Example C13x_nonvacuous_computed : roundtripb ex_deep2 = true.
Proof. vm_compute. reflexivity. Qed.

(* the non-vacuity example of C13r.v lies inside the new guard too *)
Example C13x_contains_C13r_example : rt_ok2 ex_deep = true.
Proof. apply C13x_subsumes_C13r. vm_compute. reflexivity. Qed.

Print Assumptions C13x_round_trip_partial.
Print Assumptions C13x_round_trip_tokens.
Print Assumptions C13x_subsumes_C13r.
Print Assumptions C13x_implies_C13r.
Print Assumptions C13x_guard_excludes_f4.
