"""C01 — parsing is lossless: printing the tree reproduces the query text (up to numeral re-spelling)."""
import re
from decimal import Decimal, InvalidOperation

import lib
import parsegen as PG

NUM = re.compile(r"([~^])([0-9.]+)")


def canon(s):
    """re-spell every numeral after ~ or ^ canonically (same exact, unbounded function applied to both sides)"""
    return NUM.sub(lambda m: m.group(1) + PG.canon_numeral(m.group(2)), s)


def f1_pattern(s):
    """known finding F1: a separator between a field name and the colon that follows it.
    Executable predicate on the input, computed with luqum's own lexer."""
    import luqum.parser as P
    lx = P.lexer.clone()
    lx.input(s)
    toks = []
    try:
        while True:
            t = lx.token()
            if t is None:
                break
            toks.append(t)
    except Exception:
        return False
    for a, b in zip(toks, toks[1:]):
        if a.type == "TERM" and b.type == "COLUMN" and a.lexpos + len(str(a.value)) != b.lexpos:
            return True
    return False


def PGtree_nodes(node):
    yield None, node
    for c in node.children:
        yield from PGtree_nodes(c)


def gen_strings(r, quick):
    g = PG.QGen(r, bad_numbers=0.03)
    strings = list(PG.MALFORMED)
    n = 400 if quick else 4000
    for _ in range(n):
        lex = g.expr(r.randrange(0, 4))
        strings.append(PG.layout(r, lex, p_sep=r.choice([0.1, 0.5, 0.9])))
    # blanks around colons on purpose (F1 territory)
    for _ in range(30 if quick else 300):
        lex = g.expr(r.randrange(0, 3))
        strings.append(" ".join(lex))
    strings += list(PG.token_sequences(2 if quick else 3))
    return strings


def correspond(model_ok, res):
    from luqum.parser import parser
    r = lib.rng("C01")
    quick = lib.tier() == "quick"
    strings = gen_strings(r, quick)
    results = [PG.impl_parse(s, parser.parse) for s in strings]
    kinds = {}
    seen = set()
    events_cases = []
    exact_cases = []
    n_f1 = 0
    for s, (k, v) in zip(strings, results):
        kinds[k] = kinds.get(k, 0) + 1
        if k == "other":
            res.failures.append(({"input": s, "why": "exception that is not a ParseError: " + v}, None))
        if k != "ok":
            continue
        printed = v.__str__(head_tail=True)
        f1 = f1_pattern(s)
        if canon(printed) != canon(s):
            res.failures.append(({"input": s, "printed": printed,
                                  "why": "printing the tree does not give back the query"},
                                 "F1" if f1 else None))
        elif printed != s and not NUM.search(s):
            res.failures.append(({"input": s, "printed": printed, "why": "text differs outside numerals"}, None))
        if len(s) > 3:
            seen.add(s)
        events_cases.append("(%s, %s, %s)" % (lib.g_str(s), lib.g_bool(f1), lib.g_bool(printed == s)))
        exact_cases.append("(%s, %s)" % (lib.g_str(s), lib.g_str(printed)))
        n_f1 += 1 if f1 else 0
    # history: a tree returned earlier may have been edited in place by the caller; parsing the same text again
    # must still give the tree that prints the text (a parse result is not shared with later calls)
    hist = [s for s, (k, _) in zip(strings, results) if k == "ok"][: (60 if quick else 400)]
    for s in hist:
        t1 = parser.parse(s)
        g1 = lib.g_item(t1)
        for _, n in list(PGtree_nodes(t1))[:4]:
            n.head = "##" + n.head
            if hasattr(n, "value") and isinstance(n.value, str):
                n.value = n.value + "zz"
        t2 = parser.parse(s)
        if lib.g_item(t2) != g1:
            res.failures.append(({"input": s, "history": ["parse(input)", "edit the returned tree in place",
                                                          "parse(input) again"],
                                  "why": "the second parse of the same text does not return the original tree"}, None))
    # numerals of a million digits: Python oracle only (see parsegen.huge_numerals)
    huge = PG.huge_numerals()
    for s in huge:
        k, v = PG.impl_parse(s, parser.parse)
        short = s[:12] + "...(%d chars)" % len(s)
        if k == "other":
            res.failures.append(({"input": short, "why": "exception that is not a ParseError: " + v[:200]}, None))
        elif k == "ok" and canon(v.__str__(head_tail=True)) != canon(s):
            res.failures.append(({"input": short, "printed": v.__str__(head_tail=True)[:40],
                                  "why": "printing the tree does not give back the query (huge numeral)"}, None))
    res.cases = len(strings) + len(hist) + len(huge)
    res.nontrivial = len(seen)
    res.rule = ("grammar-directed queries over every production with random Unicode-whitespace layout, "
                "blank-separated variants (blanks before ':'), all token-type sequences up to length 2 "
                "(3 thorough), a malformed corpus; non-trivial = distinct accepted input longer than 3 chars")
    res.samples = [s for s in strings[len(PG.MALFORMED):len(PG.MALFORMED) + 6]]
    res.distribution = {"outcomes": kinds, "max_len": max(map(len, strings)),
                        "accepted_with_numeral": sum(1 for s, (k, _) in zip(strings, results)
                                                     if k == "ok" and NUM.search(s)),
                        "accepted_with_blank_before_colon(F1)": n_f1}
    if not model_ok:
        res.model_error = "model did not build"
        return
    try:
        for i in PG.run_parse_cases("C01", strings, results):
            res.disagreements.append({"input": strings[i], "implementation": results[i][0],
                                      "detail": str(results[i][1])[:300]})
        # the ghost events of the model agree with what the implementation shows:
        #   a non-empty dropped text  <->  the F1 input pattern ;  no event at all  <->  printed == input
        defs = ("Definition chk (c : str * bool * bool) : bool :=\n"
                "  let '(s, f1, exact) := c in\n"
                "  Bool.eqb (negb (match dropped_texts s with [] => true | _ => false end)) f1 &&\n"
                "  Bool.eqb (match parse_events s with [] => true | _ => false end) exact.")
        canary = "([97]%N, true, true)"
        bad = lib.eval_cases("C01ev", PG.PARSE_IMPORTS, defs, events_cases + [canary], "chk", shard=150)
        assert len(events_cases) in bad, "canary not detected"
        ok_strings = [s for s, (k, _) in zip(strings, results) if k == "ok"]
        for i in bad:
            if i < len(events_cases):
                res.disagreements.append({"input": ok_strings[i], "what": "ghost events vs implementation"})
        # C01f: the LEXER-SIDE prediction of the printed form (Drops.expected_print: tokens as laid out in the
        # input, minus the text between a field name and its colon, numerals as the consuming action prints them)
        # is, character for character, what the implementation prints — for EVERY accepted input, F1 included
        defs2 = ("Definition chk (c : str * str) : bool :=\n"
                 "  let '(s, printed) := c in ostr_eqb (expected_print s) (Some printed).")
        canary2 = "([102;32;58;97]%N, [102;32;58;97]%N)"      # 'f :a' prints 'f:a', not itself
        bad2 = lib.eval_cases("C01f", PG.PARSE_IMPORTS + " Drops", defs2, exact_cases + [canary2], "chk", shard=150)
        assert len(exact_cases) in bad2, "canary not detected"
        for i in bad2:
            if i < len(exact_cases):
                res.disagreements.append({"input": ok_strings[i],
                                          "what": "expected_print (lexer side) vs printed form of the implementation"})
        res.notes.append("C01f: expected_print s == str(parse(s)) with head/tail on %d accepted inputs, %d of them "
                         "with a blank before a colon (F1): the known finding is predicted exactly"
                         % (len(exact_cases), n_f1))
    except Exception as e:
        res.model_error = "%s: %s" % (type(e).__name__, e)


SPEC = {
    "id": "C01",
    "targets": ["props/C01.vo"],
    "model_targets": ["model/Parser.vo", "model/TreeEq.vo", "model/Drops.vo"],
    "module": "C01",
    "theorems": ["C01_any_tables", "C01_partial", "C01_refuted"],
    "more": [{"module": "C01r", "target": "props/C01r.vo",
              "theorems": ["C01_respelled_any_tables", "C01_respelled_partial", "C01_respell_partial",
                           "C01_respell_unguarded_refuted", "C01_respell_any_tables", "C01_respell_events",
                           "C01_action", "C01_numeral_roundtrip", "C01_int_roundtrip", "C01_digits"]},
             {"module": "C01f", "target": "props/C01f.vo",
              "theorems": ["C01_characterised", "C01_f1_exact", "C01_f1_only", "C01_f1_exact_loss",
                           "C01_only_deviation", "C01f_cut_length", "C01f_staged",
                           "C01_action_edited", "C01_any_tables_edited", "C01_any_tables_length",
                           "C01_edited_trivial"]}],
    "correspond": correspond,
    "statement": "C01_characterised (C01f, NO guard): for EVERY accepted input print(tree) = expected_print(input), a "
                 "function of the token list alone — the tokens as laid out in the input, minus the text between a TERM "
                 "token and the COLUMN token right after it (exactly F1), with the numeral of ~ after a phrase printed as "
                 "str(int(d)), of ~ after a term and of ^ as format(Decimal(d).normalize(),'f'); hence C01_f1_only (no blank "
                 "before a colon => the property's own statement), C01_f1_exact_loss / C01_only_deviation (no numeral "
                 "re-spelled => the printed form is the input minus those blank runs, and equals the input iff there is "
                 "none): F1 is the only deviation and it is predicted character for character on every run. "
                 "For ANY LR tables, no guard (C01_any_tables_edited): print(tree) is the input edited by the ghost events "
                 "of the run — every dropped text removed, every token text replaced by what is printed for it — and the "
                 "lengths add up (C01_any_tables_length). "
                 "C01_respelled_partial: the property's statement itself (print(tree) renders the input's tokens with "
                 "numerals after ~ or ^ possibly re-spelled as numerically equal plain decimals that lex back the same) "
                 "for every accepted input on which no text is dropped (only F1 drops text); for ANY LR tables: no ghost "
                 "event => print(tree) = s exactly; the unguarded statement is refuted by 'foo :bar' (F1)",
    "level_text": "Coq proof, for any action/goto tables, that the value stack followed by the pending tokens "
                  "always spells the input and every semantic action keeps the text of its parts, hence "
                  "print(tree) = input whenever the model's ghost log is empty; and (C01r) the token-level statement of "
                  "the property with numeral re-spelling, proved on the generated tables under the single guard "
                  "'no text dropped' via a decimal print/parse round-trip lemma and a strengthened LR stack-typing "
                  "invariant (PARTIAL only in that F1 refutes the unguarded statement); and (C01f) WITHOUT guard, the exact "
                  "printed form of every accepted input as a lexer-side function, through a stack invariant in which every "
                  "value under a nonterminal prints exactly the expected rendering of its token segment (one case per "
                  "production of the generated grammar). "
                  "Lexer, actions and driver are hand-written models tied to /repo by the generated "
                  "LALR tables, token-regex source checks and differential correspondence on every run.",
    "trusted_base": [
        "Coq 8.16.1 kernel (vm_compute for witnesses and correspondence; no native_compute); no axioms",
        "gen/gen_parser.py: live PLY action/goto/productions, token rule order and regex sources, \\s \\d classes",
        "hand-written models: Lexer.v (CPython re semantics of the 15 token rules, HeadTailLexer), LR.v (PLY "
        "parseopt_notrack without error recovery), Actions.v (p_* functions, HeadTailManager, create_operation), "
        "Decimal.v, Print.v — tied by differential correspondence on every run",
    ],
    "assumptions": ["no defaulted LR states (generated fact)", "inputs are str; debug/tracking/tokenfunc unused"],
}
