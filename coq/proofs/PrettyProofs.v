(* PrettyProofs.v — lemmas about the prettifier model (model/Pretty.v).
     A. _get_chains never raises; closed form `chains`
     B. the chunk sequence does not depend on the settings
     C. chunks concatenated = the printed tree without the layout of its spine
     D. the output is the chunk sequence glued by blank/newline separators (any widths)
     E. totality on trees whose spine operations have an operand
     F. (any LR tables) every operation of a tree returned by the parser has an operand
     G. equality up to layout (Erase.erase) implies luqum's == *)
Require Import Base Decimal Tree GenTree Visitor Print Pretty TreeInd ActionProofs.
From Coq Require Import Lia.

(* ================================================================ A. get_chains *)

(* table facts on the generated MROs / op strings *)
Lemma kind_of_item t :
  kind_of (cls_of t) =
  match t with Op _ _ _ => EOp | Grp _ _ _ => EGroup | SearchField _ _ _ => EField | _ => ESimple end.
Proof. destruct t as [[]| | []| | | | |[]|[]|[]|]; vm_compute; reflexivity. Qed.

Definition opk_op (k : opk) : str := op_str (cls_of_opk k).

Definition wf_parent (parent : option cls) : Prop :=
  parent = None \/ exists p : item, parent = Some (cls_of p).

(* `element.op == parent.op` never raises for a parent that is a tree node *)
Definition parent_same (parent : option cls) (op : str) : bool :=
  match same_level parent op with Some b => b | None => true end.

Lemma same_level_wf parent op : wf_parent parent -> same_level parent op = Some (parent_same parent op).
Proof.
  intros [H|[p H]]; subst; [reflexivity|]. unfold parent_same.
  destruct p as [[]| | []| | | | |[]|[]|[]|]; reflexivity.
Qed.

Definition ops_chains (f : item -> list chain) (inl : bool) (op : str) :=
  fix go (l : list item) : list chain :=
    match l with
    | [] => []
    | c :: l' => f c ++ (match l' with [] => [] | _ => between inl op end) ++ go l'
    end.

(* closed form of _get_chains with the present class tables *)
Fixpoint chains (inl : bool) (parent : option cls) (t : item) : list chain :=
  match t with
  | Op k _ ops =>
      let body := ops_chains (chains inl (Some (cls_of_opk k))) inl (opk_op k) ops in
      if parent_same parent (opk_op k) then body else [CSub body]
  | Grp k _ e =>
      [CStr s_lparen; CSub (chains inl (Some (cls_of_groupk k)) e)]
        ++ (if inl then [CStick] else []) ++ [CStr s_rparen]
  | SearchField _ n e => CStr (n ++ [c_colon]) :: CStick :: chains inl (Some CSearchField) e
  | _ => [CStr (print false t)]
  end.

Lemma get_chains_op inl parent k m ops :
  get_chains inl parent (Op k m ops) =
  match same_level parent (opk_op k),
        ops_walk (get_chains inl (Some (cls_of_opk k))) inl (opk_op k) ops with
  | Some true, Some b => Some b
  | Some false, Some b => Some [CSub b]
  | _, _ => None
  end.
Proof. destruct k; reflexivity. Qed.

Lemma get_chains_grp inl parent k m e :
  get_chains inl parent (Grp k m e) =
  match get_chains inl (Some (cls_of_groupk k)) e with
  | Some b => Some ([CStr s_lparen; CSub b] ++ (if inl then [CStick] else []) ++ [CStr s_rparen])
  | None => None
  end.
Proof. destruct k; reflexivity. Qed.

Lemma get_chains_field inl parent m n e :
  get_chains inl parent (SearchField m n e) =
  match get_chains inl (Some CSearchField) e with
  | Some b => Some (CStr (n ++ [c_colon]) :: CStick :: b)
  | None => None
  end.
Proof. reflexivity. Qed.

Lemma wf_parent_cls t : wf_parent (Some (cls_of t)).
Proof. right. exists t. reflexivity. Qed.

Theorem get_chains_spec : forall t inl parent,
  wf_parent parent -> get_chains inl parent t = Some (chains inl parent t).
Proof.
  induction t using item_ind'; intros inl parent Hp.
  - destruct k; reflexivity.
  - rewrite get_chains_field, (IHt inl (Some CSearchField) (wf_parent_cls (SearchField m n t))). reflexivity.
  - rewrite get_chains_grp, (IHt inl (Some (cls_of_groupk k)) (wf_parent_cls (Grp k m t))). reflexivity.
  - reflexivity.
  - reflexivity.
  - reflexivity.
  - reflexivity.
  - rewrite get_chains_op, (same_level_wf _ _ Hp).
    assert (E : ops_walk (get_chains inl (Some (cls_of_opk k))) inl (opk_op k) ops =
                Some (ops_chains (chains inl (Some (cls_of_opk k))) inl (opk_op k) ops)).
    { induction ops as [|c ops IHops]; [reflexivity|].
      inversion H as [|? ? Hc Hops]; subst. simpl.
      rewrite (Hc inl (Some (cls_of_opk k)) (wf_parent_cls (Op k m []))), (IHops Hops). reflexivity. }
    rewrite E. simpl. destruct (parent_same parent (opk_op k)); reflexivity.
  - destruct k; reflexivity.
  - destruct k; reflexivity.
  - reflexivity.
Qed.

(* ================================================================ B. chunks *)

Fixpoint chunks_of_chain (c : chain) : list str :=
  match c with
  | CStr s => [s]
  | CStick => []
  | CSub l => flat_map chunks_of_chain l
  end.
Definition chunks_of (l : list chain) : list str := flat_map chunks_of_chain l.

Definition op_chunk (op : str) : list str := match op with [] => [] | _ => [op] end.

Definition ops_texts (f : item -> list str) (op : str) :=
  fix go (l : list item) : list str :=
    match l with
    | [] => []
    | c :: l' => f c ++ (match l' with [] => [] | _ => op_chunk op end) ++ go l'
    end.

(* the chunk sequence of a tree: no setting, no parent *)
Fixpoint chunk_texts (t : item) : list str :=
  match t with
  | Op k _ ops => ops_texts chunk_texts (opk_op k) ops
  | Grp _ _ e => [s_lparen] ++ chunk_texts e ++ [s_rparen]
  | SearchField _ n e => (n ++ [c_colon]) :: chunk_texts e
  | _ => [print false t]
  end.

Lemma chunks_of_app a b : chunks_of (a ++ b) = chunks_of a ++ chunks_of b.
Proof. unfold chunks_of. apply flat_map_app. Qed.

Lemma chunks_of_between inl op : chunks_of (between inl op) = op_chunk op.
Proof. unfold between. destruct inl, op; reflexivity. Qed.

Theorem chunks_of_chains : forall t inl parent, chunks_of (chains inl parent t) = chunk_texts t.
Proof.
  induction t using item_ind'; intros inl parent; try reflexivity.
  - simpl. f_equal. apply IHt.
  - simpl. rewrite chunks_of_app. simpl. f_equal.
    change (flat_map chunks_of_chain (chains inl (Some (cls_of_groupk k)) t))
      with (chunks_of (chains inl (Some (cls_of_groupk k)) t)).
    rewrite IHt. f_equal. destruct inl; reflexivity.
  - assert (E : chunks_of (ops_chains (chains inl (Some (cls_of_opk k))) inl (opk_op k) ops) =
                ops_texts chunk_texts (opk_op k) ops).
    { induction ops as [|c ops IHops]; [reflexivity|].
      inversion H as [|? ? Hc Hops]; subst. simpl.
      rewrite !chunks_of_app, Hc, (IHops Hops). f_equal. f_equal.
      destruct ops; [reflexivity|apply chunks_of_between]. }
    simpl. destruct (parent_same parent (opk_op k)); [exact E|].
    unfold chunks_of at 1. simpl. rewrite app_nil_r. exact E.
Qed.

(* ================================================================ C. chunks vs. printed text *)

Definition no_layout (m : meta) : meta := mkMeta (m_pos m) (m_size m) [] [] (m_name m).

(* the tree with the head/tail layout removed on its spine: operations, groups, fields, and the
   root of every simple element (whose inside is kept verbatim) *)
Fixpoint spine_strip (t : item) : item :=
  match t with
  | Op k m ops => Op k (no_layout m) (map spine_strip ops)
  | Grp k m e => Grp k (no_layout m) (spine_strip e)
  | SearchField m n e => SearchField (no_layout m) n (spine_strip e)
  | _ => set_meta t (no_layout (meta_of t))
  end.

Lemma print_true_spine_strip t : print true (spine_strip t) = print false (spine_strip t).
Proof. destruct t; simpl; unfold wrap; simpl; rewrite ?app_nil_r; reflexivity. Qed.

Lemma concat_op_chunk op : concat (op_chunk op) = op.
Proof. destruct op; [reflexivity|]. simpl. rewrite app_nil_r. reflexivity. Qed.

Theorem chunk_texts_print : forall t, concat (chunk_texts t) = print false (spine_strip t).
Proof.
  induction t using item_ind'; try (simpl; rewrite ?app_nil_r; reflexivity).
  - simpl. rewrite IHt, print_true_spine_strip, <- app_assoc. reflexivity.
  - simpl. rewrite concat_app, IHt, print_true_spine_strip. simpl. reflexivity.
  - simpl. unfold wrap. fold (opk_op k).
    induction ops as [|c ops IHops]; [reflexivity|].
    inversion H as [|? ? Hc Hops]; subst. specialize (IHops Hops).
    simpl. rewrite !concat_app, Hc, IHops, print_true_spine_strip.
    destruct ops as [|c2 ops]; [simpl; rewrite app_nil_r; reflexivity|].
    rewrite concat_op_chunk. reflexivity.
Qed.

(* ================================================================ D. the output is a re-spacing *)

Definition sp (k : nat) : str := repeat c_space k.

(* a separator: one blank or one newline, followed by blanks *)
Definition ws_sep (x : str) : Prop := exists k, x = sp (S k) \/ x = c_nl :: sp k.

(* every newline of s replaced by J *)
Definition subst_nl (J : str) (s : str) : str :=
  flat_map (fun c => if N.eqb c c_nl then J else [c]) s.

(* c' is c with every newline replaced by a separator *)
Inductive nlr : str -> str -> Prop :=
| nlr_nil : nlr [] []
| nlr_char x c c' : x <> c_nl -> nlr c c' -> nlr (x :: c) (x :: c')
| nlr_nl c c' sep : ws_sep sep -> nlr c c' -> nlr (c_nl :: c) (sep ++ c').

(* s is the chunks cs (each with its newlines replaced by separators) glued by separators *)
Inductive spaced : list str -> str -> Prop :=
| sp_one c c' : nlr c c' -> spaced [c] c'
| sp_cons c c' sep cs s : nlr c c' -> ws_sep sep -> spaced cs s -> spaced (c :: cs) (c' ++ sep ++ s).

(* ... after leading blanks *)
Definition lspaced (cs : list str) (s : str) : Prop := exists k s', s = sp k ++ s' /\ spaced cs s'.

Lemma sp_app a b : sp a ++ sp b = sp (a + b).
Proof. unfold sp. rewrite repeat_app. reflexivity. Qed.

Lemma split_nl_nonempty s : split_nl s <> [].
Proof. destruct s as [|c s]; simpl; [discriminate|]. destruct (N.eqb c c_nl); [discriminate|].
  destruct (split_nl s); discriminate. Qed.

Lemma join_cons2 (J x y : str) l : join J (x :: y :: l) = x ++ J ++ join J (y :: l).
Proof. reflexivity. Qed.

Lemma join_split_nl J : forall s, join J (split_nl s) = subst_nl J s.
Proof.
  induction s as [|c s IH]; [reflexivity|]. simpl.
  destruct (N.eqb c c_nl).
  - pose proof (split_nl_nonempty s) as Hn. destruct (split_nl s) as [|x r] eqn:E; [congruence|].
    rewrite join_cons2, <- IH. reflexivity.
  - pose proof (split_nl_nonempty s) as Hn. destruct (split_nl s) as [|x r] eqn:E; [congruence|].
    rewrite <- IH. destruct r; reflexivity.
Qed.

Lemma flat_map_split_nonempty x r : flat_map split_nl (x :: r) <> [].
Proof. simpl. pose proof (split_nl_nonempty x). destruct (split_nl x); [congruence|discriminate]. Qed.

Lemma join_flat_split J : forall strs,
  join J (flat_map split_nl strs) = join J (map (subst_nl J) strs).
Proof.
  induction strs as [|x r IH]; [reflexivity|].
  destruct r as [|y r].
  - simpl. rewrite app_nil_r. apply join_split_nl.
  - change (flat_map split_nl (x :: y :: r)) with (split_nl x ++ flat_map split_nl (y :: r)).
    rewrite join_app by (try apply split_nl_nonempty; apply flat_map_split_nonempty).
    rewrite IH, join_split_nl. reflexivity.
Qed.

Lemma subst_nl_app J a b : subst_nl J (a ++ b) = subst_nl J a ++ subst_nl J b.
Proof. apply flat_map_app. Qed.

Lemma subst_nl_sp J k : subst_nl J (sp k) = sp k.
Proof.
  induction k as [|k IH]; [reflexivity|].
  change (subst_nl J (sp (S k))) with (c_space :: subst_nl J (sp k)). rewrite IH. reflexivity.
Qed.

Lemma ws_sep_space : ws_sep [c_space].
Proof. exists 0. left. reflexivity. Qed.

Lemma ws_sep_nl k : ws_sep (c_nl :: sp k).
Proof. exists k. right. reflexivity. Qed.

Lemma ws_sep_app_sp J k : ws_sep J -> ws_sep (J ++ sp k).
Proof.
  intros [j [H|H]]; subst; exists (j + k).
  - left. rewrite sp_app. reflexivity.
  - right. simpl. rewrite sp_app. reflexivity.
Qed.

Lemma ws_sep_subst J x : ws_sep J -> ws_sep x -> ws_sep (subst_nl J x).
Proof.
  intros HJ [k [H|H]]; subst.
  - rewrite subst_nl_sp. exists k. left. reflexivity.
  - change (subst_nl J (c_nl :: sp k)) with (J ++ subst_nl J (sp k)). rewrite subst_nl_sp.
    apply ws_sep_app_sp. exact HJ.
Qed.

Lemma nlr_refl : forall c, nlr c c.
Proof.
  induction c as [|x c IH]; [constructor|].
  destruct (N.eqb x c_nl) eqn:E.
  - apply N.eqb_eq in E. subst. apply (nlr_nl c c [c_nl] (ws_sep_nl 0) IH).
  - apply N.eqb_neq in E. constructor; assumption.
Qed.

Lemma nlr_subst J c c' : ws_sep J -> nlr c c' -> nlr c (subst_nl J c').
Proof.
  intros HJ H. induction H as [|x c c' Hx H IH|c c' sep Hs H IH].
  - constructor.
  - simpl. apply N.eqb_neq in Hx. rewrite Hx. simpl. constructor; [apply N.eqb_neq; exact Hx|exact IH].
  - rewrite subst_nl_app. constructor; [apply ws_sep_subst; assumption|exact IH].
Qed.

Lemma spaced_subst J cs s : ws_sep J -> spaced cs s -> spaced cs (subst_nl J s).
Proof.
  intros HJ H. induction H as [c c' Hc|c c' sep cs s Hc Hs H IH].
  - constructor. apply nlr_subst; assumption.
  - rewrite !subst_nl_app. constructor; [apply nlr_subst; assumption|apply ws_sep_subst; assumption|exact IH].
Qed.

Lemma spaced_app a sa sep b sb :
  spaced a sa -> ws_sep sep -> spaced b sb -> spaced (a ++ b) (sa ++ sep ++ sb).
Proof.
  intros Ha Hs Hb. induction Ha as [c c' Hc|c c' sep' cs s Hc Hs' H IH].
  - simpl. constructor; assumption.
  - simpl. rewrite <- !app_assoc. constructor; [assumption|assumption|exact IH].
Qed.

Lemma spaced_nonempty cs s : spaced cs s -> cs <> [].
Proof. intros H. destruct H; discriminate. Qed.

Lemma lspaced_glue a sa J b sb :
  lspaced a sa -> ws_sep J -> lspaced b sb -> lspaced (a ++ b) (sa ++ J ++ sb).
Proof.
  intros [ka [sa' [Ea Ha]]] HJ [kb [sb' [Eb Hb]]]. subst.
  exists ka, (sa' ++ (J ++ sp kb) ++ sb'). split.
  - rewrite <- !app_assoc. reflexivity.
  - apply spaced_app; [exact Ha|apply ws_sep_app_sp; exact HJ|exact Hb].
Qed.

Lemma lspaced_subst J cs s : ws_sep J -> lspaced cs s -> lspaced cs (subst_nl J s).
Proof.
  intros HJ [k [s' [E H]]]. subst. exists k, (subst_nl J s'). split.
  - rewrite subst_nl_app, subst_nl_sp. reflexivity.
  - apply spaced_subst; assumption.
Qed.

Lemma lspaced_lead k cs s : lspaced cs s -> lspaced cs (sp k ++ s).
Proof.
  intros [j [s' [E H]]]. subst. exists (k + j), s'. split; [|exact H].
  rewrite app_assoc, sp_app. reflexivity.
Qed.

Lemma lspaced_chunk c : lspaced [c] c.
Proof. exists 0, c. split; [reflexivity|]. constructor. apply nlr_refl. Qed.

(* ---- chunks of annotated chains *)
Fixpoint wchunks (w : wchain) : list str :=
  match w with
  | WStr s _ => [s]
  | WStick _ => []
  | WSub l _ => flat_map wchunks l
  end.

Section ChainInd.
  Variable P : chain -> Prop.
  Hypothesis HStr : forall s, P (CStr s).
  Hypothesis HStick : P CStick.
  Hypothesis HSub : forall l, Forall P l -> P (CSub l).
  Fixpoint chain_ind' (c : chain) : P c :=
    match c with
    | CStr s => HStr s
    | CStick => HStick
    | CSub l => HSub l ((fix go (l : list chain) : Forall P l :=
                           match l with
                           | [] => Forall_nil P
                           | c :: l' => Forall_cons c (chain_ind' c) (go l')
                           end) l)
    end.
End ChainInd.

Section WChainInd.
  Variable P : wchain -> Prop.
  Hypothesis HStr : forall s n, P (WStr s n).
  Hypothesis HStick : forall n, P (WStick n).
  Hypothesis HSub : forall l n, Forall P l -> P (WSub l n).
  Fixpoint wchain_ind' (w : wchain) : P w :=
    match w with
    | WStr s n => HStr s n
    | WStick n => HStick n
    | WSub l n => HSub l n ((fix go (l : list wchain) : Forall P l :=
                              match l with
                              | [] => Forall_nil P
                              | c :: l' => Forall_cons c (wchain_ind' c) (go l')
                              end) l)
    end.
End WChainInd.

Lemma wchunks_count : forall c, wchunks (count_chars c) = chunks_of_chain c.
Proof.
  induction c using chain_ind'; try reflexivity.
  simpl. induction l as [|c l IHl]; [reflexivity|].
  inversion H as [|? ? Hc Hl]; subst. simpl. rewrite Hc, (IHl Hl). reflexivity.
Qed.

Lemma wchunks_count_list l : flat_map wchunks (map count_chars l) = chunks_of l.
Proof.
  induction l as [|c l IH]; [reflexivity|]. simpl. rewrite wchunks_count, IH. reflexivity.
Qed.

(* ---- elements and their chunks *)
Inductive erel : list elem -> list str -> Prop :=
| erel_nil : erel [] []
| erel_stick els cs : erel els cs -> erel (EStick :: els) cs
| erel_str s c els cs : lspaced c s -> erel els cs -> erel (EStr s :: els) (c ++ cs).

Inductive srel : list str -> list str -> Prop :=
| srel_nil : srel [] []
| srel_cons s c strs cs : lspaced c s -> srel strs cs -> srel (s :: strs) (c ++ cs).

Lemma elems_of_erel f : forall l els,
  Forall (fun w => forall s, f w = POk s -> lspaced (wchunks w) s) l ->
  elems_of f l = POk els -> erel els (flat_map wchunks l).
Proof.
  induction l as [|w l IH]; intros els HF H.
  - simpl in H. inversion H; subst. constructor.
  - inversion HF as [|? ? Hw HFl]; subst. simpl in H.
    destruct w as [s n|n|l1 n1].
    + destruct (elems_of f l) as [r| | |] eqn:E; try discriminate. inversion H; subst.
      simpl. apply (erel_str s [s]); [apply lspaced_chunk|apply IH; auto].
    + destruct (elems_of f l) as [r| | |] eqn:E; try discriminate. inversion H; subst.
      simpl. constructor. apply IH; auto.
    + destruct (f (WSub l1 n1)) as [s| | |] eqn:Ef; try discriminate.
      destruct (elems_of f l) as [r| | |] eqn:E; try discriminate. inversion H; subst.
      change (flat_map wchunks (WSub l1 n1 :: l)) with (wchunks (WSub l1 n1) ++ flat_map wchunks l).
      constructor; [apply Hw; reflexivity|apply IH; auto].
Qed.

Lemma apply_stick_srel : forall els cs, erel els cs -> forall st strs,
  apply_stick_from st els = POk strs ->
  match st with
  | None => srel strs cs
  | Some (x, _) => forall cx, lspaced cx x -> srel strs (cx ++ cs)
  end.
Proof.
  induction 1 as [|els cs He IH|s c els cs Hs He IH]; intros st strs H.
  - simpl in H. destruct st as [[x b]|]; [|discriminate]. inversion H; subst.
    intros cx Hx. constructor; [exact Hx|constructor].
  - simpl in H. destruct st as [[x b]|]; [|discriminate].
    exact (IH _ _ H).
  - simpl in H. destruct st as [[x [|]]|].
    + intros cx Hx. specialize (IH _ _ H). simpl in IH. rewrite app_assoc. apply IH.
      change (x ++ c_space :: s) with (x ++ [c_space] ++ s).
      apply lspaced_glue; [exact Hx|apply ws_sep_space|exact Hs].
    + destruct (apply_stick_from (Some (s, false)) els) as [r| | |] eqn:E; try discriminate.
      inversion H; subst. intros cx Hx. constructor; [exact Hx|].
      specialize (IH _ _ E). simpl in IH. apply IH. exact Hs.
    + specialize (IH _ _ H). simpl in IH. apply IH. exact Hs.
Qed.

Lemma apply_stick_nonempty : forall els st strs, apply_stick_from st els = POk strs -> strs <> [].
Proof.
  induction els as [|e els IH]; intros st strs H; simpl in H.
  - destruct st as [[x b]|]; [|discriminate]. inversion H. discriminate.
  - destruct e as [s|].
    + destruct st as [[x [|]]|]; try (eapply IH; exact H).
      destruct (apply_stick_from (Some (s, false)) els); try discriminate. inversion H. discriminate.
    + destruct st as [[x b]|]; [|discriminate]. eapply IH; exact H.
Qed.

Lemma srel_join J : ws_sep J -> forall strs cs, srel strs cs -> strs <> [] ->
  lspaced cs (join J (map (subst_nl J) strs)).
Proof.
  intros HJ. induction 1 as [|s c strs cs Hs Hr IH]; intros Hne; [congruence|].
  destruct strs as [|s2 strs].
  - inversion Hr; subst. rewrite app_nil_r. simpl. apply lspaced_subst; assumption.
  - change (map (subst_nl J) (s :: s2 :: strs))
      with (subst_nl J s :: subst_nl J s2 :: map (subst_nl J) strs).
    rewrite join_cons2. apply lspaced_glue; [apply lspaced_subst; assumption|exact HJ|].
    apply IH. discriminate.
Qed.

Lemma prefix_is_sp cfg : prefix_of cfg = sp (Z.to_nat (p_indent cfg)).
Proof. reflexivity. Qed.

(* the heart: whatever the counts, levels and widths, a successful _concatenates returns the chunks of
   its argument, in order, glued by separators *)
Theorem conc_w_spaced cfg : forall w level iol s,
  conc_w cfg w level iol = POk s -> lspaced (wchunks w) s.
Proof.
  induction w using wchain_ind'; intros level iol s0 Hc.
  - simpl in Hc. inversion Hc; subst. apply lspaced_chunk.
  - discriminate.
  - simpl in Hc. unfold conc_body in Hc.
    set (one_liner := iol || (n <? p_max_len cfg - p_indent cfg * level)%Z) in *.
    set (new_level := if one_liner then level else (level + 1)%Z) in *.
    destruct (elems_of (fun w => conc_w cfg w new_level one_liner) l) as [els| | |] eqn:Eel; try discriminate.
    destruct (apply_stick els) as [strs| | |] eqn:Eas; try discriminate.
    inversion Hc; subst s0; clear Hc.
    assert (Her : erel els (flat_map wchunks l)).
    { apply (elems_of_erel (fun w => conc_w cfg w new_level one_liner) l els); [|exact Eel].
      eapply Forall_impl; [|exact H]. intros w Hw s Hs. exact (Hw _ _ _ Hs). }
    pose proof (apply_stick_srel _ _ Her None strs Eas) as Hsr. simpl in Hsr.
    pose proof (apply_stick_nonempty _ _ _ Eas) as Hne.
    rewrite join_flat_split.
    set (prefix := if negb (level =? 0)%Z && negb iol then prefix_of cfg else []).
    assert (Hp : exists k, prefix = sp k).
    { unfold prefix. destruct (negb (level =? 0)%Z && negb iol); [eexists; apply prefix_is_sp|exists 0; reflexivity]. }
    destruct Hp as [k Hk]. rewrite Hk.
    simpl. apply lspaced_lead. apply srel_join; [|exact Hsr|exact Hne].
    destruct one_liner; [apply ws_sep_space|apply ws_sep_nl].
Qed.

Theorem pretty_spaced cfg t s : pretty cfg t = Some s -> lspaced (chunk_texts t) s.
Proof.
  unfold pretty, pretty_res. rewrite (get_chains_spec t _ None (or_introl eq_refl)).
  set (l := chains (p_inline cfg) None t).
  destruct (concatenates cfg (map count_chars l) (sum_counts (map count_chars l)) 0 false) as [s'| | |] eqn:E;
    try discriminate.
  intros H; inversion H; subst s'; clear H.
  change (concatenates cfg (map count_chars l) (sum_counts (map count_chars l)) 0 false)
    with (conc_w cfg (WSub (map count_chars l) (sum_counts (map count_chars l))) 0 false) in E.
  apply conc_w_spaced in E. simpl in E. rewrite wchunks_count_list in E.
  unfold l in E. rewrite chunks_of_chains in E. exact E.
Qed.

(* without a newline in the chunks, nothing inside a chunk changes *)
Definition has_nl (c : str) : bool := mem_N c_nl c.
Definition no_newline_in_chunks (t : item) : bool := forallb (fun c => negb (has_nl c)) (chunk_texts t).

Lemma nlr_no_nl c c' : nlr c c' -> has_nl c = false -> c' = c.
Proof.
  unfold has_nl. induction 1 as [|x c c' Hx H IH|c c' sep Hs H IH]; intros Hn.
  - reflexivity.
  - simpl in Hn. apply orb_false_elim in Hn. f_equal. apply IH. apply Hn.
  - simpl in Hn. discriminate.
Qed.

(* s is exactly the chunks glued by separators *)
Inductive glued : list str -> str -> Prop :=
| gl_one c : glued [c] c
| gl_cons c sep cs s : ws_sep sep -> glued cs s -> glued (c :: cs) (c ++ sep ++ s).

Lemma spaced_glued cs s : spaced cs s -> forallb (fun c => negb (has_nl c)) cs = true -> glued cs s.
Proof.
  induction 1 as [c c' Hc|c c' sep cs s Hc Hs H IH]; intros HF; simpl in HF;
    apply andb_prop in HF; destruct HF as [Hn HFl]; apply negb_true_iff in Hn.
  - rewrite (nlr_no_nl _ _ Hc Hn). constructor.
  - rewrite (nlr_no_nl _ _ Hc Hn). constructor; [exact Hs|apply IH; exact HFl].
Qed.

Theorem pretty_glued cfg t s :
  no_newline_in_chunks t = true -> pretty cfg t = Some s ->
  exists k s', s = sp k ++ s' /\ glued (chunk_texts t) s'.
Proof.
  intros HF H. destruct (pretty_spaced _ _ _ H) as [k [s' [E Hs]]].
  exists k, s'. split; [exact E|apply spaced_glued; assumption].
Qed.

(* ================================================================ E. totality *)

(* the two exceptions of _apply_stick come from an empty list or a leading marker; `goodc` says
   that no inner list (at any depth) is like that *)
Definition hd_ok (l : list chain) : bool :=
  match l with [] => false | CStick :: _ => false | _ => true end.
Fixpoint goodc (c : chain) : bool :=
  match c with
  | CSub l => hd_ok l && forallb goodc l
  | _ => true
  end.

Definition whd_ok (l : list wchain) : bool :=
  match l with [] => false | WStick _ :: _ => false | _ => true end.
Fixpoint goodw (w : wchain) : bool :=
  match w with
  | WSub l _ => whd_ok l && forallb goodw l
  | _ => true
  end.

Lemma goodw_count : forall c, goodw (count_chars c) = goodc c.
Proof.
  induction c using chain_ind'; try reflexivity.
  simpl. f_equal.
  - destruct l as [|[ | |] l]; reflexivity.
  - induction l as [|c l IHl]; [reflexivity|].
    inversion H as [|? ? Hc Hl]; subst. simpl. rewrite Hc, (IHl Hl). reflexivity.
Qed.

Lemma apply_stick_some : forall els x b, exists strs, apply_stick_from (Some (x, b)) els = POk strs.
Proof.
  induction els as [|e els IH]; intros x b; simpl.
  - eauto.
  - destruct e as [s|].
    + destruct b.
      * apply IH.
      * destruct (IH s false) as [r Hr]. rewrite Hr. eauto.
    + apply IH.
Qed.

Definition e_is_stick (e : elem) : bool := match e with EStick => true | EStr _ => false end.
Definition w_is_stick (w : wchain) : bool := match w with WStick _ => true | _ => false end.

Lemma elems_of_total f : forall l,
  Forall (fun w => w_is_stick w = false -> exists s, f w = POk s) l ->
  exists els, elems_of f l = POk els /\ map e_is_stick els = map w_is_stick l.
Proof.
  induction l as [|w l IH]; intros HF.
  - exists []. split; reflexivity.
  - inversion HF as [|? ? Hw HFl]; subst. destruct (IH HFl) as [r [Hr Hm]].
    simpl. destruct w as [s0 n|n|l1 n1].
    + rewrite Hr. exists (EStr s0 :: r). split; [reflexivity|]. simpl. f_equal. exact Hm.
    + rewrite Hr. exists (EStick :: r). split; [reflexivity|]. simpl. f_equal. exact Hm.
    + destruct (Hw eq_refl) as [s Hs]. rewrite Hs, Hr.
      exists (EStr s :: r). split; [reflexivity|]. simpl. f_equal. exact Hm.
Qed.

(* (conc_w is only ever called on inner lists; on a bare marker its value is irrelevant) *)
Theorem conc_w_total cfg : forall w, goodw w = true -> w_is_stick w = false ->
  forall level iol, exists s, conc_w cfg w level iol = POk s.
Proof.
  induction w using wchain_ind'; intros Hg Hns level iol.
  - simpl. eauto.
  - discriminate.
  - simpl in Hg. apply andb_prop in Hg. destruct Hg as [Hhd Hall].
    simpl. unfold conc_body.
    set (one_liner := iol || (n <? p_max_len cfg - p_indent cfg * level)%Z).
    set (new_level := if one_liner then level else (level + 1)%Z).
    destruct (elems_of_total (fun w => conc_w cfg w new_level one_liner) l) as [els [Hels Hm]].
    { rewrite forallb_forall in Hall. rewrite Forall_forall in H. apply Forall_forall.
      intros w Hin Hw. apply (H w Hin (Hall w Hin) Hw). }
    rewrite Hels.
    assert (Has : exists strs, apply_stick els = POk strs).
    { destruct l as [|w0 l]; [discriminate|]. destruct els as [|e els]; [discriminate|].
      simpl in Hm. inversion Hm as [[Hm0 _]].
      destruct e as [s|].
      - unfold apply_stick. simpl. apply apply_stick_some.
      - destruct w0; simpl in Hm0; try discriminate. }
    destruct Has as [strs Hs]. rewrite Hs. eauto.
Qed.

Lemma forallb_app {A} (p : A -> bool) a b : forallb p (a ++ b) = forallb p a && forallb p b.
Proof. induction a as [|x a IH]; simpl; [reflexivity|]. rewrite IH, andb_assoc. reflexivity. Qed.

Lemma hd_ok_app a b : hd_ok a = true -> hd_ok (a ++ b) = true.
Proof. destruct a as [|[ | |] a]; simpl; auto; discriminate. Qed.

(* every operation on the spine (reached through operations, groups and fields only) has an
   operand; operations inside simple elements are printed by str() and do not matter *)
Fixpoint spine_ops_nonempty (t : item) : bool :=
  match t with
  | Op _ _ ops => (match ops with [] => false | _ => true end) && forallb spine_ops_nonempty ops
  | Grp _ _ e | SearchField _ _ e => spine_ops_nonempty e
  | _ => true
  end.

Definition good_list (l : list chain) : Prop := hd_ok l = true /\ forallb goodc l = true.

Lemma good_between inl op : forallb goodc (between inl op) = true.
Proof. unfold between. destruct inl, op; reflexivity. Qed.

Theorem chains_good : forall t inl parent, spine_ops_nonempty t = true -> good_list (chains inl parent t).
Proof.
  induction t using item_ind'; intros inl parent Hn; try (split; reflexivity).
  - simpl in Hn. destruct (IHt inl (Some CSearchField) Hn) as [H1 H2]. split; [reflexivity|]. simpl. exact H2.
  - simpl in Hn. destruct (IHt inl (Some (cls_of_groupk k)) Hn) as [H1 H2]. split; [reflexivity|].
    simpl. rewrite H1, H2. destruct inl; reflexivity.
  - simpl in Hn. apply andb_prop in Hn. destruct Hn as [Hne Hall].
    assert (G : good_list (ops_chains (chains inl (Some (cls_of_opk k))) inl (opk_op k) ops)).
    { destruct ops as [|c ops]; [discriminate|]. clear Hne.
      revert c H Hall. induction ops as [|c2 ops IHops]; intros c H Hall.
      - inversion H as [|? ? Hc _]; subst. simpl in Hall. apply andb_prop in Hall.
        simpl. rewrite app_nil_r. apply Hc. apply Hall.
      - inversion H as [|? ? Hc Hrest]; subst.
        change (forallb spine_ops_nonempty (c :: c2 :: ops))
          with (spine_ops_nonempty c && forallb spine_ops_nonempty (c2 :: ops)) in Hall.
        apply andb_prop in Hall. destruct Hall as [Hc1 Hall].
        destruct (Hc inl (Some (cls_of_opk k)) Hc1) as [A1 A2].
        destruct (IHops c2 Hrest Hall) as [B1 B2].
        change (ops_chains (chains inl (Some (cls_of_opk k))) inl (opk_op k) (c :: c2 :: ops))
          with (chains inl (Some (cls_of_opk k)) c ++ between inl (opk_op k)
                ++ ops_chains (chains inl (Some (cls_of_opk k))) inl (opk_op k) (c2 :: ops)).
        split; [apply hd_ok_app; exact A1|].
        rewrite !forallb_app, A2, good_between, B2. reflexivity. }
    simpl. destruct (parent_same parent (opk_op k)); [exact G|].
    destruct G as [G1 G2]. split; [reflexivity|]. simpl. rewrite G1, G2. reflexivity.
Qed.

Theorem pretty_total cfg t : spine_ops_nonempty t = true -> exists s, pretty cfg t = Some s.
Proof.
  intros Hn. unfold pretty, pretty_res. rewrite (get_chains_spec t _ None (or_introl eq_refl)).
  set (l := chains (p_inline cfg) None t).
  destruct (chains_good t (p_inline cfg) None Hn) as [G1 G2]. fold l in G1, G2.
  destruct (conc_w_total cfg (WSub (map count_chars l) (sum_counts (map count_chars l)))) with (level := 0%Z) (iol := false)
    as [s Hs].
  - change (goodw (WSub (map count_chars l) (sum_counts (map count_chars l))))
      with (goodw (count_chars (CSub l))).
    rewrite goodw_count. simpl. rewrite G1, G2. reflexivity.
  - reflexivity.
  - change (conc_w cfg (WSub (map count_chars l) (sum_counts (map count_chars l))) 0 false)
      with (concatenates cfg (map count_chars l) (sum_counts (map count_chars l)) 0 false) in Hs.
    rewrite Hs. eauto.
Qed.

(* ================================================================ F. what the parser returns *)
(* for ANY LR tables: every operation node of a tree returned by the parser has an operand
   (create_operation always keeps the two sides), so the prettifier never raises on it *)
Require Import GenParser Lexer Actions LR Parser LRProofs.

Fixpoint all_ops_nonempty (t : item) : bool :=
  match t with
  | Op _ _ ops => (match ops with [] => false | _ => true end) && forallb all_ops_nonempty ops
  | SearchField _ _ e | Grp _ _ e | Boost _ e _ _ => all_ops_nonempty e
  | Fuzzy _ x _ _ | Proximity _ x _ _ => all_ops_nonempty x
  | Unary _ _ a | ORange _ _ a _ => all_ops_nonempty a
  | Range _ lo hi _ _ => all_ops_nonempty lo && all_ops_nonempty hi
  | Term _ _ _ | NoneItem _ => true
  end.

Lemma all_ops_spine : forall t, all_ops_nonempty t = true -> spine_ops_nonempty t = true.
Proof.
  induction t using item_ind'; simpl; intros Hn; auto.
  apply andb_prop in Hn. destruct Hn as [H1 H2]. rewrite H1. simpl. clear H1.
  induction ops as [|c ops IHops]; [reflexivity|].
  inversion H as [|? ? Hc Hops]; subst. simpl in H2. apply andb_prop in H2. destruct H2 as [H3 H4].
  simpl. rewrite (Hc H3). simpl. apply IHops; [exact Hops|exact H4].
Qed.

Definition val_inv (v : symval) : Prop :=
  match v with VItem i => all_ops_nonempty i = true | VTok _ _ _ => True end.

Lemma aon_set_meta i m : all_ops_nonempty (set_meta i m) = all_ops_nonempty i.
Proof. destruct i; reflexivity. Qed.
Lemma aon_add_head i s : all_ops_nonempty (add_head i s) = all_ops_nonempty i.
Proof. apply aon_set_meta. Qed.
Lemma aon_add_tail i s : all_ops_nonempty (add_tail_i i s) = all_ops_nonempty i.
Proof. apply aon_set_meta. Qed.

Lemma aon_operands k (x : item) :
  all_ops_nonempty x = true ->
  forallb all_ops_nonempty
    (if match x with Op k' _ _ => opk_eqb k k' | _ => false end then children x else [x]) = true.
Proof.
  intros Hx. destruct x; try (simpl; simpl in Hx; rewrite ?Hx; reflexivity).
  simpl.
  destruct (opk_eqb k k0); simpl.
  - simpl in Hx. apply andb_prop in Hx. apply Hx.
  - simpl in Hx. rewrite Hx. reflexivity.
Qed.

Local Opaque htm_pos.

Lemma binary_inv k a opv b v evs :
  binary k a opv b = Ok (v, evs) -> all_ops_nonempty a = true -> all_ops_nonempty b = true -> val_inv v.
Proof.
  unfold binary. intros H Ha Hb.
  pose proof (aon_operands k b Hb) as HB.
  destruct (if match b with Op k' _ _ => opk_eqb k k' | _ => false end then children b else [b])
    as [|b0 brest] eqn:HopsB; [discriminate|].
  destruct (htm_pos _ false false) as [pos size]. inversion H; subst; clear H.
  simpl. rewrite forallb_app. rewrite (aon_operands k a Ha). simpl in HB. simpl.
  rewrite aon_add_head. rewrite HB.
  destruct (if match a with Op k' _ _ => opk_eqb k k' | _ => false end then children a else [a]); reflexivity.
Qed.

Theorem run_action_inv a args v evs :
  run_action a args = Ok (v, evs) -> Forall val_inv args -> val_inv v.
Proof.
  intros H Hok.
  assert (Hunit : forall x, args = [x] -> v = x -> val_inv v).
  { intros x E1 E2. subst. inversion Hok; subst. assumption. }
  destruct a; simpl in H;
    repeat match type of H with
    | match ?l with [] => _ | _ :: _ => _ end = _ => destruct l as [|? ?]; try discriminate
    | match ?x with VItem _ => _ | VTok _ _ _ => _ end = _ => destruct x; try discriminate
    | match ?o with Some _ => _ | None => _ end = _ => destruct o eqn:?; try discriminate
    | match ?i with Term _ _ _ => _ | _ => _ end = _ => destruct i; try discriminate
    end;
    try (inversion H; subst; clear H; eapply Hunit; reflexivity).
  all: repeat match goal with
       | Hx : Forall val_inv (_ :: _) |- _ => apply Forall_cons_iff in Hx; destruct Hx as [? Hx]
       end.
  all: simpl val_inv in *.
  all: try (eapply binary_inv; eassumption).
  all: try (inversion H; subst; clear H; simpl; rewrite ?aon_add_tail, ?aon_add_head; try assumption;
            try reflexivity).
  - (* range *)
    repeat match goal with Hx : all_ops_nonempty _ = true |- _ => rewrite Hx; clear Hx end. reflexivity.
  - (* field search *)
    match goal with |- all_ops_nonempty (match ?e with Grp _ _ _ => _ | _ => _ end) = true =>
      destruct e as [| |[]| | | | | | | |] end; assumption.
Qed.

Lemma token_value_inv t : val_inv (token_value t).
Proof. unfold token_value. destruct (tk_type t); simpl; auto. Qed.

Section AnyTablesInv.
  Variable tb : tables.

  Ltac break H := repeat match type of H with
    | match ?x with _ => _ end = _ => destruct x eqn:?; try discriminate
    | (if ?b then _ else _) = _ => destruct b eqn:?; try discriminate
    end.

  Lemma step_inv lexerr c c' :
    step tb lexerr c = Next c' -> Forall val_inv (c_vals c) -> Forall val_inv (c_vals c').
  Proof.
    unfold step, do_shift, do_reduce, do_accept. intros H HI.
    destruct (c_toks c) as [|t rest] eqn:Htoks; simpl in H; break H; inversion H; subst; clear H; simpl.
    - constructor; [|apply Forall_skipn; exact HI].
      eapply run_action_inv; [eassumption|]. apply Forall_rev, Forall_firstn, HI.
    - constructor; [apply token_value_inv|exact HI].
    - constructor; [|apply Forall_skipn; exact HI].
      eapply run_action_inv; [eassumption|]. apply Forall_rev, Forall_firstn, HI.
  Qed.

  Lemma step_final_inv lexerr c t evs :
    step tb lexerr c = Final (Ok t) evs -> Forall val_inv (c_vals c) -> all_ops_nonempty t = true.
  Proof.
    unfold step, do_shift, do_reduce, do_accept. intros H HI.
    destruct (c_toks c) as [|tk rest] eqn:Htoks; simpl in H; break H; inversion H; subst; clear H;
      inversion HI; subst; assumption.
  Qed.

  Lemma run_inv lexerr : forall fuel c t evs,
    run tb lexerr fuel c = Done (Ok t) evs -> Forall val_inv (c_vals c) -> all_ops_nonempty t = true.
  Proof.
    induction fuel as [|f IH]; intros c t evs H HI; simpl in H; [discriminate|].
    destruct (step tb lexerr c) as [c'|r evs1] eqn:Hs.
    - eapply IH; [exact H|]. eapply step_inv; eassumption.
    - inversion H; subst. eapply step_final_inv; eassumption.
  Qed.
End AnyTablesInv.

Theorem parse_ops_nonempty s t : parse s = Some (Ok t) -> all_ops_nonempty t = true.
Proof.
  unfold parse, parse_full, parse_with. destruct (lex s) as [toks e].
  destruct (run gen_tables e (parse_fuel toks) _) as [r evs|] eqn:Hr; [|discriminate].
  intros H. inversion H; subst. eapply run_inv; [exact Hr|]. constructor.
Qed.

Theorem pretty_total_parsed cfg s t : parse s = Some (Ok t) -> exists p, pretty cfg t = Some p.
Proof. intros H. apply pretty_total, all_ops_spine, (parse_ops_nonempty s). exact H. Qed.

(* ================================================================ G. layout-erased equality is luqum's == *)
Require Import Eq EqSpec EqProofs Erase.

Lemma fingerprint_layout_erase : forall a, fingerprint (Erase.erase a) = fingerprint a.
Proof.
  induction a using item_ind'; simpl; try congruence.
  f_equal. rewrite map_map. induction H as [|c l Hc _ IH]; simpl; [reflexivity|]. rewrite Hc, IH. reflexivity.
Qed.

Lemma layout_erase_eqb a b : Erase.erase a = Erase.erase b -> item_eqb b a = true.
Proof.
  intros H. apply eq_iff_fingerprint.
  rewrite <- (fingerprint_layout_erase a), <- (fingerprint_layout_erase b), H. reflexivity.
Qed.
