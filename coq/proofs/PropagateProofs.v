(* PropagateProofs.v — lemmas about MatchingPropagator (model: Propagate.v, vocabulary of the
   property: PropagateSpec.v). *)
Require Import Base Decimal Tree GenTree GenVisitors GenNaming Visitor Naming Propagate PropagateSpec
               TreeInd NamingProofs.
From Coq Require Import Lia Permutation.

(* ---------------------------------------------------------------- tie: generated class tuples
   The class tests of the model (generated OR_NODES / NEGATION_NODES / NO_CHILDREN_PROPAGATE and
   MROs) against the constructor-level vocabulary of the property.  Re-checked on every build. *)

Definition spec_or (dor : bool) (t : item) : bool :=
  match t with Op k _ _ => or_like dor k | _ => false end.

Lemma ncp_atomic : forall t, is_no_children_propagate t = atomic t.
Proof. destruct t as [[]| |[]| | | | |[]|[]|[]|]; vm_compute; reflexivity. Qed.

Lemma negation_node_spec : forall t, is_negation_node t = is_negation t.
Proof. destruct t as [[]| |[]| | | | |[]|[]|[]|]; vm_compute; reflexivity. Qed.

Lemma or_node_spec : forall d t, is_or_node d t = spec_or (cls_eqb d COrOperation) t.
Proof.
  intros d t. unfold is_or_node, or_nodes. destruct (cls_eqb d COrOperation);
    destruct t as [[]| |[]| | | | |[]|[]|[]|]; vm_compute; reflexivity.
Qed.

Lemma base_operation_spec : forall t, is_base_operation t = is_op t.
Proof. destruct t as [[]| |[]| | | | |[]|[]|[]|]; vm_compute; reflexivity. Qed.

(* ---------------------------------------------------------------- small list facts *)

Lemma NoDup_app_intro {A} (a b : list A) :
  NoDup a -> NoDup b -> (forall x, In x a -> In x b -> False) -> NoDup (a ++ b).
Proof.
  induction a as [|x a IH]; intros Ha Hb Hd; simpl; [exact Hb|].
  inversion Ha as [|? ? Hx Ha']; subst. constructor.
  - rewrite in_app_iff. intros [H|H]; [exact (Hx H)|]. apply (Hd x); [left; reflexivity|exact H].
  - apply IH; auto. intros y Hy Hy'. apply (Hd y); [right; exact Hy|exact Hy'].
Qed.

Lemma perm_swap4 {A} (a b c e : list A) : Permutation ((a ++ b) ++ (c ++ e)) ((a ++ c) ++ (b ++ e)).
Proof.
  rewrite <- !app_assoc. apply Permutation_app_head. rewrite !app_assoc.
  apply Permutation_app_tail. apply Permutation_app_comm.
Qed.

(* ---------------------------------------------------------------- sub-expressions *)

Lemma is_leaf_pchildren t : is_leaf t = true -> pchildren t = [].
Proof. destruct t; simpl; intros H; try discriminate; reflexivity. Qed.

Lemma negation_pchildren t : is_negation t = true -> pchildren t <> [] /\ is_leaf t = false.
Proof. destruct t as [| | | | | | | |[]| |]; simpl; intros H; try discriminate; (split; [discriminate|reflexivity]). Qed.

Lemma Forall_pchildren (P : item -> Prop) t : Forall P (children t) -> Forall P (pchildren t).
Proof. unfold pchildren. destruct (atomic t); [constructor|auto]. Qed.

Lemma subexpr_app : forall q t n r x,
  subexpr_at t q = Some n -> subexpr_at n r = Some x -> subexpr_at t (q ++ r) = Some x.
Proof.
  induction q as [|i q IH]; intros t n r x H1 H2; simpl in *.
  - inversion H1; subst. exact H2.
  - destruct (nth_error (pchildren t) i) as [c|]; [|discriminate]. eapply IH; eauto.
Qed.

Lemma subexpr_split : forall q t r x,
  subexpr_at t (q ++ r) = Some x -> exists n, subexpr_at t q = Some n /\ subexpr_at n r = Some x.
Proof.
  induction q as [|i q IH]; intros t r x H; simpl in *.
  - eauto.
  - destruct (nth_error (pchildren t) i) as [c|]; [|discriminate]. apply IH. exact H.
Qed.

(* relation with the plain index paths of the tree (element_from_path): the sub-expressions are
   the nodes of the tree that have no Range / Fuzzy / Proximity strictly above them *)
Lemma subexpr_at_subtree : forall p t n,
  subexpr_at t p = Some n <->
  subtree_at t p = Some n /\
  (forall q r x, p = q ++ r -> r <> [] -> subtree_at t q = Some x -> atomic x = false).
Proof.
  induction p as [|i p IH]; intros t n; simpl.
  - split.
    + intros H. split; [exact H|]. intros q r x Hp Hr. destruct q; [|discriminate].
      simpl in Hp. subst r. congruence.
    + intros [H _]. exact H.
  - unfold pchildren at 1. destruct (atomic t) eqn:Hat.
    + split.
      * destruct i; discriminate.
      * intros [_ H]. specialize (H [] (i :: p) t eq_refl). simpl in H.
        assert (true = false) by (rewrite <- Hat; apply H; [discriminate|reflexivity]). discriminate.
    + destruct (nth_error (children t) i) as [c|] eqn:Hn.
      * rewrite IH. split.
        -- intros [H1 H2]. split; [exact H1|]. intros q r x Hp Hr Hs. destruct q as [|j q].
           ++ simpl in Hs. inversion Hs; subst. exact Hat.
           ++ simpl in Hp. inversion Hp; subst j. simpl in Hs. rewrite Hn in Hs.
              eapply H2; eauto.
        -- intros [H1 H2]. split; [exact H1|]. intros q r x Hp Hr Hs.
           apply (H2 (i :: q) r x); [simpl; congruence|exact Hr|simpl; rewrite Hn; exact Hs].
      * split; [discriminate|intros [H _]; discriminate].
Qed.

(* ---------------------------------------------------------------- enumeration of sub-expressions *)

Lemma cnodes_unfold t pre : cnodes t pre = (pre, t) :: cnodes_list cnodes pre 0 (pchildren t).
Proof. destruct t; reflexivity. Qed.

Definition cnodes_in_spec (t : item) : Prop :=
  forall pre p n, In (p, n) (cnodes t pre) <-> exists r, p = pre ++ r /\ subexpr_at t r = Some n.

Lemma cnodes_list_in pre : forall l i p n,
  Forall cnodes_in_spec l ->
  (In (p, n) (cnodes_list cnodes pre i l) <->
   exists j c r, nth_error l j = Some c /\ p = pre ++ (i + j) :: r /\ subexpr_at c r = Some n).
Proof.
  induction l as [|c l IH]; intros i p n HF; simpl.
  - split; [intros []|]. intros [j [c [r [Hn _]]]]. destruct j; discriminate.
  - inversion HF as [|? ? Hc HFl]; subst.
    rewrite in_app_iff, (Hc (pre ++ [i]) p n), (IH (S i) p n HFl). split.
    + intros [[r [Hp Hs]]|[j [c0 [r [Hn [Hp Hs]]]]]].
      * exists 0, c, r. rewrite Nat.add_0_r, Hp, <- app_assoc. auto.
      * exists (S j), c0, r. replace (i + S j) with (S i + j) by lia. auto.
    + intros [j [c0 [r [Hn [Hp Hs]]]]]. destruct j as [|j]; simpl in Hn.
      * inversion Hn; subst c0. left. exists r. rewrite Hp, Nat.add_0_r, <- app_assoc. auto.
      * right. exists j, c0, r. replace (S i + j) with (i + S j) by lia. auto.
Qed.

Lemma cnodes_in : forall t, cnodes_in_spec t.
Proof.
  apply item_children_ind. intros t IH pre p n. apply Forall_pchildren in IH.
  rewrite cnodes_unfold. simpl. rewrite (cnodes_list_in pre _ 0 p n IH). split.
  - intros [H|[j [c [r [Hn [Hp Hs]]]]]].
    + inversion H; subst. exists []. rewrite app_nil_r. auto.
    + exists (j :: r). simpl in *. rewrite Hn. auto.
  - intros [r [Hp Hs]]. destruct r as [|j r]; simpl in Hs.
    + inversion Hs; subst. rewrite app_nil_r. left. reflexivity.
    + right. destruct (nth_error (pchildren t) j) as [c|] eqn:Hn; [|discriminate].
      exists j, c, r. auto.
Qed.

Lemma cnodes_paths_in t pre p :
  In p (map fst (cnodes t pre)) <-> exists r n, p = pre ++ r /\ subexpr_at t r = Some n.
Proof.
  rewrite in_map_iff. split.
  - intros [[p' n] [Hp Hin]]. simpl in Hp. subst p'. apply cnodes_in in Hin.
    destruct Hin as [r [H1 H2]]. eauto.
  - intros [r [n [H1 H2]]]. exists (p, n). split; [reflexivity|]. apply cnodes_in. eauto.
Qed.

Definition cnodes_nodup_spec (t : item) : Prop := forall pre, NoDup (map fst (cnodes t pre)).

Lemma cnodes_list_nodup pre : forall l i,
  Forall cnodes_nodup_spec l -> NoDup (map fst (cnodes_list cnodes pre i l)).
Proof.
  induction l as [|c l IH]; intros i HF; simpl; [constructor|].
  inversion HF as [|? ? Hc HFl]; subst. rewrite map_app.
  apply NoDup_app_intro; [apply Hc|apply IH; exact HFl|].
  intros x Hx Hy. apply cnodes_paths_in in Hx. destruct Hx as [r [n [Hx _]]].
  apply in_map_iff in Hy. destruct Hy as [[x' n'] [Hxx Hy]]. simpl in Hxx. subst x'.
  assert (HF' : Forall cnodes_in_spec l) by (apply Forall_forall; intros; apply cnodes_in).
  apply (cnodes_list_in pre l (S i) x n' HF') in Hy.
  destruct Hy as [j [c0 [r' [_ [Hy _]]]]]. rewrite Hx, <- app_assoc in Hy.
  apply app_inv_head in Hy. simpl in Hy. inversion Hy. lia.
Qed.

Lemma cnodes_nodup : forall t, cnodes_nodup_spec t.
Proof.
  apply item_children_ind. intros t IH pre. apply Forall_pchildren in IH.
  rewrite cnodes_unfold. simpl. constructor; [|apply cnodes_list_nodup; exact IH].
  intros Hin. apply in_map_iff in Hin. destruct Hin as [[x n] [Hx Hin]]. simpl in Hx. subst x.
  assert (HF' : Forall cnodes_in_spec (pchildren t)) by (apply Forall_forall; intros; apply cnodes_in).
  apply (cnodes_list_in pre _ 0 pre n HF') in Hin.
  destruct Hin as [j [c [r [_ [Hp _]]]]].
  rewrite <- (app_nil_r pre) in Hp at 1. apply app_inv_head in Hp. discriminate.
Qed.

(* ---------------------------------------------------------------- the model, unfolded *)

Section Proofs.
  Variable d : cls.
  Variables M O : list path.
  Variable sigma : path -> bool.

  Let dor := cls_eqb d COrOperation.
  Notation go := (propagate_go d M O).
  Notation sfp := (status_from_parent M O).
  Notation EV := (ev dor sigma).

  Lemma propagate_go_unfold t p :
    go t p = resolve d M O t p (prop_list go p 0 (pchildren t)).
  Proof.
    assert (G : forall (cs : list item),
      match cs with
      | [] => ([], [], [])
      | _ => if is_no_children_propagate t then ([], [], []) else prop_list go p 0 cs
      end = prop_list go p 0 (if atomic t then [] else cs)).
    { intros cs. rewrite ncp_atomic. destruct cs, (atomic t); reflexivity. }
    unfold pchildren. rewrite <- G. destruct t; reflexivity.
  Qed.

  (* ---- partition: every sub-expression is classified exactly once (no hypothesis) *)

  Definition part_spec (t : item) : Prop :=
    forall pre b ok ko, go t pre = (b, ok, ko) -> Permutation (ok ++ ko) (map fst (cnodes t pre)).

  Lemma prop_list_part pre : forall l i sts oks kos,
    Forall part_spec l -> prop_list go pre i l = (sts, oks, kos) ->
    Permutation (oks ++ kos) (map fst (cnodes_list cnodes pre i l)).
  Proof.
    induction l as [|c l IH]; intros i sts oks kos HF H; simpl in H.
    - inversion H; subst. constructor.
    - inversion HF as [|? ? Hc HFl]; subst.
      destruct (go c (pre ++ [i])) as [[b ok] ko] eqn:Hgo.
      destruct (prop_list go pre (S i) l) as [[bs oks'] kos'] eqn:Hl.
      inversion H; subst; clear H. simpl. rewrite map_app.
      eapply Permutation_trans; [apply perm_swap4|].
      apply Permutation_app; [eapply Hc; eauto|eapply IH; eauto].
  Qed.

  Lemma propagate_go_part : forall t, part_spec t.
  Proof.
    apply item_children_ind. intros t IH pre b ok ko H. apply Forall_pchildren in IH.
    rewrite propagate_go_unfold in H.
    destruct (prop_list go pre 0 (pchildren t)) as [[sts oks] kos] eqn:Hl.
    pose proof (prop_list_part pre _ _ _ _ _ IH Hl) as HP.
    rewrite cnodes_unfold. simpl. unfold resolve in H.
    match type of H with (if ?c then _ else _) = _ => destruct c end; inversion H; subst; clear H.
    - rewrite <- app_assoc. eapply Permutation_trans; [|apply perm_skip; exact HP].
      apply Permutation_sym. apply Permutation_middle.
    - rewrite app_assoc. eapply Permutation_trans; [|apply perm_skip; exact HP].
      apply Permutation_sym. apply Permutation_cons_append.
  Qed.

  Theorem propagate_partition t ok ko :
    propagate d M O t = (ok, ko) ->
    NoDup (ok ++ ko) /\ (forall p, In p (ok ++ ko) <-> classified t p).
  Proof.
    unfold propagate. destruct (go t []) as [[b ok'] ko'] eqn:Hgo. intros H; inversion H; subst.
    pose proof (propagate_go_part t _ _ _ _ Hgo) as HP. split.
    - eapply Permutation_NoDup; [apply Permutation_sym; exact HP|apply cnodes_nodup].
    - intros p. unfold classified. split.
      + intros Hin. apply (Permutation_in _ HP) in Hin. apply cnodes_paths_in in Hin.
        destruct Hin as [r [n [Hp Hs]]]. simpl in Hp. subst r. eauto.
      + intros [n Hs]. apply (Permutation_in _ (Permutation_sym HP)). apply cnodes_paths_in.
        exists p, n. auto.
  Qed.

  (* ---- _status_from_parent *)

  Lemma sfp_snoc p i :
    sfp (p ++ [i]) = if mem_path (p ++ [i]) M then true
                     else if mem_path (p ++ [i]) O then false else sfp p.
  Proof.
    unfold status_from_parent. rewrite rev_app_distr. simpl.
    rewrite rev_involutive. reflexivity.
  Qed.

  Lemma sfp_nil : sfp [] = if mem_path [] M then true else false.
  Proof. unfold status_from_parent. simpl. destruct (mem_path [] M), (mem_path [] O); reflexivity. Qed.

  Lemma sfp_in_M p : In p M -> sfp p = true.
  Proof.
    intros H. apply mem_path_In in H. destruct p as [|i p] using rev_ind.
    - rewrite sfp_nil, H. reflexivity.
    - rewrite sfp_snoc, H. reflexivity.
  Qed.

  Lemma sfp_in_O p : ~ In p M -> In p O -> sfp p = false.
  Proof.
    intros H1 H2. apply mem_path_In in H2.
    assert (H1' : mem_path p M = false).
    { destruct (mem_path p M) eqn:E; [|reflexivity]. apply mem_path_In in E. contradiction. }
    destruct p as [|i p] using rev_ind.
    - rewrite sfp_nil, H1'. reflexivity.
    - rewrite sfp_snoc, H1', H2. reflexivity.
  Qed.

  Lemma sfp_false : forall a, (forall q r, a = q ++ r -> ~ In q M) -> sfp a = false.
  Proof.
    induction a as [|i a IH] using rev_ind; intros H.
    - rewrite sfp_nil. destruct (mem_path [] M) eqn:E; [|reflexivity].
      apply mem_path_In in E. exfalso. apply (H [] []); auto.
    - rewrite sfp_snoc. destruct (mem_path (a ++ [i]) M) eqn:E.
      + apply mem_path_In in E. exfalso. apply (H (a ++ [i]) []); [rewrite app_nil_r; reflexivity|exact E].
      + destruct (mem_path (a ++ [i]) O); [reflexivity|]. apply IH.
        intros q r Ha. apply (H q (r ++ [i])). rewrite Ha, app_assoc. reflexivity.
  Qed.

  (* ---- boolean semantics, unfolded *)

  Lemma ev_unfold t p :
    EV t p =
    if is_leaf t then sigma p
    else xorb (is_negation t)
              (if spec_or dor t then existsb (fun b => b) (ev_list EV p 0 (pchildren t))
               else forallb (fun b => b) (ev_list EV p 0 (pchildren t))).
  Proof.
    destruct t as [| | | | | | |k m ops|[]| |]; simpl; try reflexivity;
      try (match goal with |- context [EV ?t ?p] => destruct (EV t p); reflexivity end).
    change (pchildren (Op k m ops)) with ops.
    destruct (or_like dor k);
      match goal with |- ?x = _ => destruct x; reflexivity end.
  Qed.

  Lemma ev_leaf t p : is_leaf t = true -> EV t p = sigma p.
  Proof. intros H. rewrite ev_unfold, H. reflexivity. Qed.

  (* ---- status: the weakest condition on (matching, other) under which every status is the
     truth value.  For a sub-expression n at path p:
       - a leaf (nothing to compute from, not an operation): the status inherited from the nearest
         element of matching ∪ other at or above p must be the value of n;
       - otherwise (an operation - with or without operands - or an element with one operand): if p
         is reported as matching, n must be true before its own negation. *)
  Definition node_good (n : item) (p : path) : Prop :=
    if is_leaf n then sfp p = EV n p
    else In p M -> EV n p = negb (is_negation n).

  Definition good (t : item) (pre : path) : Prop :=
    forall r n, subexpr_at t r = Some n -> node_good n (pre ++ r).

  Lemma good_child t pre j c :
    good t pre -> nth_error (pchildren t) j = Some c -> good c (pre ++ [j]).
  Proof.
    intros Hg Hn r n Hs. rewrite <- app_assoc. simpl. apply Hg. simpl. rewrite Hn. exact Hs.
  Qed.

  Definition status_spec (t : item) : Prop :=
    forall pre b ok ko, good t pre -> go t pre = (b, ok, ko) ->
      b = EV t pre /\
      (forall p, In p ok <-> exists r n, p = pre ++ r /\ subexpr_at t r = Some n /\ EV n p = true).

  Lemma prop_list_status pre : forall l i sts oks kos,
    Forall status_spec l ->
    (forall j c, nth_error l j = Some c -> good c (pre ++ [i + j])) ->
    prop_list go pre i l = (sts, oks, kos) ->
    sts = ev_list EV pre i l /\
    (forall p, In p oks <->
       exists j c r n, nth_error l j = Some c /\ p = pre ++ (i + j) :: r /\
                       subexpr_at c r = Some n /\ EV n p = true).
  Proof.
    induction l as [|c l IH]; intros i sts oks kos HF Hg H; simpl in H.
    - inversion H; subst. split; [reflexivity|]. intros p. split; [intros []|].
      intros [j [c [r [n [Hn _]]]]]. destruct j; discriminate.
    - inversion HF as [|? ? Hc HFl]; subst.
      destruct (go c (pre ++ [i])) as [[b ok] ko] eqn:Hgo.
      destruct (prop_list go pre (S i) l) as [[bs oks'] kos'] eqn:Hl.
      inversion H; subst; clear H.
      assert (Hgc : good c (pre ++ [i])).
      { specialize (Hg 0 c eq_refl). rewrite Nat.add_0_r in Hg. exact Hg. }
      destruct (Hc _ _ _ _ Hgc Hgo) as [Hb Hok].
      assert (Hgl : forall j c0, nth_error l j = Some c0 -> good c0 (pre ++ [S i + j])).
      { intros j c0 Hn. specialize (Hg (S j) c0 Hn). replace (S i + j) with (i + S j) by lia. exact Hg. }
      destruct (IH _ _ _ _ HFl Hgl Hl) as [Hbs Hoks].
      split; [simpl; rewrite Hb, Hbs; reflexivity|].
      intros p. rewrite in_app_iff, (Hok p), (Hoks p). split.
      + intros [[r [n [Hp [Hs He]]]]|[j [c0 [r [n [Hn [Hp [Hs He]]]]]]]].
        * subst p. exists 0, c, r, n. rewrite Nat.add_0_r, <- app_assoc.
          rewrite <- app_assoc in He. simpl in *. auto.
        * exists (S j), c0, r, n. replace (i + S j) with (S i + j) by lia. auto.
      + intros [j [c0 [r [n [Hn [Hp [Hs He]]]]]]]. destruct j as [|j]; simpl in Hn.
        * inversion Hn; subst c0. left. exists r, n. subst p. rewrite Nat.add_0_r in *.
          rewrite <- app_assoc. simpl. auto.
        * right. exists j, c0, r, n. replace (S i + j) with (i + S j) by lia. auto.
  Qed.

  Lemma ev_list_nonempty pre i c l : ev_list EV pre i (c :: l) <> [].
  Proof. simpl. discriminate. Qed.

  Lemma propagate_go_status : forall t, status_spec t.
  Proof.
    apply item_children_ind. intros t IH pre b ok ko Hg H. apply Forall_pchildren in IH.
    rewrite propagate_go_unfold in H.
    destruct (prop_list go pre 0 (pchildren t)) as [[sts oks] kos] eqn:Hl.
    assert (Hgl : forall j c, nth_error (pchildren t) j = Some c -> good c (pre ++ [0 + j])).
    { intros j c Hn. apply (good_child t pre j c Hg Hn). }
    destruct (prop_list_status pre _ _ _ _ _ IH Hgl Hl) as [Hsts Hoks].
    pose proof (Hg [] t eq_refl) as Hnode. rewrite app_nil_r in Hnode.
    (* the status of the node *)
    assert (Hb : (let v := if mem_path pre M then true
                           else if truthy sts || is_base_operation t then
                                  (if is_or_node d t then existsb (fun b => b) sts
                                   else forallb (fun b => b) sts)
                           else sfp pre in
                  if is_negation_node t then negb v else v) = EV t pre).
    { rewrite negation_node_spec, or_node_spec, base_operation_spec. fold dor.
      unfold node_good in Hnode. destruct (is_leaf t) eqn:Hleaf.
      - pose proof (is_leaf_pchildren t Hleaf) as Hpc. rewrite Hpc in Hsts. simpl in Hsts. subst sts.
        assert (Hneg : is_negation t = false).
        { destruct (is_negation t) eqn:E; [|reflexivity].
          apply negation_pchildren in E. destruct E as [_ E]. congruence. }
        assert (Hop : is_op t = false) by (destruct t; simpl in Hleaf; try discriminate; reflexivity).
        rewrite Hneg, Hop. cbv zeta. simpl. destruct (mem_path pre M) eqn:E; [|exact Hnode].
        apply mem_path_In in E. rewrite <- Hnode. symmetry. apply sfp_in_M. exact E.
      - cbv zeta. destruct (mem_path pre M) eqn:E.
        + apply mem_path_In in E. rewrite (Hnode E). destruct (is_negation t); reflexivity.
        + assert (Hc : truthy sts || is_op t = true).
          { rewrite Hsts. destruct t; simpl in Hleaf; try discriminate; try reflexivity.
            apply orb_true_r. }
          rewrite Hc, ev_unfold, Hleaf, <- Hsts.
          destruct (is_negation t); [reflexivity|]. symmetry. apply xorb_false_l. }
    unfold resolve in H. cbv zeta in Hb. rewrite Hb in H.
    assert (Hsub : forall p, In p oks <->
              exists r n, r <> [] /\ p = pre ++ r /\ subexpr_at t r = Some n /\ EV n p = true).
    { intros p. rewrite (Hoks p). split.
      - intros [j [c [r [n [Hn [Hp [Hs He]]]]]]]. exists (j :: r), n. simpl in *. rewrite Hn.
        repeat split; auto. discriminate.
      - intros [r [n [Hr [Hp [Hs He]]]]]. destruct r as [|j r]; [congruence|]. simpl in Hs.
        destruct (nth_error (pchildren t) j) as [c|] eqn:Hn; [|discriminate].
        exists j, c, r, n. auto. }
    destruct (EV t pre) eqn:Hev; inversion H; subst; clear H; (split; [reflexivity|]); intros p.
    - rewrite in_app_iff, (Hsub p). simpl. split.
      + intros [[r [n [_ [Hp [Hs He]]]]]|[Hp|[]]]; [eauto|].
        subst p. exists [], t. rewrite app_nil_r. auto.
      + intros [r [n [Hp [Hs He]]]]. destruct r as [|j r].
        * right. left. rewrite Hp, app_nil_r. reflexivity.
        * left. exists (j :: r), n. repeat split; auto. discriminate.
    - rewrite (Hsub p). split.
      + intros [r [n [_ [Hp [Hs He]]]]]. eauto.
      + intros [r [n [Hp [Hs He]]]]. destruct r as [|j r].
        * exfalso. simpl in Hs. inversion Hs; subst n. rewrite Hp, app_nil_r in He. congruence.
        * exists (j :: r), n. repeat split; auto. discriminate.
  Qed.

  Theorem propagate_status t ok ko :
    good t [] -> propagate d M O t = (ok, ko) ->
    forall p, In p ok <-> exists n, subexpr_at t p = Some n /\ EV n p = true.
  Proof.
    unfold propagate. destruct (go t []) as [[b ok'] ko'] eqn:Hgo. intros Hg H; inversion H; subst.
    destruct (propagate_go_status t _ _ _ _ Hg Hgo) as [_ Hok]. intros p. rewrite (Hok p). simpl. split.
    - intros [r [n [Hp [Hs He]]]]. subst r. eauto.
    - intros [n [Hs He]]. eauto.
  Qed.

  (* ---- from the premise of the property to [good] *)

  Lemma covered_sub : forall n q a r n',
    covered n q = Some a -> subexpr_at n r = Some n' -> covered n' (q ++ r) = Some a.
  Proof.
    induction n using item_ind'; intros q a r n' Hc Hs;
      (destruct r as [|j r]; [simpl in Hs; inversion Hs; subst; rewrite app_nil_r; exact Hc|]);
      simpl in Hc, Hs; try discriminate; try (destruct j; discriminate);
      (destruct j as [|j]; [|destruct j; discriminate]); simpl in Hs;
      replace (q ++ 0 :: r) with ((q ++ [0]) ++ r) by (rewrite <- app_assoc; reflexivity);
      eauto.
  Qed.

  Lemma covered_op_none : forall n q r k m ops,
    subexpr_at n r = Some (Op k m ops) -> covered n q = None.
  Proof.
    induction n using item_ind'; intros q r k0 m0 ops0 Hs;
      try reflexivity;
      (destruct r as [|j r]; [simpl in Hs; inversion Hs|]);
      simpl in Hs; try discriminate; try (destruct j; discriminate);
      (destruct j as [|j]; [|destruct j; discriminate]); simpl in Hs; simpl; eauto.
  Qed.

  Lemma covered_ev : forall n q a,
    covered n q = Some a -> neg_between n = false -> EV n q = xorb (is_negation n) (sigma a).
  Proof.
    induction n using item_ind'; intros q a Hc Hnb; simpl in Hc; try discriminate;
      try (inversion Hc; subst; symmetry; apply xorb_false_l);
      simpl in Hnb; apply orb_false_elim in Hnb; destruct Hnb as [Hn1 Hn2];
      match goal with IH : forall q a, covered ?e q = _ -> _ |- _ =>
        pose proof (IH _ _ Hc Hn2) as He; rewrite Hn1, xorb_false_l in He end.
    1-3, 5: (transitivity (sigma a); [exact He|symmetry; apply xorb_false_l]).
    destruct k.
    - transitivity (sigma a); [exact He|symmetry; apply xorb_false_l].
    - change (negb (EV n (q ++ [0])) = negb (sigma a)). rewrite He. reflexivity.
    - change (negb (EV n (q ++ [0])) = negb (sigma a)). rewrite He. reflexivity.
  Qed.

  Definition agree (n : item) (q a : path) : Prop :=
    forall r n', subexpr_at n r = Some n' -> In (q ++ r) (M ++ O) ->
                 (In (q ++ r) M <-> sigma a = true).

  Lemma agree_child n e q a :
    pchildren n = [e] -> agree n q a -> agree e (q ++ [0]) a.
  Proof.
    unfold agree. intros Hp Ha r n' Hs. rewrite <- app_assoc. simpl.
    apply (Ha (0 :: r) n'). simpl. rewrite Hp. exact Hs.
  Qed.

  Lemma sfp_step q a :
    (In (q ++ [0]) (M ++ O) -> (In (q ++ [0]) M <-> sigma a = true)) ->
    sfp q = sigma a -> sfp (q ++ [0]) = sigma a.
  Proof.
    intros Hag Hq. rewrite sfp_snoc.
    destruct (mem_path (q ++ [0]) M) eqn:E1.
    - apply mem_path_In in E1. symmetry. apply Hag; [apply in_or_app; auto|exact E1].
    - destruct (mem_path (q ++ [0]) O) eqn:E2; [|exact Hq].
      apply mem_path_In in E2. destruct (sigma a) eqn:Es; [|reflexivity].
      assert (In (q ++ [0]) M) by (apply Hag; [apply in_or_app; auto|reflexivity]).
      apply mem_path_In in H. congruence.
  Qed.

  Lemma sfp_covered : forall n q a,
    covered n q = Some a -> agree n q a -> sfp q = sigma a -> sfp a = sigma a.
  Proof.
    induction n using item_ind'; intros q a Hc Hag Hq; simpl in Hc; try discriminate;
      try (inversion Hc; subst; exact Hq);
      match goal with IH : forall q a, covered ?e q = _ -> _ |- _ =>
        apply (IH _ _ Hc); [eapply agree_child; [|exact Hag]; reflexivity|];
        apply sfp_step; [|exact Hq];
        specialize (Hag [0] e eq_refl); exact Hag end.
  Qed.

  Theorem reported_good t :
    reported sigma t M O -> good t [].
  Proof.
    intros [R1 R2] r n Hs. simpl.
    assert (Hnamed_M : forall q n0, subexpr_at t q = Some n0 -> In q M -> In q (M ++ O)).
    { intros. apply in_or_app. auto. }
    (* leaves *)
    assert (Hleaf : is_leaf n = true -> sfp r = EV n r).
    { intros Hl. rewrite (ev_leaf _ _ Hl).
      destruct (R2 r n Hs Hl) as [q [n0 [Hnamed [Hq Hcov]]]].
      apply (sfp_covered n0 q r Hcov).
      - intros r0 n' Hr0 Hin. pose proof (subexpr_app _ _ _ _ _ Hq Hr0) as Hq'.
        pose proof (R1 _ _ Hq' Hin) as H. rewrite (covered_sub _ _ _ _ _ Hcov Hr0) in H. apply H.
      - pose proof (R1 _ _ Hq Hnamed) as H. rewrite Hcov in H. destruct H as [H _].
        destruct (sigma r) eqn:Es.
        + apply sfp_in_M. apply H. reflexivity.
        + assert (Hnm : ~ In q M) by (intros Hin; apply H in Hin; discriminate).
          apply sfp_in_O; [exact Hnm|]. apply in_app_or in Hnamed. destruct Hnamed; [contradiction|assumption]. }
    (* operations are never reported as matching; elements with a single operand reported as
       matching cover one term, which is true, with no negation in between *)
    assert (Hchain : In r M -> EV n r = negb (is_negation n)).
    { intros Hin. pose proof (R1 r n Hs (Hnamed_M _ _ Hs Hin)) as H.
      destruct (covered n r) as [a|] eqn:Hcov; [|contradiction].
      destruct H as [H1 H2]. rewrite (covered_ev n r a Hcov (H2 Hin)).
      rewrite (proj1 H1 Hin). destruct (is_negation n); reflexivity. }
    unfold node_good. destruct (is_leaf n) eqn:Hl; [apply Hleaf; reflexivity|exact Hchain].
  Qed.

  (* ---- the status of a sub-expression without operand, under no premise at all: a leaf inherits
     the status of the nearest element of matching ∪ other at or above it; an operation with zero
     operands is any([]) = False / all([]) = True unless its own path is in matching *)
  Definition bare_status (n : item) (p : path) : bool :=
    if mem_path p M then true
    else if is_op n then negb (spec_or dor n) else sfp p.

  Definition bare_spec (t : item) : Prop :=
    forall pre b ok ko, go t pre = (b, ok, ko) ->
      forall r n, subexpr_at t r = Some n -> pchildren n = [] ->
        (In (pre ++ r) ok <-> bare_status n (pre ++ r) = true).

  Lemma resolve_bare n p b ok ko :
    pchildren n = [] -> resolve d M O n p ([], [], []) = (b, ok, ko) ->
    b = bare_status n p /\ (In p ok <-> bare_status n p = true).
  Proof.
    intros Hpc H. unfold resolve in H.
    assert (Hneg : is_negation_node n = false).
    { rewrite negation_node_spec. destruct (is_negation n) eqn:E; [|reflexivity].
      apply negation_pchildren in E. destruct E as [E _]. congruence. }
    rewrite Hneg, base_operation_spec, or_node_spec in H. fold dor in H.
    assert (Hv : (if mem_path p M then true
                  else if truthy (@nil bool) || is_op n
                       then (if spec_or dor n then existsb (fun b => b) [] else forallb (fun b => b) [])
                       else sfp p) = bare_status n p).
    { unfold bare_status. simpl. destruct (spec_or dor n); reflexivity. }
    rewrite Hv in H. destruct (bare_status n p); inversion H; subst; simpl; split; try reflexivity.
    - split; auto.
    - split; [intros []|discriminate].
  Qed.

  (* paths of the result sets of a sub-tree extend the path of the sub-tree *)
  Lemma go_paths_prefix t pre b ok ko p :
    go t pre = (b, ok, ko) -> In p (ok ++ ko) -> exists r, p = pre ++ r.
  Proof.
    intros H Hin. pose proof (propagate_go_part t pre b ok ko H) as HP.
    apply (Permutation_in _ HP) in Hin. apply cnodes_paths_in in Hin.
    destruct Hin as [r [n [Hp _]]]. eauto.
  Qed.

  Lemma prop_list_bare pre : forall l i sts oks kos,
    Forall bare_spec l -> prop_list go pre i l = (sts, oks, kos) ->
    forall j c r n, nth_error l j = Some c -> subexpr_at c r = Some n -> pchildren n = [] ->
      (In (pre ++ (i + j) :: r) oks <-> bare_status n (pre ++ (i + j) :: r) = true).
  Proof.
    induction l as [|c l IH]; intros i sts oks kos HF H j c0 r n Hn Hs Hpc; simpl in H.
    - destruct j; discriminate.
    - inversion HF as [|? ? Hc HFl]; subst.
      destruct (go c (pre ++ [i])) as [[b ok] ko] eqn:Hgo.
      destruct (prop_list go pre (S i) l) as [[bs oks'] kos'] eqn:Hl.
      inversion H; subst; clear H. rewrite in_app_iff.
      assert (Hpart : forall p, In p oks' ->
                exists j' r', p = pre ++ (S i + j') :: r').
      { intros p Hin.
        pose proof (prop_list_part pre l (S i) bs oks' kos'
                      ltac:(apply Forall_forall; intros; apply propagate_go_part) Hl) as HP.
        assert (Hin' : In p (oks' ++ kos')) by (apply in_or_app; left; exact Hin).
        clear Hin. rename Hin' into Hin. apply (Permutation_in _ HP) in Hin.
        apply in_map_iff in Hin. destruct Hin as [[x n'] [Hx Hin]]. simpl in Hx. subst x.
        apply (cnodes_list_in pre l (S i) p n'
                 ltac:(apply Forall_forall; intros; apply cnodes_in)) in Hin.
        destruct Hin as [j' [c' [r' [_ [Hp _]]]]]. eauto. }
      destruct j as [|j]; simpl in Hn.
      + inversion Hn; subst c0. rewrite Nat.add_0_r.
        replace (pre ++ i :: r) with ((pre ++ [i]) ++ r) by (rewrite <- app_assoc; reflexivity).
        rewrite <- (Hc _ _ _ _ Hgo r n Hs Hpc). split; [|auto].
        intros [Hin|Hin]; [exact Hin|]. exfalso.
        destruct (Hpart _ Hin) as [j' [r' Hp]]. rewrite <- app_assoc in Hp.
        apply app_inv_head in Hp. simpl in Hp. inversion Hp. lia.
      + replace (i + S j) with (S i + j) by lia.
        rewrite <- (IH _ _ _ _ HFl Hl j c0 r n Hn Hs Hpc). split; [|auto].
        intros [Hin|Hin]; [|exact Hin]. exfalso.
        destruct (go_paths_prefix c (pre ++ [i]) b ok ko _ Hgo (in_or_app _ _ _ (or_introl Hin)))
          as [r' Hp].
        rewrite <- app_assoc in Hp. apply app_inv_head in Hp. simpl in Hp. inversion Hp. lia.
  Qed.

  Lemma propagate_go_bare : forall t, bare_spec t.
  Proof.
    apply item_children_ind. intros t IH pre b ok ko H r n Hs Hpc. apply Forall_pchildren in IH.
    rewrite propagate_go_unfold in H.
    destruct r as [|j r]; simpl in Hs.
    - inversion Hs; subst n. rewrite Hpc in H. simpl in H. rewrite app_nil_r.
      exact (proj2 (resolve_bare t pre b ok ko Hpc H)).
    - destruct (nth_error (pchildren t) j) as [c|] eqn:Hn; [|discriminate].
      destruct (prop_list go pre 0 (pchildren t)) as [[sts oks] kos] eqn:Hl.
      pose proof (prop_list_bare pre _ _ _ _ _ IH Hl j c r n Hn Hs Hpc) as Hb. simpl in Hb.
      rewrite <- Hb. unfold resolve in H.
      match type of H with (if ?c then _ else _) = _ => destruct c end;
        inversion H; subst; clear H; [|reflexivity].
      rewrite in_app_iff. simpl. split; [|auto].
      intros [Hin|[Hp|[]]]; [exact Hin|]. exfalso.
      rewrite <- (app_nil_r pre) in Hp at 1. apply app_inv_head in Hp. discriminate.
  Qed.

  Theorem propagate_bare_status t ok ko r n :
    propagate d M O t = (ok, ko) -> subexpr_at t r = Some n -> pchildren n = [] ->
    (In r ok <-> bare_status n r = true).
  Proof.
    unfold propagate. destruct (go t []) as [[b ok'] ko'] eqn:Hgo. intros H Hs Hpc.
    inversion H; subst.
    exact (propagate_go_bare t [] b ok ko Hgo r n Hs Hpc).
  Qed.

  (* an operation with zero operands, whatever matching / other are *)
  Theorem propagate_empty_operation t ok ko r k m :
    propagate d M O t = (ok, ko) -> subexpr_at t r = Some (Op k m []) ->
    (In r ok <-> In r M \/ or_like dor k = false) /\
    (In r ko <-> ~ In r M /\ or_like dor k = true).
  Proof.
    clear sigma. intros H Hs.
    pose proof (propagate_bare_status t ok ko r (Op k m []) H Hs eq_refl) as Hb.
    assert (Hbs : bare_status (Op k m []) r = true <-> In r M \/ or_like dor k = false).
    { unfold bare_status. simpl. destruct (mem_path r M) eqn:E.
      - apply mem_path_In in E. tauto.
      - assert (~ In r M) by (intros Hin; apply mem_path_In in Hin; congruence).
        destruct (or_like dor k); simpl; intuition congruence. }
    destruct (propagate_partition t ok ko H) as [Hnd Hcl].
    assert (Hin : In r (ok ++ ko)) by (apply Hcl; exists (Op k m []); exact Hs).
    split; [rewrite Hb; exact Hbs|]. split.
    - intros Hko.
      assert (Hnok : ~ In r ok).
      { intros Hok. clear - Hnd Hok Hko. induction ok as [|x ok' IH]; simpl in *; [contradiction|].
        inversion Hnd as [|? ? Hx Hnd']; subst. destruct Hok as [Hok|Hok].
        - subst x. apply Hx. apply in_or_app. auto.
        - exact (IH Hnd' Hok). }
      rewrite Hb, Hbs in Hnok. destruct (or_like dor k); [|exfalso; apply Hnok; auto].
      split; [intros Hm; apply Hnok; auto|reflexivity].
    - intros [HnM Hor]. apply in_app_or in Hin. destruct Hin as [Hok|Hko]; [|exact Hko].
      exfalso. rewrite Hb, Hbs in Hok. destruct Hok as [Hm|Hf]; [exact (HnM Hm)|congruence].
  Qed.

End Proofs.

(* ---------------------------------------------------------------- executable premise: soundness *)

Lemma cnodes_root t q n : In (q, n) (cnodes t []) <-> subexpr_at t q = Some n.
Proof.
  rewrite (cnodes_in t [] q n). simpl. split.
  - intros [r [H1 H2]]. subst. exact H2.
  - intros H. eauto.
Qed.

Lemma mem_path_false p l : mem_path p l = false <-> ~ In p l.
Proof.
  split.
  - intros H Hin. apply mem_path_In in Hin. congruence.
  - intros H. destruct (mem_path p l) eqn:E; [|reflexivity]. apply mem_path_In in E. contradiction.
Qed.

Lemma reported_b_sound sigma t M O : reported_b sigma t M O = true -> reported sigma t M O.
Proof.
  unfold reported_b. intros H. apply andb_prop in H. destruct H as [H1 H2].
  rewrite forallb_forall in H1, H2. split.
  - intros q n Hs Hin. apply cnodes_root in Hs. specialize (H1 (q, n) Hs). simpl in H1.
    apply mem_path_In in Hin. rewrite Hin in H1.
    destruct (covered n q) as [a|].
    + apply andb_prop in H1. destruct H1 as [Ha Hb]. apply Bool.eqb_prop in Ha. split.
      * rewrite <- Ha. symmetry. apply mem_path_In.
      * intros Hm. apply mem_path_In in Hm. rewrite Hm in Hb. simpl in Hb.
        destruct (neg_between n); [discriminate|reflexivity].
    + apply mem_path_false. destruct (mem_path q M); [discriminate|reflexivity].
  - intros a l Hs Hl. apply cnodes_root in Hs. specialize (H2 (a, l) Hs). simpl in H2.
    rewrite Hl in H2. apply existsb_exists in H2. destruct H2 as [[q n] [Hin Hc]].
    apply andb_prop in Hc. destruct Hc as [Hm Hc]. exists q, n.
    split; [apply mem_path_In; exact Hm|]. split; [apply cnodes_root; exact Hin|].
    destruct (covered n q) as [a'|]; [|discriminate]. apply path_eqb_eq in Hc. congruence.
Qed.

Lemma no_empty_all_b_sound dor t : no_empty_all_b dor t = true -> no_empty_all dor t.
Proof.
  unfold no_empty_all_b. rewrite forallb_forall. intros H p k m Hs.
  apply cnodes_root in Hs. exact (H _ Hs).
Qed.

(* ---------------------------------------------------------------- matching_from_names *)

Lemma lookup_all_in m : forall names mt,
  lookup_all m names = Some mt ->
  forall p, In p mt <-> exists nm, In nm names /\ lookup_name m nm = Some p.
Proof.
  induction names as [|nm l IH]; intros mt H p; simpl in H.
  - inversion H; subst. simpl. split; [intros []|intros [? [[] _]]].
  - destruct (lookup_name m nm) as [p0|] eqn:Hl; [|discriminate].
    destruct (lookup_all m l) as [ps|] eqn:Hall; [|discriminate].
    inversion H; subst; clear H. simpl. rewrite (IH ps eq_refl p). split.
    + intros [Hp|[nm' [Hin Hl']]]; [subst; exists nm; auto|exists nm'; auto].
    + intros [nm' [[Hn|Hin] Hl']]; [subst; left; congruence|right; eauto].
Qed.

Theorem matching_from_names_spec names m mt ot :
  matching_from_names names m = Some (mt, ot) ->
  (forall p, In p mt <-> exists nm, In nm names /\ lookup_name m nm = Some p) /\
  (forall p, In p ot <-> In p (map snd m) /\ ~ In p mt).
Proof.
  unfold matching_from_names. destruct (lookup_all m names) as [mt'|] eqn:Hall; [|discriminate].
  intros H; inversion H; subst; clear H. split; [apply lookup_all_in; exact Hall|].
  intros p. rewrite filter_In, negb_true_iff, mem_path_false. reflexivity.
Qed.

(* ---------------------------------------------------------------- the non-matching set *)

Lemma NoDup_app_disjoint {A} (a b : list A) x : NoDup (a ++ b) -> In x a -> In x b -> False.
Proof.
  induction a as [|y a IH]; simpl; intros Hnd Ha Hb; [contradiction|].
  inversion Hnd as [|? ? Hy Hnd']; subst. destruct Ha as [Ha|Ha].
  - subst y. apply Hy. apply in_or_app. auto.
  - eauto.
Qed.

Theorem propagate_status_ko d M O sigma t ok ko :
  good d M O sigma t [] -> propagate d M O t = (ok, ko) ->
  forall p, In p ko <-> exists n, subexpr_at t p = Some n /\ ev (cls_eqb d COrOperation) sigma n p = false.
Proof.
  intros Hg H p.
  destruct (propagate_partition d M O t ok ko H) as [Hnd Hcl].
  pose proof (propagate_status d M O sigma t ok ko Hg H) as Hok. split.
  - intros Hin. destruct (proj1 (Hcl p) (in_or_app _ _ _ (or_intror Hin))) as [n Hs].
    exists n. split; [exact Hs|].
    destruct (ev (cls_eqb d COrOperation) sigma n p) eqn:He; [|reflexivity].
    exfalso. apply (NoDup_app_disjoint ok ko p Hnd); [|exact Hin]. apply Hok. eauto.
  - intros [n [Hs He]]. assert (Hin : In p (ok ++ ko)) by (apply Hcl; exists n; exact Hs).
    apply in_app_or in Hin. destruct Hin as [Hin|Hin]; [|exact Hin].
    apply Hok in Hin. destruct Hin as [n' [Hs' He']]. congruence.
Qed.

Lemma lookup_name_in m nm p : lookup_name m nm = Some p -> In p (map snd m).
Proof.
  unfold lookup_name. destruct (find (fun e => str_eqb (fst e) nm) m) as [e|] eqn:E; [|discriminate].
  intros H; inversion H; subst. apply find_some in E. destruct E as [E _]. apply in_map. exact E.
Qed.

(* matching ∪ other is the set of all paths of the name -> path mapping *)
Theorem matching_from_names_union names m mt ot :
  matching_from_names names m = Some (mt, ot) ->
  forall p, In p (mt ++ ot) <-> In p (map snd m).
Proof.
  intros H p. destruct (matching_from_names_spec names m mt ot H) as [H1 H2].
  rewrite in_app_iff. split.
  - intros [Hin|Hin].
    + apply H1 in Hin. destruct Hin as [nm [_ Hl]]. eapply lookup_name_in; eauto.
    + apply H2 in Hin. apply Hin.
  - intros Hin. destruct (mem_path p mt) eqn:E.
    + left. apply mem_path_In. exact E.
    + right. apply H2. split; [exact Hin|]. apply mem_path_false. exact E.
Qed.

(* ---------------------------------------------------------------- end to end with auto_name:
   the premise [reported] holds for the names of auto_name reported according to sigma *)
Lemma namer_handles_op : forall t, namer_handles (cls_of t) = is_op t.
Proof. destruct t as [[]| |[]| | | | |[]|[]|[]|]; vm_compute; reflexivity. Qed.

Lemma covered_cases t :
  (is_leaf t = true /\ forall q, covered t q = Some q) \/
  (exists e, pchildren t = [e] /\ forall q, covered t q = covered e (q ++ [0])) \/
  (exists k m ops, t = Op k m ops).
Proof.
  destruct t;
    first [ left; split; [reflexivity|intros; reflexivity]
          | right; left; eexists; split; [reflexivity|intros; reflexivity]
          | right; right; eauto ].
Qed.

(* a leaf is covered from the root, or from the operand of the deepest operation above it *)
Lemma cover_find : forall t pre a l,
  subexpr_at t a = Some l -> is_leaf l = true ->
  covered t pre = Some (pre ++ a) \/
  exists q0 i k m ops c, subexpr_at t q0 = Some (Op k m ops) /\ nth_error ops i = Some c /\
                         covered c (pre ++ q0 ++ [i]) = Some (pre ++ a).
Proof.
  apply (item_children_ind (fun t => forall pre a l,
    subexpr_at t a = Some l -> is_leaf l = true ->
    covered t pre = Some (pre ++ a) \/
    exists q0 i k m ops c, subexpr_at t q0 = Some (Op k m ops) /\ nth_error ops i = Some c /\
                           covered c (pre ++ q0 ++ [i]) = Some (pre ++ a))).
  intros t IH pre a l Hs Hl. apply Forall_pchildren in IH. destruct a as [|j a]; simpl in Hs.
  - inversion Hs; subst l. left. rewrite app_nil_r.
    destruct (covered_cases t) as [[_ H]|[[e [Hp _]]|[k [m [ops E]]]]]; [apply H| |subst; discriminate].
    apply is_leaf_pchildren in Hl. congruence.
  - destruct (nth_error (pchildren t) j) as [c|] eqn:Hn; [|discriminate].
    rewrite Forall_forall in IH. pose proof (IH c (nth_error_In _ _ Hn)) as IHc.
    destruct (IHc (pre ++ [j]) a l Hs Hl) as [Hc|[q0 [i [k [m [ops [c0 [H1 [H2 H3]]]]]]]]].
    + rewrite <- app_assoc in Hc. simpl in Hc.
      destruct (covered_cases t) as [[Hlt _]|[[e [Hp Hcov]]|[k [m [ops E]]]]].
      * apply is_leaf_pchildren in Hlt. rewrite Hlt in Hn. destruct j; discriminate.
      * rewrite Hp in Hn. destruct j as [|j]; [|destruct j; discriminate]. simpl in Hn.
        inversion Hn; subst e. left. rewrite Hcov. exact Hc.
      * subst t. right. exists [], j, k, m, ops, c. simpl in *. auto.
    + right. exists (j :: q0), i, k, m, ops, c0. simpl. rewrite Hn.
      rewrite <- !app_assoc in H3. simpl in H3. auto.
Qed.

Theorem auto_name_reported sigma t t' m :
  auto_name t = Some (t', m) ->
  (* every named element is a sub-expression (no operation inside a range / fuzzy / proximity) *)
  (forall q, In q (map snd m) -> classified t q) ->
  (* no negation strictly between a reported element and the term it covers *)
  (forall q n, In q (map snd m) -> subexpr_at t q = Some n -> elem_true sigma t q = true ->
               neg_between n = false) ->
  reported sigma t (fst (report sigma t (map snd m))) (snd (report sigma t (map snd m))).
Proof.
  intros Ha Hcl Hneg. simpl.
  destruct (auto_name_with_spec gen_letters ltac:(vm_compute; discriminate) namer_handles t t' m Ha)
    as [_ [_ Hpaths]].
  set (named := map snd m) in *.
  assert (Hnamed : forall q, In q (filter (elem_true sigma t) named ++
                                   filter (fun q => negb (elem_true sigma t q)) named) -> In q named).
  { intros q Hin. apply in_app_or in Hin. destruct Hin as [Hin|Hin]; apply filter_In in Hin; apply Hin. }
  assert (Hback : forall q, In q named ->
            In q (filter (elem_true sigma t) named ++ filter (fun q => negb (elem_true sigma t q)) named)).
  { intros q Hin. apply in_or_app. destruct (elem_true sigma t q) eqn:E.
    - left. apply filter_In. auto.
    - right. apply filter_In. rewrite E. auto. }
  split.
  - intros q n Hs Hin. apply Hnamed in Hin.
    assert (Het : elem_true sigma t q = match covered n q with Some a => sigma a | None => false end).
    { unfold elem_true. rewrite Hs. reflexivity. }
    destruct (covered n q) as [a|] eqn:Hcov.
    + split.
      * rewrite filter_In, Het. tauto.
      * intros HM. apply filter_In in HM. destruct HM as [_ HM]. eapply Hneg; eauto.
    + rewrite filter_In, Het. intros [_ H]. discriminate.
  - intros a l Hs Hl.
    destruct (cover_find t [] a l Hs Hl) as [Hc|[q0 [i [k [mm [ops [c [H1 [H2 H3]]]]]]]]]; simpl in *.
    + exists [], t. split; [|split; [reflexivity|exact Hc]]. apply Hback. apply Hpaths. right.
      split; [|reflexivity]. intros q' Hop.
      assert (Hin : In q' named) by (apply Hpaths; left; exact Hop).
      destruct (Hcl q' Hin) as [x Hx].
      destruct Hop as [q1 [i1 [n1 [Hq' [Hst [Hh _]]]]]]. subst q'.
      destruct (subexpr_split _ _ _ _ Hx) as [n1' [Hq1 _]].
      pose proof (proj1 (proj1 (subexpr_at_subtree _ _ _) Hq1)) as Hq1'. rewrite Hst in Hq1'.
      inversion Hq1'; subst n1'. rewrite namer_handles_op in Hh. destruct n1; try discriminate.
      rewrite (covered_op_none _ [] q1 _ _ _ Hq1) in Hc. discriminate.
    + exists (q0 ++ [i]), c. split; [|split].
      * apply Hback. apply Hpaths. left. exists q0, i, (Op k mm ops).
        split; [reflexivity|]. split; [apply subexpr_at_subtree in H1; apply H1|].
        split; [rewrite namer_handles_op; reflexivity|]. simpl. apply nth_error_Some. congruence.
      * eapply subexpr_app; [exact H1|]. simpl. change (pchildren (Op k mm ops)) with ops.
        rewrite H2. reflexivity.
      * exact H3.
Qed.
