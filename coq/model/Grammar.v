(* Grammar.v — the DOCUMENTED grammar of the query language as an executable reference parser on
   token (type, lexeme) sequences, producing layout-free trees.  It is written in the most direct
   recursive-descent / precedence-climbing style from the documentation (README, Lucene syntax):

     query      := or_level { or_level }              juxtaposition binds loosest   -> UnknownOperation
     or_level   := and_level { OR and_level }                                        -> OrOperation
     and_level  := unary { AND unary }                                               -> AndOperation
     unary      := + unary | - unary | NOT unary | TERM : unary | postfix
     postfix    := primary { ^force }                  suffixes bind tightest        -> Boost
     primary    := TERM [~degree] | PHRASE [~degree] | REGEX | TO | ( query )
                 | [ bound TO bound ] (either bracket kind) | < value | <= value | > value | >= value
     bound      := [-] (TERM | PHRASE)        value := TERM | PHRASE
   chains of one operator are one n-ary node; ( ) directly after `field:` is a FieldGroup.
   This file has NO knowledge of the LR tables.  Executable definitions only. *)
Require Import Base Decimal Tree GenParser Lexer.

Definition key := (tok * str)%type.

Definition tok_eqb (a b : tok) : bool :=
  match a, b with
  | T_TERM, T_TERM | T_PHRASE, T_PHRASE | T_REGEX, T_REGEX | T_APPROX, T_APPROX | T_BOOST, T_BOOST
  | T_MINUS, T_MINUS | T_PLUS, T_PLUS | T_COLUMN, T_COLUMN | T_LPAREN, T_LPAREN | T_RPAREN, T_RPAREN
  | T_LBRACKET, T_LBRACKET | T_RBRACKET, T_RBRACKET | T_LESSTHAN, T_LESSTHAN
  | T_GREATERTHAN, T_GREATERTHAN | T_AND_OP, T_AND_OP | T_NOT, T_NOT | T_OR_OP, T_OR_OP | T_TO, T_TO
  | T_EOF, T_EOF => true
  | _, _ => false
  end.

Definition next_is (t : tok) (ks : list key) : bool :=
  match ks with (t', _) :: _ => tok_eqb t t' | [] => false end.

Definition word (v : str) : item := Term KWord meta0 v.

(* flatten-free n-ary node: one operand is the operand itself *)
Definition nary (k : opk) (ops : list item) : item :=
  match ops with [x] => x | _ => Op k meta0 ops end.

Definition value_item (k : key) : option item :=
  match fst k with
  | T_TERM => Some (Term KWord meta0 (snd k))
  | T_PHRASE => Some (Term KPhrase meta0 (snd k))
  | _ => None
  end.

Definition degree_of (lexeme : str) : option str := match tl lexeme with [] => None | d => Some d end.

(* can a unary expression start with this token? *)
Definition starts_unary (ks : list key) : bool :=
  match ks with
  | (t, _) :: _ =>
      match t with
      | T_TERM | T_PHRASE | T_REGEX | T_MINUS | T_PLUS | T_LPAREN | T_LBRACKET | T_LESSTHAN
      | T_GREATERTHAN | T_NOT | T_TO => true
      | _ => false
      end
  | [] => false
  end.

Section Spec.
  (* mutual recursion through fuel: level 0 = query, 1 = or_level, 2 = and_level, 3 = unary *)
  Fixpoint boosts (fuel : nat) (e : item) (ks : list key) : option (item * list key) :=
    match fuel with
    | O => None
    | S f =>
        match ks with
        | (T_BOOST, l) :: ks' =>
            match degree_of l with
            | None => boosts f (Boost meta0 e dec_one true) ks'
            | Some d => match dec_of_lexeme d with
                        | Some x => boosts f (Boost meta0 e (dec_normalize x) false) ks'
                        | None => None
                        end
            end
        | _ => Some (e, ks)
        end
    end.

  Definition bound (ks : list key) : option (item * list key) :=
    match ks with
    | (T_MINUS, _) :: k :: ks' =>
        match value_item k with Some v => Some (Unary KProhibit meta0 v, ks') | None => None end
    | k :: ks' => match value_item k with Some v => Some (v, ks') | None => None end
    | [] => None
    end.

  Fixpoint level (fuel : nat) (lv : nat) (ks : list key) : option (item * list key) :=
    match fuel with
    | O => None
    | S f =>
        match lv with
        | 0 => (* query: or_level { or_level } *)
            match level f 1 ks with
            | None => None
            | Some (x, ks1) =>
                (fix more (g : nat) (acc : list item) (ks : list key) : option (item * list key) :=
                   match g with
                   | O => None
                   | S g' =>
                       if starts_unary ks then
                         match level f 1 ks with
                         | Some (y, ks') => more g' (acc ++ [y]) ks'
                         | None => None
                         end
                       else Some (nary KUnknown acc, ks)
                   end) f [x] ks1
            end
        | 1 => (* or_level: and_level { OR and_level } *)
            match level f 2 ks with
            | None => None
            | Some (x, ks1) =>
                (fix more (g : nat) (acc : list item) (ks : list key) : option (item * list key) :=
                   match g with
                   | O => None
                   | S g' =>
                       match ks with
                       | (T_OR_OP, _) :: ks0 =>
                           match level f 2 ks0 with
                           | Some (y, ks') => more g' (acc ++ [y]) ks'
                           | None => None
                           end
                       | _ => Some (nary KOr acc, ks)
                       end
                   end) f [x] ks1
            end
        | 2 => (* and_level: unary { AND unary } *)
            match level f 3 ks with
            | None => None
            | Some (x, ks1) =>
                (fix more (g : nat) (acc : list item) (ks : list key) : option (item * list key) :=
                   match g with
                   | O => None
                   | S g' =>
                       match ks with
                       | (T_AND_OP, _) :: ks0 =>
                           match level f 3 ks0 with
                           | Some (y, ks') => more g' (acc ++ [y]) ks'
                           | None => None
                           end
                       | _ => Some (nary KAnd acc, ks)
                       end
                   end) f [x] ks1
            end
        | _ => (* unary *)
            match ks with
            | (T_PLUS, _) :: ks' =>
                match level f 3 ks' with Some (x, r) => Some (Unary KPlus meta0 x, r) | None => None end
            | (T_MINUS, _) :: ks' =>
                match level f 3 ks' with Some (x, r) => Some (Unary KProhibit meta0 x, r) | None => None end
            | (T_NOT, _) :: ks' =>
                match level f 3 ks' with Some (x, r) => Some (Unary KNot meta0 x, r) | None => None end
            | (T_TERM, name) :: (T_COLUMN, _) :: ks' =>
                match level f 3 ks' with
                | Some (x, r) =>
                    let x' := match x with Grp KGroup m e => Grp KFieldGroup m e | _ => x end in
                    Some (SearchField meta0 name x', r)
                | None => None
                end
            | (T_TERM, v) :: (T_APPROX, l) :: ks' =>
                match degree_of l with
                | None => boosts f (Fuzzy meta0 (word v) dec_half true) ks'
                | Some d => match dec_of_lexeme d with
                            | Some x => boosts f (Fuzzy meta0 (word v) (dec_normalize x) false) ks'
                            | None => None
                            end
                end
            | (T_TERM, v) :: ks' => boosts f (word v) ks'
            | (T_PHRASE, v) :: (T_APPROX, l) :: ks' =>
                match degree_of l with
                | None => boosts f (Proximity meta0 (Term KPhrase meta0 v) 1%Z true) ks'
                | Some d => match int_of_lexeme d with
                            | Some z => boosts f (Proximity meta0 (Term KPhrase meta0 v) z false) ks'
                            | None => None
                            end
                end
            | (T_PHRASE, v) :: ks' => boosts f (Term KPhrase meta0 v) ks'
            | (T_REGEX, v) :: ks' => boosts f (Term KRegex meta0 v) ks'
            | (T_TO, v) :: ks' => boosts f (word v) ks'
            | (T_LPAREN, _) :: ks' =>
                match level f 0 ks' with
                | Some (e, (T_RPAREN, _) :: r) => boosts f (Grp KGroup meta0 e) r
                | _ => None
                end
            | (T_LBRACKET, lb) :: ks' =>
                match bound ks' with
                | Some (lo, (T_TO, _) :: ks2) =>
                    match bound ks2 with
                    | Some (hi, (T_RBRACKET, rb) :: r) =>
                        boosts f (Range meta0 lo hi (str_eqb lb [c_lbrack]) (str_eqb rb [c_rbrack])) r
                    | _ => None
                    end
                | _ => None
                end
            | (T_LESSTHAN, l) :: k :: ks' =>
                match value_item k with
                | Some v => boosts f (ORange KTo meta0 v (mem_N c_eq l)) ks'
                | None => None
                end
            | (T_GREATERTHAN, l) :: k :: ks' =>
                match value_item k with
                | Some v => boosts f (ORange KFrom meta0 v (mem_N c_eq l)) ks'
                | None => None
                end
            | _ => None
            end
        end
    end.
End Spec.

(* the tree the documented grammar gives to a token sequence; None = not a query *)
Definition spec_parse (ks : list key) : option item :=
  match level (4 * length ks + 8) 0 ks with
  | Some (t, []) => Some t
  | _ => None
  end.

(* ---- the input class of known finding F4: at some nesting level an operand that starts with
   `+`, `-` or the word TO follows, by juxtaposition, an operand built with AND / OR *)
Fixpoint starts_signed (t : item) : bool :=
  match t with
  | Unary KPlus _ _ | Unary KProhibit _ _ => true
  | Term KWord _ v => str_eqb v s_TO
  | Boost _ e _ _ => starts_signed e
  | Op _ _ (x :: _) => starts_signed x
  | _ => false
  end.

Definition is_andor (t : item) : bool :=
  match t with Op KAnd _ _ | Op KOr _ _ => true | _ => false end.

Fixpoint adjacent_f4 (l : list item) : bool :=
  match l with
  | x :: ((y :: _) as r) => (is_andor x && starts_signed y) || adjacent_f4 r
  | _ => false
  end.

Fixpoint has_f4 (t : item) : bool :=
  match t with
  | Term _ _ _ | NoneItem _ => false
  | SearchField _ _ e | Grp _ _ e | Boost _ e _ _ => has_f4 e
  | Fuzzy _ x _ _ | Proximity _ x _ _ => has_f4 x
  | Unary _ _ a | ORange _ _ a _ => has_f4 a
  | Range _ lo hi _ _ => has_f4 lo || has_f4 hi
  | Op k _ ops =>
      (match k with KUnknown => adjacent_f4 ops | _ => false end) ||
      (fix go (l : list item) : bool := match l with [] => false | c :: r => has_f4 c || go r end) ops
  end.

Definition f4_input (ks : list key) : bool :=
  match spec_parse ks with Some t => has_f4 t | None => false end.
