(* C02t — the TOKEN-LEVEL slice clause of C02, excluding only F1.

   Property text (C02): "for every accepted query and every node of the resulting tree, the slice of the original
   string designated by the node's position and size is the node printed without its head and tail, and the slice
   widened by the lengths of head and tail is the node printed with them (up to the numeral re-spelling allowed by
   C01) ..."
   C02.v states the clause at token level (`located'`: C01.respelled = lex the slice, change APPROX/BOOST numeral
   lexemes only, render) and refutes it by F1; C02r.v proves it at STRING level (resp) under the single guard "no
   text dropped".  This file proves the token-level clause itself under the same guard, at every path:

     clause                                               statement                               status
     ---------------------------------------------------  --------------------------------------  -----------
     every node: located_t (below) + tiled, root span;    C02_token_partial_statement             proved
       generated tables, guard dropped_texts s = []
     same for ANY tables (harmless events, no              C02_token_any_tables_statement          proved
       right-flattening reduction)
     = C02.C02_statement (located') under the guard        C02_guarded_statement                   proved
     no ghost event at all: slices = printed forms as      C02_token_exact_statement               proved
       strings, and the printed forms lex to the node's
       tokens
     lexer locality: a run of the tokens of s re-read      C02t_lexer_locality_statement           proved
       in isolation between blanks lexes to the same
       tokens (no side condition needed: a token start
       never exposes TIME_RE's look-behind window)
     lexing is NOT context free below token level          C02t_context_free_lexing_statement      refuted
       (`12:30` inside `T12:30`: TIME_RE's look-behind),   C02t_any_slice_statement                refuted
       so locality needs the token-boundary condition
     token level WITHOUT the guard                         C02.C02_statement                       refuted (F1, C02.v)

   SpanTokenProofs.located_t s n :=
     exists a b a' b' pre seg post h2 t1,
       span false n = Some (a, b) /\ span true n = Some (a', b') /\ 0 <= a' <= a <= b <= b' <= |s| /\
       fst (lex s) = pre ++ seg ++ post /\ seg <> [] /\                 (the node's tokens: a run of the input's tokens)
       all_space h2 /\ all_space t1 /\ slice s a b = h2 ++ group_text seg ++ t1 /\   (the inner slice covers exactly them)
       a + |h2| = tk_pos (first token of seg) /\
       slice s a' b' = head_of n ++ slice s a b ++ tail_of n /\ all_space (head_of n) /\ all_space (tail_of n) /\
       map tok_key (fst (lex (slice s a b))) = map tok_key seg /\      (lexing the slice in isolation gives them)
       map tok_key (fst (lex (slice s a' b'))) = map tok_key seg /\
       respelled (slice s a b) (print false n) /\ respelled (slice s a' b') (print true n)
   (group_text seg = the lexemes of seg with the separators between them; tok_key = (type, lexeme)).

   Lemmas: proofs/SpanTokenProofs.v. *)
Require Import Base Decimal Tree GenTree GenParser Lexer Print Actions LR Parser Spans Erase Respace.
Require Import TreeInd LexerProofs ActionProofs LRProofs SpanProofs C01 C01r C02 C02r RespellProofs SpanRespellProofs.
Require Import RespaceProofs BridgeProofs SpanTokenProofs.
From Coq Require Import Lia.

(* ---- statements *)

Definition C02_token_partial_statement : Prop :=
  forall s t, parse s = Some (Ok t) -> dropped_texts s = [] ->
    (forall p n, subtree_at t p = Some n -> located_t s n /\ tiled n) /\
    span true t = Some (0%Z, zlen s).

Definition C02_token_any_tables_statement : Prop :=
  forall tb s t evs, parse_with tb s = Done (Ok t) evs -> Forall ev_ok evs -> parse_rflat tb s = false ->
    (forall p n, subtree_at t p = Some n -> located_t s n /\ tiled n) /\
    span true t = Some (0%Z, zlen s).

(* C02.C02_statement, guarded by "no text dropped" *)
Definition C02_guarded_statement : Prop :=
  forall s t, parse s = Some (Ok t) -> dropped_texts s = [] ->
    (forall p n, subtree_at t p = Some n -> located' s n /\ tiled n) /\
    span true t = Some (0%Z, zlen s).

(* no ghost event at all: the slices ARE the printed forms, and the printed forms lex to the node's tokens *)
Definition C02_token_exact_statement : Prop :=
  forall s t, parse s = Some (Ok t) -> no_event s ->
    forall p n, subtree_at t p = Some n ->
      located s n /\
      exists pre seg post, fst (lex s) = pre ++ seg ++ post /\ seg <> [] /\
        map tok_key (fst (lex (print false n))) = map tok_key seg /\ snd (lex (print false n)) = None /\
        map tok_key (fst (lex (print true n))) = map tok_key seg /\ snd (lex (print true n)) = None.

(* the lexer-locality lemma; SpanTokenProofs.same_text = same type, lexeme, head and tail (positions differ) *)
Definition C02t_lexer_locality_statement : Prop :=
  forall s pre seg post H T,
    lex s = (pre ++ seg ++ post, None) -> seg <> [] -> all_space H = true -> all_space T = true ->
    exists toksN, lex (H ++ group_text seg ++ T) = (toksN, None) /\
                  Forall2 same_text toksN (Respace.set_head H (retail seg T)).

(* what does NOT hold: one token is lexed the same whatever the consumed prefix (TIME_RE's look-behind reads it) *)
Definition C02t_context_free_lexing_statement : Prop :=
  forall rp x, lex_one rp x = lex_one [] x.

(* ... and ANY substring of an accepted input lexes to a run of the input's tokens *)
Definition C02t_any_slice_statement : Prop :=
  forall s toks a b, lex s = (toks, None) -> (0 <= a /\ a <= b /\ b <= zlen s)%Z ->
    exists pre seg post, toks = pre ++ seg ++ post /\
      map tok_key (fst (lex (slice s a b))) = map tok_key seg.

(* ---- theorems *)

Theorem C02_token_any_tables : C02_token_any_tables_statement.
Proof.
  intros tb s t evs H Hev Hrf. destruct (C02_respelled_any_tables tb s t evs H Hev Hrf) as [Hall Hroot].
  split; [|exact Hroot]. intros p n Hsub. split; [|apply (Hall p n Hsub)].
  eapply parse_with_located_t; eassumption.
Qed.

Theorem C02_token_partial : C02_token_partial_statement.
Proof.
  intros s t Hp Hd. destruct (C02_respelled_partial s t Hp Hd) as [Hall Hroot].
  split; [|exact Hroot]. intros p n Hsub. split; [|apply (Hall p n Hsub)].
  eapply parse_located_t; eassumption.
Qed.

Lemma located_t_located' s n : located_t s n -> located' s n.
Proof.
  intros (a & b & a' & b' & pre & seg & post & h2 & t1 & H1 & H2 & H3 & _ & _ & _ & _ & _ & _ & _ & _ & _ & _ & _ & R1 & R2).
  exists a, b, a', b'. auto.
Qed.

Theorem C02_guarded : C02_guarded_statement.
Proof.
  intros s t Hp Hd. destruct (C02_token_partial s t Hp Hd) as [Hall Hroot]. split; [|exact Hroot].
  intros p n Hsub. destruct (Hall p n Hsub) as [Hl Ht]. split; [apply located_t_located'; exact Hl|exact Ht].
Qed.

Lemma no_event_no_drop s : no_event s -> dropped_texts s = [].
Proof. unfold no_event, dropped_texts. intros H. rewrite H. reflexivity. Qed.

Theorem C02_token_exact : C02_token_exact_statement.
Proof.
  intros s t Hp Hne p n Hsub.
  destruct (C02_partial s t Hp Hne) as [Hall _]. destruct (Hall p n Hsub) as [Hloc _].
  split; [exact Hloc|].
  destruct (C02_token_partial s t Hp (no_event_no_drop s Hne)) as [Hallt _]. destruct (Hallt p n Hsub) as [Hlt _].
  destruct Hloc as [a [b [a' [b' [Hf [Ht [_ [E1 E2]]]]]]]].
  destruct Hlt as (a0 & b0 & a0' & b0' & pre & seg & post & h2 & t1 & Hf0 & Ht0 & _ & Hseg & Hne0 & _ & _ & _ & _ & _ & _ & _
                  & K1 & K2 & (tk1 & tk1' & L1 & _) & (tk2 & tk2' & L2 & _)).
  rewrite Hf in Hf0. inversion Hf0; subst a0 b0. rewrite Ht in Ht0. inversion Ht0; subst a0' b0'.
  rewrite E1 in K1, L1. rewrite E2 in K2, L2.
  exists pre, seg, post. rewrite L1, L2. rewrite L1 in K1. rewrite L2 in K2. auto 8.
Qed.

Theorem C02t_lexer_locality : C02t_lexer_locality_statement.
Proof. exact lex_segment. Qed.

(* `12:30` after a consumed `T` is ONE term (the look-behind sees `T12`), in isolation it is `12` `:` `30` *)
Theorem C02t_context_free_lexing_refuted : ~ C02t_context_free_lexing_statement.
Proof.
  intros H. specialize (H [84]%N [49;50;58;51;48]%N). vm_compute in H. discriminate H.
Qed.

(* the substring [1, 6) of the accepted input `T12:30` (one TERM) lexes to TERM COLUMN TERM: three tokens that
   are no run of the input's single token — locality needs slices that start and end at token boundaries *)
Theorem C02t_any_slice_refuted : ~ C02t_any_slice_statement.
Proof.
  intros H.
  destruct (H [84;49;50;58;51;48]%N _ 1%Z 6%Z ltac:(vm_compute; reflexivity) ltac:(vm_compute; intuition discriminate))
    as [pre [seg [post [E K]]]].
  assert (L3 : length (map tok_key (fst (lex (slice [84;49;50;58;51;48]%N 1 6)))) = 3) by (vm_compute; reflexivity).
  rewrite K, map_length in L3.
  apply (f_equal (@length token)) in E. rewrite !app_length, L3 in E. simpl in E. lia.
Qed.

(* ---- non-vacuity *)

(* ` f:(a^1.0 OR  b~.5) AND g:[1 TO 2}  "x y"~02 ((c) -d^007)`: fields, a field group, a range, nested groups,
   a boost, a fuzzy, a proximity and a boost under a prohibit with re-spelled numerals; a leading blank *)
Definition tok_query : str :=
  [32;102;58;40;97;94;49;46;48;32;79;82;32;32;98;126;46;53;41;32;65;78;68;32;103;58;91;49;32;84;79;32;50;125;32;32;
   34;120;32;121;34;126;48;50;32;40;40;99;41;32;45;100;94;48;48;55;41]%N.

Example C02t_nonvacuous :
  dropped_texts tok_query = [] /\
  parse_events tok_query =
    [GRespell [94;49;46;48]%N [94;49]%N;              (* ^1.0 -> ^1   *)
     GRespell [126;46;53]%N [126;48;46;53]%N;         (* ~.5  -> ~0.5 *)
     GRespell [126;48;50]%N [126;50]%N;               (* ~02  -> ~2   *)
     GRespell [94;48;48;55]%N [94;55]%N] /\           (* ^007 -> ^7   *)
  exists t, parse tok_query = Some (Ok t) /\
    (forall p n, subtree_at t p = Some n -> located_t tok_query n /\ located' tok_query n /\ tiled n) /\
    (* the Boost `a^1.0` at [0;0;0;0;0]: slice [4, 9), printed `a^1`, lexes to TERM a, BOOST ^1.0 *)
    (exists n, subtree_at t [0;0;0;0;0] = Some n /\ span false n = Some (4, 9)%Z /\
       slice tok_query 4 9 = [97;94;49;46;48]%N /\ print false n = [97;94;49]%N /\
       map tok_key (fst (lex (slice tok_query 4 9))) = [(T_TERM, [97]%N); (T_BOOST, [94;49;46;48]%N)]) /\
    (* the Fuzzy `b~.5` at [0;0;0;0;1], head of two blanks: widened slice [12, 18) *)
    (exists n, subtree_at t [0;0;0;0;1] = Some n /\ span false n = Some (14, 18)%Z /\ span true n = Some (12, 18)%Z /\
       print true n = [32;32;98;126;48;46;53]%N /\
       map tok_key (fst (lex (slice tok_query 12 18))) = [(T_TERM, [98]%N); (T_APPROX, [126;46;53]%N)]) /\
    (* the AndOperation at [0]: its slice [0, 36) starts and ends with blanks that belong to its operands *)
    (exists n, subtree_at t [0] = Some n /\ span false n = Some (0, 36)%Z /\
       length (fst (lex (slice tok_query 0 36))) = 17) /\
    (* the Prohibit `-d^007` at [2;0;1] inside two groups *)
    (exists n, subtree_at t [2;0;1] = Some n /\ span false n = Some (50, 56)%Z /\
       print false n = [45;100;94;55]%N /\
       map tok_key (fst (lex (slice tok_query 50 56))) =
         [(T_MINUS, [45]%N); (T_TERM, [100]%N); (T_BOOST, [94;48;48;55]%N)]).
Proof.
  split; [vm_compute; reflexivity|]. split; [vm_compute; reflexivity|].
  assert (Hp : exists t, parse tok_query = Some (Ok t)) by (eexists; vm_compute; reflexivity).
  destruct Hp as [t Hp]. exists t. split; [exact Hp|].
  assert (Hd : dropped_texts tok_query = []) by (vm_compute; reflexivity).
  split.
  { intros p n Hsub. destruct (C02_token_partial _ _ Hp Hd) as [Hall _]. destruct (Hall p n Hsub) as [H1 H2].
    split; [exact H1|]. split; [apply located_t_located'; exact H1|exact H2]. }
  vm_compute in Hp. inversion Hp; subst t.
  repeat split; eexists; repeat split; vm_compute; reflexivity.
Qed.

(* the exact corollary is not vacuous either: C01's example query has no event *)
Example C02t_exact_nonvacuous :
  no_event ex_query /\ exists t, parse ex_query = Some (Ok t) /\
    exists n, subtree_at t [0;0;1] = Some n /\ located ex_query n /\
      map tok_key (fst (lex (print true n))) = [(T_TERM, [98]%N); (T_COLUMN, [58]%N); (T_LBRACKET, [91]%N);
        (T_TERM, [49]%N); (T_TO, [84;79]%N); (T_TERM, [50]%N); (T_RBRACKET, [125]%N)].
Proof.
  split; [vm_compute; reflexivity|].
  assert (Hp : exists t, parse ex_query = Some (Ok t)) by (eexists; vm_compute; reflexivity).
  destruct Hp as [t Hp]. exists t. split; [exact Hp|].
  assert (Hne : no_event ex_query) by (vm_compute; reflexivity).
  assert (Hn : exists n, subtree_at t [0;0;1] = Some n).
  { vm_compute in Hp. inversion Hp; subst t. eexists. vm_compute. reflexivity. }
  destruct Hn as [n Hn]. exists n. split; [exact Hn|].
  split; [apply (C02_token_exact _ _ Hp Hne _ _ Hn)|].
  vm_compute in Hp. inversion Hp; subst t. vm_compute in Hn. inversion Hn; subst n. vm_compute. reflexivity.
Qed.

Print Assumptions C02_token_any_tables.
Print Assumptions C02_token_partial.
Print Assumptions C02_guarded.
Print Assumptions C02_token_exact.
Print Assumptions C02t_lexer_locality.
Print Assumptions C02t_context_free_lexing_refuted.
Print Assumptions C02t_any_slice_refuted.
Print Assumptions C02t_nonvacuous.
