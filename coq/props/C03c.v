(* C03c — clause (c) of C03 ("the tree is the one dictated by the documented grammar and precedence"),
   the part that is a THEOREM about the LR driver on the generated PLY tables.
   Only statements, short glue, non-vacuity examples, Print Assumptions.  Lemmas: proofs/PrecedenceProofs.v.
   (C03.v states the clause in full, `C03_grammar_statement`, refutes it by F4 and leaves the rest to the
   exhaustive comparison of harness/c03.py; the theorems below remove an infinite family from "validated".)

   Clause -> statement
     "juxtaposition binds loosest, then OR, then AND; chains of one operator flatten into a single n-ary
      node", for operands that are single TERM / PHRASE / REGEX tokens, any length, any mix of the three
      operators, any layout                                             C03c_precedence       (token lists)
                                                                        C03c_precedence_parse (strings)
     the same, read off the structure instead of through Grammar.v       C03c_precedence_explicit *)
Require Import Base Decimal Tree GenTree GenParser Lexer Print Actions LR Parser Erase Grammar.
Require Import LayoutProofs PrecedenceProofs PrecedenceGeneral.

(* ---- the statement on token lists (what `parse` runs after the lexer), any layout, any ghost prefix *)
Definition C03c_precedence_statement : Prop :=
  forall toks ev0, atomic_infix toks ->
    exists t evs,
      run gen_tables None (parse_fuel toks) (init_config toks ev0) = Done (Ok t) evs /\
      spec_parse (map tok_key toks) = Some (erase t).

Theorem C03c_precedence : C03c_precedence_statement.
Proof. exact precedence_core. Qed.

(* ---- on strings, in the form of C03_grammar_statement *)
Definition C03c_precedence_parse_statement : Prop :=
  forall s, snd (lex s) = None -> atomic_infix (fst (lex s)) ->
    exists t, parse s = Some (Ok t) /\ spec_parse (map tok_key (fst (lex s))) = Some (erase t).

Theorem C03c_precedence_parse : C03c_precedence_parse_statement.
Proof.
  intros s He Hai. unfold parse, parse_full, parse_with.
  destruct (lex s) as [toks e]. simpl in He, Hai. subst e.
  destruct (precedence_core toks (match toks with [] => [GDrop s] | _ => [] end) Hai) as [t [evs [Hr Hs]]].
  rewrite Hr. exists t. split; [reflexivity|exact Hs].
Qed.

(* ---- the tree, explicitly: cut the list at juxtapositions, each piece at OR, each piece at AND; one
   operand stands for itself, several make ONE n-ary node (Grammar.nary) *)
Definition C03c_precedence_explicit_statement : Prop :=
  forall q ev0, wf_q q ->
    exists t evs,
      run gen_tables None (parse_fuel (fl_q q)) (init_config (fl_q q) ev0) = Done (Ok t) evs /\
      erase t = val_q q.

Theorem C03c_precedence_explicit : C03c_precedence_explicit_statement.
Proof.
  intros q ev0 Hq.
  assert (Hai : atomic_infix (fl_q q)).
  { (* not needed as a lemma elsewhere: go through the theorem on structures directly *)
    clear ev0. destruct q as [[[t ps] qs] os]. destruct Hq as [[[Ht Hps] Hqs] Hos]. simpl in *.
    unfold atomic_infix, fl_q, fl_or, fl_and. simpl.
    (* every structure flattens into the class: by the three list inductions *)
    assert (P : forall ps rest, Forall wf_pair ps ->
                 (rest = [] \/ infix_shape (map tk_type rest) = true \/
                  exists o r, rest = o :: r /\ tk_type o = T_OR_OP /\ infix_shape (map tk_type r) = true) ->
                 forall t, is_atom t -> infix_shape (map tk_type (t :: fl_pairs ps ++ rest)) = true).
    { induction ps0 as [|[o a] r IH]; intros rest Hp Hrest t0 Ht0.
      - simpl. rewrite Ht0. simpl. destruct Hrest as [->|[H|[o [r [-> [Ho H]]]]]]; [reflexivity| |].
        + destruct rest as [|x rest]; [discriminate|]. simpl map.
          simpl in H. apply andb_prop in H. destruct H as [Hx H'].
          destruct (tk_type x); try discriminate; simpl; exact H'.
        + simpl. rewrite Ho. simpl. exact H.
      - inversion Hp as [|? ? [Ho Ha] Hr]; subst. simpl in Ho, Ha.
        change (map tk_type (t0 :: fl_pairs ((o, a) :: r) ++ rest))
          with (tk_type t0 :: tk_type o :: map tk_type (a :: fl_pairs r ++ rest)).
        unfold infix_shape; fold infix_shape. rewrite Ht0, Ho. simpl andb. cbv iota.
        apply IH; assumption. }
    assert (Q : forall qs rest, Forall wf_orp qs ->
                 (rest = [] \/ infix_shape (map tk_type rest) = true) ->
                 (fl_ors qs ++ rest = [] \/ infix_shape (map tk_type (fl_ors qs ++ rest)) = true \/
                  exists o r, fl_ors qs ++ rest = o :: r /\ tk_type o = T_OR_OP /\
                              infix_shape (map tk_type r) = true)).
    { induction qs0 as [|[o [a pa]] r IH]; intros rest Hq Hrest.
      - simpl. destruct Hrest; auto.
      - inversion Hq as [|? ? [Ho [Ha Hpa]] Hr]; subst. simpl in Ho, Ha, Hpa.
        right. right. exists o, (fl_and (a, pa) ++ fl_ors r ++ rest).
        split; [simpl; rewrite <- app_assoc; reflexivity|]. split; [exact Ho|].
        unfold fl_and. simpl fst. simpl snd.
        change ((a :: fl_pairs pa) ++ fl_ors r ++ rest) with (a :: fl_pairs pa ++ fl_ors r ++ rest).
        apply P; auto. }
    assert (R : forall os, Forall wf_or os -> fl_js os = [] \/ infix_shape (map tk_type (fl_js os)) = true).
    { induction os0 as [|[[a pa] qs'] r IH]; intros Ho; [left; reflexivity|].
      inversion Ho as [|? ? [[Ha Hpa] Hqs'] Hr]; subst. simpl in Ha, Hpa, Hqs'. right.
      change (fl_js (((a, pa), qs') :: r)) with ((a :: fl_pairs pa ++ fl_ors qs') ++ fl_js r).
      simpl app. rewrite <- app_assoc. apply P; auto. }
    rewrite <- app_assoc. apply P; auto. }
  destruct (precedence_core (fl_q q) ev0 Hai) as [t [evs [Hr Hs]]].
  exists t, evs. split; [exact Hr|].
  pose proof (spec_parse_structure q Hq) as Hs2. unfold keys_of in Hs2. rewrite Hs2 in Hs.
  inversion Hs. reflexivity.
Qed.

(* ---- non-vacuity: a long mixed chain with all three operators, three operand kinds, odd layout.
   a  b AND "c d"   OR /e/ AND f g OR h OR i AND j AND k  l *)
Definition ex_chain : str :=
  [97;32;32;98;32;65;78;68;32;34;99;32;100;34;32;32;32;79;82;32;47;101;47;32;65;78;68;32;102;32;103;32;79;82;32;104;
   32;79;82;32;105;32;65;78;68;32;106;32;65;78;68;32;107;32;32;108]%N.

Example C03c_nonvacuous_class : snd (lex ex_chain) = None /\ atomic_infix (fst (lex ex_chain)) /\
                                length (fst (lex ex_chain)) = 18.
Proof. split; [vm_compute; reflexivity|]. split; vm_compute; reflexivity. Qed.

(* the tree it gets: Unknown[a; Or[And[b;"c d"]; And[/e/;f]]; Or[g; h; And[i;j;k]]; l] *)
Example C03c_nonvacuous_tree :
  let w v := Term KWord meta0 v in
  exists t, parse ex_chain = Some (Ok t) /\
    erase t =
    Op KUnknown meta0
      [w [97]%N;
       Op KOr meta0 [Op KAnd meta0 [w [98]%N; Term KPhrase meta0 [34;99;32;100;34]%N];
                     Op KAnd meta0 [Term KRegex meta0 [47;101;47]%N; w [102]%N]];
       Op KOr meta0 [w [103]%N; w [104]%N; Op KAnd meta0 [w [105]%N; w [106]%N; w [107]%N]];
       w [108]%N].
Proof. eexists. split; vm_compute; reflexivity. Qed.

(* the guard excludes the F4 shape and everything that is not an atom *)
Example C03c_guard_excludes_f4 :
  atomic_infix (fst (lex [97;32;65;78;68;32;98;32;45;99]%N)) -> False.      (* a AND b -c *)
Proof. vm_compute. discriminate. Qed.

(* ================================================================ the general form: every syntax tree
   of the grammar below, any depth, any length (proofs/PrecedenceGeneral.v)

     query   := query orx | orx            orx := orx OR andx | andx        andx := andx AND operand | operand
     operand := NOT operand | + operand | - operand | TERM : operand | postfix
     postfix := postfix ^force | TERM | PHRASE | REGEX | TERM~d | PHRASE~n | ( query )
              | TO | < value | <= value | > value | >= value          value := TERM | PHRASE

   `ptree` is that grammar as a datatype, `fl` its yield, `wfb` the level discipline, that the numerals
   after ~ and ^ are numbers, and the one restriction: in `query orx` the orx does not START with `+`,
   `-` or the word TO (`signed`).  NOT covered (no theorem here; still validated by harness/c03.py):
     * such a signed phrase following another phrase by juxtaposition (`a +b`, `+a +b`): after an AND/OR
       chain that is F4 (`a AND b -c`, refuted in C03.v); elsewhere the trees agree but the driver goes
       through states this proof does not follow;
     * ranges `[a TO b]`, `{a TO b}`;
     * the converse direction (inputs the documented grammar rejects are rejected by the driver). *)
Definition C03c_grammar_trees_statement : Prop :=
  forall p toks ev0, wfb p = true -> map tok_key toks = map tok_key (fl p) ->
    exists t evs,
      run gen_tables None (parse_fuel toks) (init_config toks ev0) = Done (Ok t) evs /\
      spec_parse (map tok_key toks) = Some (erase t).

Theorem C03c_grammar_trees : C03c_grammar_trees_statement.
Proof. intros p toks ev0 W Hk. exact (general_core_keys toks ev0 p W Hk). Qed.

(* on strings, in the form of C03_grammar_statement *)
Definition C03c_grammar_trees_parse_statement : Prop :=
  forall s p, snd (lex s) = None -> wfb p = true -> map tok_key (fst (lex s)) = map tok_key (fl p) ->
    exists t, parse s = Some (Ok t) /\ spec_parse (map tok_key (fst (lex s))) = Some (erase t).

Theorem C03c_grammar_trees_parse : C03c_grammar_trees_parse_statement.
Proof.
  intros s p He W Hk. unfold parse, parse_full, parse_with.
  destruct (lex s) as [toks e]. simpl in He, Hk. subst e.
  destruct (general_core_keys toks (match toks with [] => [GDrop s] | _ => [] end) p W Hk) as [t [evs [Hr Hs]]].
  rewrite Hr. exists t. split; [reflexivity|exact Hs].
Qed.

(* the dictated tree, explicitly *)
Definition C03c_grammar_trees_value_statement : Prop :=
  forall p ev0, wfb p = true ->
    exists t evs,
      run gen_tables None (parse_fuel (fl p)) (init_config (fl p) ev0) = Done (Ok t) evs /\ erase t = val p.

Theorem C03c_grammar_trees_value : C03c_grammar_trees_value_statement.
Proof.
  intros p ev0 W. destruct (general_core p ev0 W) as [t [evs [Hr Hs]]]. exists t, evs. split; [exact Hr|].
  pose proof (sp_query p W) as Hq. unfold keys_of in Hq. rewrite Hq in Hs. inversion Hs. reflexivity.
Qed.

(* ---- non-vacuity: field groups, nesting, fuzzy / proximity / boosts, NOT, regex, chained fields
   t:(b OR "c d"~2 AND NOT e^3) f~ AND (g h)^2 OR /r/ x:y:z *)
Definition ex_gen : str :=
  [116;58;40;98;32;79;82;32;34;99;32;100;34;126;50;32;65;78;68;32;78;79;84;32;101;94;51;41;32;102;126;32;65;78;68;32;
   40;103;32;104;41;94;50;32;79;82;32;47;114;47;32;120;58;121;58;122]%N.
Definition ex_gen_tree : ptree :=
  let k i := nth i (fst (lex ex_gen)) (mkTok T_EOF [] 0 [] []) in
  PJuxt
    (PJuxt
       (PField (k 0) (k 1)
          (PGroup (k 2)
             (POr (PAtom (k 3)) (k 4)
                  (PAnd (PApprox (k 5) (k 6)) (k 7) (PNot (k 8) (PBoost (PAtom (k 9)) (k 10)))))
             (k 11)))
       (POr (PAnd (PApprox (k 12) (k 13)) (k 14)
                  (PBoost (PGroup (k 15) (PJuxt (PAtom (k 16)) (PAtom (k 17))) (k 18)) (k 19)))
            (k 20) (PAtom (k 21))))
    (PField (k 22) (k 23) (PField (k 24) (k 25) (PAtom (k 26)))).

Example C03c_trees_nonvacuous :
  snd (lex ex_gen) = None /\ wfb ex_gen_tree = true /\ fl ex_gen_tree = fst (lex ex_gen) /\
  length (fst (lex ex_gen)) = 27.
Proof.
  split; [vm_compute; reflexivity|]. split; [vm_compute; reflexivity|].
  split; vm_compute; reflexivity.
Qed.

(* signs, TO as a word and open ranges where they are covered:  +a AND -b OR NOT +c (TO <=5) f:>x *)
Definition ex_sign : str :=
  [43;97;32;65;78;68;32;45;98;32;79;82;32;78;79;84;32;43;99;32;40;84;79;32;60;61;53;41;32;102;58;62;120]%N.
Definition ex_sign_tree : ptree :=
  let k i := nth i (fst (lex ex_sign)) (mkTok T_EOF [] 0 [] []) in
  PJuxt
    (PJuxt
       (POr (PAnd (PSign (k 0) (PAtom (k 1))) (k 2) (PSign (k 3) (PAtom (k 4)))) (k 5)
            (PNot (k 6) (PSign (k 7) (PAtom (k 8)))))
       (PGroup (k 9) (PJuxt (PTo (k 10)) (POpen (k 11) (k 12))) (k 13)))
    (PField (k 14) (k 15) (POpen (k 16) (k 17))).

Example C03c_trees_nonvacuous_signs :
  snd (lex ex_sign) = None /\ wfb ex_sign_tree = true /\ fl ex_sign_tree = fst (lex ex_sign) /\
  exists t, parse ex_sign = Some (Ok t) /\ erase t = val ex_sign_tree.
Proof.
  split; [vm_compute; reflexivity|]. split; [vm_compute; reflexivity|].
  split; [vm_compute; reflexivity|]. eexists. split; vm_compute; reflexivity.
Qed.

(* the restriction is what keeps F4 out: the only tree shapes whose yield is `a AND b -c` are refused *)
Example C03c_trees_refuse_f4 :
  let k i := nth i (fst (lex [97;32;65;78;68;32;98;32;45;99]%N)) (mkTok T_EOF [] 0 [] []) in
  wfb (PJuxt (PAnd (PAtom (k 0)) (k 1) (PAtom (k 2))) (PSign (k 3) (PAtom (k 4)))) = false /\
  wfb (PAnd (PAtom (k 0)) (k 1) (PJuxt (PAtom (k 2)) (PSign (k 3) (PAtom (k 4))))) = false.
Proof. split; vm_compute; reflexivity. Qed.

Example C03c_trees_nonvacuous_result :
  exists t, parse ex_gen = Some (Ok t) /\ erase t = val ex_gen_tree /\
            spec_parse (map tok_key (fst (lex ex_gen))) = Some (erase t).
Proof. eexists. split; [vm_compute; reflexivity|]. split; vm_compute; reflexivity. Qed.

Print Assumptions C03c_precedence.
Print Assumptions C03c_precedence_parse.
Print Assumptions C03c_precedence_explicit.
Print Assumptions C03c_grammar_trees.
Print Assumptions C03c_grammar_trees_parse.
Print Assumptions C03c_grammar_trees_value.
