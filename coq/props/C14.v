(* C14 — luqum.thread.parse is thread-safe.

   Property text: "When any number of threads call the thread-safe parse function concurrently on
   arbitrary inputs, then under every interleaving each call returns exactly the tree (structure,
   values, head/tail, positions) or raises exactly the error that a sequential call on the same
   input gives."

   PARTIAL CLAIM (see model/Threads.v): the theorems are about the interleaving model whose atomic
   step is ONE PLY-level operation (obtain-or-create the thread's lexer, `lexer.input`, one attribute
   assignment of the driver's prologue, one raw token of `lexer.token()` with its token function and
   HeadTailLexer.handle, one shift/reduce/accept/error of the driver).  Preemption INSIDE such an
   operation (CPython byte code, the C regex engine, `copy.copy` in `clone()`), the GIL and
   interpreter internals are outside an executable Gallina model; harness/c14.py runs real threads
   under an enforced scheduler and under stress, and monitors the real write sets.

   Clauses -> statements
     which objects a call touches (state partition)      C14_footprints_disjoint, C14_view_determines_step,
                                                         C14_other_threads_preserve_view, C14_writes_complete,
                                                         C14_sinks_never_observed, C14_foreign_tracker_never_touched
     every interleaving, any number of threads, inputs    C14_interleaving_independent, C14_results_so_far
     what the generated tie facts protect                 C14_shared_lexer_refuted, C14_shared_tracker_refuted
     sequential baseline, stale module-lexer state        C14_sequential, C14_finished_noop
     ties                                                 C14_ties *)
Require Import Base Decimal Tree GenParser Lexer Actions LR Parser Threads ThreadsProofs.

(* ---- ties: what the translator read from luqum/thread.py and luqum/head_tail.py *)
Definition C14_ties_statement : Prop :=
  sc_lexer gen_scopes = LexerCloneInThreadLocal /\
  sc_tracker gen_scopes = TrackerOnTokenLexerResetAtPos0 /\
  gen_parse_entry_ok = true /\ gen_defaulted_states = [].
Theorem C14_ties : C14_ties_statement.
Proof. repeat split; reflexivity. Qed.

Lemma gen_lx : sc_lexer gen_scopes = LexerCloneInThreadLocal. Proof. reflexivity. Qed.
Lemma gen_tr : sc_tracker gen_scopes = TrackerOnTokenLexerResetAtPos0. Proof. reflexivity. Qed.

(* a world reachable by ANY schedule from ANY initial store (module lexer used before, stale
   tracker references, thread-local lexers left by earlier calls, ...) *)
Definition reachable (w : world) : Prop :=
  exists inputs σ0 sched, w = run_threads gen_scopes sched (init_world inputs σ0).

Definition footprint (t : tid) (w : world) : list loc :=
  reads gen_scopes t (w_locals w t) (w_store w) ++ writes gen_scopes t (w_locals w t) (w_store w).

(* ---- (1) state partition *)
(* in every reachable world the footprints of the next steps of two different threads meet only in
   SINKS (attributes of the shared parser object, PLY's module globals) and in the module-level lexer,
   which neither of them writes (it is read by `clone()`) *)
Definition C14_footprints_disjoint_statement : Prop :=
  forall w t u x, reachable w -> t <> u ->
    In x (footprint t w) -> In x (footprint u w) ->
    sink x = true \/
    (module_lexer_loc x = true /\
     ~ In x (writes gen_scopes t (w_locals w t) (w_store w)) /\
     ~ In x (writes gen_scopes u (w_locals w u) (w_store w))).

Lemma reachable_inv w : reachable w -> all_inv w.
Proof.
  intros (inputs & σ0 & sched & ->).
  apply (run_all_inv gen_scopes gen_lx gen_tr). apply init_all_inv.
Qed.

Theorem C14_footprints_disjoint : C14_footprints_disjoint_statement.
Proof.
  intros w t u x Hr Hne Ht Hu. pose proof (reachable_inv w Hr) as Hall.
  exact (footprints_disjoint gen_scopes gen_lx gen_tr t u _ _ _ x Hne (Hall t) (Hall u) Ht Hu).
Qed.

(* the semantic core of the partition (the declared READ sets are not separately proved complete; this is
   the stronger fact the projection uses): in a reachable world the next step of thread t is determined
   by t's VIEW — its threading.local slot, its lexer, the module lexer, the trackers it made, its token
   objects — and yields the same view; and a step of any OTHER thread leaves that view unchanged *)
Definition C14_view_determines_step_statement : Prop :=
  forall w t σ', reachable w -> same_view t (w_store w) σ' ->
    fst (step gen_scopes t (w_locals w t) (w_store w)) = fst (step gen_scopes t (w_locals w t) σ') /\
    same_view t (snd (step gen_scopes t (w_locals w t) (w_store w))) (snd (step gen_scopes t (w_locals w t) σ')).
Theorem C14_view_determines_step : C14_view_determines_step_statement.
Proof.
  intros w t σ' Hr Hv. exact (step_view gen_scopes gen_lx gen_tr t _ _ _ (reachable_inv w Hr t) Hv).
Qed.

Definition C14_other_threads_preserve_view_statement : Prop :=
  forall w t u, reachable w -> u <> t ->
    same_view t (w_store w) (snd (step gen_scopes u (w_locals w u) (w_store w))).
Theorem C14_other_threads_preserve_view : C14_other_threads_preserve_view_statement.
Proof.
  intros w t u Hr Hne. exact (step_frame gen_scopes gen_lx gen_tr t u _ _ Hne (reachable_inv w Hr u)).
Qed.

(* the declared write set is complete — for ANY scopes, any state: a location outside it keeps its value *)
Definition C14_writes_complete_statement : Prop :=
  forall sc t l σ x, ~ In x (writes sc t l σ) -> sel x (snd (step sc t l σ)) = sel x σ.
Theorem C14_writes_complete : C14_writes_complete_statement.
Proof. exact writes_sound. Qed.

(* sinks are written and never observed — for ANY scopes, any state: two stores that differ only in
   sinks give the same thread-local result and again differ only in sinks.  (The one read of a
   sink, `_token = parser.token` in call_errorfunc, flows into a sink.) *)
Definition C14_sinks_never_observed_statement : Prop :=
  forall sc t l σ σ', nonsink_eq σ σ' ->
    fst (step sc t l σ) = fst (step sc t l σ') /\ nonsink_eq (snd (step sc t l σ)) (snd (step sc t l σ')).
Theorem C14_sinks_never_observed : C14_sinks_never_observed_statement.
Proof. exact sinks_never_observed. Qed.

(* the tracker reference a clone inherits from the module lexer (`copy.copy` is shallow), and any
   tracker made by another thread, is never read or written: HeadTailLexer.handle replaces the
   attribute at lexpos 0 before it reads it *)
Definition C14_foreign_tracker_never_touched_statement : Prop :=
  forall w t r f, reachable w -> (forall c, r <> TrNew t c) -> ~ In (LTracker r f) (footprint t w).
Theorem C14_foreign_tracker_never_touched : C14_foreign_tracker_never_touched_statement.
Proof.
  intros w t r f Hr Hne. pose proof (reachable_inv w Hr) as Hall.
  exact (foreign_tracker_never_touched gen_scopes gen_lx gen_tr t _ _ r f (Hall t) Hne).
Qed.

(* ---- (2) every interleaving *)
Definition C14_statement_for (sc : scopes) : Prop :=
  forall (inputs : tid -> list str) (σ0 : store) (sched : schedule) (t : tid),
    enough_turns sc inputs σ0 sched t = true ->
    outcomes (run_threads sc sched (init_world inputs σ0)) t = map parse (inputs t).

(* any number of threads (every tid of nat; a thread without input is finished), each making any
   number of calls, any initial store, ANY schedule: a thread that gets at least as many turns as its
   calls take when it runs alone has obtained, for each call, exactly Parser.parse of that input *)
Definition C14_interleaving_independent_statement : Prop := C14_statement_for gen_scopes.
Theorem C14_interleaving_independent : C14_interleaving_independent_statement.
Proof. intros inputs σ0 sched t. exact (interleaving_independent gen_scopes gen_lx gen_tr inputs σ0 sched t). Qed.

(* without any fairness hypothesis: whatever a thread has returned so far is the sequential answer *)
Definition C14_results_so_far_statement : Prop :=
  forall inputs σ0 sched t,
    let done := outcomes (run_threads gen_scopes sched (init_world inputs σ0)) t in
    done = firstn (length done) (map parse (inputs t)).
Theorem C14_results_so_far : C14_results_so_far_statement.
Proof.
  intros inputs σ0 sched t done.
  rewrite <- (results_so_far gen_scopes gen_lx gen_tr inputs σ0 sched t).
  unfold future. symmetry. apply firstn_length_app.
Qed.

(* ---- (3) what the tie facts protect: the same model under another scope *)
Definition sc_shared_lexer : scopes := mkSc LexerOther gen_tracker_scope.        (* every thread uses parser.lexer *)
Definition sc_shared_tracker : scopes := mkSc gen_thread_lexer_scope TrackerOther. (* one tracker for all lexers *)

Definition s_a : str := [97]%N.           (* "a" *)
Definition s_b : str := [98]%N.           (* "b" *)
Definition s_sp_a : str := [32; 97]%N.    (* " a" *)
Definition s_b_sp : str := [98; 32]%N.    (* "b " *)
Definition two (x y : str) (t : tid) : list str := match t with 0 => [x] | 1 => [y] | _ => [] end.

(* thread 0 calls input("a"), thread 1 calls input("b") on the same lexer, then thread 0 goes on *)
Definition sched_shared_lexer : schedule := [0; 0; 1; 1] ++ repeat 0 30 ++ repeat 1 30.
Theorem C14_shared_lexer_refuted : ~ C14_statement_for sc_shared_lexer.
Proof.
  intros H.
  assert (E : enough_turns sc_shared_lexer (two s_a s_b) store0 sched_shared_lexer 0 = true)
    by (vm_compute; reflexivity).
  specialize (H _ _ _ _ E). vm_compute in H. discriminate H.
Qed.

(* thread 0 lexes its leading blank (pending head), thread 1's first token re-creates the shared
   tracker, thread 0's word finds no head, thread 1's trailing blank lands on thread 0's token *)
Definition sched_shared_tracker : schedule := repeat 0 6 ++ repeat 1 6 ++ [0; 1] ++ repeat 0 30 ++ repeat 1 30.
Theorem C14_shared_tracker_refuted : ~ C14_statement_for sc_shared_tracker.
Proof.
  intros H.
  assert (E : enough_turns sc_shared_tracker (two s_sp_a s_b_sp) store0 sched_shared_tracker 0 = true)
    by (vm_compute; reflexivity).
  specialize (H _ _ _ _ E). vm_compute in H. discriminate H.
Qed.

(* the very same inputs and schedules are harmless under the generated scopes *)
Example C14_witnesses_fine_as_generated :
  outcomes (run_threads gen_scopes sched_shared_lexer (init_world (two s_a s_b) store0)) 0 = [parse s_a] /\
  outcomes (run_threads gen_scopes sched_shared_lexer (init_world (two s_a s_b) store0)) 1 = [parse s_b] /\
  outcomes (run_threads gen_scopes sched_shared_tracker (init_world (two s_sp_a s_b_sp) store0)) 0 = [parse s_sp_a] /\
  outcomes (run_threads gen_scopes sched_shared_tracker (init_world (two s_sp_a s_b_sp) store0)) 1 = [parse s_b_sp].
Proof. vm_compute. repeat split; reflexivity. Qed.

(* ---- (4) sequential baseline *)
(* the threads of `order` one after the other, k turns each, from ANY store — in particular one in
   which the module-level lexer was used before and still carries data, a position and a tracker *)
Definition C14_sequential_statement : Prop :=
  forall inputs σ0 order k t, NoDup order -> In t order ->
    finished (fst (solo gen_scopes t k (init_local (inputs t)) σ0)) = true ->
    outcomes (run_threads gen_scopes (sequential order k) (init_world inputs σ0)) t = map parse (inputs t).
Theorem C14_sequential : C14_sequential_statement.
Proof.
  intros inputs σ0 order k t Hnd Hin Hfin.
  apply C14_interleaving_independent. unfold enough_turns.
  rewrite (turns_sequential t k order Hnd Hin). exact Hfin.
Qed.

(* a scheduled turn of a finished thread is a no-op (any scopes) *)
Definition C14_finished_noop_statement : Prop :=
  forall sc t l σ, finished l = true -> step sc t l σ = (l, σ).
Theorem C14_finished_noop : C14_finished_noop_statement.
Proof. exact finished_noop. Qed.

(* ---- non-vacuity *)
(* a store in which luqum.parser.parse("x y") has been run before: the module lexer is at the end of
   its input and holds a tracker whose last_elt is a token of that earlier call; thread 5 already
   has a thread-local lexer from an earlier call with ANOTHER stale tracker *)
Definition s_x_y : str := [120; 32; 121]%N.
Definition store_used : store :=
  set_slot
    (set_lexer
       (set_tracker
          (set_tracker (set_lexer store0 LxModule (mkLx s_x_y 4 (Some (TrPre 0))))
                       (TrPre 0) (mkTr (Some s_a) (Some (7, 0, 1))))
          (TrPre 1) (mkTr None (Some (5, 0, 0))))
       (LxThread 5) (mkLx s_b_sp 3 (Some (TrPre 1))))
    5.

Definition s_bad_paren : str := [40; 99; 32]%N.                (* "(c "   syntax error *)
Definition s_illegal : str := [100; 32; 39]%N.                 (* "d '"   illegal character *)
Definition s_bad_num : str := [101; 94; 46]%N.                 (* "e^."   malformed number *)
Definition s_query : str := [32; 102; 58; 40; 103; 32; 79; 82; 32; 104; 41; 94; 50; 32]%N.   (* " f:(g OR h)^2 " *)
Definition inputs3 (t : tid) : list str :=
  match t with
  | 0 => [s_query; s_bad_paren]
  | 5 => [s_illegal; s_sp_a]
  | 7 => [s_bad_num; s_b_sp; s_x_y]
  | _ => []
  end.
Definition sched3 : schedule := flat_map (fun _ => [0; 5; 5; 7; 0; 7; 7; 5]) (repeat tt 60).

(* the hypothesis of (2) is met by three threads with distinct valid and invalid inputs, several
   calls each, interleaved step by step, starting from the used store *)
Example C14_enough_turns_nonvacuous :
  enough_turns gen_scopes inputs3 store_used sched3 0 = true /\
  enough_turns gen_scopes inputs3 store_used sched3 5 = true /\
  enough_turns gen_scopes inputs3 store_used sched3 7 = true.
Proof. vm_compute. repeat split; reflexivity. Qed.

(* ... and the outcomes are not trivial: a tree, a syntax error, an illegal character, a malformed number *)
Example C14_outcomes_nontrivial :
  match outcomes (run_threads gen_scopes sched3 (init_world inputs3 store_used)) 0 with
  | [Some (Ok (Op _ _ _)); Some (Err (ESyntax _))] => True | [Some (Ok _); Some (Err (ESyntax _))] => True | _ => False end /\
  match outcomes (run_threads gen_scopes sched3 (init_world inputs3 store_used)) 5 with
  | [Some (Err (EIllegal _)); Some (Ok _)] => True | _ => False end /\
  length (outcomes (run_threads gen_scopes sched3 (init_world inputs3 store_used)) 7) = 3.
Proof. vm_compute. repeat split; exact I. Qed.

(* the sequential corollary's hypotheses: threads 7, 0, 5 one after the other, 400 turns each *)
Example C14_sequential_nonvacuous :
  NoDup [7; 0; 5] /\
  finished (fst (solo gen_scopes 7 400 (init_local (inputs3 7)) store_used)) = true /\
  finished (fst (solo gen_scopes 5 400 (init_local (inputs3 5)) store_used)) = true.
Proof.
  split; [repeat constructor; cbn; intuition discriminate|].
  vm_compute. split; reflexivity.
Qed.

(* in the used store thread 5's lexer really holds a foreign (stale) tracker reference at the start,
   and the module lexer too: the case C14_foreign_tracker_never_touched is about *)
Example C14_stale_reference_present :
  lx_attr (s_lexer store_used (LxThread 5)) = Some (TrPre 1) /\
  lx_attr (s_lexer store_used LxModule) = Some (TrPre 0) /\
  reachable (run_threads gen_scopes sched3 (init_world inputs3 store_used)).
Proof. repeat split; try reflexivity. exists inputs3, store_used, sched3. reflexivity. Qed.

Print Assumptions C14_ties.
Print Assumptions C14_footprints_disjoint.
Print Assumptions C14_view_determines_step.
Print Assumptions C14_other_threads_preserve_view.
Print Assumptions C14_writes_complete.
Print Assumptions C14_sinks_never_observed.
Print Assumptions C14_foreign_tracker_never_touched.
Print Assumptions C14_interleaving_independent.
Print Assumptions C14_results_so_far.
Print Assumptions C14_shared_lexer_refuted.
Print Assumptions C14_shared_tracker_refuted.
Print Assumptions C14_sequential.
Print Assumptions C14_finished_noop.
