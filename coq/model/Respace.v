(* Respace.v — definitions for the lexer theorem "re-spacing a query preserves its token sequence"
   (proofs/RespaceProofs.v, props/Lrespace.v).  Executable definitions only.

   A re-spacing of a token list `toks` (as `Lexer.lex` returns it: separators are the tails, the
   separator at offset 0 is the head of the first token) is a token list `toks'` with the same
   (type, lexeme) sequence whose heads and tails are arbitrary whitespace such that only the first
   token has a head and no separator between two tokens is removed. *)
Require Import Base GenChars GenParser Lexer Erase.

Definition is_nil {A} (l : list A) : bool := match l with [] => true | _ => false end.

(* every character is matched by \s *)
Definition all_space (w : str) : bool := forallb is_space w.

(* heads and tails are whitespace; only the first token may have a head *)
Definition layout_ws (ts : list token) : bool :=
  match ts with
  | [] => true
  | t :: r => all_space (tk_head t) && all_space (tk_tail t) &&
              forallb (fun u => is_nil (tk_head u) && all_space (tk_tail u)) r
  end.

(* separation is not reduced: where the original has a separator between two tokens, so has the new
   list (the tail of the LAST token is not between two tokens: unconstrained) *)
Fixpoint seps_kept (ts ts' : list token) : bool :=
  match ts, ts' with
  | t :: r, t' :: r' => (is_nil r || is_nil (tk_tail t) || negb (is_nil (tk_tail t'))) && seps_kept r r'
  | _, _ => true
  end.

(* building a re-spacing from a head and a list of tails (testing, examples) *)
Fixpoint set_tails (ts : list token) (tails : list str) : list token :=
  match ts with
  | [] => []
  | t :: r => mkTok (tk_type t) (tk_lexeme t) 0 [] (hd [] tails) :: set_tails r (tl tails)
  end.
Definition set_head (h : str) (ts : list token) : list token :=
  match ts with
  | [] => []
  | t :: r => mkTok (tk_type t) (tk_lexeme t) (tk_pos t) h (tk_tail t) :: r
  end.
Definition respace_with (ts : list token) (h : str) (tails : list str) : list token :=
  set_head h (set_tails ts tails).

(* the text of a token list without heads *)
Definition body_text (ts : list token) : str := concat (map (fun t => tk_lexeme t ++ tk_tail t) ts).

(* the (type, lexeme) sequence of a raw token list *)
Fixpoint raw_keys (raws : list rawtok) : list (tok * str) :=
  match raws with
  | [] => []
  | r :: rs => match rk_kind r with RSep => raw_keys rs | RTok t => (t, rk_lexeme r) :: raw_keys rs end
  end.

(* ---- what the TERM rule sees around a token *)
(* TIME_RE's look-behind (?<=T\d{2}) on the reversed prefix *)
Definition tw (rp : str) : bool :=
  match rp with d2 :: d1 :: t :: _ => is_udigit d2 && is_udigit d1 && N.eqb t c_T | _ => false end.
(* TIME_RE's optional seconds (:\d{2})? *)
Definition tm2 (s : str) : bool :=
  match s with c2 :: x1 :: x2 :: _ => N.eqb c2 c_colon && is_udigit x1 && is_udigit x2 | _ => false end.

(* look-ahead agreement: the non-blank prefix of r' is a prefix of r *)
Fixpoint la (r r' : str) {struct r'} : bool :=
  match r' with
  | [] => true
  | c :: t' => if is_space c then true
               else match r with d :: t => N.eqb d c && la t t' | [] => false end
  end.

(* a backslash at the start of r starts an escape \. (it is not followed by a newline or the end) *)
Definition esc_ok (r : str) : bool :=
  match r with
  | c :: t => if N.eqb c c_bslash then match t with d :: _ => negb (N.eqb d c_nl) | [] => false end else true
  | [] => true
  end.

(* a reversed prefix the look-behind of a TERM starting right after it cannot use: it does not end
   in `T` nor in `T` + digit *)
Definition qsafe (rp : str) : bool :=
  match rp with
  | [] => true
  | u1 :: rest => negb (N.eqb u1 c_T) &&
                  negb (is_udigit u1 && match rest with u2 :: _ => N.eqb u2 c_T | [] => false end)
  end.

(* two lists of inclusive ranges have no common point *)
Definition ranges_disjoint (l1 l2 : list (N * N)) : bool :=
  forallb (fun p1 => forallb (fun p2 => (snd p1 <? fst p2)%N || (snd p2 <? fst p1)%N) l2) l1.

(* ---- chunked form (the shape of a pretty-printer's output): the tokens are cut into consecutive
   groups; a chunk is the text a group covers without the tail of its last token *)
Fixpoint group_text (g : list token) : str :=
  match g with
  | [] => []
  | t :: r => match r with [] => tk_lexeme t | _ => tk_lexeme t ++ tk_tail t ++ group_text r end
  end.

(* the group with heads removed and the tail of its last token replaced by w *)
Fixpoint retail (g : list token) (w : str) : list token :=
  match g with
  | [] => []
  | t :: r => mkTok (tk_type t) (tk_lexeme t) (tk_pos t) [] (match r with [] => w | _ => tk_tail t end)
              :: retail r w
  end.

(* cutting a token list into consecutive groups of the given sizes (examples) *)
Fixpoint cut (sizes : list nat) (ts : list token) : list (list token) :=
  match sizes with [] => [] | n :: r => firstn n ts :: cut r (skipn n ts) end.
