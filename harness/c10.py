"""C10 — UnknownOperationResolver replaces exactly the implicit operations, same meaning.

Correspondence: model coq/model/Resolver.v `resolve tg ah t` against
`UnknownOperationResolver(resolve_to, add_head)(tree)` on the full output tree (layout, names, flags).
Oracle (independent of the model): no UnknownOperation left, every other node kept, layout only changed by
add_head in front of operands 2.. of resolved operations, explicit target / And-Or / And throughout, same
truth table, idempotence, input unmodified.

Object sharing (finding F24): the model is value-based (a node has no identity), the code keys its Lucene-mode
memory by `id()` of a node.  Trees in which one node OBJECT occurs at several positions are fed to the code too:
the result must be what the code returns for an equal tree made of distinct objects (`unshare`), position by
position; the model is compared with that unshared result.  Deviations are classified F24 only when they are
exactly the ones `f24_positions` predicts from the INPUT.
"""
import copy
import hashlib
import itertools

import lib
import gentree
from runner import CorrResult  # noqa: F401

ADD_HEADS = [" ", "", "\n"]


def targets(T):
    return [("None", None), ("(Some KAnd)", T.AndOperation), ("(Some KOr)", T.OrOperation),
            ("(Some KBool)", T.BoolOperation)]


# ------------------------------------------------------------------ generators

class RGen:
    """trees made mostly of groups, fields, explicit and implicit operations (0-6 operands), unary
    operators, with layout, positions and names; a few arbitrary sub-trees from gentree.Gen"""

    def __init__(self, r, T):
        self.r, self.T = r, T
        self.g = gentree.Gen(r, T, layout=0.3, odd=0.2, max_ops=3, positions=0.2)
        self.n = 0

    def fin(self, node):
        r = self.r
        if r.random() < 0.3:
            node.head = r.choice(gentree.SPACES + ["h"])
        if r.random() < 0.3:
            node.tail = r.choice(gentree.SPACES + ["t"])
        if r.random() < 0.15:
            node.pos = r.randrange(0, 60)
            node.size = r.randrange(0, 9)
        if r.random() < 0.1:
            setattr(node, "_luqum_name", r.choice(["a", "nm", ""]))
        return node

    def leaf(self):
        self.n += 1
        return self.fin(self.T.Word("w%d" % self.n))

    def tree(self, budget, depth, pop=None):
        T, r = self.T, self.r
        if budget <= 1 or depth <= 0:
            return self.leaf()
        kind = r.choice(pop or ["unk", "unk", "unk", "and", "or", "and", "or", "bool", "group", "group",
                                "field", "fieldgroup", "not", "plus", "prohibit", "boost", "leaf", "any"])
        sub = lambda b: self.tree(b, depth - 1, pop)  # noqa
        if kind == "leaf":
            return self.leaf()
        if kind == "any":
            return self.g.tree(min(depth, 2))
        if kind in ("unk", "and", "or", "bool"):
            k = {"unk": T.UnknownOperation, "and": T.AndOperation, "or": T.OrOperation,
                 "bool": T.BoolOperation}[kind]
            n = r.choice([0, 1, 2, 2, 2, 3, 3, 4, 5, 6])
            n = min(n, max(budget, 2)) if n > 1 else n
            ops = []
            left = budget
            for i in range(n):
                b = max(1, r.randrange(1, max(2, left - (n - i - 1) + 1)))
                left = max(1, left - b)
                ops.append(sub(b))
            return self.fin(k(*ops))
        if kind == "group":
            return self.fin(T.Group(sub(budget)))
        if kind == "field":
            return self.fin(T.SearchField(r.choice(["f", "title", "a.b"]), sub(budget)))
        if kind == "fieldgroup":
            return self.fin(T.SearchField(r.choice(["f", "g"]), self.fin(T.FieldGroup(sub(budget)))))
        if kind in ("not", "plus", "prohibit"):
            k = {"not": T.Not, "plus": T.Plus, "prohibit": T.Prohibit}[kind]
            return self.fin(k(sub(budget)))
        if kind == "boost":
            return self.fin(T.Boost(sub(budget), r.choice([None, "2", "1.50", 3])))
        raise AssertionError(kind)


    def ltree(self, depth, top=True):
        """shapes on which the Lucene-mode memory matters: explicit operators before implicit ones, under
        BoolOperation / group / field parents (the nodes that do not create the dict), nested groups"""
        T, r = self.T, self.r
        if depth <= 0:
            return self.leaf()
        if top:
            kind = r.choice(["bool", "bool", "group", "unk", "and", "field", "not"])
        else:
            kind = r.choice(["unk", "unk", "unk", "or", "or", "and", "bool", "group", "group", "field", "leaf",
                             "leaf", "not"])
        sub = lambda: self.ltree(depth - 1, False)  # noqa
        if kind == "leaf":
            return self.leaf()
        if kind in ("unk", "and", "or", "bool"):
            k = {"unk": T.UnknownOperation, "and": T.AndOperation, "or": T.OrOperation,
                 "bool": T.BoolOperation}[kind]
            return self.fin(k(*[sub() for _ in range(r.choice([1, 2, 2, 2, 3, 3, 4]))]))
        if kind == "group":
            return self.fin(T.Group(sub()))
        if kind == "field":
            return self.fin(T.SearchField("f", self.fin(T.FieldGroup(sub()))))
        return self.fin(T.Not(sub()))


    def inner(self):
        """content of an object that will be shared: an implicit operation with explicit ones around / inside"""
        T, r = self.T, self.r
        x = r.random()
        if x < 0.4:
            e = self.fin(r.choice([T.OrOperation, T.OrOperation, T.AndOperation])(self.leaf(), self.leaf()))
            ops = [self.leaf(), e]
            if r.random() < 0.3:
                ops.append(self.fin(r.choice([T.OrOperation, T.AndOperation])(self.leaf())))
            if r.random() < 0.3:
                r.shuffle(ops)
            return self.fin(T.UnknownOperation(*ops))
        if x < 0.5:
            return self.leaf()
        return self.ltree(r.randrange(1, 4), False)

    def stree(self, depth):
        """trees with SHARED OBJECTS: operations (And/Or/Unknown/Bool, nested) whose operands are drawn, with
        repetition, from a small pool of objects — groups, fields, field groups, negations, words (the objects
        `_first_nonop_parent` can return when they sit below operations only) and a few operation objects"""
        T, r = self.T, self.r
        pool = []
        for _ in range(r.randrange(1, 4)):
            k = r.choice(["group", "group", "group", "field", "fieldgroup", "not", "leaf", "op", "nested"])
            if k == "group":
                pool.append(self.fin(T.Group(self.inner())))
            elif k == "field":
                pool.append(self.fin(T.SearchField("f", self.inner())))
            elif k == "fieldgroup":
                pool.append(self.fin(T.SearchField("g", self.fin(T.FieldGroup(self.inner())))))
            elif k == "not":
                pool.append(self.fin(r.choice([T.Not, T.Plus, T.Prohibit])(self.inner())))
            elif k == "leaf":
                pool.append(r.choice([self.leaf(), T.NONE_ITEM]))
            elif k == "op":
                pool.append(self.inner())
            else:
                g = self.fin(T.Group(self.inner()))
                pool.append(self.fin(T.Group(self.fin(T.AndOperation(g, g)))))

        def ops(d, top):
            if not top and (d <= 0 or r.random() < 0.45):
                x = r.random()
                if x < 0.75:
                    return r.choice(pool)
                if x < 0.85:
                    return self.fin(T.Group(r.choice(pool)))       # the shared object below a distinct one
                return self.leaf()
            k = r.choice([T.AndOperation, T.OrOperation, T.UnknownOperation, T.UnknownOperation, T.BoolOperation])
            return self.fin(k(*[ops(d - 1, False) for _ in range(r.choice([1, 2, 2, 3, 3, 4]))]))
        t = ops(depth, True)
        if r.random() < 0.15:
            t = self.fin(T.Group(t))                                # a non-operation root: one key for all
        return t

    def graft(self, tree):
        """make one object of `tree` occur at a second position (neither position above the other); in place"""
        r = self.r
        nodes = [(p, n) for p, n in gentree.all_nodes(tree) if p]
        for _ in range(8):
            if len(nodes) < 2:
                break
            (p, o), (q, _) = r.sample(nodes, 2)
            if p[:len(q)] == q or q[:len(p)] == p:
                continue
            parent = node_at(tree, q[:-1])
            kids = list(parent.children)
            kids[q[-1]] = o
            parent.children = kids
            break
        return tree


QUERIES = [
    "a b OR c d (e f AND g h) x:(i j)",
    "a b",
    "a OR b c",
    "a b OR c",
    "(a OR b) c d",
    "(a OR b c) d e",
    "a AND b (c d) e f",
    "(a b) (c OR d) (e f)",
    "x:(a OR b) y:(c d) e f",
    "x:(a b OR c d) (e f)",
    "a b (c d OR e (f g AND h i) j k) l m",
    "(a b (c OR d) e f) g h",
    "((a OR b)) c d ((e f))",
    "((a b) (c AND d)) ((e f) (g OR h i)) j k",
    "NOT a b OR -c +d e",
    "a~ b^ \"c d\"~ e~2 f^3 g",
    "x:[a TO b] y:{1 TO 2] z:>=3 t",
    "  a   b\tOR  c   d  ",
    "f:(a b) g:(c OR d) h:(e f)",
    "a OR b AND c d (e OR f) g h AND i j",
    "(a AND b) c d",
    "c d (a AND b)",
    "(c d (a AND b) e f) g h",
    "(x OR y) ((a b) (c d)) e f",
]


def shared_corpus(T):
    """trees in which one node OBJECT occurs at several positions (finding F24 and its neighbourhood)"""
    W = T.Word
    U, A, O, B, G, F = (T.UnknownOperation, T.AndOperation, T.OrOperation, T.BoolOperation, T.Group,
                        T.SearchField)
    def g():       # implicit before explicit OR: resolved to AND on its own
        return G(U(W("x"), O(W("a"), W("b"))))
    out = []
    x = g(); out.append(A(x, x))                                   # the witness of F24
    x = g(); out.append(U(x, W("y"), x))
    x = g(); out.append(U(x, x, x))
    x = g(); out.append(O(x, A(x)))                                # below nested operations: still a key
    x = g(); out.append(B(x, x))                                   # Bool root: one dict per occurrence, no leak
    x = g(); out.append(B(A(x), A(x)))                             # two dicts
    x = g(); out.append(B(A(x, x)))                                # one dict
    x = g(); out.append(B(A(x), A(x, W("y"), x)))
    x = g(); out.append(G(A(x, x)))                                # non-operation root: the root is the only key
    x = g(); out.append(A(F("f", x), F("h", x)))                   # shared group inside two different fields
    x = g(); out.append(A(G(x), G(x)))                             # shared below distinct keys
    x = g(); out.append(A(x, G(x)))
    x = F("f", g()); out.append(A(x, x))                           # shared field
    x = F("f", T.FieldGroup(U(W("x"), O(W("a"), W("b"))))); out.append(U(x, x))
    x = T.Not(U(W("x"), O(W("a"), W("b")))); out.append(A(x, x))   # shared negation
    x = G(U(O(W("a"), W("b")), W("x"))); out.append(A(x, x))       # the implicit one is visited before its operand
    x = G(B(O(W("a"), W("b")), U(W("x"), W("y")))); out.append(A(x, x))   # implicit AFTER the explicit one: OR anyway
    x = G(U(W("x"), A(W("a"), W("b")))); out.append(A(x, x))       # last explicit is AND: the default anyway
    x = G(U(W("x"), O(W("a")), A(W("c")))); out.append(A(x, x))    # OR then AND: AND is remembered
    x = G(U(W("x"), A(W("c")), O(W("a")))); out.append(A(x, x))    # AND then OR: OR is remembered
    x = G(U(U(W("x"), W("y")), G(U(W("z"), W("t"))), O(W("a")), U(W("u"), W("v")))); out.append(O(x, x))
    x = U(W("x"), O(W("a"), W("b"))); out.append(A(x, x))          # shared OPERATION object: not a key
    x = W("x"); out.append(U(x, x, O(x, x)))                       # shared leaf
    x = g(); y = G(U(W("p"), O(W("q")))); out.append(U(x, y, x, y))
    x = g(); x.head = " "; x.tail = "\t"; setattr(x, "_luqum_name", "shared"); out.append(A(x, x, pos=1, size=9))
    return out


def corpus(T):
    W = T.Word
    U, A, O, B, G, F = (T.UnknownOperation, T.AndOperation, T.OrOperation, T.BoolOperation, T.Group,
                        T.SearchField)
    named = U(W("a"), W("b", head=" "), W("c", head=" ", tail=" "), pos=3, size=7, head="  ", tail="\t")
    setattr(named, "_luqum_name", "root")
    setattr(named.children[1], "_luqum_name", "b")
    return [
        W("a"), U(), U(W("a")), U(W("a"), W("b")), named,
        # placeholders as operands (fresh objects and the module-level NONE_ITEM): they get a separator like any
        # other operand, in the COPY
        U(W("a"), T.NoneItem()), U(T.NoneItem(), T.NoneItem(), W("b")), A(W("a"), U(W("b"), T.NoneItem())),
        U(W("a"), T.NONE_ITEM), G(U(T.NONE_ITEM, W("b"), T.NONE_ITEM)),
        # the dict is created at the topmost And/Or/Unknown of each branch: siblings under a group root
        # do not see each other, descendants of one operation do
        G(U(W("a"), W("b"))),
        B(O(W("a"), W("b")), U(W("c"), W("d"))),                  # Bool root: Or invisible to its sibling
        U(O(W("a"), W("b")), U(W("c"), W("d"))),                  # Unknown root: shared, second becomes Or
        U(U(W("c"), W("d")), O(W("a"), W("b")), U(W("e"), W("f"))),   # before / after the explicit one
        A(U(W("a"), W("b")), O(W("c")), U(W("d"), W("e"))),
        O(U(W("a"), W("b")), A(W("c")), U(W("d"), W("e"))),
        # keys: the outermost non-operation ancestor
        U(G(O(W("a"), W("b"))), G(U(W("c"), W("d"))), U(W("e"), W("f"))),
        U(G(U(G(O(W("a"), W("b"))), U(W("c"), W("d")))), G(U(W("e"), W("f")))),
        G(U(G(O(W("a"), W("b"))), G(U(W("c"), W("d"))), U(W("e"), W("f")))),
        G(G(U(O(W("a")), G(U(W("c"), W("d"))), U(W("e"), W("f"))))),
        F("x", G(U(O(W("a"), W("b")), U(W("c"), W("d"))))),
        U(F("x", T.FieldGroup(O(W("a"), W("b")))), F("y", T.FieldGroup(U(W("c"), W("d")))), U(W("e"))),
        U(T.Not(O(W("a"), W("b"))), T.Not(U(W("c"), W("d"))), U(W("e"), W("f"))),
        U(B(O(W("a"), W("b")), U(W("c"), W("d"))), U(W("e"), W("f"))),
        B(B(O(W("a"))), U(W("c"), W("d")), G(B(A(W("x")), U(W("e"), W("f"))))),
        A(O(W("a")), U(W("b"), W("c")), A(W("d")), U(W("e"), W("f")), G(U(W("g"), W("h")))),
        U(A(O(W("a")), U(W("b"), W("c"))), U(W("e"), W("f"))),
        T.Range(U(W("a"), W("b")), O(U(W("c"), W("d")), W("e"))),
        T.Fuzzy(U(W("a"), W("b"))), T.Boost(U(T.Fuzzy(W("a")), T.Proximity(T.Phrase('"x y"')), T.Boost(W("b"), None)), "2.50"),
        U(*[W("w%d" % i) for i in range(6)]),
        U(U(U(U(W("a"), W("b")), W("c")), W("d")), W("e")),
    ]


# ------------------------------------------------------------------ oracle

def keybit(s):
    return hashlib.sha1(s.encode()).digest()[0] & 1


def lucene_bool(pairs):
    must = [v for k, v in pairs if k == "Plus"]
    must_not = [v for k, v in pairs if k in ("Prohibit", "Not")]
    should = [v for k, v in pairs if k not in ("Plus", "Prohibit", "Not")]
    return all(must) and not any(must_not) and (any(should) if should and not must else True)


def evaluate(T, node, val, choice, path=()):
    """boolean reading of a tree.  val: path of a childless node -> bool; choice: path of an
    UnknownOperation -> operation class it is read with.  And = all, Or = any, BoolOperation = Lucene
    must/must_not/should on the operands' (class, value); Not/Prohibit negate; Plus, groups transparent;
    anything else: parity of the children's values xor a bit of its own content (an arbitrary but fixed
    interpretation of fields, ranges, approximations, boosts)."""
    kids = [evaluate(T, c, val, choice, path + (i,)) for i, c in enumerate(node.children)]
    k = type(node)
    if k is T.UnknownOperation:
        k = choice(path)
    if k is T.AndOperation:
        return all(kids)
    if k is T.OrOperation:
        return any(kids)
    if k is T.BoolOperation:
        tags = []
        for i, c in enumerate(node.children):
            ck = type(c)
            if ck is T.UnknownOperation:
                ck = choice(path + (i,))
            tags.append(ck.__name__)
        return lucene_bool(list(zip(tags, kids)))
    if k is T.UnknownOperation:
        raise AssertionError("unresolved reading")
    if isinstance(node, (T.Not, T.Prohibit)):
        return not kids[0]
    if isinstance(node, (T.Plus, T.BaseGroup)):
        return kids[0]
    if not node.children:
        return val[path]
    content = type(node).__name__ + repr([getattr(node, a) for a in node._equality_attrs])
    return (sum(kids) + keybit(content)) % 2 == 1


def node_at(tree, path):
    for i in path:
        tree = tree.children[i]
    return tree


# ------------------------------------------------------------------ object sharing (finding F24)

def sharing_groups(tree):
    """[[path, path, ...]] for every node object that occurs at two or more positions"""
    by_id = {}
    for p, n in gentree.all_nodes(tree):
        by_id.setdefault(id(n), []).append(list(p))
    return [ps for ps in by_id.values() if len(ps) > 1]


def unshare(node):
    """an equal tree (same classes, attributes, layout, names, flags) made of FRESH, pairwise distinct objects
    (copy.deepcopy would keep the sharing)"""
    new = copy.copy(node)
    kids = [unshare(c) for c in node.children]
    if kids:
        new.children = kids
    return new


def key_positions(T, tree):
    """[(path, node, owner)]: the positions whose object can be a key of the Lucene-mode memory, i.e. what
    `_first_nonop_parent` returns for the nodes below: a node that is not a BaseOperation with only
    BaseOperations above it.  owner = path of the topmost And/Or/Unknown operation above it — the node in whose
    context the dict is created and below which it is inherited; None when there is none (then a dict is created
    further down, separately inside every occurrence)"""
    explicit_or_unknown = (T.AndOperation, T.OrOperation, T.UnknownOperation)
    out = []

    def go(n, p, owner):
        if not isinstance(n, T.BaseOperation):
            out.append((p, n, owner))
            return
        if owner is None and isinstance(n, explicit_or_unknown):
            owner = p
        for i, c in enumerate(n.children):
            go(c, p + (i,), owner)
    go(tree, (), None)
    return out


def shared_keys(T, tree):
    """the coarse class of F24: some object that can be a memory key occurs at two positions below the same dict"""
    groups = {}
    for p, n, owner in key_positions(T, tree):
        if owner is not None:
            groups.setdefault((id(n), owner), []).append((p, n))
    return [occ for occ in groups.values() if len(occ) > 1]


def f24_positions(T, tree):
    """the EXACT class of F24, a predicate on the input (Lucene mode): the paths of the implicit operations that
    the code resolves to OR although the Lucene rule, judged inside their own group, says AND.
    For an object o of `shared_keys`: every node inside o uses id(o) as its key, so after the first occurrence the
    memory holds the class of the LAST And/Or inside o (visit order); in the 2nd.. occurrences the implicit
    operations that come BEFORE the first And/Or of o read it instead of the default.  They deviate iff that last
    explicit operation is an OrOperation (AND is the default anyway)."""
    pos = []
    for occ in shared_keys(T, tree):
        o = occ[0][1]
        seq = [(q, n) for q, n in gentree.all_nodes(o)
               if isinstance(n, (T.AndOperation, T.OrOperation, T.UnknownOperation))]
        explicit = [n for _, n in seq if not isinstance(n, T.UnknownOperation)]
        if not explicit or not isinstance(explicit[-1], T.OrOperation):
            continue
        early = []
        for q, n in seq:
            if not isinstance(n, T.UnknownOperation):
                break
            early.append(q)
        for p, _ in occ[1:]:
            pos += [p + q for q in early]
    return sorted(pos)


def flipped_to_or(T, ref, positions):
    """a copy of `ref` (a result: no shared object) in which the operations at `positions` are OrOperations"""
    ref = copy.deepcopy(ref)
    for p in positions:
        old = node_at(ref, p)
        new = T.OrOperation(*old.children, pos=old.pos, size=old.size, head=old.head, tail=old.tail)
        parent = node_at(ref, p[:-1])
        kids = list(parent.children)
        kids[p[-1]] = new
        parent.children = kids
    return ref


def oracle(T, tree, out, tgcls, ah, snapshot_attrs):
    """the property on the implementation's behaviour; returns a reason or None"""
    nodes_in = list(gentree.all_nodes(tree))
    nodes_out = dict(gentree.all_nodes(out))
    if any(isinstance(n, T.UnknownOperation) for n in nodes_out.values()):
        return "an UnknownOperation is left in the result"
    if set(p for p, _ in nodes_in) != set(nodes_out):
        return "the result has not the same shape (a node was lost or added)"
    any_explicit = any(type(n) in (T.AndOperation, T.OrOperation) for _, n in nodes_in)
    for p, n in nodes_in:
        o = nodes_out[p]
        if o is n:
            return "the result shares a node with the input"
        if type(n) is T.UnknownOperation:
            if tgcls is not None and type(o) is not tgcls:
                return "an implicit operation did not become the target operation"
            if tgcls is None and type(o) not in (T.AndOperation, T.OrOperation):
                return "Lucene mode: an implicit operation became neither AND nor OR"
            if tgcls is None and not any_explicit and type(o) is not T.AndOperation:
                return "Lucene mode without explicit operator: not AND throughout"
        else:
            if type(o) is not type(n):
                return "a node that is not an implicit operation changed type"
            for a in n._equality_attrs:
                if getattr(o, a) != getattr(n, a) or type(getattr(o, a)) is not type(getattr(n, a)):
                    return "content attribute %s changed" % a
            for a in snapshot_attrs:
                if hasattr(n, a) and getattr(o, a) != getattr(n, a):
                    return "display flag %s changed" % a
        if (o.pos, o.size, o.tail) != (n.pos, n.size, n.tail):
            return "pos/size/tail changed"
        prefix = ""
        if p and type(node_at(tree, p[:-1])) is T.UnknownOperation and p[-1] >= 1:
            prefix = ah
        if o.head != prefix + n.head:
            return "head is not (add_head for operands 2.. of a resolved operation) + old head"
    return None


def same_meaning(T, tree, out, tgcls):
    leaves = [p for p, n in gentree.all_nodes(tree) if not n.children]
    if len(leaves) > 8:
        return None, False
    chosen = lambda p: type(node_at(out, p))  # noqa
    nochoice = lambda p: (_ for _ in ()).throw(AssertionError("unknown left"))  # noqa
    for bits in itertools.product([False, True], repeat=len(leaves)):
        val = dict(zip(leaves, bits))
        a = evaluate(T, out, val, nochoice)
        b = evaluate(T, tree, val, chosen)
        if a != b:
            return "truth tables differ (input read with the chosen operators) at %r" % (bits,), True
        if tgcls is not None:
            c = evaluate(T, tree, val, lambda p: tgcls)
            if a != c:
                return "truth tables differ (input read with the target as default operator) at %r" % (bits,), True
    return None, True


# ------------------------------------------------------------------ correspondence

def correspond(model_ok, res):
    import luqum.tree as T
    from luqum.utils import UnknownOperationResolver
    from luqum.parser import parser
    r = lib.rng("C10")
    quick = lib.tier() == "quick"
    n_random = 50 if quick else 500

    # tie of the two class attributes hard-coded in the model
    if UnknownOperationResolver.DEFAULT_OPERATION is not T.AndOperation or \
            UnknownOperationResolver.VALID_OPERATIONS != frozenset(
                [None, T.AndOperation, T.OrOperation, T.BoolOperation]):
        res.model_error = "DEFAULT_OPERATION / VALID_OPERATIONS are not the ones hard-coded in model/Resolver.v"
        return res

    # WRONG store models — only used to measure how many generated cases tell them apart from the real
    # behaviour (a correspondence that such a model would also pass proves little about the store)
    class GlobalDictResolver(UnknownOperationResolver):
        """one dict for the whole visit"""
        def __call__(self, tree):
            self._glob = {}
            return self.visit(tree)

        def _last_operation(self, context):
            return self._glob

    class InnermostKeyResolver(UnknownOperationResolver):
        """key = the nearest non-operation ancestor instead of the outermost"""
        def _first_nonop_parent(self, parents):
            return super()._first_nonop_parent(tuple(reversed(parents)))

    wrong_models = {"single_global_dict": GlobalDictResolver, "innermost_nonop_key": InnermostKeyResolver}

    rg = RGen(r, T)
    trees = [(t, "corpus") for t in corpus(T)]
    trees += [(t, "corpus-shared-objects") for t in shared_corpus(T)]
    trees += [(parser.parse(q), "parsed") for q in QUERIES]
    opsonly = ["unk", "unk", "and", "or", "bool", "group", "group", "field", "fieldgroup", "not", "leaf"]
    def has_unknown(t):
        return any(type(n) is T.UnknownOperation for _, n in gentree.all_nodes(t))

    def pick(make):
        """mostly trees that hold an implicit operation (a tree without one is a plain copy)"""
        for _ in range(6):
            t = make()
            if has_unknown(t) or r.random() < 0.1:
                return t
        return t

    for i in range(n_random):
        trees.append((pick(lambda: rg.ltree(r.randrange(3, 6))), "random-lucene-shapes"))
        if i % 3 == 0:
            trees.append((pick(lambda: rg.tree(r.randrange(4, 9), r.randrange(3, 6), opsonly)), "random-ops-small"))
        elif i % 3 == 1:
            trees.append((pick(lambda: rg.tree(r.randrange(8, 30), r.randrange(4, 8), opsonly)), "random-ops-large"))
        else:
            trees.append((pick(lambda: rg.tree(r.randrange(4, 16), r.randrange(2, 6))), "random-mixed"))
        trees.append((pick(lambda: rg.stree(r.randrange(1, 4))), "random-shared-objects"))
        if i % 4 == 0:
            trees.append((rg.graft(pick(lambda: rg.ltree(r.randrange(3, 6)))), "random-lucene-shapes-grafted"))

    cases, payloads = [], []
    seen = set()
    dist = {"source": {}, "target": {}, "add_head": {}, "unknown_ops_per_tree": {}, "explicit_ops_per_tree": {},
            "lucene_some_unknown_became_or": 0, "lucene_trees_refuting_wrong_store_model": {"single_global_dict": 0, "innermost_nonop_key": 0},
            "truth_tables_checked": 0, "max_operands": {},
            "object_sharing": {"trees_with_a_shared_object": 0, "trees_with_a_shared_memory_key": 0,
                               "trees_in_the_exact_class_of_F24": 0, "lucene_calls_deviating_F24": 0,
                               "lucene_calls_predicted_F24_but_not_deviating": 0,
                               "calls_on_shared_trees_equal_to_unshared": 0}}
    sh = dist["object_sharing"]
    flags = ("_implicit_degree", "implicit_force")
    for tree, src in trees:
        desc = gentree.describe(tree)
        nodes = list(gentree.all_nodes(tree))
        n_unk = len([1 for _, n in nodes if type(n) is T.UnknownOperation])
        n_exp = len([1 for _, n in nodes if type(n) in (T.AndOperation, T.OrOperation)])
        maxw = max([len(n.children) for _, n in nodes if isinstance(n, T.BaseOperation)] or [0])
        shared = sharing_groups(tree)
        predicted = f24_positions(T, tree) if shared else []
        if shared:
            sh["trees_with_a_shared_object"] += 1
            sh["trees_with_a_shared_memory_key"] += int(bool(shared_keys(T, tree)))
            sh["trees_in_the_exact_class_of_F24"] += int(bool(predicted))
        for tgname, tgcls in targets(T):
            for ah in ADD_HEADS:
                before = lib.g_item(tree)
                payload = {"tree": desc[:1500], "printed": tree.__str__(head_tail=True)[:300],
                           "resolve_to": tgname, "add_head": ah}
                if shared:
                    payload["same_object_at_paths"] = shared[:6]
                try:
                    out = UnknownOperationResolver(resolve_to=tgcls, add_head=ah)(tree)
                except Exception as e:
                    res.failures.append((dict(payload, why="exception %r" % e), None))
                    cases.append("(%s, %s, %s, None)" % (tgname, lib.g_str(ah), before))
                    payloads.append(payload)
                    continue
                after = lib.g_item(tree)
                if after != before:
                    res.failures.append((dict(payload, why="the input tree was modified"), None))
                if (T.NONE_ITEM.head, T.NONE_ITEM.tail, T.NONE_ITEM.pos, T.NONE_ITEM.size) != ("", "", None, None):
                    res.failures.append((dict(payload, why="the module-level placeholder NONE_ITEM was modified: "
                                              "head=%r tail=%r" % (T.NONE_ITEM.head, T.NONE_ITEM.tail)), None))
                    T.NONE_ITEM.head = T.NONE_ITEM.tail = ""      # repair so that later cases are judged on their own
                # object sharing: the result must be the one of an equal tree made of distinct objects (every
                # position judged by the rule applied to its own, unshared, surroundings); the value-based model
                # is compared with that one
                expect = out
                if shared:
                    fresh_in = unshare(tree)
                    if lib.g_item(fresh_in) != before or sharing_groups(fresh_in):
                        raise AssertionError("unshare does not give an equal tree of distinct objects")
                    expect = UnknownOperationResolver(resolve_to=tgcls, add_head=ah)(fresh_in)
                    g_exp, g_got = lib.g_item(expect), lib.g_item(out)
                    pred = predicted if tgcls is None else []
                    if g_exp == g_got:
                        sh["calls_on_shared_trees_equal_to_unshared"] += 1
                        if pred:
                            sh["lucene_calls_predicted_F24_but_not_deviating"] += 1
                    else:
                        differ = [list(p) for (p, a), (_, b) in zip(gentree.all_nodes(out), gentree.all_nodes(expect))
                                  if type(a) is not type(b)]
                        fid = None
                        if pred and lib.g_item(flipped_to_or(T, expect, pred)) == g_got:
                            fid = "F24"
                            sh["lucene_calls_deviating_F24"] += 1
                        res.failures.append((dict(
                            payload, why="the result depends on object identity: one node object occurs at several "
                            "positions of the input and the result differs from the result on an equal tree made "
                            "of distinct objects (Lucene rule judged inside each group)",
                            classes_differ_at_paths=differ[:10], predicted_by_f24_positions=[list(p) for p in pred][:10],
                            result=gentree.describe(out)[:1500], result_on_distinct_objects=gentree.describe(expect)[:1500]),
                            fid))
                why = oracle(T, tree, out, tgcls, ah, flags)
                if why is None:
                    why, checked = same_meaning(T, tree, out, tgcls)
                    dist["truth_tables_checked"] += int(checked)
                if why is None:
                    again = UnknownOperationResolver(resolve_to=tgcls, add_head=ah)(out)
                    g_out = lib.g_item(out)
                    if lib.g_item(again) != g_out:
                        why = "resolving the result again changes it"
                    elif lib.g_item(out) != g_out:
                        why = "resolving the result again modified its input"
                if why:
                    res.failures.append((dict(payload, why=why, result=gentree.describe(out)[:1500]), None))
                cases.append("(%s, %s, %s, Some %s)" % (tgname, lib.g_str(ah), before, lib.g_item(expect)))
                payloads.append(payload)
                if n_unk:
                    seen.add((desc, tree.__str__(head_tail=True), tgname, ah, repr(shared)))
                dist["target"][tgname] = dist["target"].get(tgname, 0) + 1
                dist["add_head"][repr(ah)] = dist["add_head"].get(repr(ah), 0) + 1
                if tgcls is None and ah == " ":
                    if any(type(n) is T.UnknownOperation and type(node_at(out, p)) is T.OrOperation
                           for p, n in nodes):
                        dist["lucene_some_unknown_became_or"] += 1
                    for wname, wcls in wrong_models.items():
                        if gentree.describe(wcls(resolve_to=None, add_head=ah)(tree)) != gentree.describe(out):
                            dist["lucene_trees_refuting_wrong_store_model"][wname] += 1
        dist["source"][src] = dist["source"].get(src, 0) + 1
        b = min(n_unk, 6)
        dist["unknown_ops_per_tree"][b] = dist["unknown_ops_per_tree"].get(b, 0) + 1
        b = min(n_exp, 6)
        dist["explicit_ops_per_tree"][b] = dist["explicit_ops_per_tree"].get(b, 0) + 1
        dist["max_operands"][min(maxw, 6)] = dist["max_operands"].get(min(maxw, 6), 0) + 1

    # histories: ONE resolver instance reused on a sequence of 2-6 trees; the oracle requires every result to
    # be, by full structural comparison, what a FRESH resolver returns for that tree (calls are independent:
    # no memory may survive a call).  The k-th result of the reused instance is also given to the model
    # comparison, so the call-sequence correspondence ties C10_calls_independent to the code.
    hist_queries = ["a OR b", "c d (e f)", "a AND b", "x:(a OR b) c d", "(a b) OR c", "e f", "(g OR h) i j",
                    "NOT a b", "a b OR c d"]
    fixed_histories = [["a OR b", "c d (e f)"], ["a OR b", "c d"], ["(a OR b)", "(c d)", "e f"],
                       ["a AND b", "a OR b", "c d", "c d"], ["x:(a OR b)", "x:(c d)"]]
    n_hist = 25 if quick else 250
    histories = [[(parser.parse(q), q) for q in h] for h in fixed_histories]
    for _ in range(n_hist):
        h = []
        for _ in range(r.randrange(2, 7)):
            x = r.random()
            if x < 0.4:
                q = r.choice(hist_queries)
                h.append((parser.parse(q), q))
            elif x < 0.8:
                t = rg.ltree(r.randrange(1, 4))
                h.append((t, gentree.describe(t)[:400]))
            else:
                t = rg.tree(r.randrange(2, 8), r.randrange(1, 4), opsonly)
                h.append((t, gentree.describe(t)[:400]))
        histories.append(h)
    dist["histories"] = {"count": 0, "calls": 0, "length": {}}
    for hi, h in enumerate(histories):
        for tgname, tgcls in (targets(T) if hi % 3 == 0 else targets(T)[:1]):
            ah = ADD_HEADS[hi % 3] if tgcls is None and hi >= len(fixed_histories) else " "
            reused = UnknownOperationResolver(resolve_to=tgcls, add_head=ah)
            descs = [d for _, d in h]
            dist["histories"]["count"] += 1
            dist["histories"]["length"][len(h)] = dist["histories"]["length"].get(len(h), 0) + 1
            for k, (tree, d) in enumerate(h):
                if k == 1 and hi % 2 == 0:
                    # a call that cannot complete (tree deeper than the recursion limit) in the middle of the history
                    dist["histories"]["aborted"] = dist["histories"].get("aborted", 0) + \
                        (gentree.aborted_call(reused, T) != "completed")
                before = lib.g_item(tree)
                payload = {"history": descs, "index": k, "resolve_to": tgname, "add_head": ah}
                try:
                    got = reused(tree)
                    fresh = UnknownOperationResolver(resolve_to=tgcls, add_head=ah)(tree)
                except Exception as e:
                    res.failures.append((dict(payload, why="exception %r" % e), None))
                    continue
                dist["histories"]["calls"] += 1
                if lib.g_item(tree) != before:
                    res.failures.append((dict(payload, why="the input tree was modified"), None))
                if lib.g_item(got) != lib.g_item(fresh):
                    res.failures.append((dict(
                        payload, why="call %d on a reused resolver differs from a fresh resolver on the same tree"
                        % k, reused_result=gentree.describe(got)[:800], fresh_result=gentree.describe(fresh)[:800]),
                        None))
                cases.append("(%s, %s, %s, Some %s)" % (tgname, lib.g_str(ah), before, lib.g_item(got)))
                payloads.append(dict(payload, what="k-th result of a reused resolver vs model"))
                # an instance built with OTHER settings whose public attributes are then set to these ones
                try:
                    others = [c for _, c in targets(T) if c is not tgcls]
                    tog = UnknownOperationResolver(resolve_to=others[k % len(others)], add_head="\t")
                    tog(tree)
                    tog.resolve_to, tog.add_head = tgcls, ah
                    got2 = tog(tree)
                    if lib.g_item(got2) != lib.g_item(fresh):
                        res.failures.append((dict(
                            payload, why="a resolver whose resolve_to / add_head attributes were set after "
                            "construction (and after a call) differs from one built with them",
                            toggled_result=gentree.describe(got2)[:800], fresh_result=gentree.describe(fresh)[:800]),
                            None))
                except Exception as e:
                    res.failures.append((dict(payload, why="exception %r on a re-configured resolver" % e), None))

    # the invalid target: the constructor raises ValueError, the model answers None
    try:
        UnknownOperationResolver(resolve_to=T.UnknownOperation)
        res.failures.append(({"why": "resolve_to=UnknownOperation accepted"}, None))
    except ValueError:
        cases.append("(Some KUnknown, %s, %s, None)" % (lib.g_str(" "), lib.g_item(T.Word("a"))))
        payloads.append({"resolve_to": "UnknownOperation", "tree": "Word('a')"})

    # canary: a deliberately corrupted expectation must be reported by the comparison
    t0 = T.UnknownOperation(T.Word("a"), T.Word("b"))
    good = UnknownOperationResolver(resolve_to=None, add_head=" ")(t0)
    bad_out = copy.deepcopy(good)
    bad_out.children[1].head = ""
    canary = len(cases)
    cases.append("(None, %s, %s, Some %s)" % (lib.g_str(" "), lib.g_item(t0), lib.g_item(bad_out)))
    payloads.append({"canary": True})

    res.cases = len(cases) - 1
    res.nontrivial = len(seen)
    res.rule = ("fixed corpus aimed at the Lucene-mode memory (explicit operators before/after/inside groups, "
                "fields, Bool roots), %d parsed queries, random trees of groups/fields/unary/And/Or/Unknown/Bool "
                "with 0-6 operands plus arbitrary sub-trees, and trees in which one node OBJECT occurs at several "
                "positions (fixed corpus around F24, operations over a pool of reused groups / fields / negations / "
                "words / operations, random grafts), each x 4 targets x add_head in (' ', '', '\\n'); "
                "non-trivial = distinct (tree, sharing pattern, target, add_head) whose tree holds an "
                "UnknownOperation"
                % len(QUERIES))
    res.samples = [p for p in payloads if p.get("resolve_to") == "None"][30:36]
    res.distribution = dist
    if model_ok:
        defs = ("Definition chk (c : option opk * str * item * option item) : bool :=\n"
                "  match c with (tg, ah, t, e) => oitem_beq (resolve tg ah t) e end.")
        try:
            bad = lib.eval_cases("C10", "Base Decimal Tree TreeEq Resolver", defs, cases, "chk", shard=70)
        except Exception as e:
            res.model_error = str(e)
            bad = []
        if not res.model_error and canary not in bad:
            res.model_error = "canary case was not reported: the comparison is vacuous"
        for i in bad:
            if i != canary:
                res.disagreements.append(payloads[i])
    else:
        res.model_error = "model did not build"
    return res


SPEC = {
    "id": "C10",
    "targets": ["props/C10.vo"],
    "model_targets": ["model/Resolver.vo", "model/TreeEq.vo"],
    "module": "C10",
    "theorems": ["C10_total", "C10_invalid_target", "C10_no_unknown_left", "C10_structure",
                 "C10_copy_keeps", "C10_explicit_target", "C10_lucene_and_or", "C10_lucene_default_and",
                 "C10_same_meaning", "C10_same_meaning_explicit", "C10_meaning_needs_std_attrs",
                 "C10_idempotent", "C10_content_kept", "C10_content_needs_std_node", "C10_calls_independent"],
    "correspond": correspond,
    "statement": "resolve never fails on a valid target; no UnknownOperation left; every node of the result is "
                 "the default copy of the node at the same path (Unknown -> target / And|Or), heads prefixed "
                 "by add_head exactly on operands 2.. of resolved operations; And throughout without explicit "
                 "operator; same boolean reading; resolving again returns the same tree (no guard); a node that is "
                 "not an implicit operation keeps its class, and keeps its content attributes iff it is as the "
                 "constructors build it (C10_content_kept; the guard is per node and exact). SCOPE: every theorem "
                 "is about trees WITHOUT OBJECT SHARING — the model is value-based and has no object identity; on a "
                 "tree in which one node object occurs at several positions the code's Lucene-like mode is not a "
                 "function of the tree's value (known finding F24: the memory is keyed by id() of the outermost "
                 "non-operation ancestor). The harness feeds such trees to the code, requires the result of an equal "
                 "tree of distinct objects at every position, and classifies deviations by f24_positions(input)",
    "trusted_base": [
        "Coq 8.16.1 kernel (vm_compute used for table facts, witnesses and correspondence; no native_compute)",
        "no axioms (Print Assumptions: closed under the global context)",
        "gen/translate.py: class MROs, _equality_attrs, UnknownOperationResolver method table",
        "hand-written model coq/model/Resolver.v (context copies, last_operation dict store, traversal) and "
        "coq/model/Eq.v clone_item, tied by differential correspondence (harness/c10.py) on every run",
        "DEFAULT_OPERATION / VALID_OPERATIONS hard-coded in the model, compared with the class at run time",
        "value-based tree model: id(parent) is represented by the parent's path; exact only when no node object "
        "occurs twice (else: finding F24, examples C10_F24_model_answer / C10_F24_code_answer_differs); on inputs "
        "with shared objects the model is compared with the code's result on an unshared equal tree",
        "'input not modified' and 'no node shared with the input' are checked by snapshots only",
    ],
    "assumptions": ["trees contain only luqum.tree classes",
                    "no node object occurs at two positions of the input (theorems; the model has no identity). "
                    "Outside this assumption the code deviates exactly on the class of F24 (harness: f24_positions)",
                    "C10_calls_independent is immediate in a pure model (a call has no access to a previous one); "
                    "what ties it to the code is the call-sequence correspondence of harness/c10.py: one resolver "
                    "instance reused on histories of 2-6 trees, every result compared with a fresh resolver "
                    "(oracle) and with the model",
                    "same-meaning theorems: attribute values as the constructors produce them (implicit "
                    "degree/force hold their default, boost force normalised); needed (C10_meaning_needs_std_attrs); "
                    "idempotence has no such guard; content kept iff std_node, node by node"],
}
