(* Base.v — characters, strings, small list utilities shared by every model file.
   Executable definitions only (no proofs). *)
From Coq Require Export List NArith ZArith Bool Arith.
Export ListNotations.

(* A character is a Unicode code point; a string is a list of them. *)
Definition char := N.
Definition str := list char.

Fixpoint str_eqb (a b : str) : bool :=
  match a, b with
  | [], [] => true
  | x :: a', y :: b' => N.eqb x y && str_eqb a' b'
  | _, _ => false
  end.

Definition ostr_eqb (a b : option str) : bool :=
  match a, b with
  | None, None => true
  | Some x, Some y => str_eqb x y
  | _, _ => false
  end.

Definition oZ_eqb (a b : option Z) : bool :=
  match a, b with
  | None, None => true
  | Some x, Some y => Z.eqb x y
  | _, _ => false
  end.

Fixpoint list_eqb {A} (eqb : A -> A -> bool) (a b : list A) : bool :=
  match a, b with
  | [], [] => true
  | x :: a', y :: b' => eqb x y && list_eqb eqb a' b'
  | _, _ => false
  end.

Definition path := list nat.
Definition path_eqb : path -> path -> bool := list_eqb Nat.eqb.

Fixpoint mem_str (s : str) (l : list str) : bool :=
  match l with [] => false | x :: l' => str_eqb s x || mem_str s l' end.

Fixpoint mem_path (p : path) (l : list path) : bool :=
  match l with [] => false | x :: l' => path_eqb p x || mem_path p l' end.

Fixpoint mem_N (c : N) (l : list N) : bool :=
  match l with [] => false | x :: l' => N.eqb c x || mem_N c l' end.

(* join sep [a;b;c] = a ++ sep ++ b ++ sep ++ c  (Python's sep.join) *)
Fixpoint join (sep : str) (l : list str) : str :=
  match l with
  | [] => []
  | [x] => x
  | x :: l' => x ++ sep ++ join sep l'
  end.

(* map with index *)
Fixpoint mapi_from {A B} (i : nat) (f : nat -> A -> B) (l : list A) : list B :=
  match l with
  | [] => []
  | x :: l' => f i x :: mapi_from (S i) f l'
  end.
Definition mapi {A B} (f : nat -> A -> B) (l : list A) : list B := mapi_from 0 f l.

(* ASCII helpers used for literals in models: characters written as N code points. *)
Definition c_space : char := 32%N.
Definition c_colon : char := 58%N.
Definition c_lparen : char := 40%N.
Definition c_rparen : char := 41%N.
Definition c_lbrack : char := 91%N.
Definition c_rbrack : char := 93%N.
Definition c_lbrace : char := 123%N.
Definition c_rbrace : char := 125%N.
Definition c_tilde : char := 126%N.
Definition c_caret : char := 94%N.
Definition c_plus : char := 43%N.
Definition c_minus : char := 45%N.
Definition c_lt : char := 60%N.
Definition c_gt : char := 62%N.
Definition c_eq : char := 61%N.
Definition c_star : char := 42%N.
Definition c_quote : char := 34%N.
Definition c_slash : char := 47%N.
Definition c_bslash : char := 92%N.
Definition c_dot : char := 46%N.
Definition c_nl : char := 10%N.
Definition c_zero : char := 48%N.
Definition c_E : char := 69%N.
Definition s_AND : str := [65;78;68]%N.
Definition s_OR : str := [79;82]%N.
Definition s_NOT : str := [78;79;84]%N.
Definition s_TO : str := [84;79]%N.
