#!/venv/bin/python
"""rewrite the seeded-changes table of DESIGN.md from seeded/*/meta.json and notes.md"""
import glob, json, os, re
HERE = os.path.dirname(os.path.dirname(os.path.abspath(__file__)))
rows = ["", "| change | what it does / needs | caught by | how |", "|---|---|---|---|"]
for d in sorted(glob.glob(os.path.join(HERE, "seeded", "*-*"))):
    m = json.load(open(os.path.join(d, "meta.json")))
    notes = ""
    p = os.path.join(d, "notes.md")
    if os.path.exists(p):
        txt = [l.strip() for l in open(p).read().splitlines() if l.strip() and not l.startswith("#")]
        notes = " ".join(txt)[:230].replace("|", "/")
    if m.get("summary_text"):
        notes = m["summary_text"]
    for c in m["checks"]:
        how = "VIOLATION with a failing input" if c["violation_lines"] and "no-failing-input-found" not in c["first"] \
            else ("VIOLATION no-failing-input-found (obligation broken)" if c["violation_lines"] else "MISSED")
        if m.get("history"):
            how += " — " + m["history"].split(";")[0]
        rows.append("| %s | %s | ./check %s | %s |" % (os.path.basename(d), notes, c["check"], how))
table = "\n".join(rows) + "\n"
p = os.path.join(HERE, "DESIGN.md")
s = open(p).read()
if "SEEDED_TABLE" in s and "<!-- SEEDED_TABLE_BEGIN -->" not in s:
    s = s.replace("SEEDED_TABLE", "<!-- SEEDED_TABLE_BEGIN -->\n" + table + "<!-- SEEDED_TABLE_END -->")
else:
    s = re.sub(r"<!-- SEEDED_TABLE_BEGIN -->.*?<!-- SEEDED_TABLE_END -->",
               lambda _: "<!-- SEEDED_TABLE_BEGIN -->\n" + table + "<!-- SEEDED_TABLE_END -->", s, flags=re.S)
open(p, "w").write(s)
print(len(rows) - 3, "rows")
