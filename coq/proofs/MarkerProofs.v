(* MarkerProofs.v — lemmas about ExpressionMarker / HTMLMarker (model: Marker.v). *)
Require Import Base Decimal Tree GenTree GenVisitors Visitor Print Eq TreeInd Marker.
From Coq Require Import Lia.

(* ---------------------------------------------------------------- small facts *)
Lemma ostr_eqb_eq a b : ostr_eqb a b = true <-> a = b.
Proof.
  destruct a as [x|], b as [y|]; simpl; split; intro H; try discriminate; try reflexivity.
  - apply str_eqb_eq in H. congruence.
  - inversion H; subst. apply str_eqb_refl.
Qed.

(* ---------------------------------------------------------------- layout of a printed node *)
Definition pwalk (f : item -> str) :=
  fix go (l : list item) (fs : list str) : str :=
    match l, fs with
    | c :: l', s :: fs' => f c ++ s ++ go l' fs'
    | _, _ => []
    end.

Lemma join_followers (f : item -> str) sep : forall l,
  join sep (map f l) = pwalk f l (op_followers sep (length l)).
Proof.
  induction l as [|c l IH]; [reflexivity|].
  destruct l as [|c2 l]; [simpl; rewrite app_nil_r; reflexivity|].
  change (join sep (map f (c :: c2 :: l))) with (f c ++ sep ++ join sep (map f (c2 :: l))).
  rewrite IH. reflexivity.
Qed.

Lemma print_parts t :
  print true t =
  if is_none t then []
  else head_of t ++ first_piece t ++ pwalk (print true) (children t) (followers t) ++ tail_of t.
Proof.
  destruct t; unfold head_of, tail_of; simpl; unfold wrap;
    rewrite ?join_followers; simpl; rewrite ?app_nil_r, <- ?app_assoc; simpl; reflexivity.
Qed.

(* ---------------------------------------------------------------- set_meta keeps the own text *)
Lemma first_set_meta t m : first_piece (set_meta t m) = first_piece t.
Proof. destruct t; reflexivity. Qed.
Lemma followers_set_meta t m : followers (set_meta t m) = followers t.
Proof. destruct t; reflexivity. Qed.
Lemma is_none_set_meta t m : is_none (set_meta t m) = is_none t.
Proof. destruct t; reflexivity. Qed.

(* ---------------------------------------------------------------- clone_item + children setter *)
(* the followers as the clone prints them: an explicit force is re-normalised *)
Definition cfollowers (t : item) : list str :=
  match t with
  | Boost _ _ f false => [[c_caret] ++ dec_to_fstr (dec_normalize f)]
  | _ => followers t
  end.

Lemma cfollowers_stable t : force_stable_node t = true -> cfollowers t = followers t.
Proof.
  destruct t; try reflexivity. destruct impl; [reflexivity|]. simpl. intros H.
  apply str_eqb_eq in H. rewrite H. reflexivity.
Qed.

Lemma clone_set_total t cs :
  length cs = length (children t) -> exists n x, clone_item t = Some n /\ set_children n cs = Some x.
Proof.
  destruct t as [[]| | []| | | | | k m ops |[]|[]|]; simpl; intros Hl;
    try (cbn; do 2 eexists; split; reflexivity);
    try (destruct impl); 
    (destruct cs as [|c1 cs]; simpl in Hl; try discriminate Hl;
     try (destruct cs as [|c2 cs]; simpl in Hl; try discriminate Hl);
     try (destruct cs as [|c3 cs]; simpl in Hl; try discriminate Hl)); cbn; do 2 eexists; split; reflexivity.
Qed.

Lemma clone_set t n cs x :
  clone_item t = Some n -> set_children n cs = Some x -> length cs = length (children t) ->
  children x = cs /\ head_of x = head_of t /\ tail_of x = tail_of t /\ is_none x = is_none t /\
  first_piece x = first_piece t /\ followers x = cfollowers t.
Proof.
  destruct t as [[]| | []| | | | | k m ops |[]|[]|]; try (destruct impl); cbn; intros Hc Hs Hl;
    inversion Hc; subst n; clear Hc.
  all: try (cbn in Hs; inversion Hs; subst x; cbn; rewrite ?Hl; repeat split; reflexivity).
  all: (destruct cs as [|c1 cs]; simpl in Hl; try discriminate Hl; cbn in Hs; try discriminate Hs;
     try (destruct cs as [|c2 cs]; simpl in Hl; try discriminate Hl; cbn in Hs; try discriminate Hs);
     try (destruct cs as [|c3 cs]; simpl in Hl; try discriminate Hl; cbn in Hs; try discriminate Hs));
    inversion Hs; subst x; cbn; repeat split; reflexivity.
Qed.

(* ---------------------------------------------------------------- unfolding lemmas *)
Lemma tcopy_unfold t :
  tcopy t =
  match clone_item t with
  | None => None
  | Some n => match tcopy_list tcopy (children t) with
              | None => None
              | Some cs' => set_children n cs'
              end
  end.
Proof. destruct t; reflexivity. Qed.

Lemma msegs_unfold tagc t pre :
  msegs tagc t pre =
  if is_none t then []
  else open_segs tagc pre ++ [Text (head_of t)] ++ [Text (first_piece t)]
       ++ seg_list (msegs tagc) pre 0 (children t) (followers t)
       ++ [Text (tail_of t)] ++ close_segs tagc pre.
Proof. destruct t; reflexivity. Qed.

Lemma owner_go_unfold okc koc ok ko t pre inh :
  owner_go okc koc ok ko t pre inh =
  let c := match css okc koc ok ko pre with Some k => Some k | None => inh end in
  if is_none t then []
  else paint c (head_of t) ++ paint c (first_piece t)
       ++ own_list (owner_go okc koc ok ko) pre c 0 (children t) (followers t)
       ++ paint c (tail_of t).
Proof. destruct t; reflexivity. Qed.

Lemma force_stable_unfold t :
  force_stable t = force_stable_node t && forallb force_stable (children t).
Proof. destruct t; reflexivity. Qed.

Section MarkGo.
  Variables okc koc elem : str.
  Variable parci : bool.
  Variables ok ko : list path.
  Notation mark_go := (mark_go okc koc elem parci ok ko).
  Notation tagc := (tag_class okc koc parci ok ko).

  Lemma mark_go_unfold t pre :
    mark_go t pre =
    match clone_item t with
    | None => None
    | Some n =>
        match mark_list mark_go pre 0 (children t) with
        | None => None
        | Some cs' =>
            match set_children n cs' with
            | None => None
            | Some n' => Some (mark_node elem n' (tagc pre))
            end
        end
    end.
  Proof. destruct t; reflexivity. Qed.

  (* ---------------------------------------------------------------- totality *)
  Lemma tcopy_list_length : forall l cs, tcopy_list tcopy l = Some cs -> length cs = length l.
  Proof.
    induction l as [|c l IH]; intros cs H; simpl in H.
    - inversion H; reflexivity.
    - destruct (tcopy c); [|discriminate]. destruct (tcopy_list tcopy l) eqn:Hl; [|discriminate].
      inversion H; subst. simpl. f_equal. apply IH. reflexivity.
  Qed.

  Lemma mark_list_length pre : forall l i cs, mark_list mark_go pre i l = Some cs -> length cs = length l.
  Proof.
    induction l as [|c l IH]; intros i cs H; simpl in H.
    - inversion H; reflexivity.
    - destruct (mark_go c (pre ++ [i])); [|discriminate].
      destruct (mark_list mark_go pre (S i) l) eqn:Hl; [|discriminate].
      inversion H; subst. simpl. f_equal. eapply IH. exact Hl.
  Qed.

  Lemma tcopy_total : forall t, exists t', tcopy t = Some t'.
  Proof.
    apply item_children_ind. intros t IH. rewrite tcopy_unfold.
    assert (Hl : exists cs, tcopy_list tcopy (children t) = Some cs).
    { induction (children t) as [|c l IHl]; simpl; [eauto|].
      inversion IH as [|? ? [c' Hc] HF]; subst. rewrite Hc.
      destruct (IHl HF) as [cs Hcs]. rewrite Hcs. eauto. }
    destruct Hl as [cs Hcs]. rewrite Hcs.
    destruct (clone_set_total t cs (tcopy_list_length _ _ Hcs)) as [n [x [Hn Hx]]].
    rewrite Hn, Hx. eauto.
  Qed.

  Lemma mark_go_total : forall t pre, exists m, mark_go t pre = Some m.
  Proof.
    apply (item_children_ind (fun t => forall pre, exists m, mark_go t pre = Some m)).
    intros t IH pre. rewrite mark_go_unfold.
    assert (Hl : forall i, exists cs, mark_list mark_go pre i (children t) = Some cs).
    { induction (children t) as [|c l IHl]; intros i; simpl; [eauto|].
      inversion IH as [|? ? Hc HF]; subst. destruct (Hc (pre ++ [i])) as [c' Hc']. rewrite Hc'.
      destruct (IHl HF (S i)) as [cs Hcs]. rewrite Hcs. eauto. }
    destruct (Hl 0) as [cs Hcs]. rewrite Hcs.
    destruct (clone_set_total t cs (mark_list_length _ _ _ _ Hcs)) as [n [x [Hn Hx]]].
    rewrite Hn, Hx. eauto.
  Qed.
End MarkGo.

(* ---------------------------------------------------------------- segments: basic algebra *)
Lemma texts_app a b : texts (a ++ b) = texts a ++ texts b.
Proof.
  induction a as [|[s|c|] a IH]; simpl; [reflexivity| | |]; rewrite IH; [|reflexivity|reflexivity].
  rewrite app_assoc. reflexivity.
Qed.

Lemma flatten_app elem a b : flatten elem (a ++ b) = flatten elem a ++ flatten elem b.
Proof.
  induction a as [|[s|c|] a IH]; simpl; [reflexivity| | |]; rewrite IH, app_assoc; reflexivity.
Qed.

(* ---------------------------------------------------------------- (1) removing the elements *)
Section Texts.
  Variable tagc : path -> option str.

  Lemma texts_open p : texts (open_segs tagc p) = [].
  Proof. unfold open_segs. destruct (tagc p); reflexivity. Qed.
  Lemma texts_close p : texts (close_segs tagc p) = [].
  Proof. unfold close_segs. destruct (tagc p); reflexivity. Qed.

  Lemma texts_seg_list pre : forall l i fs,
    Forall (fun c => forall p, texts (msegs tagc c p) = print true c) l ->
    texts (seg_list (msegs tagc) pre i l fs) = pwalk (print true) l fs.
  Proof.
    induction l as [|c l IH]; intros i fs HF; [reflexivity|].
    destruct fs as [|s fs]; [reflexivity|].
    inversion HF as [|? ? Hc HFl]; subst. simpl.
    rewrite texts_app, Hc. simpl. rewrite (IH _ _ HFl). reflexivity.
  Qed.

  Lemma texts_msegs : forall t pre, texts (msegs tagc t pre) = print true t.
  Proof.
    apply (item_children_ind (fun t => forall pre, texts (msegs tagc t pre) = print true t)).
    intros t IH pre. rewrite msegs_unfold, print_parts.
    destruct (is_none t); [reflexivity|].
    rewrite !texts_app, texts_open, texts_close, (texts_seg_list pre _ _ _ IH). simpl.
    rewrite !app_nil_r. reflexivity.
  Qed.
End Texts.

(* ---------------------------------------------------------------- (2) nesting *)
Definition neutral (a : list seg) : Prop := forall d rest, bal d (a ++ rest) = bal d rest.

Lemma neutral_app a b : neutral a -> neutral b -> neutral (a ++ b).
Proof. intros Ha Hb d rest. rewrite <- app_assoc, Ha, Hb. reflexivity. Qed.
Lemma neutral_nil : neutral [].
Proof. intros d rest. reflexivity. Qed.
Lemma neutral_text s : neutral [Text s].
Proof. intros d rest. reflexivity. Qed.

Section Nesting.
  Variable tagc : path -> option str.

  Lemma neutral_wrap p body : neutral body -> neutral (open_segs tagc p ++ body ++ close_segs tagc p).
  Proof.
    unfold open_segs, close_segs. intros Hb. destruct (tagc p) as [c|]; simpl.
    - intros d rest. simpl. rewrite <- app_assoc, Hb. reflexivity.
    - rewrite app_nil_r. exact Hb.
  Qed.

  Lemma neutral_seg_list pre : forall l i fs,
    Forall (fun c => forall p, neutral (msegs tagc c p)) l -> neutral (seg_list (msegs tagc) pre i l fs).
  Proof.
    induction l as [|c l IH]; intros i fs HF; [apply neutral_nil|].
    destruct fs as [|s fs]; [apply neutral_nil|].
    inversion HF as [|? ? Hc HFl]; subst. simpl.
    apply neutral_app; [apply Hc|]. apply (neutral_app [Text s]); [apply neutral_text|]. apply IH. exact HFl.
  Qed.

  Lemma neutral_msegs : forall t pre, neutral (msegs tagc t pre).
  Proof.
    apply (item_children_ind (fun t => forall pre, neutral (msegs tagc t pre))).
    intros t IH pre. rewrite msegs_unfold. destruct (is_none t); [apply neutral_nil|].
    replace (open_segs tagc pre ++ [Text (head_of t)] ++ [Text (first_piece t)] ++
             seg_list (msegs tagc) pre 0 (children t) (followers t) ++ [Text (tail_of t)] ++ close_segs tagc pre)
      with (open_segs tagc pre ++ ([Text (head_of t)] ++ [Text (first_piece t)] ++
             seg_list (msegs tagc) pre 0 (children t) (followers t) ++ [Text (tail_of t)]) ++ close_segs tagc pre)
      by (rewrite <- !app_assoc; reflexivity).
    apply neutral_wrap.
    repeat apply neutral_app; try apply neutral_text. apply neutral_seg_list. exact IH.
  Qed.

  Lemma balanced_msegs t pre : balanced (msegs tagc t pre).
  Proof. unfold balanced. rewrite <- (app_nil_r (msegs tagc t pre)), neutral_msegs. reflexivity. Qed.
End Nesting.

(* ---------------------------------------------------------------- (3)/(4) classes per character *)
Section Classes.
  Variables okc koc : str.
  Variables ok ko : list path.
  Notation css := (css okc koc ok ko).
  Notation parent_class := (parent_class okc koc ok ko).
  Notation owner_go := (owner_go okc koc ok ko).

  (* the class a node's own characters get: its css class, else what it inherits *)
  Definition own_class (p : path) (inh : option str) : option str :=
    match css p with Some k => Some k | None => inh end.

  Lemma parent_class_child p i : parent_class (p ++ [i]) = own_class p (parent_class p).
  Proof.
    unfold parent_class, own_class. rewrite rev_app_distr. simpl. rewrite rev_involutive. reflexivity.
  Qed.

  (* what the proof needs of the rule deciding the elements; both modes satisfy it *)
  Definition sound_tagc (tagc : path -> option str) : Prop :=
    forall p, match tagc p with
              | Some c => css p = Some c
              | None => css p = None \/ css p = parent_class p
              end.

  Lemma sound_tag_class parci : sound_tagc (tag_class okc koc parci ok ko).
  Proof.
    intros p. unfold tag_class. destruct (css p) as [c|] eqn:Hc; [|left; reflexivity].
    destruct parci; [|reflexivity].
    destruct (ostr_eqb (Some c) (parent_class p)) eqn:He; [|reflexivity].
    right. apply ostr_eqb_eq in He. exact He.
  Qed.

  Lemma cpc_app_text st s rest : cpc st ([Text s] ++ rest) = paint (hd_error st) s ++ cpc st rest.
  Proof. reflexivity. Qed.

  Section OneRule.
    Variable tagc : path -> option str.
    Hypothesis Hsound : sound_tagc tagc.

    Definition cpc_ok (t : item) : Prop :=
      forall pre st rest, hd_error st = parent_class pre ->
        cpc st (msegs tagc t pre ++ rest) = owner_go t pre (parent_class pre) ++ cpc st rest.

    Lemma cpc_seg_list pre c st : hd_error st = c -> (forall i, parent_class (pre ++ [i]) = c) ->
      forall l i fs rest, Forall cpc_ok l ->
        cpc st (seg_list (msegs tagc) pre i l fs ++ rest) = own_list owner_go pre c i l fs ++ cpc st rest.
    Proof.
      intros Hst Hpc. induction l as [|x l IH]; intros i fs rest HF; [reflexivity|].
      destruct fs as [|s fs]; [reflexivity|].
      inversion HF as [|? ? Hx HFl]; subst. simpl.
      rewrite <- !app_assoc. rewrite (Hx (pre ++ [i]) st); [|rewrite Hpc; reflexivity].
      rewrite Hpc. simpl. rewrite (IH _ _ _ HFl). reflexivity.
    Qed.

    Lemma cpc_msegs : forall t, cpc_ok t.
    Proof.
      apply item_children_ind. intros t IH pre st rest Hst.
      rewrite msegs_unfold, owner_go_unfold. cbv zeta.
      destruct (is_none t); [reflexivity|].
      fold (own_class pre (parent_class pre)).
      pose proof (Hsound pre) as Hs. unfold open_segs, close_segs.
      assert (Hch : forall i, parent_class (pre ++ [i]) = own_class pre (parent_class pre))
        by (intros i; apply parent_class_child).
      destruct (tagc pre) as [c|].
      - (* an element is emitted: the stack grows by the node's class *)
        assert (Hown : own_class pre (parent_class pre) = Some c) by (unfold own_class; rewrite Hs; reflexivity).
        rewrite Hown in *. simpl. rewrite <- ?app_assoc.
        rewrite (cpc_seg_list pre (Some c) (c :: st) eq_refl Hch _ _ _ _ IH). simpl.
        rewrite <- ?app_assoc. reflexivity.
      - (* no element: the node's class is already on top of the stack *)
        assert (Hown : own_class pre (parent_class pre) = hd_error st).
        { unfold own_class. destruct Hs as [Hs|Hs]; rewrite Hs; [symmetry; exact Hst|].
          destruct (parent_class pre); symmetry; exact Hst. }
        rewrite Hown in *. simpl. rewrite <- ?app_assoc.
        rewrite (cpc_seg_list pre (hd_error st) st eq_refl Hch _ _ _ _ IH). simpl.
        rewrite <- ?app_assoc. reflexivity.
    Qed.

    Lemma classes_msegs t :
      classes_per_char (msegs tagc t []) = owner_class okc koc ok ko t.
    Proof.
      unfold classes_per_char, owner_class.
      rewrite <- (app_nil_r (msegs tagc t [])), (cpc_msegs t [] [] [] eq_refl). simpl.
      rewrite app_nil_r. reflexivity.
    Qed.
  End OneRule.
End Classes.

(* ---------------------------------------------------------------- flatten (mark_segs) = html *)
Lemma print_mark_node elem x tc :
  print true (mark_node elem x tc) =
  if is_none x then []
  else match tc with Some c => open_tag elem c | None => [] end ++ print true x
       ++ match tc with Some _ => close_tag elem | None => [] end.
Proof.
  destruct tc as [c|]; simpl.
  - unfold set_tail, set_head, tail_of, head_of. rewrite !print_parts.
    rewrite !is_none_set_meta, !first_set_meta, !followers_set_meta, !children_set_meta, !meta_set_meta.
    destruct (is_none x); [reflexivity|]. unfold head_of, tail_of. simpl.
    repeat rewrite meta_set_meta. simpl. unfold open_tag.
    rewrite <- !app_assoc. reflexivity.
  - rewrite app_nil_r. rewrite print_parts. destruct (is_none x); reflexivity.
Qed.

Section Flat.
  Variables okc koc elem : str.
  Variable parci : bool.
  Variables ok ko : list path.
  Notation mark_go := (mark_go okc koc elem parci ok ko).
  Notation tagc := (tag_class okc koc parci ok ko).

  Definition flat_ok (t : item) : Prop :=
    forall pre m t', mark_go t pre = Some m -> tcopy t = Some t' ->
      print true m = flatten elem (msegs tagc t' pre).

  Lemma flat_list pre : forall l i cm cc fs,
    Forall flat_ok l -> mark_list mark_go pre i l = Some cm -> tcopy_list tcopy l = Some cc ->
    pwalk (print true) cm fs = flatten elem (seg_list (msegs tagc) pre i cc fs).
  Proof.
    induction l as [|c l IH]; intros i cm cc fs HF Hm Hc; simpl in Hm, Hc.
    - inversion Hm; inversion Hc; subst. reflexivity.
    - inversion HF as [|? ? Hx HFl]; subst.
      destruct (mark_go c (pre ++ [i])) as [m1|] eqn:Hm1; [|discriminate].
      destruct (mark_list mark_go pre (S i) l) as [ms|] eqn:Hms; [|discriminate].
      destruct (tcopy c) as [c1|] eqn:Hc1; [|discriminate].
      destruct (tcopy_list tcopy l) as [cs|] eqn:Hcs; [|discriminate].
      inversion Hm; inversion Hc; subst; clear Hm Hc.
      destruct fs as [|s fs]; [reflexivity|]. simpl.
      rewrite flatten_app, (Hx _ _ _ Hm1 Hc1). simpl. rewrite (IH _ _ _ fs HFl Hms eq_refl). reflexivity.
  Qed.

  Lemma flat_mark_go : forall t, flat_ok t.
  Proof.
    apply item_children_ind. intros t IH pre m t' Hm Hc.
    rewrite mark_go_unfold in Hm. rewrite tcopy_unfold in Hc.
    destruct (clone_item t) as [n|] eqn:Hn; [|discriminate].
    destruct (mark_list mark_go pre 0 (children t)) as [cm|] eqn:Hcm; [|discriminate].
    destruct (tcopy_list tcopy (children t)) as [cc|] eqn:Hcc; [|discriminate].
    destruct (set_children n cm) as [xm|] eqn:Hxm; [|discriminate].
    inversion Hm; subst m; clear Hm.
    destruct (clone_set _ _ _ _ Hn Hxm (mark_list_length _ _ _ _ _ _ _ _ _ _ Hcm))
      as [Hm1 [Hm2 [Hm3 [Hm4 [Hm5 Hm6]]]]].
    destruct (clone_set _ _ _ _ Hn Hc (tcopy_list_length _ _ Hcc))
      as [Hc1 [Hc2 [Hc3 [Hc4 [Hc5 Hc6]]]]].
    rewrite print_mark_node, msegs_unfold, Hm4, Hc4.
    destruct (is_none t); [reflexivity|].
    rewrite print_parts, Hm4, Hm1, Hm2, Hm3, Hm5, Hm6, Hc1, Hc2, Hc3, Hc5, Hc6.
    rewrite (flat_list pre _ _ _ _ (cfollowers t) IH Hcm Hcc).
    unfold open_segs, close_segs. destruct (tagc pre) as [c|]; simpl;
      rewrite ?flatten_app; simpl; rewrite <- ?app_assoc, ?app_nil_r; reflexivity.
  Qed.
End Flat.

(* ---------------------------------------------------------------- the copy prints like the original *)
Lemma tcopy_node t t' :
  tcopy t = Some t' ->
  exists cc, tcopy_list tcopy (children t) = Some cc /\ children t' = cc /\
    head_of t' = head_of t /\ tail_of t' = tail_of t /\ is_none t' = is_none t /\
    first_piece t' = first_piece t /\ followers t' = cfollowers t.
Proof.
  rewrite tcopy_unfold. intros H.
  destruct (clone_item t) as [n|] eqn:Hn; [|discriminate].
  destruct (tcopy_list tcopy (children t)) as [cc|] eqn:Hcc; [|discriminate].
  exists cc. split; [reflexivity|].
  exact (clone_set _ _ _ _ Hn H (tcopy_list_length _ _ Hcc)).
Qed.

Definition copy_print_ok (t : item) : Prop :=
  forall t', force_stable t = true -> tcopy t = Some t' -> print true t' = print true t.

Lemma copy_print_list : forall l cc fs,
  Forall copy_print_ok l -> forallb force_stable l = true -> tcopy_list tcopy l = Some cc ->
  pwalk (print true) cc fs = pwalk (print true) l fs.
Proof.
  induction l as [|c l IH]; intros cc fs HF Hfs Hc; simpl in Hc.
  - inversion Hc; reflexivity.
  - inversion HF as [|? ? Hx HFl]; subst. simpl in Hfs. apply andb_prop in Hfs as [Hf1 Hf2].
    destruct (tcopy c) as [c1|] eqn:Hc1; [|discriminate].
    destruct (tcopy_list tcopy l) as [cs|] eqn:Hcs; [|discriminate].
    inversion Hc; subst; clear Hc. destruct fs as [|s fs]; [reflexivity|]. simpl.
    rewrite (Hx _ Hf1 Hc1), (IH _ fs HFl Hf2 eq_refl). reflexivity.
Qed.

Lemma copy_print : forall t, copy_print_ok t.
Proof.
  apply item_children_ind. intros t IH t' Hfs Hc.
  rewrite force_stable_unfold in Hfs. apply andb_prop in Hfs as [Hf1 Hf2].
  destruct (tcopy_node _ _ Hc) as [cc [Hcc [H1 [H2 [H3 [H4 [H5 H6]]]]]]].
  rewrite !print_parts, H1, H2, H3, H4, H5, H6, (cfollowers_stable _ Hf1).
  rewrite (copy_print_list _ _ _ IH Hf2 Hcc). reflexivity.
Qed.

Section CopyOwner.
  Variables okc koc : str.
  Variables ok ko : list path.
  Notation owner_go := (owner_go okc koc ok ko).

  Definition copy_owner_ok (t : item) : Prop :=
    forall t' pre inh, force_stable t = true -> tcopy t = Some t' -> owner_go t' pre inh = owner_go t pre inh.

  Lemma copy_owner_list pre c : forall l cc i fs,
    Forall copy_owner_ok l -> forallb force_stable l = true -> tcopy_list tcopy l = Some cc ->
    own_list owner_go pre c i cc fs = own_list owner_go pre c i l fs.
  Proof.
    induction l as [|x l IH]; intros cc i fs HF Hfs Hc; simpl in Hc.
    - inversion Hc; reflexivity.
    - inversion HF as [|? ? Hx HFl]; subst. simpl in Hfs. apply andb_prop in Hfs as [Hf1 Hf2].
      destruct (tcopy x) as [c1|] eqn:Hc1; [|discriminate].
      destruct (tcopy_list tcopy l) as [cs|] eqn:Hcs; [|discriminate].
      inversion Hc; subst; clear Hc. destruct fs as [|s fs]; [reflexivity|]. simpl.
      rewrite (Hx _ _ _ Hf1 Hc1), (IH _ _ fs HFl Hf2 eq_refl). reflexivity.
  Qed.

  Lemma copy_owner : forall t, copy_owner_ok t.
  Proof.
    apply item_children_ind. intros t IH t' pre inh Hfs Hc.
    rewrite force_stable_unfold in Hfs. apply andb_prop in Hfs as [Hf1 Hf2].
    destruct (tcopy_node _ _ Hc) as [cc [Hcc [H1 [H2 [H3 [H4 [H5 H6]]]]]]].
    rewrite !owner_go_unfold. cbv zeta. rewrite H1, H2, H3, H4, H5, H6, (cfollowers_stable _ Hf1).
    rewrite (copy_owner_list _ _ _ _ _ _ IH Hf2 Hcc). reflexivity.
  Qed.
End CopyOwner.

(* ---------------------------------------------------------------- owner_class in two steps *)
Lemma owners_go_unfold t pre :
  owners_go t pre =
  if is_none t then []
  else here pre (head_of t) ++ here pre (first_piece t)
       ++ owners_list owners_go pre 0 (children t) (followers t)
       ++ here pre (tail_of t).
Proof. destruct t; reflexivity. Qed.

Section InnermostProofs.
  Variables okc koc : str.
  Variables ok ko : list path.
  Notation css := (css okc koc ok ko).
  Notation parent_class := (parent_class okc koc ok ko).
  Notation owner_go := (owner_go okc koc ok ko).
  Notation innermost_marked := (innermost_marked okc koc ok ko).

  Lemma innermost_rev_spec : forall rp,
    innermost_rev okc koc ok ko rp =
    match css (rev rp) with Some c => Some c | None => parent_class_rev okc koc ok ko rp end.
  Proof.
    induction rp as [|x rp IH]; [simpl; destruct (css []); reflexivity|].
    cbn [innermost_rev parent_class_rev]. rewrite IH. reflexivity.
  Qed.

  Lemma innermost_own p : innermost_marked p = own_class okc koc ok ko p (parent_class p).
  Proof.
    unfold innermost_marked, own_class, Marker.parent_class.
    rewrite innermost_rev_spec, rev_involutive. reflexivity.
  Qed.

  Lemma paint_here p s : paint (innermost_marked p) s = map innermost_marked (here p s).
  Proof. unfold paint, here. rewrite map_map. reflexivity. Qed.

  Definition owners_ok (t : item) : Prop :=
    forall pre, owner_go t pre (parent_class pre) = map innermost_marked (owners_go t pre).

  Lemma owners_list_ok pre : forall l i fs, Forall owners_ok l ->
    own_list owner_go pre (innermost_marked pre) i l fs =
    map innermost_marked (owners_list owners_go pre i l fs).
  Proof.
    induction l as [|x l IH]; intros i fs HF; [reflexivity|].
    destruct fs as [|s fs]; [reflexivity|].
    inversion HF as [|? ? Hx HFl]; subst. simpl.
    rewrite !map_app, <- (Hx (pre ++ [i])), parent_class_child, <- innermost_own, paint_here, (IH _ _ HFl).
    reflexivity.
  Qed.

  Lemma owners_go_ok : forall t, owners_ok t.
  Proof.
    apply item_children_ind. intros t IH pre.
    rewrite owner_go_unfold, owners_go_unfold. cbv zeta.
    destruct (is_none t); [reflexivity|].
    fold (own_class okc koc ok ko pre (parent_class pre)). rewrite <- innermost_own.
    rewrite !map_app, !paint_here, (owners_list_ok pre _ _ _ IH). reflexivity.
  Qed.

  Lemma owner_class_two_steps t :
    owner_class okc koc ok ko t = map innermost_marked (char_owners t).
  Proof. unfold owner_class, char_owners. exact (owners_go_ok t []). Qed.
End InnermostProofs.
