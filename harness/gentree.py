"""gentree.py — generators of luqum trees (programmatic, all classes, odd shapes included).

All randomness comes from the random.Random passed in.  No sharing of node objects unless asked.
"""
from decimal import Decimal

WORDS = ["a", "b", "foo", "bar", "x1", "*", "w?ld*", "TO", "1", "2024-01-01", "é", "ba\\ r", "a b",
         "foo\\*", "Foo", "cafe\u0301", "x\u00b2"]
PHRASES = ['"a"', '"a b"', '""', '"x \\" y"', '"l1\nl2"', '"*"', '"A b"', '"e\u0301"']
REGEXES = ['/a/', '/a.*b/', '//']
FIELDS = ["f", "title", "a.b", "n.o.h", "x y", "", "f_1", "é", "xT12", "Title", "e\u0301"]
SPACES = ["", " ", "  ", "\t", "\n", "　 "]
DEGREES = [None, "1", "2", "0.5", ".5", "2.0", "007", "10", "100", "0.0000001", "1.50", 1, 2, 0, -1, "0", "0.0", "00",
           Decimal("1.50"), Decimal("0.1"), "1234567890123456789012345678901"]
PROX = [None, 1, 2, 0, 10, "3", "007", -2, "0", "00"]


def rand_layout(rng, node, p=0.5):
    if rng.random() < p:
        node.head = rng.choice(SPACES)
    if rng.random() < p:
        node.tail = rng.choice(SPACES)
    return node


class Gen:
    def __init__(self, rng, T, layout=0.0, odd=0.15, max_ops=5, wide=None, leaves_only_terms=False,
                 positions=0.0):
        self.r = rng
        self.T = T
        self.layout = layout
        self.odd = odd
        self.max_ops = max_ops
        self.wide = wide
        self.positions = positions

    def fin(self, node):
        if self.layout:
            rand_layout(self.r, node, self.layout)
        if self.positions and self.r.random() < self.positions:
            node.pos = self.r.randrange(0, 50)
            node.size = self.r.randrange(0, 20)
        return node

    def word(self):
        return self.fin(self.T.Word(self.r.choice(WORDS)))

    def phrase(self):
        return self.fin(self.T.Phrase(self.r.choice(PHRASES)))

    def regex(self):
        return self.fin(self.T.Regex(self.r.choice(REGEXES)))

    def leaf(self):
        x = self.r.random()
        if x < 0.6:
            return self.word()
        if x < 0.85:
            return self.phrase()
        if x < 0.95:
            return self.regex()
        return self.fin(self.T.NoneItem()) if self.r.random() < self.odd else self.word()

    def tree(self, depth):
        T, r = self.T, self.r
        if depth <= 0:
            return self.leaf()
        kind = r.choice(["leaf", "leaf", "field", "group", "fgroup", "range", "fuzzy", "prox", "boost",
                         "and", "or", "unk", "bool", "plus", "not", "prohibit", "from", "to",
                         "and", "or", "unk"])
        sub = lambda: self.tree(depth - 1)  # noqa
        odd = r.random() < self.odd
        if kind == "leaf":
            return self.leaf()
        if kind == "field":
            return self.fin(T.SearchField(r.choice(FIELDS), sub()))
        if kind == "group":
            return self.fin(T.Group(sub()))
        if kind == "fgroup":
            return self.fin(T.FieldGroup(sub()))
        if kind == "range":
            lo = sub() if odd else self.leaf()
            hi = sub() if odd else self.leaf()
            return self.fin(T.Range(lo, hi, r.random() < 0.5, r.random() < 0.5))
        if kind == "fuzzy":
            t = sub() if odd else self.word()
            return self.fin(T.Fuzzy(t, r.choice(DEGREES)))
        if kind == "prox":
            t = sub() if odd else self.phrase()
            return self.fin(T.Proximity(t, r.choice(PROX)))
        if kind == "boost":
            return self.fin(T.Boost(sub(), r.choice(DEGREES)))
        if kind in ("and", "or", "unk", "bool"):
            k = {"and": T.AndOperation, "or": T.OrOperation, "unk": T.UnknownOperation,
                 "bool": T.BoolOperation}[kind]
            if self.wide and r.random() < 0.1:
                n = r.choice(self.wide)
                return self.fin(k(*[self.leaf() for _ in range(n)]))
            n = r.randrange(0, 3) if odd else r.randrange(2, self.max_ops + 1)
            return self.fin(k(*[sub() for _ in range(n)]))
        if kind in ("plus", "not", "prohibit"):
            k = {"plus": T.Plus, "not": T.Not, "prohibit": T.Prohibit}[kind]
            return self.fin(k(sub()))
        if kind in ("from", "to"):
            k = {"from": T.From, "to": T.To}[kind]
            a = sub() if odd else self.leaf()
            return self.fin(k(a, r.random() < 0.5))
        raise AssertionError(kind)


def describe(node):
    """short s-expression (class names, values) for samples in evidence files"""
    import luqum.tree as T
    n = type(node).__name__
    if isinstance(node, T.Term):
        return "%s(%r)" % (n, node.value)
    if isinstance(node, T.SearchField):
        return "SearchField(%r, %s)" % (node.name, describe(node.expr))
    extra = ""
    if isinstance(node, (T.BaseApprox,)):
        extra = ", %s" % node.degree
    if isinstance(node, T.Boost):
        extra = ", %s" % node.force
    return "%s(%s%s)" % (n, ", ".join(describe(c) for c in node.children), extra)


def count_nodes(node):
    return 1 + sum(count_nodes(c) for c in node.children)


def all_nodes(node, path=()):
    yield path, node
    for i, c in enumerate(node.children):
        yield from all_nodes(c, path + (i,))


def deep_tree(T, levels=3000):
    """a tree deeper than the interpreter's recursion limit, built iteratively: a call on it cannot complete
    (RecursionError); used to interleave ABORTED calls in call histories"""
    t = T.Word("x")
    for _ in range(levels):
        t = T.AndOperation(T.Group(t), T.Word("y"))
    return t


def aborted_call(fn, T, levels=3000):
    """run fn(deep tree); returns the exception class name (or 'completed')"""
    t = deep_tree(T, levels)
    try:
        fn(t)
        return "completed"
    except RecursionError:
        return "RecursionError"
    except Exception as e:  # noqa
        return type(e).__name__
    finally:
        del t
