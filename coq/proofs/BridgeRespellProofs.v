(* BridgeRespellProofs.v — C18 for parsed queries whose numerals the parser re-spells (`a^1.0` prints `a^1`).

   1. decimals: the numeral an action prints (format(Decimal(d).normalize(), "f") / str(int(d))) can stand for d
      wherever an action reads it (RespellSimProofs.num_sem)
   2. the bridge over the RE-SPELLED token list: a per-action dichotomy (every harmless event of an action
      other than explicit proximity / boost / fuzzy is trivial), the link `blinkR`, the driver invariant for
      ANY tables: a parse without dropped text returns a tree whose chunks are the token groups of the
      query's tokens with the printed numerals
   3. L-respace over re-tailed, re-spelled groups (on top of RespaceNumProofs.L_respace_respelled_main)
   4. the round trip: BridgeProofs.pretty_round_trip_lexemes under the weaker guard `dropped_texts s = []` *)
Require Import Base Decimal Tree GenTree GenParser Visitor Print Eq Lexer Actions LR Parser Erase Pretty Respace.
Require Import TreeInd LexerProofs ActionProofs LRProofs LayoutProofs PrettyProofs RespaceProofs RespaceParse.
Require Import EqProofs RespellProofs BridgeProofs RespaceNumProofs RespellSimProofs.
Require Import C01 Lrespace LrespaceC18.
From Coq Require Import Lia.

(* ================================================================ 1. decimals *)

Lemma dec_normalize_canon f : dsign f = false -> dec_normalize f = dec_canon f.
Proof. intros H. unfold dec_normalize, dec_canon. rewrite H. reflexivity. Qed.

Lemma dec_eqb_same_normal f f' : dsign f = false -> dsign f' = false -> dec_eqb f f' = true ->
  dec_normalize f' = dec_normalize f.
Proof.
  intros H1 H2 He. rewrite !dec_normalize_canon by assumption. symmetry. apply dec_eqb_iff. exact He.
Qed.

Lemma strip_zeros_value : forall fuel c0 e0 c e, strip_zeros fuel c0 e0 = (c, e) ->
  (e0 <= e)%Z /\ c0 = (c * 10 ^ Z.to_N (e - e0))%N.
Proof.
  induction fuel as [|f IH]; intros c0 e0 c e H.
  - simpl in H. inversion H; subst. split; [lia|]. rewrite Z.sub_diag. simpl. lia.
  - rewrite strip_zeros_S in H. destruct (N.eqb c0 0) eqn:E0.
    { inversion H; subst. split; [lia|]. rewrite Z.sub_diag. simpl. lia. }
    destruct (N.eqb (c0 mod 10) 0) eqn:Em.
    + destruct (IH _ _ _ _ H) as [Hle Hv]. split; [lia|].
      apply N.eqb_eq in Em. pose proof (N.div_mod c0 10 ltac:(lia)) as Hdm. rewrite Em in Hdm.
      replace (Z.to_N (e - e0)) with (N.succ (Z.to_N (e - (e0 + 1)))) by lia.
      rewrite N.pow_succ_r'. rewrite Hdm at 1. rewrite Hv. lia.
    + inversion H; subst. split; [lia|]. rewrite Z.sub_diag. simpl. lia.
Qed.

Lemma int_of_digits a : forallb is_ascii_digit a = true -> a <> [] ->
  int_of_lexeme a = Some (Z.of_N (N_of_digits 0 a)).
Proof. intros Ha Hne. unfold int_of_lexeme. destruct a; [congruence|]. rewrite Ha. reflexivity. Qed.

(* str(int(d)) can stand for d *)
Lemma num_sem_int d z : int_of_lexeme d = Some z -> num_sem d (Z_to_str z).
Proof.
  intros H. destruct (int_of_lexeme_inv _ _ H) as [Hne [Hd Hz]].
  set (n := N_of_digits 0 d) in *.
  assert (Es : Z_to_str z = digits_of n).
  { subst z. unfold Z_to_str. assert (E : (Z.of_N n <? 0)%Z = false) by (apply Z.ltb_ge; lia).
    rewrite E, Zabs2N.id. reflexivity. }
  rewrite Es. split.
  - intros f Hf. destruct (dec_of_lexeme_int d Hd Hne) as [H1 _]. rewrite H1 in Hf. inversion Hf; subst f.
    destruct (dec_of_lexeme_int _ (digits_of_digits n) (digits_of_nonempty n)) as [H2 _].
    eexists. split; [exact H2|]. rewrite N_of_digits_of. reflexivity.
  - intros z0 Hz0. rewrite H in Hz0. inversion Hz0; subst z0.
    rewrite (int_of_digits _ (digits_of_digits n) (digits_of_nonempty n)), N_of_digits_of. subst z. reflexivity.
Qed.

(* format(Decimal(d).normalize(), "f") can stand for d *)
Lemma num_sem_dec d f : dec_of_lexeme d = Some f -> num_sem d (dec_to_fstr (dec_normalize f)).
Proof.
  intros Hf. split.
  - intros f0 Hf0. rewrite Hf in Hf0. inversion Hf0; subst f0.
    destruct (dec_print_roundtrip _ _ Hf) as [_ [_ [f' [H1 H2]]]]. exists f'. split; [exact H1|].
    apply dec_eqb_same_normal; [eapply dec_of_lexeme_sign; exact Hf|eapply dec_of_lexeme_sign; exact H1|exact H2].
  - intros z Hz. destruct (int_of_lexeme_inv _ _ Hz) as [Hne [Hd Hzv]].
    destruct (dec_of_lexeme_int d Hd Hne) as [H1 _]. rewrite H1 in Hf. inversion Hf; subst f. clear Hf.
    set (n := N_of_digits 0 d) in *. unfold dec_normalize. cbn [dcoef dexp dsign].
    destruct (N.eqb n 0) eqn:E0.
    + apply N.eqb_eq in E0. rewrite E0 in Hzv. subst z. reflexivity.
    + destruct (strip_zeros (S (N.to_nat (N.size n))) n 0) as [c e] eqn:Hs.
      destruct (strip_zeros_value _ _ _ _ _ Hs) as [Hle Hv]. rewrite Z.sub_0_r in Hv.
      apply N.eqb_neq in E0.
      assert (Hc : c <> 0%N) by (intros ->; lia).
      unfold dec_to_fstr. cbn [dcoef dexp dsign]. cbn [app].
      assert (E1 : (0 <=? e)%Z = true) by (apply Z.leb_le; exact Hle). rewrite E1.
      apply N.eqb_neq in Hc. rewrite Hc.
      assert (Hall : forallb is_ascii_digit (digits_of c ++ repeat_char c_zero (Z.to_nat e)) = true)
        by (rewrite forallb_app, digits_of_digits, repeat_zero_digits; reflexivity).
      assert (Hnn : digits_of c ++ repeat_char c_zero (Z.to_nat e) <> []).
      { pose proof (digits_of_nonempty c) as Hx. destruct (digits_of c); [congruence|discriminate]. }
      rewrite (int_of_digits _ Hall Hnn), N_of_digits_app, N_of_digits_of, N_of_digits_zeros.
      subst z. f_equal. f_equal. rewrite Hv. f_equal. f_equal. lia.
Qed.

(* ================================================================ 2. the bridge over the re-spelled tokens *)

(* d' is the numeral an action prints for the digits d *)
Definition printed_num (d d' : str) : Prop :=
  (exists z, int_of_lexeme d = Some z /\ d' = Z_to_str z) \/
  (exists f, dec_of_lexeme d = Some f /\ d' = dec_to_fstr (dec_normalize f)).

(* the same token, an APPROX / BOOST numeral possibly re-spelled as the action prints it *)
Definition rs_tok (t t' : token) : Prop :=
  tk_type t' = tk_type t /\ tk_head t' = tk_head t /\ tk_tail t' = tk_tail t /\ tk_pos t' = tk_pos t /\
  (tk_lexeme t' = tk_lexeme t \/
   ((tk_type t = T_APPROX \/ tk_type t = T_BOOST) /\
    exists c d d', (c = c_tilde \/ c = c_caret) /\ tk_lexeme t = c :: d /\ tk_lexeme t' = c :: d' /\
                   printed_num d d')).

Lemma rs_tok_refl t : rs_tok t t.
Proof. unfold rs_tok. auto 6. Qed.

Lemma rs_toks_refl : forall l, Forall2 rs_tok l l.
Proof. induction l; constructor; [apply rs_tok_refl|assumption]. Qed.

Lemma printed_num_sem d d' : printed_num d d' -> num_sem d d'.
Proof.
  intros [[z [H ->]]|[f [H ->]]]; [apply num_sem_int; exact H|apply num_sem_dec; exact H].
Qed.

Lemma printed_num_shape d d' : printed_num d d' -> d <> [] /\ d' <> [] /\ forallb is_numchar d' = true.
Proof.
  intros [[z [H ->]]|[f [H ->]]].
  - destruct (int_of_lexeme_inv _ _ H) as [Hne _].
    destruct (int_print_roundtrip _ _ H) as [_ [Hp [Hn _]]].
    split; [exact Hne|]. split; [|exact Hn]. intros E. rewrite E in Hp. discriminate.
  - destruct (dec_print_roundtrip _ _ H) as [Hp [Hn _]].
    split; [intros ->; discriminate|]. split; [|exact Hn]. intros E. rewrite E in Hp. discriminate.
Qed.

(* ---- harmless events of an action are trivial unless the printed text is a numeral *)

Definition not_sig (p : str) : Prop := forall c d, p = c :: d -> c <> c_tilde /\ c <> c_caret.

Lemma ev_ok_const l p : ev_ok (GRespell l p) -> not_sig p -> l = p.
Proof.
  intros [E|[c [d [d' [Hc [_ [Ep _]]]]]]] Hn; [exact E|].
  destruct (Hn _ _ Ep) as [H1 H2]. destruct Hc; contradiction.
Qed.

Lemma ev_ok_bare l c : ev_ok (GRespell l [c]) -> l = [c].
Proof.
  intros [E|[c0 [d [d' [_ [_ [Ep [Hp _]]]]]]]]; [exact E|].
  inversion Ep; subst. discriminate Hp.
Qed.

Ltac const_tac := let c := fresh "c" in let d := fresh "d" in let E := fresh "E" in
  intros c d E; vm_compute in E; inversion E; subst; split; discriminate.

Lemma op_text_not_sig k : not_sig (op_text k).
Proof. destruct k; const_tac. Qed.

Lemma binary_ev_trivial k a opv b v evs :
  binary k a opv b = Ok (v, evs) -> Forall ev_ok evs -> all_trivial evs.
Proof.
  unfold binary.
  destruct (if match b with Op k' _ _ => opk_eqb k k' | _ => false end then children b else [b]); [discriminate|].
  destruct (htm_pos _ false false). intros H Hev. inversion H; subst; clear H.
  apply Forall_app in Hev. destruct Hev as [Hd Hr]. apply all_trivial_app. split.
  - apply all_trivial_drops. apply ev_ok_drops. exact Hd.
  - destruct opv as [[i0|l0 x0 m0]|]; [constructor| |].
    + inversion Hr as [|? ? He _]; subst. constructor; [|constructor]. simpl.
      apply ev_ok_const; [exact He|apply op_text_not_sig].
    + inversion Hr as [|? ? He _]; subst. constructor; [|constructor]. simpl.
      apply ev_ok_const; [exact He|apply op_text_not_sig].
Qed.

(* a token value on the stack is the value of a well-formed token *)
Definition vtied (v : symval) : Prop :=
  match v with VItem _ => True | VTok _ _ _ => exists t, v = token_value t /\ tok_wf t end.

Lemma token_value_vtok t l vv m : VTok l vv m = token_value t ->
  l = tk_lexeme t /\ m_head m = tk_head t /\ m_tail m = tk_tail t /\ item_type (tk_type t) = false /\
  ((tk_type t = T_APPROX \/ tk_type t = T_BOOST) /\ vv = match tl l with [] => None | d => Some d end \/
   tk_type t <> T_APPROX /\ tk_type t <> T_BOOST /\ vv = Some l).
Proof.
  unfold token_value. destruct (tk_type t); intros H; inversion H; subst; simpl;
    (split; [reflexivity|]); (split; [reflexivity|]); (split; [reflexivity|]); (split; [reflexivity|]);
    try (left; split; [auto|reflexivity]); right; (split; [discriminate|]); (split; [discriminate|reflexivity]).
Qed.

Local Opaque htm_pos.

(* the explicit numeric actions: what the node is and what it prints *)
Definition numeric_case (args : list symval) (v : symval) (evs : list gev) : Prop :=
  exists x l ds m printed i,
    args = [VItem x; VTok l (Some ds) m] /\ v = VItem i /\ evs = [GRespell l printed] /\
    is_simple i /\ head_of i = [] /\ tail_of i = m_tail m /\
    print true i = print true x ++ m_head m ++ printed ++ m_tail m /\
    exists c d', printed = c :: d' /\ (c = c_tilde \/ c = c_caret) /\ printed_num ds d'.

Ltac triv1 H := inversion H as [|? ? ?He ?Hr]; subst; constructor; [|constructor].

Theorem run_action_ev_cases a args v evs :
  run_action a args = Ok (v, evs) -> Forall ev_ok evs -> Forall vtied args -> Forall val_ok args ->
  all_trivial evs \/ numeric_case args v evs.
Proof.
  intros H Hev Hti Hok.
  destruct a; simpl in H;
    repeat match type of H with
    | match ?l with [] => _ | _ :: _ => _ end = _ => destruct l as [|? ?]; try discriminate
    | match ?x with VItem _ => _ | VTok _ _ _ => _ end = _ => destruct x; try discriminate
    | match ?o with Some _ => _ | None => _ end = _ => destruct o eqn:?; try discriminate
    | match ?i with Term _ _ _ => _ | _ => _ end = _ => destruct i; try discriminate
    end;
    try (inv_ok H; left; constructor; fail).
  all: try (left; eapply binary_ev_trivial; eassumption).
  all: try (match type of H with context [unary_ht] => idtac end; unfold unary_ht in H; inv_ok H; left; ev_split Hev; constructor; [|constructor]; simpl;
            apply ev_ok_const; [eassumption|];
            try const_tac;
            match goal with |- not_sig (_ ++ gen_openrange_char ?b) => destruct b; const_tac end).
  - (* grouping *)
    inv_ok H. left. ev_split Hev. constructor; [|constructor; [|constructor]]; simpl;
      (apply ev_ok_const; [eassumption|const_tac]).
  - (* range *)
    inv_ok H. left. ev_split Hev. constructor; [|constructor; [|constructor; [|constructor]]]; simpl;
      (apply ev_ok_const; [eassumption|]);
      try (match goal with |- not_sig (gen_low_char ?b) => destruct b | |- not_sig (gen_high_char ?b) => destruct b end);
      const_tac.
  - (* field search *)
    inv_ok H. left. ev_split Hev. constructor; [|constructor; [|constructor; [|constructor]]]; simpl;
      try assumption. apply ev_ok_const; [eassumption|const_tac].
  - (* proximity, explicit *)
    destruct (int_of_lexeme s) as [zz|] eqn:Ez; [|discriminate]. unfold post_unary_ht in H. inv_ok H.
    repeat match goal with Hq : Some _ = Some _ |- _ => inversion Hq; subst; clear Hq end.
    apply Forall_cons_iff in Hok. destruct Hok as [Hx _]. simpl in Hx.
    right. do 6 eexists. split; [reflexivity|]. split; [reflexivity|]. split; [reflexivity|].
    split; [exact I|]. split; [reflexivity|]. split; [reflexivity|]. split.
    + simpl. unfold wrap. simpl. rewrite print_add_tail by exact Hx. norm_app. reflexivity.
    + do 2 eexists. split; [reflexivity|]. split; [left; reflexivity|]. left. match goal with Hq : int_of_lexeme _ = Some ?z0 |- _ => exists z0; split; [exact Hq|reflexivity] end.
  - (* proximity, implicit *)
    unfold post_unary_ht in H. inv_ok H. left. triv1 Hev. simpl. apply (ev_ok_bare _ _ He).
  - (* boost, explicit *)
    destruct (dec_of_lexeme s) as [ff|] eqn:Ef; [|discriminate]. unfold post_unary_ht in H. inv_ok H.
    repeat match goal with Hq : Some _ = Some _ |- _ => inversion Hq; subst; clear Hq end.
    apply Forall_cons_iff in Hok. destruct Hok as [Hx _]. simpl in Hx.
    right. do 6 eexists. split; [reflexivity|]. split; [reflexivity|]. split; [reflexivity|].
    split; [exact I|]. split; [reflexivity|]. split; [reflexivity|]. split.
    + simpl. unfold wrap. simpl. rewrite print_add_tail by exact Hx. norm_app. reflexivity.
    + do 2 eexists. split; [reflexivity|]. split; [right; reflexivity|]. right. match goal with Hq : dec_of_lexeme _ = Some ?f0 |- _ => exists f0; split; [exact Hq|reflexivity] end.
  - (* boost, implicit *)
    unfold post_unary_ht in H. inv_ok H. left. triv1 Hev. simpl. apply (ev_ok_bare _ _ He).
  - (* fuzzy, explicit *)
    destruct (dec_of_lexeme s) as [ff|] eqn:Ef; [|discriminate]. unfold post_unary_ht in H. inv_ok H.
    repeat match goal with Hq : Some _ = Some _ |- _ => inversion Hq; subst; clear Hq end.
    apply Forall_cons_iff in Hok. destruct Hok as [Hx _]. simpl in Hx.
    right. do 6 eexists. split; [reflexivity|]. split; [reflexivity|]. split; [reflexivity|].
    split; [exact I|]. split; [reflexivity|]. split; [reflexivity|]. split.
    + simpl. unfold wrap. simpl. rewrite print_add_tail by exact Hx. norm_app. reflexivity.
    + do 2 eexists. split; [reflexivity|]. split; [left; reflexivity|]. right. match goal with Hq : dec_of_lexeme _ = Some ?f0 |- _ => exists f0; split; [exact Hq|reflexivity] end.
  - (* fuzzy, implicit *)
    unfold post_unary_ht in H. inv_ok H. left. triv1 Hev. simpl. apply (ev_ok_bare _ _ He).
  - (* TO as a term: the token's value is its text *)
    inv_ok H. left. triv1 Hev. simpl in He |- *.
    apply Forall_cons_iff in Hti. destruct Hti as [[t [Ht Hwf]] _].
    destruct (token_value_vtok _ _ _ _ Ht) as [El [_ [_ [_ [[Hty Hv]|[_ [_ Hv]]]]]]].
    + exfalso. unfold tok_wf in Hwf. rewrite <- El in Hwf.
      assert (Hsh : exists c d, (c = c_tilde \/ c = c_caret) /\ lexeme = c :: d /\ forallb is_numchar d = true).
      { destruct Hty as [Hty|Hty]; rewrite Hty in Hwf; simpl in Hwf; destruct Hwf as [d [E Hd]];
          exists (hd 0%N lexeme), d; rewrite E; simpl; auto. }
      destruct Hsh as [c [d [Hc [Es Hd]]]]. rewrite Es in Hv, He. simpl in Hv. destruct d as [|d0 d1]; [discriminate|].
      inversion Hv; subst s. clear Hv.
      destruct He as [E|[c1 [x [x' [Hc1 [E1 [E2 _]]]]]]].
      * apply (f_equal (@length _)) in E. simpl in E. lia.
      * inversion E1; subst. inversion E2; subst. simpl in Hd.
        destruct Hc1; subst; discriminate Hd.
    + inversion Hv; subst. reflexivity.
Qed.

(* ---- the link over re-spelled tokens *)

(* a token value is the value of ITS token; an item is linked (BridgeProofs.blink) to its tokens with the numerals
   as the actions printed them *)
Definition blinkR (v : symval) (seg : list token) : Prop :=
  match v with
  | VTok _ _ _ => exists t, seg = [t] /\ v = token_value t /\ tok_wf t
  | VItem i => exists seg', Forall2 rs_tok seg seg' /\ blink (VItem i) seg'
  end.

Lemma blinkR_vtied v seg : blinkR v seg -> vtied v.
Proof. destruct v as [i|l x m]; simpl; [auto|]. intros [t [_ H]]. eauto. Qed.

Lemma blinkR_blink v seg : blinkR v seg ->
  exists seg', Forall2 rs_tok seg seg' /\ blink v seg' /\ (forall l x m, v = VTok l x m -> seg' = seg).
Proof.
  destruct v as [i|l x m]; simpl.
  - intros [seg' [H1 H2]]. exists seg'. split; [exact H1|]. split; [exact H2|]. intros; discriminate.
  - intros [t [-> [Hv _]]]. exists [t]. split; [apply rs_toks_refl|]. split; [|reflexivity].
    destruct (token_value_vtok _ _ _ _ Hv) as [El [Eh [Et _]]]. exists t. auto.
Qed.

Lemma blinksR_blinks : forall args segs, Forall2 blinkR args segs ->
  exists segs', Forall2 (Forall2 rs_tok) segs segs' /\ Forall2 blink args segs'.
Proof.
  induction 1 as [|v sg args segs Hb _ [segs' [H1 H2]]]; [exists []; split; constructor|].
  destruct (blinkR_blink _ _ Hb) as [sg' [Hr [Hb' _]]].
  exists (sg' :: segs'). split; constructor; assumption.
Qed.

Lemma rs_heads_ok : forall a b, Forall2 rs_tok a b -> heads_ok a -> heads_ok b.
Proof.
  unfold heads_ok. intros a b H. destruct H as [|t t' a b _ H]; [auto|]. simpl. intros Hh.
  induction H as [|x y a b [_ [Hx _]] _ IH]; [constructor|]. inversion Hh; subst.
  constructor; [unfold hn in *; congruence|apply IH; assumption].
Qed.

Lemma rs_tok_wf_type (t : token) c d : tok_wf t -> item_type (tk_type t) = false -> tk_lexeme t = c :: d ->
  c = c_tilde \/ c = c_caret -> tk_type t = T_APPROX \/ tk_type t = T_BOOST.
Proof. intros Hwf Hi El Hc. unfold tok_wf in Hwf. rewrite El in Hwf. eapply lexeme_ok_numeral; eassumption. Qed.

Theorem run_action_blinkR a args segs v evs :
  run_action a args = Ok (v, evs) -> Forall ev_ok evs ->
  Forall2 blinkR args segs -> heads_ok (concat segs) ->
  Forall val_ok args -> Forall children_ok args -> Forall val_inv args ->
  blinkR v (concat segs).
Proof.
  intros H Hev Hbl Hh Hok Hch Hinv.
  assert (Hti : Forall vtied args).
  { clear - Hbl. induction Hbl; constructor; [eapply blinkR_vtied; eassumption|assumption]. }
  destruct (run_action_ev_cases _ _ _ _ H Hev Hti Hok) as [Htriv|Hnum].
  - (* no re-spelling here: BridgeProofs.run_action_blink on the re-spelled segments *)
    destruct (blinksR_blinks _ _ Hbl) as [segs' [Hrs Hbl']].
    assert (Hcat : Forall2 rs_tok (concat segs) (concat segs')) by (apply F2_concat; exact Hrs).
    pose proof (run_action_blink _ _ _ _ _ H Htriv Hbl' (rs_heads_ok _ _ Hcat Hh) Hok Hch Hinv) as Hb.
    destruct v as [i|l x m]; [exists (concat segs'); split; assumption|].
    destruct (run_action_respell _ _ _ _ H Hev Hok Hch) as [_ [_ [_ [[i Hi]|Hargs]]]]; [discriminate|].
    subst args. inversion Hbl as [|? sg ? ? Hv Hnil]; subst. inversion Hnil; subst.
    simpl. rewrite app_nil_r. exact Hv.
  - (* an explicit proximity / boost / fuzzy: the numeral token takes the printed text *)
    destruct Hnum as [x [l [ds [m [printed [i [-> [-> [-> [Hs [Hhd [Htl [Hpr [c [d' [Ep [Hc Hpn]]]]]]]]]]]]]]]]].
    destruct (F2_inv2 _ _ _ _ Hbl) as (sa & sb & -> & Ba & Bb). rewrite concat2 in *.
    destruct Ba as [sa' [Hrsa Ba]]. destruct Bb as [t [-> [Hv Hwf]]].
    destruct (token_value_vtok _ _ _ _ Hv) as [El [Eh [Et [Hit Hvv]]]].
    set (t' := mkTok (tk_type t) printed (tk_pos t) (tk_head t) (tk_tail t)).
    assert (Hrt : rs_tok t t').
    { unfold rs_tok, t'. simpl. do 4 (split; [reflexivity|]).
      apply Forall_cons_iff in Hev. destruct Hev as [[E|[c1 [d0 [d0' [Hc1 [E1 [E2 _]]]]]]] _]; [left; congruence|].
      right. rewrite El in E1.
      pose proof (rs_tok_wf_type _ _ _ Hwf Hit E1 Hc1) as Hty. split; [exact Hty|].
      exists c1, d0, d0'. split; [exact Hc1|]. split; [exact E1|]. split; [exact E2|].
      destruct Hvv as [[_ Hvv]|[Hn1 [Hn2 _]]]; [|destruct Hty; contradiction].
      rewrite El, E1 in Hvv. simpl in Hvv. destruct d0 as [|d00 d01]; [discriminate|]. inversion Hvv; subst ds.
      rewrite Ep in E2. inversion E2; subst. exact Hpn. }
    exists (sa' ++ [t']). split; [apply Forall2_app; [exact Hrsa|constructor; [exact Hrt|constructor]]|].
    assert (Hx : not_none x) by (inversion Hok; assumption).
    destruct Ba as [Hne [Hpa _]].
    apply blink_simple.
    + exact Hs.
    + destruct sa'; discriminate.
    + apply (rs_heads_ok (sa ++ [t])); [|exact Hh]. apply Forall2_app; [exact Hrsa|constructor; [exact Hrt|constructor]].
    + rewrite Hpr, render_app, Hpa. f_equal. unfold render, tok_text, t'. simpl.
      rewrite Eh, Et, app_nil_r. reflexivity.
    + exists (fhead (sa' ++ [t'])). rewrite Hhd. reflexivity.
    + exists []. rewrite ltail_snoc. unfold t'. simpl. rewrite Htl, Et. reflexivity.
Qed.

Lemma blinkR_token t : tok_wf t -> blinkR (token_value t) [t].
Proof.
  intros Hwf. pose proof (blink_token t) as Hb. destruct (token_value t) as [i|l x m] eqn:E; simpl.
  - exists [t]. split; [apply rs_toks_refl|exact Hb].
  - exists t. rewrite E. auto.
Qed.

Lemma rs_render_nil : forall seg seg', Forall2 rs_tok seg seg' -> Forall tok_wf seg -> render seg' = [] -> seg = [].
Proof.
  intros seg seg' H Hwf Hr. destruct H as [|t t' seg seg' Ht _]; [reflexivity|]. exfalso.
  inversion Hwf as [|? ? Hwt _]; subst. apply lexeme_ok_nonempty in Hwt.
  unfold render, tok_text in Hr. simpl in Hr.
  apply app_eq_nil in Hr. destruct Hr as [Hr _]. apply app_eq_nil in Hr. destruct Hr as [_ Hr].
  apply app_eq_nil in Hr. destruct Hr as [Hr _].
  destruct Ht as [_ [_ [_ [_ [E|[_ [c [d [d' [_ [_ [E _]]]]]]]]]]]]; [congruence|rewrite E in Hr; discriminate].
Qed.

Lemma blinkR_empty v seg : blinkR v seg -> Forall tok_wf seg -> full_text v = [] -> seg = [].
Proof.
  intros Hb Hwf He. destruct (blinkR_blink _ _ Hb) as [seg' [Hrs [Hb' _]]].
  rewrite (blink_text _ _ Hb') in He. eapply rs_render_nil; eassumption.
Qed.

Lemma blinksR_empty : forall vals segs, Forall2 blinkR vals segs -> Forall tok_wf (concat segs) ->
  concat (map full_text vals) = [] -> concat segs = [].
Proof.
  induction 1 as [|v sg vals segs Hb _ IH]; simpl; intros Hwf H; [reflexivity|].
  apply Forall_app in Hwf. destruct Hwf as [Hw1 Hw2].
  apply app_eq_nil in H. destruct H as [H1 H2]. rewrite (blinkR_empty _ _ Hb Hw1 H1), IH by assumption. reflexivity.
Qed.

(* ================================================================ the driver invariant, any tables *)

Section AnyTablesBridgeR.
  Variable tb : tables.
  Variable toks0 : list token.
  Hypothesis Hheads : heads_ok toks0.
  Hypothesis Hwf0 : Forall tok_wf toks0.

  Definition BInvR (c : config) : Prop :=
    exists segs, Forall2 blinkR (c_vals c) segs /\ concat (rev segs) ++ c_toks c = toks0 /\
                 Forall val_ok (c_vals c) /\ Forall children_ok (c_vals c) /\ Forall val_inv (c_vals c).

  Ltac break H := repeat match type of H with
    | match ?x with _ => _ end = _ => destruct x eqn:?; try discriminate
    | (if ?b then _ else _) = _ => destruct b eqn:?; try discriminate
    end.

  Lemma reduce_binvR c a (rhs : list sym) v evs g :
    BInvR c ->
    run_action a (rev (firstn (length rhs) (c_vals c))) = Ok (v, evs) ->
    Forall ev_ok evs ->
    BInvR (mkCfg (g :: skipn (length rhs) (c_states c)) (v :: skipn (length rhs) (c_vals c))
                 (c_toks c) (c_dropped c ++ evs)).
  Proof.
    intros [segs [Hl [Ht [Hok [Hch Hinv]]]]] Hact Hev.
    set (n := length rhs) in *.
    assert (Hla : Forall2 blinkR (rev (firstn n (c_vals c))) (rev (firstn n segs))) by (apply F2_rev, F2_firstn, Hl).
    assert (Hcat : toks0 = concat (rev (skipn n segs)) ++ concat (rev (firstn n segs)) ++ c_toks c).
    { rewrite <- Ht. rewrite <- (firstn_skipn n segs) at 1. rewrite rev_app_distr, concat_app, app_assoc.
      reflexivity. }
    assert (Hhm : heads_ok (concat (rev (firstn n segs)))).
    { pose proof Hheads as Hx. rewrite Hcat in Hx. apply heads_ok_app_r in Hx. apply heads_ok_app_l in Hx. exact Hx. }
    assert (Hok' : Forall val_ok (rev (firstn n (c_vals c)))) by (apply Forall_rev, Forall_firstn, Hok).
    assert (Hch' : Forall children_ok (rev (firstn n (c_vals c)))) by (apply Forall_rev, Forall_firstn, Hch).
    assert (Hinv' : Forall val_inv (rev (firstn n (c_vals c)))) by (apply Forall_rev, Forall_firstn, Hinv).
    destruct (run_action_respell _ _ _ _ Hact Hev Hok' Hch') as [_ [H2 [H3 _]]].
    pose proof (run_action_inv _ _ _ _ Hact Hinv') as H4.
    pose proof (run_action_blinkR _ _ _ _ _ Hact Hev Hla Hhm Hok' Hch' Hinv') as Hb.
    exists (concat (rev (firstn n segs)) :: skipn n segs). simpl. split; [|split; [|split; [|split]]].
    - constructor; [exact Hb|apply F2_skipn, Hl].
    - rewrite Hcat. rewrite concat_app. simpl. rewrite app_nil_r, <- app_assoc. reflexivity.
    - constructor; [exact H2|apply Forall_skipn, Hok].
    - constructor; [exact H3|apply Forall_skipn, Hch].
    - constructor; [exact H4|apply Forall_skipn, Hinv].
  Qed.

  Lemma bstep_nextR lexerr c c' :
    step tb lexerr c = Next c' -> BInvR c ->
    exists evs, c_dropped c' = c_dropped c ++ evs /\ (Forall ev_ok evs -> BInvR c').
  Proof.
    unfold step, do_shift, do_reduce, do_accept. intros H HI.
    destruct (c_toks c) as [|t rest] eqn:Htoks; simpl in H; break H; inversion H; subst; clear H; simpl.
    - eexists. split; [reflexivity|]. intros Hev.
      match goal with Hact : run_action _ _ = Ok _ |- _ =>
        epose proof (reduce_binvR c _ _ _ _ _ HI Hact Hev) as R end.
      rewrite Htoks in R. exact R.
    - exists []. split; [rewrite app_nil_r; reflexivity|]. intros _.
      destruct HI as [segs [Hl [Ht [Hok [Hch Hinv]]]]]. rewrite Htoks in *.
      assert (Hwt : tok_wf t).
      { pose proof Hwf0 as Hw. rewrite <- Ht in Hw. apply Forall_app in Hw. destruct Hw as [_ Hw].
        inversion Hw; assumption. }
      exists ([t] :: segs). simpl. split; [|split; [|split; [|split]]].
      + constructor; [apply blinkR_token; exact Hwt|exact Hl].
      + rewrite <- Ht. rewrite concat_app. simpl. rewrite <- !app_assoc. reflexivity.
      + constructor; [apply token_value_ok|exact Hok].
      + constructor; [apply token_value_ok|exact Hch].
      + constructor; [apply token_value_inv|exact Hinv].
    - eexists. split; [reflexivity|]. intros Hev.
      match goal with Hact : run_action _ _ = Ok _ |- _ =>
        epose proof (reduce_binvR c _ _ _ _ _ HI Hact Hev) as R end.
      rewrite Htoks in R. exact R.
  Qed.

  Lemma bstep_final_okR lexerr c t evs :
    step tb lexerr c = Final (Ok t) evs -> BInvR c -> Forall ev_ok evs -> blinkR (VItem t) toks0.
  Proof.
    unfold step, do_shift, do_reduce, do_accept. intros H [segs [Hl [Ht [Hok [Hch Hinv]]]]] Hev.
    assert (Hmain : forall i below, c_vals c = VItem i :: below ->
              Forall ev_ok (drops [stack_text below; render (c_toks c);
                                   match lexerr with Some e => snd e | None => [] end]) ->
              blinkR (VItem i) toks0).
    { intros i below Hv Hd. apply ev_ok_drops in Hd.
      apply Forall_cons_iff in Hd. destruct Hd as [E1 Hd]. apply Forall_cons_iff in Hd. destruct Hd as [E2 _].
      pose proof Hwf0 as Hwf. rewrite <- Ht in Hwf. apply Forall_app in Hwf. destruct Hwf as [Hw1 Hw2].
      apply render_nil_inv in E2; [|exact Hw2].
      rewrite Hv in Hl. revert Ht Hw1. inversion Hl as [|? sg ? segs' Hli Hlb]; subst. intros Ht Hw1.
      rewrite E2, app_nil_r in Ht. simpl in Ht, Hw1. rewrite concat_app in Ht, Hw1. simpl in Ht, Hw1.
      rewrite app_nil_r in Ht, Hw1. apply Forall_app in Hw1. destruct Hw1 as [Hw1 _].
      assert (Hb : concat (rev segs') = []).
      { apply (blinksR_empty (rev below)); [apply F2_rev; exact Hlb|exact Hw1|exact E1]. }
      rewrite Hb in Ht. simpl in Ht. subst sg. exact Hli. }
    destruct (c_toks c) as [|tk rest] eqn:Htoks; simpl in H; break H; inversion H; subst; clear H;
      eapply Hmain; try reflexivity; exact Hev.
  Qed.

  Lemma brun_linkedR lexerr : forall fuel c t evs,
    run tb lexerr fuel c = Done (Ok t) evs -> BInvR c ->
    (forall evs', evs = c_dropped c ++ evs' -> Forall ev_ok evs') -> blinkR (VItem t) toks0.
  Proof.
    induction fuel as [|f IH]; intros c t evs H HI Hev; simpl in H; [discriminate|].
    destruct (step tb lexerr c) as [c'|r evs1] eqn:Hs.
    - destruct (bstep_nextR _ _ _ Hs HI) as [evs2 [Hd HI']].
      destruct (run_dropped_prefix _ _ _ _ _ _ H) as [rest Hrest].
      eapply IH; [exact H| |].
      + apply HI'. specialize (Hev (evs2 ++ rest)).
        assert (Ha : Forall ev_ok (evs2 ++ rest)) by (apply Hev; rewrite Hrest, Hd, <- app_assoc; reflexivity).
        apply Forall_app in Ha. apply Ha.
      + intros evs' He. specialize (Hev (evs2 ++ evs')).
        assert (Ha : Forall ev_ok (evs2 ++ evs')) by (apply Hev; rewrite He, Hd, <- app_assoc; reflexivity).
        apply Forall_app in Ha. apply Ha.
    - inversion H; subst; clear H. eapply bstep_final_okR; [exact Hs|exact HI|].
      apply Hev. reflexivity.
  Qed.
End AnyTablesBridgeR.

(* THE BRIDGE over re-spelled numerals, any tables: a parse whose events are harmless (nothing dropped, token
   texts printed anew are the same text or an equivalent numeral) returns a tree linked to the query's tokens
   with the numerals as printed *)
Theorem parse_with_linkedR tb s t evs :
  parse_with tb s = Done (Ok t) evs -> Forall ev_ok evs -> snd (lex s) = None ->
  exists toks', Forall2 rs_tok (fst (lex s)) toks' /\ blink (VItem t) toks'.
Proof.
  unfold parse_with. destruct (lex s) as [toks e] eqn:Hlex. intros H Hev He. simpl in He. subst e. simpl.
  destruct (run_dropped_prefix _ _ _ _ _ _ H) as [rest Hrest]. simpl in Hrest.
  destruct (lex_heads _ _ Hlex) as [Hh _].
  apply (brun_linkedR tb toks Hh (lex_tokens_wf _ _ _ Hlex) None _ _ _ _ H).
  - exists []. simpl. split; [constructor|]. split; [reflexivity|]. split; [constructor|]. split; constructor.
  - intros evs' He. simpl in He. subst evs. apply app_inv_head in He. subst evs'.
    apply Forall_app in Hev. apply Hev.
Qed.

(* ================================================================ 3. L-respace over re-tailed, re-spelled groups *)

Lemma rs_blank : forall a b, Forall2 rs_tok a b -> Forall blank_ht a -> Forall blank_ht b.
Proof.
  induction 1 as [|t t' a b [_ [Hh [Ht _]]] _ IH]; intros Hb; [constructor|]. inversion Hb as [|? ? [H1 H2] Hr]; subst.
  constructor; [unfold blank_ht; rewrite Hh, Ht; auto|apply IH; exact Hr].
Qed.

Lemma numchars_no_nl d : forallb is_numchar d = true -> has_nl d = false.
Proof.
  unfold has_nl. induction d as [|c d IH]; [reflexivity|]. cbn [forallb mem_N]. intros H.
  apply andb_prop in H. destruct H as [Hc Hd]. rewrite (IH Hd), orb_false_r.
  destruct (N.eqb_spec c_nl c) as [E|E]; [|reflexivity]. subst c. vm_compute in Hc. discriminate.
Qed.

Lemma rs_no_nl t t' : rs_tok t t' -> has_nl (tk_lexeme t) = false -> has_nl (tk_lexeme t') = false.
Proof.
  intros [_ [_ [_ [_ [E|[_ [c [d [d' [Hc [_ [E Hp]]]]]]]]]]]] Hn; [rewrite E; exact Hn|].
  rewrite E. destruct (printed_num_shape _ _ Hp) as [_ [_ Hd]]. pose proof (numchars_no_nl _ Hd) as Hx.
  unfold has_nl in *. cbn [mem_N]. rewrite Hx, orb_false_r. destruct Hc; subst c; reflexivity.
Qed.

(* the tokens of the original and the tokens that carry the same keys as the re-spelled ones *)
Lemma rs_tokR : forall toks toks' ts, Forall2 rs_tok toks toks' -> map tok_key ts = map tok_key toks' ->
  Forall2 tokR toks ts.
Proof.
  induction toks as [|t toks IH]; intros toks' ts H Hk; inversion H as [|? t' ? r' Ht Hr]; subst.
  - destruct ts; [constructor|discriminate].
  - destruct ts as [|u ts]; [discriminate|]. simpl in Hk. injection Hk as Hk1 Hk2 Hk3.
    constructor; [|eapply IH; eassumption].
    destruct Ht as [Hty [_ [_ [_ Hl]]]]. unfold tokR. split; [congruence|]. rewrite Hk2.
    destruct Hl as [E|[Hk [c [d [d' [_ [E1 [E2 Hp]]]]]]]]; [left; exact E|right].
    split; [exact Hk|]. exists c, d, d'. split; [exact E1|]. split; [exact E2|]. apply (printed_num_shape _ _ Hp).
Qed.

Lemma rs_key_num : forall toks toks' ts, Forall2 rs_tok toks toks' -> Forall tok_wf toks ->
  map tok_key ts = map tok_key toks' -> Forall2 key_num toks ts.
Proof.
  induction toks as [|t toks IH]; intros toks' ts H Hwf Hk; inversion H as [|? t' ? r' Ht Hr]; subst.
  - destruct ts; [constructor|discriminate].
  - destruct ts as [|u ts]; [discriminate|]. simpl in Hk. injection Hk as Hk1 Hk2 Hk3.
    inversion Hwf as [|? ? Hwt Hwr]; subst.
    constructor; [|eapply IH; eassumption].
    destruct Ht as [Hty [_ [_ [_ Hl]]]]. unfold key_num. split; [congruence|]. rewrite Hk2.
    destruct Hl as [E|[Hk [c [d [d' [Hc [E1 [E2 Hp]]]]]]]]; [left; exact E|right].
    split; [exact Hk|]. exists c, d, d'. split; [exact Hc|]. split; [exact E1|]. split; [exact E2|].
    destruct (printed_num_shape _ _ Hp) as [Hd [Hd' Hn']]. split; [exact Hd|]. split; [exact Hd'|].
    split; [|split; [exact Hn'|apply printed_num_sem; exact Hp]].
    unfold tok_wf in Hwt. rewrite E1 in Hwt.
    destruct Hk as [Hk|Hk]; rewrite Hk in Hwt; simpl in Hwt; destruct Hwt as [d0 [E0 Hd0]]; inversion E0; subst; exact Hd0.
Qed.

(* separators are kept along a relation that keeps non-empty tails non-empty *)
Lemma seps_of_rel (R : token -> token -> Prop) :
  (forall t g, R t g -> tk_tail t <> [] -> tk_tail g <> []) ->
  forall a b, Forall2 R a b -> seps_kept a b = true.
Proof.
  intros HR. induction 1 as [|t g a b Hr _ IH]; [reflexivity|]. cbn [seps_kept]. rewrite IH, andb_true_r.
  destruct (is_nil a); [reflexivity|]. destruct (tk_tail t) as [|c w] eqn:Et; [reflexivity|].
  simpl. destruct (tk_tail g) eqn:Eg; [exfalso; apply (HR _ _ Hr); [rewrite Et; discriminate|exact Eg]|reflexivity].
Qed.

Lemma F2_compose {A B C} (R : A -> B -> Prop) (S : B -> C -> Prop) : forall a b c,
  Forall2 R a b -> Forall2 S b c -> Forall2 (fun x z => exists y, R x y /\ S y z) a c.
Proof.
  intros a b c H. revert c. induction H as [|x y a b Hxy _ IH]; intros c Hc; inversion Hc; subst; constructor; eauto.
Qed.

Lemma set_head_keys h ts : map tok_key (set_head h ts) = map tok_key ts.
Proof. destruct ts; reflexivity. Qed.

(* L-respace, chunked form over re-tailed groups of the RE-SPELLED tokens, with a blank trailer *)
Theorem L_respace_respelled s toks toks' groups' h p' w :
  lex s = (toks, None) -> toks <> [] -> Forall2 rs_tok toks toks' -> Forall2 tl_rel toks' (concat groups') ->
  Forall (fun g => g <> []) groups' ->
  all_space h = true -> all_space w = true -> wglued (map group_text groups') p' ->
  map tok_key (fst (lex (h ++ p' ++ w))) = map tok_key toks' /\ snd (lex (h ++ p' ++ w)) = None.
Proof.
  intros Hlex Hne Hrs Hrel Hg Hh Hw Hgl.
  destruct (wglued_respacing_trail _ _ _ Hgl Hw Hg (tl_rel_tails _ _ Hrel)) as [ts' [E1 [E2 [E3 E4]]]].
  rewrite (tl_rel_keys _ _ Hrel) in E2.
  assert (Hlen : length toks = length (concat groups')).
  { rewrite (Forall2_length _ _ _ Hrs). rewrite <- (map_length tok_key toks'), <- (tl_rel_keys _ _ Hrel), map_length.
    reflexivity. }
  assert (E5 : seps_kept toks ts' = true).
  { apply (seps_kept_trans toks (concat groups') ts'); [exact Hlen| |exact E4].
    apply (seps_of_rel (fun x z => exists y, rs_tok x y /\ tl_rel y z)).
    - intros t g [y [[_ [_ [Ht _]]] [_ [_ Hs]]]] Hn. apply Hs. rewrite Ht. exact Hn.
    - eapply F2_compose; eassumption. }
  assert (Hts : ts' <> []).
  { intros ->. destruct toks' as [|x xs]; [inversion Hrs; subst; congruence|discriminate]. }
  destruct ts' as [|t1 r1]; [congruence|].
  assert (Er : h ++ p' ++ w = render (set_head h (t1 :: r1))).
  { rewrite E1. simpl in E3. apply andb_true_iff in E3. destruct E3 as [E3a E3b].
    destruct (render_body _ E3b) as [Eren _].
    change (render (set_head h (t1 :: r1))) with
      (tok_text (mkTok (tk_type t1) (tk_lexeme t1) (tk_pos t1) h (tk_tail t1)) ++ render r1).
    rewrite Eren, body_text_cons. unfold tok_text. simpl. rewrite <- !app_assoc. reflexivity. }
  rewrite Er, <- E2, <- (set_head_keys h (t1 :: r1)).
  apply (L_respace_respelled_main s toks _ Hlex Hne).
  - eapply rs_tokR; [exact Hrs|]. rewrite set_head_keys. exact E2.
  - simpl in E3 |- *. apply andb_true_iff in E3. destruct E3 as [E3a E3b].
    apply andb_true_iff in E3a. destruct E3a as [_ E3a]. rewrite Hh, E3a, E3b. reflexivity.
  - destruct toks as [|t0 r0]; [congruence|]. simpl in E5 |- *. exact E5.
Qed.

(* ================================================================ 4. the round trip *)

Lemma parse_events_ok s r evs : parse_full s = Done r evs -> dropped_texts s = [] ->
  Forall respell_ok evs /\ Forall ev_ok evs.
Proof.
  intros Hp Hd. pose proof (parse_full_respell_ok _ _ _ Hp) as H1. split; [exact H1|].
  apply ev_ok_of_respell_ok; [exact H1|eapply dropped_texts_nil; eassumption].
Qed.

(* the bridge on the generated tables under the guard "no text dropped": the chunks of the parsed tree are the
   token groups, between blanks, of the query's tokens with the numerals as the parser prints them *)
Theorem parsed_chunks_respelled_groups s t :
  parse s = Some (Ok t) -> dropped_texts s = [] ->
  exists toks' groups, Forall2 rs_tok (fst (lex s)) toks' /\ toks' = concat groups /\
    Forall (fun g => g <> []) groups /\ Forall2 chunk_relb (chunk_texts t) groups.
Proof.
  intros Hp Hd. destruct (parse_ok_lexes s t Hp) as [He Hnt].
  unfold parse in Hp. destruct (parse_full s) as [r evs|] eqn:Hpf; [|discriminate]. inversion Hp; subst r.
  destruct (parse_events_ok _ _ _ Hpf Hd) as [_ Hev].
  destruct (parse_with_linkedR _ _ _ _ Hpf Hev He) as [toks' [Hrs Hb]].
  destruct Hb as [_ [_ [_ [_ [_ [groups [E [Hg HF]]]]]]]].
  exists toks', groups. split; [exact Hrs|]. split; [symmetry; exact E|]. split; [exact Hg|].
  apply chunk_rels_blank; [|exact HF]. apply Forall_concat_inv. rewrite E.
  apply (rs_blank _ _ Hrs). destruct (lex s) as [toks e] eqn:Hlex. simpl in *. subst e. eapply lex_blank; eassumption.
Qed.

(* C18's conclusion for a parsed query from which no text was dropped and without a newline inside a token *)
Theorem pretty_round_trip_respelled s t cfg p :
  parse s = Some (Ok t) -> dropped_texts s = [] -> no_newline_in_lexemes s = true -> pretty cfg t = Some p ->
  exists t', parse p = Some (Ok t') /\ item_eqb t' t = true.
Proof.
  intros Hp Hd Hnl Hpr.
  destruct (parsed_chunks_respelled_groups s t Hp Hd) as [toks' [groups [Hrs [Hcat [Hg HF]]]]].
  destruct (pretty_spaced cfg t p Hpr) as [k [p' [E Hsp]]]. subst p.
  destruct (parse_ok_lexes s t Hp) as [He Hnt]. unfold no_newline_in_lexemes in Hnl.
  destruct (lex s) as [toks e] eqn:Hl. simpl in *. subst e.
  pose proof (lex_tokens_wf _ _ _ Hl) as Hwf.
  assert (Htok : Forall tok_ok toks').
  { pose proof (rs_blank _ _ Hrs (lex_blank _ _ Hl Hnt)) as Hb. rewrite forallb_forall in Hnl.
    clear - Hrs Hb Hnl. induction Hrs as [|x y a b Hxy _ IH]; [constructor|]. inversion Hb as [|? ? [_ Hy] Hbr]; subst.
    constructor; [|apply IH; [intros z Hz; apply Hnl; right; exact Hz|exact Hbr]].
    split; [|exact Hy]. apply (rs_no_nl _ _ Hxy). apply negb_true_iff, Hnl. left. reflexivity. }
  assert (Hoks : Forall (fun g => g <> [] /\ Forall tok_ok g) groups).
  { rewrite Hcat in Htok. apply Forall_concat_inv in Htok. clear - Hg Htok.
    induction Hg as [|g gs Hg1 _ IH]; [constructor|]. inversion Htok; subst. constructor; [split; assumption|auto]. }
  destruct (spaced_wglued_trail _ _ Hsp groups HF Hoks) as [groups' [HFg [h [p2 [w [E [Hh [Hw Hwg]]]]]]]]. subst p'.
  assert (Hrel : Forall2 tl_rel toks' (concat groups')) by (rewrite Hcat; apply F2_concat; exact HFg).
  assert (Hg' : Forall (fun g => g <> []) groups').
  { clear - Hg HFg. induction HFg as [|g g' gs gs' H1 _ IH]; [constructor|]. inversion Hg; subst.
    constructor; [eapply F2_nonempty; eassumption|auto]. }
  assert (Hk : map tok_key (fst (lex (sp k ++ h ++ p2 ++ w))) = map tok_key toks' /\
               snd (lex (sp k ++ h ++ p2 ++ w)) = None).
  { rewrite app_assoc. apply (L_respace_respelled s toks toks' groups' (sp k ++ h) p2 w Hl Hnt Hrs Hrel Hg'); try assumption.
    rewrite all_space_app, all_space_sp, Hh. reflexivity. }
  destruct Hk as [Hk Hn].
  unfold parse in Hp. destruct (parse_full s) as [r evs|] eqn:Hpf; [|discriminate]. inversion Hp; subst r.
  destruct (parse_events_ok _ _ _ Hpf Hd) as [Hro _].
  destruct (parse_respelled_same_tree gen_tables s (sp k ++ h ++ p2 ++ w) t evs Hpf Hro) as [t' [evs' [Hp' Her]]].
  - rewrite Hl. reflexivity.
  - exact Hn.
  - rewrite Hl. simpl. eapply rs_key_num; eassumption.
  - exists t'. split; [unfold parse, parse_full; rewrite Hp'; reflexivity|].
    apply layout_erase_eqb. symmetry. exact Her.
Qed.
