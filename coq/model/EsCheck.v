(* EsCheck.v — luqum.check.CheckNestedFields.  Executable definitions only.

   The checker is a TreeVisitor; its handlers come from the generated method table
   gen_methods_CheckNestedFields through Visitor.dispatch (visit_term applies to Word and Regex
   through the MRO, visit_phrase to Phrase, visit_search_field to SearchField; everything else is
   generic_visit = visit the children with the same context).  __call__ drains the generator, so
   the first exception in document (pre-)order is the outcome. *)
Require Import Base Decimal Tree GenTree GenVisitors Visitor Json EsSpecs.

(* the exceptions of the Elasticsearch query builder (shared with EsBuild.v) *)
Inductive other_exc :=
| KAttributeError      (* a handler reads an attribute its node does not have *)
| KValueError          (* single-value unpacking of 0 or >= 2 items *)
| KIndexError          (* [0] of an empty result; children[1] of an operation with < 2 operands *)
| KTypeError.          (* a non-str method name coming from field_options *)

Inductive es_exc :=
| XNested              (* luqum.exceptions.NestedSearchFieldException *)
| XObject              (* luqum.exceptions.ObjectSearchFieldException *)
| XMix                 (* luqum.exceptions.OrAndAndOnSameLevel *)
| XOther (k : other_exc).

Definition other_exc_eqb (a b : other_exc) : bool :=
  match a, b with
  | KAttributeError, KAttributeError | KValueError, KValueError | KIndexError, KIndexError
  | KTypeError, KTypeError => true
  | _, _ => false
  end.

Definition es_exc_eqb (a b : es_exc) : bool :=
  match a, b with
  | XNested, XNested | XObject, XObject | XMix, XMix => true
  | XOther x, XOther y => other_exc_eqb x y
  | _, _ => false
  end.

(* CheckNestedFields.__init__ *)
Record chk_env := mkChkEnv {
  ce_object_fields : option (list str);     (* normalize_object_fields_specs(object_fields) *)
  ce_object_prefixes : list str;
  ce_nested_fields : list str;              (* flatten_nested_fields_specs(nested_fields) *)
  ce_nested_prefixes : list str;
  ce_sub_fields : option (list str) }.

Definition mk_chk_env (nested object_fields sub_fields : spec) : chk_env :=
  let obj := normalize_object object_fields in
  let nst := flatten_nested nested in
  mkChkEnv obj
           (prefixes_of (match obj with Some l => l | None => [] end))
           nst
           (prefixes_of nst)
           (normalize_object sub_fields).

Definition omem (s : str) (o : option (list str)) : bool :=
  match o with Some l => mem_str s l | None => false end.

(* _check_final_operation: None = passes *)
Definition check_final (env : chk_env) (prefix : list str) : option es_exc :=
  match prefix with
  | [] => None
  | _ =>
      let fullname := dotted prefix in
      if mem_str fullname (ce_nested_prefixes env) then Some XNested
      else if mem_str fullname (ce_object_prefixes env) then Some XNested
      else if Nat.ltb 1 (length prefix) then
        match ce_sub_fields env, ce_object_fields env with
        | Some subs, Some objs =>
            if negb (mem_str fullname subs) && negb (mem_str fullname objs) &&
               negb (mem_str fullname (ce_nested_fields env))
            then Some XObject else None
        | _, _ => None
        end
      else None
  end.

(* which handler the checker runs on a node *)
Inductive chk_handler := HFinal | HField | HGeneric.

Definition chk_handler_of (c : cls) : chk_handler :=
  match dispatch gen_methods_CheckNestedFields c with
  | Some CPhrase | Some CTerm => HFinal
  | Some CSearchField => HField
  | _ => HGeneric
  end.

(* tie obligation: the model knows every specific handler of the checker *)
Definition chk_methods_known : bool :=
  forallb (fun c => mem_cls c [CPhrase; CSearchField; CTerm]) gen_methods_CheckNestedFields.

Definition field_name (t : item) : option str :=
  match t with SearchField _ n _ => Some n | _ => None end.

(* generic_visit: the children one after the other, first exception wins *)
Definition chk_walk (f : item -> list str -> option es_exc) (prefix : list str) :=
  fix go (l : list item) : option es_exc :=
    match l with
    | [] => None
    | c :: l' => match f c prefix with Some e => Some e | None => go l' end
    end.

Definition chk_via (env : chk_env) (rec : item -> list str -> option es_exc)
           (t : item) (prefix : list str) (cs : list item) : option es_exc :=
  match chk_handler_of (cls_of t) with
  | HFinal => check_final env prefix
  | HField =>
      match field_name t with
      | Some n => chk_walk rec (prefix ++ split_on c_dot n) cs
      | None => Some (XOther KAttributeError)       (* node.name on a node without name *)
      end
  | HGeneric => chk_walk rec prefix cs
  end.

Fixpoint chk_go (env : chk_env) (t : item) (prefix : list str) : option es_exc :=
  let via := chk_via env (chk_go env) t prefix in
  match t with
  | Term _ _ _ | NoneItem _ => via []
  | SearchField _ _ e | Grp _ _ e | Boost _ e _ _ => via [e]
  | Fuzzy _ x _ _ | Proximity _ x _ _ => via [x]
  | Unary _ _ a | ORange _ _ a _ => via [a]
  | Range _ lo hi _ _ => via [lo; hi]
  | Op _ _ ops => via ops
  end.

(* CheckNestedFields(...)(tree) *)
Definition check_nested (env : chk_env) (t : item) : option es_exc := chk_go env t [].
