"""es_common.py — shared pieces for the checks that rest on the Elasticsearch query builder model
(coq/model/{Json,EsSpecs,EsCheck,EsBuild}.v): C06, C07, later C05 and C19.

  * generators: builder configurations (default operator / field, not analysed fields, nested / object /
    sub field specifications in every spelling up to depth 4, field_options, match_word_as_phrase),
    supported trees (the constructs the properties list, in the shapes the grammar produces, with
    names), odd trees (every item class, any shape), call sequences
  * serialisers Python -> Gallina: g_spec, g_json, g_config, g_outcome
  * running the implementation: outcome = ("ok", json) | ("exc", class name)
  * structural predicates on (configuration, tree), written without the builder: supported,
    range_bounds_plain, container_misuse (as the code decides it / as the property means it), mix
  * eval_builder_cases: model == implementation on (configuration, tree, outcome) triples

Floats: the model does not model float(); a number in the model's JSON is the exact decimal that float()
is applied to.  A float x in the implementation's output is mapped back to the Decimal / int of the input
tree (a degree or a force) whose float() is x; if there is none, to Decimal(repr(x)) (which then has
to be numerically equal to the model's decimal).  Two numerically different candidates with the same
float would be ambiguous: the generators use at most one numeral longer than 15 digits.
"""
import warnings
from decimal import Decimal

import lib
import gentree

ATOMS = ["a", "b", "c", "n", "o", "s"]
FIELD_NAMES = ["a", "b", "c", "n", "o", "s", "a.b", "b.c", "n.o", "n.o.h", "a.b.c", "text", "a", "b", "n"]
ODD_FIELD_NAMES = ["", "a.", ".a", "a..b", "é", "x y"]
WORDS = ["x", "foo", "bar", "*", "w?ld*", "\\*y", "a\\\\*", "?", "1", "5", "TO", "é", "a b",
         "2024-01-01", "\\?", "x\\", "\n*"]
ODD_WORDS = ["", "a\\\\\\*"]
PHRASES = ['"a"', '"a b"', '""', '"x \\" y"', '"l1\n\t l2"', '"*"', '"a\u00a0\u2003b"', '" a "']
ODD_PHRASES = ['"']
NAMES = ["n1", "A", "b", ""]
DEGREES = [None, "1", "2", "0.5", ".5", "2.0", "007", "10", "100", "0.0000001", "1.50", 1, 2, 0,
           Decimal("1.50"), Decimal("0.1"), "1234567890123456789012345678901"]
PROX = [None, 1, 2, 0, 10, "3", "007"]
OPTION_KEYS = ["match_type", "type", "boost", "slop", "analyzer", "analyze_wildcard",
               "allow_leading_wildcard", "query", "zero_terms_query", "fuzziness", "_name", "value", "x"]
METHOD_VALUES = ["match", "match_phrase", "multi_match", "phrase_prefix", "match_bool_prefix", "term",
                 "query_string", "", "most_fields", 5, None, True, ["match"], {"a": 1}, 0]


# ------------------------------------------------------------------ configurations

def gen_spec(r, depth, top=True):
    """a field specification in any spelling: None, list of names, dict name -> spec"""
    x = r.random()
    if depth <= 0 or x < 0.15:
        return None if r.random() < 0.6 else ({} if r.random() < 0.5 else [])
    if x < 0.4:
        n = r.randrange(0, 4)
        pool = FIELD_NAMES if top else ATOMS
        return [r.choice(pool) for _ in range(n)]
    n = r.randrange(1, 4)
    d = {}
    for _ in range(n):
        k = r.choice(ATOMS) if r.random() < 0.85 else r.choice(["a.b", "n.o", ""])
        d[k] = gen_spec(r, depth - 1, top=False)
    return d


def gen_options(r):
    opts = {}
    for _ in range(r.randrange(0, 4)):
        k = r.choice(OPTION_KEYS)
        if k in ("match_type", "type"):
            v = r.choice(METHOD_VALUES)
        else:
            v = r.choice([1, 2, 0, True, False, "std", "", None, [1, "a"], {"k": 1}, "all"])
        opts[k] = v
    return opts


def gen_config(r, plain=0.25):
    """keyword arguments of ElasticsearchQueryBuilder"""
    cfg = {}
    if r.random() < plain:
        return cfg
    if r.random() < 0.6:
        cfg["default_operator"] = r.choice(["must", "should", "must", "should", "other"])
    if r.random() < 0.4:
        cfg["default_field"] = r.choice(["text", "a", "b", "n.o", "a.b"])
    if r.random() < 0.5:
        cfg["not_analyzed_fields"] = [r.choice(FIELD_NAMES) for _ in range(r.randrange(0, 5))]
    if r.random() < 0.6:
        cfg["nested_fields"] = gen_spec(r, r.randrange(1, 5))
    if r.random() < 0.5:
        cfg["object_fields"] = gen_spec(r, r.randrange(1, 4))
    if r.random() < 0.4:
        cfg["sub_fields"] = gen_spec(r, r.randrange(1, 3))
    if r.random() < 0.5:
        cfg["field_options"] = {r.choice(FIELD_NAMES): gen_options(r) for _ in range(r.randrange(0, 4))}
    if r.random() < 0.25:
        cfg["match_word_as_phrase"] = True
    return cfg


FIXED_CONFIGS = [
    {},
    # field options that name the very keys a clause kind generates by itself (they are defaults, not overrides)
    {"field_options": {"title": {"allow_leading_wildcard": False, "lenient": True}, "text": {"analyze_wildcard": False},
                       "a": {"zero_terms_query": "all", "boost": 3}, "c": {"fuzziness": "AUTO", "slop": 2}}},
    {"default_operator": "must"},
    {"nested_fields": {"a": {"b": {"c": {}}}}},                               # F8
    {"nested_fields": {"a": {}}},
    {"nested_fields": {"a": ["b"], "n": {"o": {"h": None}, "s": None}}},
    {"nested_fields": {"author": {"name": None, "book": {"format": ["type"], "title": None}}}},
    {"object_fields": ["a.b", "n.o.h"], "sub_fields": ["a.b.c"]},
    {"object_fields": {"a": {"b": None}}, "sub_fields": []},
    {"object_fields": [], "sub_fields": [], "nested_fields": {"n": ["o"]}},
    {"not_analyzed_fields": ["text", "a", "a.b"], "default_field": "text"},
    {"field_options": {"text": {"match_type": "multi_match", "x": 1}, "a": {"type": "phrase_prefix"}}},
    {"field_options": {"text": {"match_type": "", "type": "match_phrase", "boost": 2}}},
    {"match_word_as_phrase": True, "field_options": {"text": {"slop": 2}}},
    {"nested_fields": {}, "object_fields": {}},
    # every documented kind of full-text query as match_type (the text goes under "query" for all of them)
    {"field_options": {"title": {"match_type": "match_phrase_prefix", "max_expansions": 5},
                       "text": {"match_type": "match_bool_prefix"}, "a": {"match_type": "match_phrase"},
                       "c": {"match_type": "common"}}},
    {"default_field": "title", "field_options": {"title": {"match_type": "match_bool_prefix", "fuzziness": 1},
                                                  "a": {"match_type": "match_phrase_prefix"}, "c": {"match_type": "term"}}},
]


def builder(cfg):
    from luqum.elasticsearch import ElasticsearchQueryBuilder
    with warnings.catch_warnings():
        warnings.simplefilter("ignore")
        return ElasticsearchQueryBuilder(**cfg)


# ------------------------------------------------------------------ trees

class EsGen:
    """supported trees: words, phrases, ranges, fuzzy, proximity, boost, groups, fields, AND, OR, implicit
    and boolean operations (>= 2 operands), NOT, +, -, in the shapes the grammar produces (fuzzy on a word,
    proximity on a phrase, range bounds = word / phrase / -word / -phrase), with names on some nodes"""

    def __init__(self, r, T, names=0.15, neg_bound=0.08, odd_values=0.0):
        self.r, self.T, self.names, self.neg_bound, self.odd_values = r, T, names, neg_bound, odd_values

    def fin(self, node):
        if self.r.random() < self.names:
            setattr(node, "_luqum_name", self.r.choice(NAMES))
        return node

    def word(self):
        pool = WORDS + (ODD_WORDS if self.r.random() < self.odd_values else [])
        return self.fin(self.T.Word(self.r.choice(pool)))

    def phrase(self):
        pool = PHRASES + (ODD_PHRASES if self.r.random() < self.odd_values else [])
        return self.fin(self.T.Phrase(self.r.choice(pool)))

    def bound(self):
        b = self.word() if self.r.random() < 0.8 else self.phrase()
        if self.r.random() < self.neg_bound:
            b = self.fin(self.T.Prohibit(b))
        return b

    def field_name(self):
        if self.r.random() < self.odd_values:
            return self.r.choice(ODD_FIELD_NAMES)
        return self.r.choice(FIELD_NAMES)

    def tree(self, depth):
        T, r = self.T, self.r
        if depth <= 0:
            return self.word() if r.random() < 0.7 else self.phrase()
        kind = r.choice(["word", "phrase", "range", "fuzzy", "prox", "boost", "group", "field", "field",
                         "field", "fieldgroup", "and", "or", "unk", "and", "or", "unk", "bool", "not",
                         "plus", "prohibit"])
        sub = lambda: self.tree(depth - 1)  # noqa
        if kind == "word":
            return self.word()
        if kind == "phrase":
            return self.phrase()
        if kind == "range":
            return self.fin(T.Range(self.bound(), self.bound(), r.random() < 0.5, r.random() < 0.5))
        if kind == "fuzzy":
            return self.fin(T.Fuzzy(self.word(), r.choice(DEGREES)))
        if kind == "prox":
            return self.fin(T.Proximity(self.phrase(), r.choice(PROX)))
        if kind == "boost":
            return self.fin(T.Boost(sub(), r.choice(DEGREES)))
        if kind == "group":
            return self.fin(T.Group(sub()))
        if kind == "field":
            return self.fin(T.SearchField(self.field_name(), sub()))
        if kind == "fieldgroup":
            return self.fin(T.SearchField(self.field_name(), self.fin(T.FieldGroup(sub()))))
        if kind in ("and", "or", "unk", "bool"):
            k = {"and": T.AndOperation, "or": T.OrOperation, "unk": T.UnknownOperation,
                 "bool": T.BoolOperation}[kind]
            return self.fin(k(*[sub() for _ in range(r.randrange(2, 5))]))
        k = {"plus": T.Plus, "not": T.Not, "prohibit": T.Prohibit}[kind]
        return self.fin(k(sub()))


def odd_gen(r, T):
    """every item class in any shape (operations with 0/1 operands, Regex, From/To, NoneItem, modifiers on
    anything), field names from the vocabulary of the configurations"""
    g = gentree.Gen(r, T, layout=0.0, odd=0.3, max_ops=3)
    return g


def rename_fields(r, T, tree):
    """give the SearchFields of a gentree tree names from the configurations' vocabulary"""
    for _, n in gentree.all_nodes(tree):
        if isinstance(n, T.SearchField) and r.random() < 0.8:
            n.name = r.choice(FIELD_NAMES)
        if r.random() < 0.1:
            setattr(n, "_luqum_name", r.choice(NAMES))
    return tree


CORPUS_QUERIES = [
    'a', '"a b"', 'a b', 'a AND b', 'a OR b', 'a AND b OR c', 'a OR b AND c', 'a b AND c', '(a OR b) AND c',
    'NOT a', 'NOT NOT a', '-a +b c', 'a:[-1 TO 5]', 'a:[1 TO *]', 'a:{* TO "x y"]', 'a:y', 'a.b:y', 'a:(b:x)',
    'a:(b:x AND c:"y z"~2)', 'a.b.c:x', 'n:(o:(h:x))', 'n.o.h:x~2', 'a:x^2', '(a b)^3', 'a:* AND b:?x AND c:\\*y',
    'a:(b OR c AND d)', 'x AND (y OR z) AND NOT w', 'a:"p q"~3^2', 'a:foo~', 'n.o:[a TO b] OR s:x',
    'author.book.format.type:pdf AND author.name:x', 'author:(name:x AND book:(title:y))', 'author.book:x',
    # wildcards and modifiers on fields that carry options
    'title:*bar', 'fo*', 'title:b?r AND text:x*', 'a:x', 'a:"p q"', 'c:x~1', 'c:"p q"~3', 'title:sp*m~1', 'a:x^2',
    # negations of groups: the complement of an implicit / explicit operation, under every default operator
    'NOT (a b)', '-(a b) c', 'NOT (a OR b)', 'NOT (a AND b)', 'c NOT (a b)', 'f:(NOT (a b))', '-(a b c)',
    'NOT (a b) AND NOT (c OR d)', 'a:(NOT b:x)', 'a:(-b:x)', 'a:(NOT (b:x c:y))', 'author:(NOT name:x)',
    'author:(book:(NOT title:y))', 'NOT author.name:x', 'author:(name:x AND NOT name:y)',
    # OR and AND on the same level below a negation / a group / a field (the mix is refused wherever it stands)
    'NOT (a OR b AND c)', '-(a b AND c)', '-(a OR b c)', 'x AND NOT (a OR b AND c)', 'x OR -(a b AND c)',
    'f:(a OR b AND c)', '(a OR b AND c)^2', 'NOT (a OR (b AND c))', '-(a (b AND c))',
    # a prefix operator directly after `field:` (the value is NOT a negative number: the negation stays)
    'price:-5', 'a:-5', 'a.b:-3', 'a:(b:-3 AND c:x)', 'a:-x', 'a:-1.5', 'a:+5', 'a:NOT 5', 'author:(name:-3)',
    'author.book.title:-7 x', '-a:5', 'a:(-5)',
    # an inner field whose dotted name repeats the enclosing names: still relative to the enclosing field
    'a:(a.b:x)', 'a:(a:x)', 'a:(b:(a.c:x))', 'a:(b:(a.b.c:x))', 'author:(author.name:x)', 'author:(book:(author.book.title:y))',
    'a.b:(a.b.c:x)', 'n:(n.o:(h:x))',
]


def corpus_trees(T):
    from luqum.parser import parser
    from luqum.naming import auto_name
    out = []
    for q in CORPUS_QUERIES:
        t = parser.parse(q)
        out.append(t)
        t2 = parser.parse(q)
        auto_name(t2)
        out.append(t2)
    # a NAMED operand of every kind followed (and preceded) by un-named siblings: a name must not leak sideways
    from luqum.naming import set_name as _set_name

    def _named(node, nm="N"):
        _set_name(node, nm)
        return node
    W_ = T.Word
    for mk in (lambda: T.Group(W_("a")), lambda: T.Regex("/a/"), lambda: W_("a"), lambda: T.Phrase('"a b"'),
               lambda: T.Not(W_("a")), lambda: T.Boost(W_("a"), 2), lambda: T.Fuzzy(W_("a"), 1),
               lambda: T.SearchField("f", W_("a")), lambda: T.Range(W_("1"), W_("2")),
               lambda: T.Group(T.OrOperation(W_("a"), W_("b"))), lambda: T.Plus(W_("a"))):
        out.append(T.AndOperation(_named(mk()), W_("y"), W_("z")))
        out.append(T.OrOperation(W_("x"), _named(mk()), W_("z")))
        out.append(T.UnknownOperation(W_("x"), _named(mk(), "M"), T.Group(T.AndOperation(W_("p"), _named(mk(), "K"), W_("q")))))
    out += [
        T.SearchField("", T.Word("x")),
        T.AndOperation(T.OrOperation(T.Word("a")), T.Word("b")),
        T.Group(T.Regex("/a/")),
        T.SearchField("a", T.Regex("/a/")),
        T.Fuzzy(T.Range(T.Word("a"), T.Word("b")), 2),
        T.Proximity(T.Proximity(T.Phrase('"a b"'), 2), 3),
        T.Proximity(T.Word("a"), 2),
        T.Fuzzy(T.Phrase('"a b"'), 2),
        T.Boost(T.AndOperation(T.Word("a"), T.Word("b")), 2),
        T.SearchField("a", T.Boost(T.SearchField("b", T.Word("x")), 2)),
        T.AndOperation(T.AndOperation(T.Word("a"), T.OrOperation(T.Word("b"), T.Word("c"))), T.Word("d")),
        T.Plus(T.Plus(T.Word("a"))),
        T.BoolOperation(T.Word("a"), T.AndOperation(T.Word("x"), T.Word("y")), T.Not(T.Word("z"))),
        T.BoolOperation(T.BoolOperation(T.Plus(T.Word("a")), T.Word("b")), T.Prohibit(T.Word("c"))),
        T.NoneItem(), T.Regex("/x/"), T.From(T.Word("a")), T.To(T.Phrase('"a"'), False),
        T.Range(T.Word("*"), T.Word(""), True, False),
        T.UnknownOperation(T.Word("a"), T.Range(T.Prohibit(T.Word("1")), T.Word("5")),
                           T.OrOperation(T.Word("b"), T.Word("c"))),
    ]
    return out


# ------------------------------------------------------------------ serialisers

def g_spec(s):
    if s is None:
        return "SNone"
    if isinstance(s, dict):
        return "(SDict %s)" % lib.g_list(["(%s, %s)" % (lib.g_str(k), g_spec(v)) for k, v in s.items()])
    if isinstance(s, (list, tuple)):
        return "(SList %s)" % lib.g_list([lib.g_str(k) for k in s])
    raise lib.Unmodelled("field specification of type %s" % type(s).__name__)


def decimals_of(T, tree):
    """the numbers of the tree that the builder hands to float()"""
    out = []
    for _, n in gentree.all_nodes(tree):
        if isinstance(n, T.BaseApprox):
            out.append(n.degree)
        elif isinstance(n, T.Boost):
            out.append(n.force)
    return out


def g_json(v, cands=()):
    if v is None:
        return "JNull"
    if isinstance(v, bool):
        return "(JBool %s)" % lib.g_bool(v)
    if isinstance(v, int):
        return "(JNum %s)" % lib.g_dec(v)
    if isinstance(v, float):
        for c in cands:
            try:
                if float(c) == v:
                    return "(JNum %s)" % lib.g_dec(c)
            except (TypeError, ValueError):
                pass
        return "(JNum %s)" % lib.g_dec(Decimal(repr(v)))
    if isinstance(v, Decimal):
        return "(JNum %s)" % lib.g_dec(v)
    if isinstance(v, str):
        return "(JStr %s)" % lib.g_str(v)
    if isinstance(v, (list, tuple)):
        return "(JList %s)" % lib.g_list([g_json(x, cands) for x in v])
    if isinstance(v, dict):
        items = []
        for k, x in v.items():
            if not isinstance(k, str):
                raise lib.Unmodelled("dict key of type %s" % type(k).__name__)
            items.append("(%s, %s)" % (lib.g_str(k), g_json(x, cands)))
        return "(JObj %s)" % lib.g_list(items)
    raise lib.Unmodelled("JSON value of type %s" % type(v).__name__)


def g_config(cfg):
    from luqum.elasticsearch import ElasticsearchQueryBuilder as B
    # default_operator is compared with == against the class constants MUST / SHOULD (default: SHOULD)
    op = cfg.get("default_operator", B.SHOULD)
    gop = "DShould" if op == B.SHOULD else ("DMust" if op == B.MUST else "DOtherOp")
    fo = cfg.get("field_options") or {}
    gfo = lib.g_list(["(%s, %s)" % (lib.g_str(f), lib.g_list(
        ["(%s, %s)" % (lib.g_str(k), g_json(v)) for k, v in o.items()])) for f, o in fo.items()])
    return "(mkEsConfig %s %s %s %s %s %s %s %s)" % (
        gop, lib.g_str(cfg.get("default_field", "text")),
        lib.g_list([lib.g_str(f) for f in (cfg.get("not_analyzed_fields") or [])]),
        g_spec(cfg.get("nested_fields")), g_spec(cfg.get("object_fields")), g_spec(cfg.get("sub_fields")),
        gfo, lib.g_bool(bool(cfg.get("match_word_as_phrase", False))))


EXC = {"NestedSearchFieldException": "XNested", "ObjectSearchFieldException": "XObject",
       "OrAndAndOnSameLevel": "XMix", "AttributeError": "(XOther KAttributeError)",
       "ValueError": "(XOther KValueError)", "IndexError": "(XOther KIndexError)",
       "TypeError": "(XOther KTypeError)"}


def run(b, tree):
    """outcome of one call of a builder: ("ok", json) or ("exc", class name)"""
    try:
        return ("ok", b(tree))
    except Exception as e:  # noqa
        return ("exc", type(e).__name__)


def g_outcome(T, outcome, tree):
    kind, v = outcome
    if kind == "ok":
        return "(ROk %s)" % g_json(v, decimals_of(T, tree))
    if v not in EXC:
        raise lib.Unmodelled("exception class %s" % v)
    return "(RExc %s)" % EXC[v]


def is_plain_json(v):
    """plain JSON data: dict with str keys / list / str / int / float / bool / None, nothing shared mutable
    with a class or another result is visible here; json.dumps round trip"""
    import json
    try:
        return json.loads(json.dumps(v)) == v
    except (TypeError, ValueError):
        return False


# ------------------------------------------------------------------ structural predicates (no builder)

def supported(T, t, strict=False):
    """the constructs the properties list, operations with >= 2 operands, range bounds as the grammar makes
    them.  strict: fuzzy on a word, proximity on a phrase (grammar shapes) instead of on any supported tree"""
    k = type(t)
    if k in (T.Word, T.Phrase):
        return True
    if k in (T.SearchField, T.Group, T.FieldGroup, T.Boost, T.Plus, T.Not, T.Prohibit):
        return supported(T, t.children[0], strict)
    if k is T.Fuzzy:
        return type(t.term) is T.Word if strict else supported(T, t.term)
    if k is T.Proximity:
        return type(t.term) is T.Phrase if strict else supported(T, t.term)
    if k is T.Range:
        def bound(b):
            return type(b) in (T.Word, T.Phrase) or (type(b) is T.Prohibit and type(b.a) in (T.Word, T.Phrase))
        return bound(t.low) and bound(t.high)
    if k in (T.AndOperation, T.OrOperation, T.UnknownOperation, T.BoolOperation):
        return len(t.children) >= 2 and all(supported(T, c, strict) for c in t.children)
    return False


def range_bounds_plain(T, t):
    """no Range has a bound that is not a Word / Phrase (finding F7 is its negation on supported trees)"""
    for _, n in gentree.all_nodes(t):
        if isinstance(n, T.Range) and not (type(n.low) in (T.Word, T.Phrase) and
                                           type(n.high) in (T.Word, T.Phrase)):
            return False
    return True


def _flatten(spec):
    if not spec:
        return [[]]
    if isinstance(spec, dict):
        return [[k] + v for k, s in spec.items() for v in _flatten(s)]
    return [[k] for k in spec]


def declared_paths(spec, nested):
    """the declared dotted paths of a specification (None = nothing declared), written from the
    documentation of the specs, not by calling luqum.utils"""
    if nested:
        if spec is None:
            spec = {}
        if not isinstance(spec, dict):
            spec = {k: {} for k in spec}
        return set(".".join(p) for p in _flatten(spec))
    if spec is None:
        return None
    if isinstance(spec, dict):
        return set(".".join(p) for p in _flatten(spec))
    return set(spec)


def head(p):
    return p.rsplit(".", 1)[0]


def containers(paths, ideal):
    """code: the parents of the declared paths (a dot-less path is its own parent).
    ideal: every ancestor of a declared path"""
    out = set()
    for p in paths or ():
        q = head(p)
        out.add(q)
        while ideal and head(q) != q:
            q = head(q)
            out.add(q)
    return out


def containers_closed(cfg):
    """every ancestor of a declared path is the parent of a declared path (negation = finding F8)"""
    n = declared_paths(cfg.get("nested_fields"), True)
    o = declared_paths(cfg.get("object_fields"), False)
    return (containers(n, True) == containers(n, False)) and (containers(o, True) == containers(o, False))


def term_paths(T, t, prefix=()):
    """(field path components, term) for every Word / Phrase / Regex of the tree"""
    if isinstance(t, T.Term):
        yield prefix, t
        return
    if isinstance(t, T.SearchField):
        prefix = prefix + tuple(t.name.split("."))
    for c in t.children:
        yield from term_paths(T, c, prefix)


def container_misuse(T, cfg, t, ideal):
    n = declared_paths(cfg.get("nested_fields"), True)
    o = declared_paths(cfg.get("object_fields"), False)
    s = declared_paths(cfg.get("sub_fields"), False)
    cont = containers(n, ideal) | containers(o, ideal)
    for prefix, _ in term_paths(T, t):
        if not prefix:
            continue
        full = ".".join(prefix)
        if full in cont:
            return True
        if len(prefix) > 1 and s is not None and o is not None and full not in s and full not in o \
                and full not in n:
            return True
    return False


def mix(T, cfg, t):
    op = cfg.get("default_operator", "should")

    def pol(n):
        if type(n) is T.AndOperation or (type(n) is T.UnknownOperation and op == "must"):
            return "and"
        if type(n) is T.OrOperation or (type(n) is T.UnknownOperation and op == "should"):
            return "or"
        return None
    for _, n in gentree.all_nodes(t):
        p = pol(n)
        if p:
            for c in n.children:
                q = pol(c)
                if q and q != p:
                    return True
    return False


# ------------------------------------------------------------------ model == implementation

CHK_DEFS = """Definition chk (c : es_config * item * eres json) : bool :=
  let '(cfg, t, expected) := c in
  match build cfg t, expected with
  | ROk j, ROk j' => json_ceqb j j' && json_ceqb j' j
  | RExc e, RExc e' => es_exc_eqb e e'
  | _, _ => false
  end."""
IMPORTS = "Base Decimal Tree Json EsSpecs EsCheck EsBuild"


def case_term(T, cfg, tree_term, outcome, tree):
    return "(%s, %s, %s)" % (g_config(cfg), tree_term, g_outcome(T, outcome, tree))


def eval_builder_cases(prop, cases, shard=40):
    return lib.eval_cases(prop, IMPORTS, CHK_DEFS, cases, "chk", shard=shard)


def builder_sessions(r, T, n_sessions, odd_share=0.45):
    """[(cfg, [tree, ...], kind)]: one configuration with a sequence of 1..8 trees to be translated by ONE
    builder instance (and by fresh ones)"""
    sup = EsGen(r, T)
    sup_odd = EsGen(r, T, odd_values=0.3)
    og = odd_gen(r, T)
    sessions = []
    corpus = corpus_trees(T)
    for i, cfg in enumerate(FIXED_CONFIGS):
        sessions.append((cfg, corpus[i::len(FIXED_CONFIGS)] + corpus[:3], "corpus"))
    # the operator-sensitive part of the corpus under BOTH default operators, with and without nested fields
    from luqum.parser import parser as _parser
    sensitive = [q for q in CORPUS_QUERIES if "NOT" in q or "-" in q or " " in q]
    nested_cfg = {"nested_fields": {"author": {"name": None, "book": {"format": ["type"], "title": None}},
                                    "a": ["b", "c"]}}
    for base in ({}, nested_cfg):
        for op in ("should", "must"):
            cfg = dict(base, default_operator=op)
            sessions.append((cfg, [_parser.parse(q) for q in sensitive], "corpus-operators"))
    # the queries with wildcards and modifiers under the configuration whose field options overlap the generated keys
    opt_q = ['title:*bar', 'fo*', 'title:b?r AND text:x*', 'a:x', 'a:"p q"', 'c:x~1', 'c:"p q"~3', 'title:sp*m~1', 'a:x^2',
             'title:* OR text:?', 'a:(x y)', 'c:[1 TO 2]']
    for op in ("should", "must"):
        sessions.append((dict(FIXED_CONFIGS[1], default_operator=op, not_analyzed_fields=["c"] if op == "must" else []),
                         [_parser.parse(q) for q in opt_q], "corpus-options"))
    for _ in range(n_sessions):
        cfg = gen_config(r)
        trees = []
        for _ in range(r.randrange(1, 9)):
            x = r.random()
            if x < odd_share * 0.6:
                trees.append(rename_fields(r, T, og.tree(r.randrange(0, 4))))
            elif x < odd_share:
                trees.append(sup_odd.tree(r.randrange(0, 5)))
            else:
                trees.append(sup.tree(r.randrange(0, 5)))
        sessions.append((cfg, trees, "random"))
    return sessions


def run_sessions(prop, res, model_ok, sessions, T, oracle, canary=True, shard=40):
    """the common correspondence of the builder checks.

    For every session (cfg, trees): ONE builder instance translates the trees one after the other, a fresh
    builder translates each tree as well, and at the end the first tree is translated again by the used
    instance.  Every outcome of the used instance is compared with the pure model `build cfg tree`;
    `oracle(cfg, tree, outcome, info)` evaluates the property on the implementation's behaviour and returns a
    list of (payload, finding id or None); info = {"fresh": outcome of the fresh builder, "again": outcome of
    the repeated call or None, "desc": description, "session": index, "call": index}."""
    cases, payloads = [], []
    seen = set()
    dist = {"ok": 0, "exc": {}, "session_kinds": {}, "supported": 0, "unsupported": 0, "calls_per_session": {}}
    skipped = 0
    for si, (cfg, trees, kind) in enumerate(sessions):
        dist["session_kinds"][kind] = dist["session_kinds"].get(kind, 0) + 1
        dist["calls_per_session"][len(trees)] = dist["calls_per_session"].get(len(trees), 0) + 1
        try:
            gcfg = g_config(cfg)
            b = builder(cfg)
        except lib.Unmodelled:
            skipped += 1
            continue
        first = None
        for ci, tree in enumerate(trees):
            if ci == 1 and si % 3 == 0:
                # a translation that cannot complete (a tree deeper than the recursion limit) in the middle of the
                # session: the builder must not keep anything of it (field prefixes, nesting context)
                deep = T.SearchField("a", T.FieldGroup(gentree.deep_tree(T)))
                try:
                    b(deep)
                except RecursionError:
                    dist["aborted_calls"] = dist.get("aborted_calls", 0) + 1
                except Exception:  # noqa
                    pass
                del deep
            desc = gentree.describe(tree)[:1500]
            try:
                before = lib.g_item(tree)
            except lib.Unmodelled:
                skipped += 1
                continue
            outcome = run(b, tree)
            fresh = run(builder(cfg), tree)
            # a builder built with the OTHER default operator / default field / match_word_as_phrase, used once,
            # then re-configured through its public attributes: it must translate like one built with cfg
            if ci < 2:
                from luqum.elasticsearch import ElasticsearchQueryBuilder as _B
                want = {"default_operator": cfg.get("default_operator", _B.SHOULD),
                        "default_field": cfg.get("default_field", "text"),
                        "match_word_as_phrase": cfg.get("match_word_as_phrase", False)}
                other = dict(cfg, default_operator=_B.MUST if want["default_operator"] == _B.SHOULD else _B.SHOULD,
                             default_field=want["default_field"] + "_", match_word_as_phrase=not want["match_word_as_phrase"])
                try:
                    rb = builder(other)
                    run(rb, tree)
                    for k_, v_ in want.items():
                        setattr(rb, k_, v_)
                    again_ = run(rb, tree)
                    if again_ != fresh:
                        res.failures.append(({"config": repr(cfg), "tree": desc,
                                              "why": "a builder re-configured after construction (default_operator, "
                                                     "default_field, match_word_as_phrase set as attributes after one "
                                                     "call) translates differently from one built with these settings",
                                              "reconfigured": repr(again_)[:800], "fresh": repr(fresh)[:800]}, None))
                except lib.Unmodelled:
                    pass
            if lib.g_item(tree) != before:
                res.notes.append("input tree modified by the builder: %s" % desc[:300])
            if first is None:
                first = (tree, outcome)
            info = {"fresh": fresh, "again": None, "desc": desc, "session": si, "call": ci}
            if ci == len(trees) - 1 and first is not None:
                info["again"] = (first[1], run(b, first[0]))
            for payload, fid in oracle(cfg, tree, outcome, info):
                res.failures.append((payload, fid))
            try:
                cases.append("(%s, %s, %s)" % (gcfg, before, g_outcome(T, outcome, tree)))
            except lib.Unmodelled as e:
                res.disagreements.append({"config": repr(cfg), "tree": desc, "unmodelled": str(e)})
                continue
            payloads.append({"config": repr(cfg), "tree": desc, "outcome": repr(outcome)[:600]})
            if outcome[0] == "ok":
                dist["ok"] += 1
            else:
                dist["exc"][outcome[1]] = dist["exc"].get(outcome[1], 0) + 1
            dist["supported" if supported(T, tree) else "unsupported"] += 1
            key = (repr(sorted(cfg.items(), key=repr)), desc)
            if gentree.count_nodes(tree) > 1 and key not in seen:
                seen.add(key)
    res.cases = len(cases)
    res.nontrivial = len(seen)
    res.distribution = dist
    res.samples = [p for p in payloads[5:400:60]]
    if skipped:
        res.notes.append("%d inputs without a counterpart in the model were skipped" % skipped)
    if not model_ok:
        res.model_error = "model did not build"
        return
    ncanary = 0
    if canary and cases:
        # a case whose expected outcome is deliberately wrong must be reported
        cases.append("(default_config, Term KWord meta0 [120]%N, "
                     "ROk (JObj [([116;101;114;109]%N, JObj [])]))")
        ncanary = 1
    try:
        bad = eval_builder_cases(prop, cases, shard=shard)
    except Exception as e:  # noqa
        res.model_error = str(e)[-3000:]
        return
    if ncanary:
        if (len(cases) - 1) not in bad:
            res.model_error = "canary case not reported: the comparison is vacuous"
        bad = [i for i in bad if i != len(cases) - 1]
    for i in bad:
        res.disagreements.append(payloads[i])


# ------------------------------------------------------------------ nested vocabulary (added for C05)
# Configurations with nesting in nesting (author -> book -> format) and the SAME child names under different
# nested parents (author.address / publisher.address, author.book / top-level book), in several spellings, and
# trees / sessions written for them.  Additions only: nothing above depends on this section.

NESTED_VOCAB = {
    "author": {"name": None, "book": {"format": {"type": None}, "title": None},
               "address": {"city": None, "zip": None}},
    "publisher": {"name": None, "address": {"city": None, "zip": None}},
    "book": {"title": None},          # a plain (object) field with the name of a nested one
    "title": None,
}

_NV_DICT = {"author": {"name": None, "book": {"format": ["type"], "title": None}, "address": ["city", "zip"]},
            "publisher": {"name": None, "address": ["city", "zip"]}}
_NV_LEAVES = ["author.name", "author.book.format.type", "author.book.title", "author.address.city",
              "author.address.zip", "publisher.name", "publisher.address.city", "publisher.address.zip"]

NESTED_VOCAB_CONFIGS = [
    {"nested_fields": _NV_DICT},
    {"nested_fields": _NV_DICT, "default_operator": "must"},
    {"nested_fields": _NV_LEAVES},                                                 # list of dotted leaf paths
    {"nested_fields": {"author": {"name": {}, "book.title": None, "book.format.type": None,      # dotted keys
                                  "address.city": None, "address.zip": None},
                       "publisher": ["name", "address.city", "address.zip"]}, "default_operator": "must"},
    {"nested_fields": _NV_DICT, "object_fields": ["book.title"], "sub_fields": [],
     "not_analyzed_fields": ["author.address.zip", "publisher.address.zip"]},
]

NESTED_VOCAB_QUERIES = [
    # chains, dotted names, the same relative name under two parents (history matters: one builder, many calls)
    'author:(address:(city:paris))', 'publisher:(address:(city:rome))', 'author:(address:(city:rome))',
    'author.address.city:paris', 'publisher.address.city:rome', 'address.city:x',
    'book:(title:spam)', 'author:(book:(title:spam) name:hugo)', 'book.title:spam', 'author.book.title:spam',
    'author:(book:(format:(type:pdf)))', 'author.book.format.type:pdf', 'author:(book.format.type:pdf)',
    'author:(book:(format.type:pdf))', 'author.book:(format:(type:pdf) AND title:x)',
    # field groups whose operands are ALL deeper-nested fields
    'author:(book:(title:spam) AND book:(title:eggs))', 'author:(NOT book:(title:spam))',
    'author:(-book.title:spam)', 'author:(book.title:spam book.format.type:pdf)',
    'author:(book:(title:spam) OR address:(city:paris))', 'author:(address.city:paris AND book.title:spam)',
    'author:(book:(format:(type:pdf) AND format:(type:epub)))', 'author:(book:(NOT format:(type:pdf)))',
    'author:(+book.title:spam -address.city:paris)', 'author:((book.title:spam AND address.city:paris))',
    'author:(NOT (book.title:spam OR address.zip:75))', 'author.book:(format.type:pdf AND format.type:epub)',
    # nested and plain operands mixed; the same relative name under different parents in ONE tree
    'author:(name:hugo AND book:(title:spam))', 'author:(address:(city:paris AND zip:75))',
    'author:(address:(city:paris)) AND publisher:(address:(city:paris))',
    'author:(address.city:paris) OR publisher:(address.city:paris) OR title:x',
    'book:(title:spam) AND author:(book:(title:spam))', 'author:(book:(title:spam)) book:(title:eggs)',
    'title:x AND NOT author:(book:(title:spam) AND address:(city:paris))',
    'publisher:(name:x AND address:(city:rome)) AND author:(name:x AND address:(city:rome))',
]

NV_WORDS = ["x", "y", "paris", "rome", "spam", "w*", "75"]


class NestedVocabGen:
    """supported trees over NESTED_VOCAB: every term sits on a leaf field; chains of SearchFields, dotted names,
    field groups over and / or / implicit / boolean operations, not / + / -, the operands being fields of the
    current level (plain ones and deeper-nested ones, or deeper-nested ones ONLY)"""

    def __init__(self, r, T, names=0.05):
        self.r, self.T, self.names = r, T, names

    def fin(self, node):
        if self.r.random() < self.names:
            setattr(node, "_luqum_name", self.r.choice(NAMES))
        return node

    def term(self):
        T, r = self.T, self.r
        x = r.random()
        if x < 0.75:
            return self.fin(T.Word(r.choice(NV_WORDS)))
        if x < 0.85:
            return self.fin(T.Phrase(r.choice(['"a b"', '"x"'])))
        if x < 0.93:
            return self.fin(T.Fuzzy(T.Word(r.choice(NV_WORDS[:5])), r.choice([1, 2])))
        return self.fin(T.Range(T.Word("1"), T.Word(r.choice(["5", "*"])), r.random() < 0.5, True))

    def paths(self, voc, maxlen=3):
        """(relative name components, sub-vocabulary or None) reachable from voc in 1..maxlen steps"""
        out = []

        def go(v, acc):
            for k, sub in v.items():
                out.append((acc + [k], sub))
                if sub and len(acc) + 1 < maxlen:
                    go(sub, acc + [k])
        go(voc, [])
        return out

    def field(self, voc, depth, only_containers=False):
        """a SearchField on a (possibly dotted) name below voc, with a sub-query for the place it leads to"""
        T, r = self.T, self.r
        cands = self.paths(voc)
        if only_containers:
            cands = [c for c in cands if c[1]] or cands
        comps, sub = r.choice(cands)
        if sub is None:
            e = self.term()
        else:
            e = self.expr(sub, depth - 1)
            if not isinstance(e, T.SearchField) or r.random() < 0.7:
                e = self.fin(T.FieldGroup(e))
        return self.fin(T.SearchField(".".join(comps), e))

    def expr(self, voc, depth, root=False):
        T, r = self.T, self.r
        has_containers = any(v for v in voc.values())
        if depth <= 0:
            return self.field(voc, 0)
        kind = r.choice(["field", "field", "op", "op", "op_nested", "not", "prohibit", "plus", "group", "boost"])
        if kind == "field":
            return self.field(voc, depth)
        if kind in ("op", "op_nested"):
            k = r.choice([T.AndOperation, T.OrOperation, T.UnknownOperation, T.AndOperation, T.UnknownOperation,
                          T.BoolOperation])
            nested_only = kind == "op_nested" and has_containers
            ops = []
            for _ in range(r.randrange(2, 4)):
                x = r.random()
                if nested_only or x < 0.6:
                    o = self.field(voc, depth - 1, only_containers=nested_only)
                elif x < 0.8:
                    o = self.fin(T.Group(self.expr(voc, depth - 1)))
                elif x < 0.9:
                    o = self.fin(r.choice([T.Not, T.Prohibit, T.Plus])(self.field(voc, depth - 1, nested_only)))
                else:
                    o = self.field(voc, 0)
                if k is T.BoolOperation and r.random() < 0.5:
                    o = self.fin(r.choice([T.Plus, T.Prohibit])(o))
                ops.append(o)
            return self.fin(k(*ops))
        if kind in ("not", "prohibit", "plus"):
            k = {"not": T.Not, "prohibit": T.Prohibit, "plus": T.Plus}[kind]
            return self.fin(k(self.field(voc, depth - 1, only_containers=has_containers and r.random() < 0.6)))
        if kind == "group":
            return self.fin(T.Group(self.expr(voc, depth - 1)))
        return self.fin(T.Boost(self.fin(T.Group(self.expr(voc, depth - 1))), r.choice([2, "0.5"])))

    def tree(self, depth):
        return self.expr(NESTED_VOCAB, depth, root=True)


def nested_vocab_sessions(r, T, n_sessions):
    """[(cfg, [tree, ...], kind)]: ONE builder instance translates each list in a row (run_sessions also asks a
    fresh builder for every tree).  First the parsed corpus under every configuration, in the written order and
    in a shuffled one (what an earlier call did to the instance must not matter), then random sessions"""
    from luqum.parser import parser
    g = NestedVocabGen(r, T)
    sessions = []
    for cfg in NESTED_VOCAB_CONFIGS:
        trees = [parser.parse(q) for q in NESTED_VOCAB_QUERIES]
        sessions.append((cfg, trees, "nested-corpus"))
        again = [parser.parse(q) for q in NESTED_VOCAB_QUERIES]
        r.shuffle(again)
        sessions.append((cfg, again, "nested-corpus-shuffled"))
    for _ in range(n_sessions):
        cfg = r.choice(NESTED_VOCAB_CONFIGS)
        trees = [g.tree(r.randrange(1, 4)) for _ in range(r.randrange(2, 9))]
        sessions.append((cfg, trees, "nested-random"))
    return sessions


# ------------------------------------------------------------------ escaped texts and homonymous fields (C06)
# Additions only.  (a) phrases and words whose text starts / ends with escaped quotes, backslashes and other
# escaped specials; (b) the SAME relative field name at top level and under an object / nested parent with
# DIFFERENT analysed-ness and field_options, in the group spelling parent:(name:x) and the dotted spelling, and
# sessions that reuse one builder across such trees in both orders.

ESCAPED_PHRASES = ['"he said \\"hi\\""', '"\\"hi\\" he said"', '"say \\"hi\\" to him"', '"5\\""', '"\\""',
                   '"\\"\\""', '"a\\\\"', '"\\\\"', '"\\\\a"', '"a\\:b"', '"\\(x\\)"', '"a\\ "', '"\\ a"',
                   '"\\"a b\\"~2"', '"x\\" "', '" \\"x"', '"\\+a -b\\!"']
ESCAPED_WORDS = ['a\\"', '\\"a', '\\"a\\"', 'a\\\\', '\\\\a', '\\+a', 'a\\:', 'a\\:b', '\\(a\\)', 'a\\ b', '\\-a',
                 'a\\~', 'a\\^2', '\\!', '\\"', 'a\\"b', '\\[1', '5\\"']

HOMONYM_VOCAB = {"name": None, "tag": None, "bio": None,
                 "author": {"name": None, "bio": None, "tag": None}, "editor": {"name": None, "tag": None}}
_HV_OBJECTS = ["author.name", "author.bio", "author.tag", "editor.name", "editor.tag"]

HOMONYM_CONFIGS = [
    # the sub field is a keyword, the top level field of the same name is a text — and the reverse
    {"not_analyzed_fields": ["author.name", "tag"], "object_fields": _HV_OBJECTS},
    {"not_analyzed_fields": ["name", "author.tag", "editor.name"], "object_fields": _HV_OBJECTS},
    {"not_analyzed_fields": ["name", "author.tag"],
     "nested_fields": {"author": ["name", "bio", "tag"], "editor": ["name", "tag"]}},
    {"not_analyzed_fields": ["author.name", "editor.tag", "bio"], "default_operator": "must",
     "nested_fields": {"author": {"name": None, "bio": None, "tag": None}}, "object_fields": ["editor.name", "editor.tag"],
     "field_options": {"name": {"match_type": "match_phrase"}, "author.name": {"boost": 2},
                       "author.bio": {"type": "phrase_prefix"}, "editor.name": {"match_type": "match", "x": 1}}},
    {"not_analyzed_fields": ["name", "tag", "editor.name"],
     "field_options": {"author.name": {"match_type": "multi_match", "x": 1}, "name": {"x": 2},
                       "author.tag": {"type": "match_phrase"}, "editor.tag": {"slop": 1}}},
    {"not_analyzed_fields": ["author.bio"], "match_word_as_phrase": True, "default_field": "name",
     "object_fields": _HV_OBJECTS},
]

HOMONYM_QUERIES = [
    'name:bob', 'author:(name:bob)', 'author.name:bob', 'author:(name:"bob k")', 'author:(name:"bob k"~2)',
    'name:"bob k"~2', 'editor:(name:bob)', 'editor.name:"bob k"~1', 'tag:x', 'author:(tag:x)', 'editor:(tag:x~1)',
    'bio:tall', 'author:(bio:tall)', 'author:name:bob', 'author:(name:bob AND bio:tall)',
    'name:bob AND author:(name:bob AND bio:tall) AND tag:x', 'author:(name:bob) OR name:bob OR editor:(name:bob)',
    'author:(tag:[1 TO 5]) tag:[1 TO 5]', 'author:(name:bo?) name:bo?', 'author:(name:"5\\"") AND name:"5\\""',
    'NOT author:(name:bob) AND name:bob', 'author:(name:(bob OR "bob k"~2))', 'name:bob^2 author:(name:bob^2)',
]


class HomonymGen:
    """supported trees over HOMONYM_VOCAB: terms (plain and escaped words, phrases, fuzzy, proximity, ranges) on
    leaf fields reached by the group spelling parent:(name:x), the bare chain parent:name:x or the dotted spelling,
    several of them per tree"""

    def __init__(self, r, T, names=0.05):
        self.r, self.T, self.names = r, T, names

    def fin(self, node):
        if self.r.random() < self.names:
            setattr(node, "_luqum_name", self.r.choice(NAMES))
        return node

    def term(self):
        T, r = self.T, self.r
        x = r.random()
        if x < 0.3:
            return self.fin(T.Word(r.choice(["bob", "x", "tall", "bo?", "*", "1"])))
        if x < 0.45:
            return self.fin(T.Word(r.choice(ESCAPED_WORDS)))
        if x < 0.6:
            return self.fin(T.Phrase(r.choice(['"bob k"', '"a"', '""'] + ESCAPED_PHRASES)))
        if x < 0.78:
            return self.fin(T.Proximity(self.fin(T.Phrase(r.choice(['"bob k"', '"x y z"'] + ESCAPED_PHRASES))),
                                        r.choice([1, 2, None])))
        if x < 0.9:
            return self.fin(T.Fuzzy(self.fin(T.Word(r.choice(["bob", "tall"] + ESCAPED_WORDS[:6]))),
                                    r.choice([1, 2, None])))
        return self.fin(T.Range(T.Word("1"), T.Word(r.choice(["5", "*"])), r.random() < 0.5, True))

    def field(self):
        T, r = self.T, self.r
        parent = r.choice([None, None, "author", "author", "editor"])
        if parent is None:
            return self.fin(T.SearchField(r.choice(["name", "tag", "bio"]), self.term()))
        leaf = r.choice(sorted(HOMONYM_VOCAB[parent]))
        x = r.random()
        if x < 0.3:
            return self.fin(T.SearchField(parent + "." + leaf, self.term()))
        inner = self.fin(T.SearchField(leaf, self.term()))
        if x < 0.45:
            return self.fin(T.SearchField(parent, inner))
        if x < 0.7:
            return self.fin(T.SearchField(parent, self.fin(T.FieldGroup(inner))))
        other = self.fin(T.SearchField(r.choice(sorted(HOMONYM_VOCAB[parent])), self.term()))
        k = r.choice([T.AndOperation, T.OrOperation, T.UnknownOperation])
        return self.fin(T.SearchField(parent, self.fin(T.FieldGroup(self.fin(k(inner, other))))))

    def tree(self, depth):
        T, r = self.T, self.r
        if depth <= 0 or r.random() < 0.3:
            return self.field()
        kind = r.choice(["op", "op", "op", "not", "group", "boost"])
        if kind == "op":
            k = r.choice([T.AndOperation, T.OrOperation, T.UnknownOperation, T.BoolOperation])
            ops = []
            for _ in range(r.randrange(2, 4)):
                o = self.tree(depth - 1)
                if isinstance(o, T.BaseOperation):
                    o = self.fin(T.Group(o))
                ops.append(o)
            return self.fin(k(*ops))
        if kind == "not":
            return self.fin(r.choice([T.Not, T.Prohibit, T.Plus])(self.field()))
        if kind == "group":
            return self.fin(T.Group(self.tree(depth - 1)))
        return self.fin(T.Boost(self.field(), r.choice([2, "0.5", None])))


def homonym_sessions(r, T, n_sessions):
    """[(cfg, [tree, ...], kind)]: one builder instance per list.  The parsed corpus under every configuration in
    the written order, reversed and shuffled (which homonymous field the instance meets first must not matter),
    then random sessions"""
    from luqum.parser import parser
    g = HomonymGen(r, T)
    sessions = []
    for cfg in HOMONYM_CONFIGS:
        sessions.append((cfg, [parser.parse(q) for q in HOMONYM_QUERIES], "homonym-corpus"))
        sessions.append((cfg, [parser.parse(q) for q in reversed(HOMONYM_QUERIES)], "homonym-corpus-reversed"))
        again = [parser.parse(q) for q in HOMONYM_QUERIES]
        r.shuffle(again)
        sessions.append((cfg, again, "homonym-corpus-shuffled"))
    for _ in range(n_sessions):
        cfg = r.choice(HOMONYM_CONFIGS)
        sessions.append((cfg, [g.tree(r.randrange(0, 3)) for _ in range(r.randrange(2, 9))], "homonym-random"))
    return sessions


def escaped_sessions(r, T, n_sessions):
    """[(cfg, [tree, ...], kind)]: every escaped phrase / word as a leaf value on the default field, on an analysed
    field, on a not analysed field, with and without ~ and ^, under fixed and random configurations"""
    cfgs = [{}, {"not_analyzed_fields": ["ref", "text"]}, {"not_analyzed_fields": ["ref"], "default_operator": "must",
            "field_options": {"title": {"match_type": "match", "boost": 2}, "body": {"type": "phrase_prefix"}}},
            {"match_word_as_phrase": True, "not_analyzed_fields": ["ref"]}]
    sessions = []

    def wrap(leaf, i):
        if i % 5 == 0:
            return leaf
        f = ["body", "ref", "title", "a.b"][i % 4]
        return T.SearchField(f, leaf)
    for ci, cfg in enumerate(cfgs):
        trees = []
        for i, p in enumerate(ESCAPED_PHRASES):
            trees.append(wrap(T.Phrase(p), i + ci))
            trees.append(wrap(T.Boost(T.Proximity(T.Phrase(p), 2), 3), i + ci + 1))
            trees.append(T.AndOperation(T.Phrase(p), T.SearchField("ref", T.Phrase(p))))
        for i, w in enumerate(ESCAPED_WORDS):
            trees.append(wrap(T.Word(w), i + ci))
            trees.append(wrap(T.Fuzzy(T.Word(w), 1), i + ci + 2))
        for k in range(0, len(trees), 8):
            sessions.append((cfg, trees[k:k + 8], "escaped-corpus"))
    g = EsGen(r, T)
    for _ in range(n_sessions):
        cfg = gen_config(r)
        trees = []
        for _ in range(r.randrange(2, 8)):
            t = g.tree(r.randrange(0, 4))
            for _, n in gentree.all_nodes(t):     # replace leaf values by escaped ones
                if type(n) is T.Word and r.random() < 0.5:
                    n.value = r.choice(ESCAPED_WORDS)
                elif type(n) is T.Phrase and r.random() < 0.7:
                    n.value = r.choice(ESCAPED_PHRASES)
            trees.append(t)
        sessions.append((cfg, trees, "escaped-random"))
    return sessions
