(* C05 — Elasticsearch translation is reject-or-equivalent in boolean and nested meaning. *)
Require Import Base Decimal Tree GenTree GenVisitors Visitor Json EsSpecs EsCheck EsBuild EsSpec EsSem
               TreeInd EsProofs EsSemProofs.

Definition C05_statement : Prop :=
  forall cfg t, supported t = true -> wf_config cfg = true -> sem_config cfg = true ->
    match build cfg t with
    | RExc e => documented_inconsistency e
    | ROk j => forall d, es_matches cfg j d = den cfg t d
    end.

Definition w (s : str) : item := Term KWord meta0 s.
Definition clause_match (f v : str) : json := JObj [(k_match, JObj [(f, JObj [(k_query, JStr v)])])].
Definition s_text : str := [116;101;120;116]%N.

(* F6: BoolOperation(a, AndOperation(x, y)); the document where only a holds *)
Definition t_F6 : item := Op KBool meta0 [w [97]%N; Op KAnd meta0 [w [120]%N; w [121]%N]].
Definition d_F6 : doc := doc_of (FDoc [clause_match s_text [97]%N] []).

Theorem C05_refuted : ~ C05_statement.
Proof.
  intros H. specialize (H default_config t_F6 eq_refl eq_refl eq_refl).
  destruct (build default_config t_F6) as [j|e] eqn:Hb; [|vm_compute in Hb; discriminate].
  specialize (H d_F6). vm_compute in Hb. inversion Hb; subst j. vm_compute in H. discriminate.
Qed.

Print Assumptions C05_refuted.
