(* C04 — parsing is total and pure: a tree or a ParseError, independent of history.
   This file holds only statements, short theorems, non-vacuity examples and Print Assumptions.
   Model: Lexer.v, LR.v, Actions.v, Parser.v on the GENERATED PLY tables (gen/GenParser.v), and
   Histories.v (state that survives between calls; the two entry points).  Lemmas:
   proofs/LRTermination.v, proofs/LRTyping.v, proofs/HistoriesProofs.v.

   Clauses of the property text:
     "parsing either returns a complete tree or raises an exception"      (A) C04_terminates, C04_total
     "… that is a luqum ParseError; no other exception type escapes
      and nothing partial or None is returned"                            (B) C04_only_parse_errors,
                                                                              C04_outcome, C04_returns_real_tree
     "the outcome for a given string is the same whatever was parsed
      before, failed parses included, and whichever entry point"          (C) C04_history_independent,
                                                                              C04_every_result_pure,
                                                                              C04_no_old_tree_mutated
   (that the returned tree stands for the WHOLE input is C01; acceptance only on $end: accept_only_at_end) *)
Require Import Base Decimal Tree GenTree GenParser Lexer Print Actions LR Parser Histories.
Require Import LexerProofs LRTermination LRTyping HistoriesProofs.

(* ---- tie obligations on generated data *)
Definition C04_ties_statement : Prop :=
  gen_tracker_scope = TrackerOnTokenLexerResetAtPos0 /\   (* tracker on token.lexer, re-created iff lexpos == 0 *)
  gen_thread_lexer_scope = LexerCloneInThreadLocal /\      (* thread.parse: lexer.clone() kept in threading.local *)
  gen_parse_entry_ok = true /\                             (* parser.parse is luqum.parser.parse, passing luqum's lexer *)
  gen_defaulted_states = [].                               (* the driver always fetches the lookahead first *)
Theorem C04_ties : C04_ties_statement.
Proof. exact (conj eq_refl (conj eq_refl (conj eq_refl eq_refl))). Qed.

(* the computed table facts the proofs rest on (re-evaluated whenever GenParser.v changes) *)
Definition C04_table_facts_statement : Prop :=
  no_empty_rhs = true /\ unit_chains_bounded = true /\
  forallb (fun s => forallb (cell_ok s) all_toks) all_states = true /\
  initial_state_has_no_entry = true /\ entry_symbols_consistent = true /\
  Forall prod_action_ok gen_prods.
Theorem C04_table_facts : C04_table_facts_statement.
Proof.
  exact (conj no_empty_rhs_ok (conj unit_chains_bounded_ok (conj cells_valid_ok
           (conj initial_state_has_no_entry_ok (conj entry_symbols_consistent_ok all_actions_ok))))).
Qed.

(* ---- (A) totality: the driver stops within the fuel Parser.parse gives it, for every input *)
Definition C04_terminates_statement : Prop := forall s, parse_full s <> OutOfFuel.
Definition C04_total_statement : Prop := forall s, exists r, parse s = Some r.

Theorem C04_terminates : C04_terminates_statement.
Proof. exact parse_full_terminates. Qed.
Theorem C04_total : C04_total_statement.
Proof. exact parse_total. Qed.

(* ---- (B) no foreign exception, nothing partial *)
Definition C04_only_parse_errors_statement : Prop :=
  forall s r, parse s = Some r -> match r with Err (EOther _) => False | _ => True end.

(* with (A): every input gives a tree, a ParseSyntaxError or an IllegalCharacterError *)
Definition C04_outcome_statement : Prop :=
  forall s, (exists t, parse s = Some (Ok t)) \/
            (exists msg, parse s = Some (Err (ESyntax msg))) \/
            (exists msg, parse s = Some (Err (EIllegal msg))).

(* a returned tree is a real item: never the NoneItem placeholder, never an operation without operand *)
Definition C04_returns_real_tree_statement : Prop :=
  forall s t, parse s = Some (Ok t) ->
    match t with NoneItem _ => False | Op _ _ [] => False | _ => True end.

Theorem C04_only_parse_errors : C04_only_parse_errors_statement.
Proof. exact parse_only_parse_errors. Qed.

Theorem C04_outcome : C04_outcome_statement.
Proof.
  intros s. destruct (parse_total s) as [r Hr]. pose proof (parse_only_parse_errors s r Hr) as H.
  destruct r as [t|[m|m|n]]; [left|right; left|right; right|destruct H]; eauto.
Qed.

Theorem C04_returns_real_tree : C04_returns_real_tree_statement.
Proof.
  intros s t H. apply parse_result_ok in H. simpl in H.
  destruct t as [| | | | | | |k m [|o ops]| | |]; try exact I; discriminate H.
Qed.

(* ---- (C) purity over histories and entry points *)
Definition C04_history_independent_statement : Prop :=
  forall h e s, last (exec w0 (h ++ [ParseCall e s])) None = parse s.
(* the same, for every call of the history at once *)
Definition C04_every_result_pure_statement : Prop :=
  forall h, exec w0 h = map pure_result h.
(* one call from ANY state of the two lexers and of the tracker heap, reachable or not *)
Definition C04_call_pure_any_state_statement : Prop :=
  forall w e s, fst (parse_call ResetAtPos0 w e s) = parse s.
(* no call writes into a token (hence into a tree) returned by an earlier call *)
Definition C04_no_old_tree_mutated_statement : Prop :=
  forall h, w_stale (world_after ResetAtPos0 w0 h) = false.

Theorem C04_history_independent : C04_history_independent_statement.
Proof. exact history_independent. Qed.
Theorem C04_every_result_pure : C04_every_result_pure_statement.
Proof. intros h. apply exec_pure. Qed.
Theorem C04_call_pure_any_state : C04_call_pure_any_state_statement.
Proof. intros w e s. apply parse_call_pure. Qed.
Theorem C04_no_old_tree_mutated : C04_no_old_tree_mutated_statement.
Proof. intros h. rewrite no_stale_write. reflexivity. Qed.

(* ---- the whole property *)
Definition C04_statement : Prop :=
  C04_ties_statement /\ C04_terminates_statement /\ C04_only_parse_errors_statement /\
  C04_history_independent_statement.
Theorem C04 : C04_statement.
Proof.
  split; [exact C04_ties|]. split; [exact C04_terminates|].
  split; [exact C04_only_parse_errors|exact C04_history_independent].
Qed.

(* ---- what the tracker tie fact protects: with the reset test "lexpos == 0 and the token is not a
   separator" (second rule of Histories.v) the outcome of a parse depends on what was parsed before *)
Definition C04_variant_history_independent_statement : Prop :=
  forall h e s, last (exec_with ResetAtPos0NonSep w0 (h ++ [ParseCall e s])) None
              = last (exec_with ResetAtPos0NonSep w0 [ParseCall e s]) None.

Definition q_a : str := [97]%N.           (* "a" *)
Definition q_sp_a : str := [32;97]%N.     (* " a" *)

(* " a" as the first call of the process: AttributeError; after a parse of "a": a tree *)
Theorem C04_variant_history_independent_refuted : ~ C04_variant_history_independent_statement.
Proof.
  intros H. specialize (H [ParseCall Module q_a] Module q_sp_a). vm_compute in H. discriminate H.
Qed.
Example C04_variant_first_call_fails :
  exec_with ResetAtPos0NonSep w0 [ParseCall Module q_sp_a] = [Some (Err attr_error)].
Proof. vm_compute. reflexivity. Qed.

(* ---- non-vacuity *)
(* an accepted input: "a AND b" *)
Example C04_ex_accepted :
  parse [97;32;65;78;68;32;98]%N =
    Some (Ok (Op KAnd (mkMeta (Some 0%Z) (Some 7%Z) [] [] None)
                 [Term KWord (mkMeta (Some 0%Z) (Some 1%Z) [] [32]%N None) [97]%N;
                  Term KWord (mkMeta (Some 6%Z) (Some 1%Z) [32]%N [] None) [98]%N])).
Proof. vm_compute. reflexivity. Qed.

(* syntax errors with their exact messages: "(a" and ")" *)
Example C04_ex_syntax_error_end :
  parse [40;97]%N = Some (Err (ESyntax
    (* Syntax error in input : unexpected end of expression (maybe due to unmatched parenthesis) at the end! *)
    [83;121;110;116;97;120;32;101;114;114;111;114;32;105;110;32;105;110;112;117;116;32;58;32;117;110;101;120;112;101;99;116;101;100;32;101;110;100;32;111;102;32;101;120;112;114;101;115;115;105;111;110;32;40;109;97;121;98;101;32;100;117;101;32;116;111;32;117;110;109;97;116;99;104;101;100;32;112;97;114;101;110;116;104;101;115;105;115;41;32;97;116;32;116;104;101;32;101;110;100;33]%N)).
Proof. vm_compute. reflexivity. Qed.
Example C04_ex_syntax_error_token :
  parse [41]%N = Some (Err (ESyntax
    (* Syntax error in input : unexpected  ')' at position 0! *)
    [83;121;110;116;97;120;32;101;114;114;111;114;32;105;110;32;105;110;112;117;116;32;58;32;117;110;101;120;112;101;99;116;101;100;32;32;39;41;39;32;97;116;32;112;111;115;105;116;105;111;110;32;48;33]%N)).
Proof. vm_compute. reflexivity. Qed.

(* an illegal character, after a legal token: "a '" *)
Example C04_ex_illegal_character :
  parse [97;32;39]%N = Some (Err (EIllegal
    (* Illegal character ''' at position 2 *)
    [73;108;108;101;103;97;108;32;99;104;97;114;97;99;116;101;114;32;39;39;39;32;97;116;32;112;111;115;105;116;105;111;110;32;50]%N)).
Proof. vm_compute. reflexivity. Qed.

(* a malformed number is a syntax error (F3, fixed in /repo): "a^." *)
Example C04_ex_malformed_number :
  parse [97;94;46]%N = Some (Err (ESyntax
    (* Syntax error in input : invalid number '.' at position 1! *)
    [83;121;110;116;97;120;32;101;114;114;111;114;32;105;110;32;105;110;112;117;116;32;58;32;105;110;118;97;108;105;100;32;110;117;109;98;101;114;32;39;46;39;32;97;116;32;112;111;115;105;116;105;111;110;32;49;33]%N)).
Proof. vm_compute. reflexivity. Qed.

(* the stateful model really runs: a history over both entry points mixing a syntax error, an illegal
   character, a malformed number, a blank input and accepted inputs — each result is `parse` of its
   own string, and the heap holds one tracker per call that had a raw token, separators included (all but the third) *)
Definition ex_history : list op :=
  [ParseCall Module [40;97]%N; ParseCall Thread q_sp_a; ParseCall Module [39]%N;
   ParseCall Thread [97;94;46]%N; ParseCall Module [32]%N; ParseCall Thread [97;32;39]%N;
   ParseCall Module q_sp_a].
Example C04_ex_history :
  exec w0 ex_history = map pure_result ex_history /\
  length (w_heap (world_after ResetAtPos0 w0 ex_history)) = 6 /\
  last (exec w0 ex_history) None =
    Some (Ok (Term KWord (mkMeta (Some 1%Z) (Some 1%Z) [32]%N [] None) [97]%N)).
Proof. vm_compute. repeat split; reflexivity. Qed.

(* unit-reduction chains really occur and are short: TERM in a range bound is reduced three times *)
Example C04_ex_unit_rank : unit_rank K 7 27 T_TO = Some 3.
Proof. vm_compute. reflexivity. Qed.

Print Assumptions C04.
Print Assumptions C04_ties.
Print Assumptions C04_table_facts.
Print Assumptions C04_terminates.
Print Assumptions C04_total.
Print Assumptions C04_only_parse_errors.
Print Assumptions C04_outcome.
Print Assumptions C04_returns_real_tree.
Print Assumptions C04_history_independent.
Print Assumptions C04_every_result_pure.
Print Assumptions C04_call_pure_any_state.
Print Assumptions C04_no_old_tree_mutated.
Print Assumptions C04_variant_history_independent_refuted.
