"""C08 — visitors reach every node once with true context (probe visitors, dispatch cache over
histories of visits, in-place edits between visits, shared sub-objects, tweaked method prefixes);
the default transformer deep-copies.

The structure of a tree is always read here from the attributes that DEFINE a node (`expr`, `a`,
`low`, `high`, `term`, `operands`) — never from `node.children`, `==` or `repr`, which are the things
under test — and every call is judged on the tree AS IT IS at the moment of the call."""
from decimal import Decimal
from fractions import Fraction

import lib
import gentree
from runner import CorrResult  # noqa: F401

CLASS_NAMES = ["Word", "Phrase", "Regex", "SearchField", "Group", "FieldGroup", "Range", "Fuzzy",
               "Proximity", "Boost", "AndOperation", "OrOperation", "UnknownOperation", "BoolOperation",
               "Plus", "Not", "Prohibit", "From", "To", "NoneItem"]
ABSTRACT_NAMES = ["Item", "Term", "BaseGroup", "BaseApprox", "BaseOperation", "Unary", "UnaryOperator",
                  "OpenRange"]
# (visitor_method_prefix, generic_visitor_method_name): the documented tweak, mixed with the default
FLAVOURS = [("visit_", "generic_visit")] * 3 + [("rewrite_", "generic_visit"), ("on_", "fallback"),
                                                ("visit_", "default_rule"), ("on_", "generic_visit")]


def g_cls(name):
    return "CObject" if name == "object" else "C" + name


def g_ocls(name):
    return "(@None cls)" if name is None else "(Some %s)" % g_cls(name)


def g_tlist(items, ty):
    items = list(items)
    return "(@nil %s)" % ty if not items else lib.g_list(items)


def g_opath(p):
    return "(@None path)" if p is None else "(Some %s)" % (lib.g_path(p) if p else "(@nil nat)")


def g_vconf(vc):
    return "(mkV %s %s %s %s)" % (g_tlist([g_cls(k) for k in vc["H"]], "cls"), lib.g_bool(vc["pt"]),
                                  lib.g_bool(vc["lg"]), lib.g_bool(vc["tp"]))


# ------------------------------------------------------------------ the tree as it is (attribute based)

def kids(T, n):
    if isinstance(n, T.BaseOperation):
        return list(n.operands)
    return [getattr(n, a) for a in n._children_attrs]


def true_nodes(T, n, path=()):
    """document pre-order of (path, node), read from the defining attributes"""
    yield path, n
    for i, c in enumerate(kids(T, n)):
        yield from true_nodes(T, c, path + (i,))


def tdesc(T, n):
    k = type(n).__name__
    if isinstance(n, T.Term):
        return "%s(%r)" % (k, n.value)
    extra = ""
    if isinstance(n, T.SearchField):
        extra = "%r, " % n.name
    tail = ""
    if isinstance(n, T.BaseApprox):
        tail = ", %s%s" % (n.degree, "?" if n._implicit_degree else "")
    if isinstance(n, T.Boost):
        tail = ", %s%s" % (n.force, "?" if n.implicit_force else "")
    return "%s(%s%s%s)" % (k, extra, ", ".join(tdesc(T, c) for c in kids(T, n)), tail)


def fresh(T, n):
    """an unshared deep copy of the tree as it is now, rebuilt through the constructors (not
    copy.deepcopy, which would also copy whatever private caches the objects carry)"""
    cs = [fresh(T, c) for c in kids(T, n)]
    kw = dict(pos=n.pos, size=n.size, head=n.head, tail=n.tail)
    if isinstance(n, T.Term):
        new = type(n)(n.value, **kw)
    elif isinstance(n, T.SearchField):
        new = T.SearchField(n.name, cs[0], **kw)
    elif isinstance(n, T.Range):
        new = T.Range(cs[0], cs[1], n.include_low, n.include_high, **kw)
    elif isinstance(n, T.BaseApprox):
        new = type(n)(cs[0], None if n._implicit_degree else n.degree, **kw)
        new.degree = n.degree
    elif isinstance(n, T.Boost):
        new = T.Boost(cs[0], None if n.implicit_force else n.force, **kw)
        new.force = n.force
    elif isinstance(n, T.OpenRange):
        new = type(n)(cs[0], n.include, **kw)
    elif isinstance(n, T.BaseOperation):
        new = type(n)(*cs, **kw)
    elif isinstance(n, T.NoneItem):
        new = T.NoneItem(**kw)
    else:   # Group, FieldGroup, Plus, Not, Prohibit
        new = type(n)(cs[0], **kw)
    if getattr(n, "_luqum_name", None) is not None:
        setattr(new, "_luqum_name", n._luqum_name)
    return new


def sem_eq(T, a, b):
    """'equal trees' stated independently of Item.__eq__: same class, same meaning-bearing attributes,
    same children (read from the defining attributes)"""
    if type(a) is not type(b):
        return False
    if isinstance(a, T.Term) and a.value != b.value:
        return False
    if isinstance(a, T.SearchField) and a.name != b.name:
        return False
    if isinstance(a, T.Range) and (a.include_low, a.include_high) != (b.include_low, b.include_high):
        return False
    if isinstance(a, T.OpenRange) and a.include != b.include:
        return False
    if isinstance(a, T.BaseApprox) and Fraction(Decimal(a.degree)) != Fraction(Decimal(b.degree)):
        return False
    if isinstance(a, T.Boost) and Fraction(Decimal(a.force)) != Fraction(Decimal(b.force)):
        return False
    ka, kb = kids(T, a), kids(T, b)
    return len(ka) == len(kb) and all(sem_eq(T, x, y) for x, y in zip(ka, kb))


def set_child(T, parent, i, new, how):
    """in-place edit of child number i: through the named attribute / operands, or the children setter"""
    if how == "setter":
        cs = kids(T, parent)
        cs[i] = new
        parent.children = cs
    elif isinstance(parent, T.BaseOperation):
        ops = list(parent.operands)
        ops[i] = new
        parent.operands = tuple(ops)
    else:
        setattr(parent, parent._children_attrs[i], new)


def contains(T, sub, node):
    return any(x is node for _, x in true_nodes(T, sub))


def edit_in_place(T, r, g, tree):
    """one random in-place edit below the root; returns a description or None"""
    nodes = list(true_nodes(T, tree))
    cands = [(p, n) for p, n in nodes if kids(T, n) or isinstance(n, T.BaseOperation)]
    if not cands:
        return None
    path, node = r.choice(cands)
    how = r.choice(["attr", "attr", "setter"])
    ks = kids(T, node)
    x = r.random()
    if isinstance(node, T.BaseOperation) and (x < 0.4 or not ks):
        ops = list(ks)
        what = r.choice(["append", "drop", "reverse"])
        if what == "append" or not ops:
            ops.append(g.tree(r.randrange(0, 2)))
            what = "append"
        elif what == "drop":
            ops.pop(r.randrange(len(ops)))
        else:
            ops.reverse()
        if how == "setter":
            node.children = ops
        else:
            node.operands = tuple(ops)
        return "%s operands of %s at %r via %s" % (what, type(node).__name__, path,
                                                   "children setter" if how == "setter" else ".operands")
    i = r.randrange(len(ks))
    if x > 0.8:
        # put an object that already sits elsewhere in the tree (sharing), never creating a cycle
        others = [c for _, c in nodes if c is not tree and not contains(T, c, node)]
        new = r.choice(others) if others else g.tree(r.randrange(0, 3))
        kind = "shared reference to %s" % tdesc(T, new)[:80]
    else:
        new = g.tree(r.randrange(0, 3))
        kind = tdesc(T, new)[:80]
    set_child(T, node, i, new, how)
    via = "children setter" if how == "setter" else (
        ".operands" if isinstance(node, T.BaseOperation) else "." + node._children_attrs[i])
    return "child %d of %s at %r := %s via %s" % (i, type(node).__name__, path, kind, via)


def make_shared(T, r, tree):
    """make one object occur at two positions of the tree (done before any use of the tree)"""
    nodes = [(p, n) for p, n in true_nodes(T, tree) if p]
    r.shuffle(nodes)
    for p, n in nodes:
        for q, m in nodes:
            if p != q and q[:len(p)] != p and p[:len(q)] != q:
                parent = tree
                for i in q[:-1]:
                    parent = kids(T, parent)[i]
                set_child(T, parent, q[-1], n, "attr")
                return True
    return False


# ------------------------------------------------------------------ probe visitors

def make_probe_class(V, name, H, pt, lg, prefix="visit_", gname="generic_visit", decoys=(), parent=None):
    """a visitor class with a <prefix><k> probe handler for every k in H (H is what the class defines
    under ITS OWN visitor_method_prefix); the handler named by generic_visitor_method_name is wrapped
    when lg.  Every handler yields one event, then runs the library's own generic_visit.  `decoys` are
    methods named with ANOTHER prefix: they must never be called."""
    base = V.PathTrackingVisitor if pt else V.TreeVisitor

    def mk(kname, decoy=False):
        def handler(self, node, context):
            yield (id(self), context.get("path"), kname, tuple(context.get("parents", ())), node, decoy)
            yield from base.generic_visit(self, node, context)
        handler._probe = kname
        handler._decoy = decoy
        return handler

    ns = {prefix + V.camel_to_lower(k): mk(k) for k in H}
    other = "visit_" if prefix != "visit_" else "on_"
    for k in decoys:
        ns[other + V.camel_to_lower(k)] = mk(k, decoy=True)
    if prefix != "visit_":
        ns["visitor_method_prefix"] = prefix
    if gname != "generic_visit":
        ns["generic_visitor_method_name"] = gname
        if lg:
            ns[gname] = mk(None)
        else:
            def passthrough(self, node, context):
                yield from base.generic_visit(self, node, context)
            passthrough._probe = None
            passthrough._decoy = False
            ns[gname] = passthrough
    elif lg:
        ns["generic_visit"] = mk(None)
    return type(name, (parent or base,), ns)


def most_specific(T, H, node):
    """independent statement of 'the most specific class for which a handler exists'"""
    classes = {k: (object if k == "object" else getattr(T, k)) for k in H}
    cands = [k for k, c in classes.items() if isinstance(node, c)]
    best = [k for k in cands if all(issubclass(classes[k], classes[o]) for o in cands)]
    if not cands:
        return None
    assert len(best) == 1, (cands, best)
    return best[0]


def proj(ev):
    _self, cpath, hname, parents, node, decoy = ev
    return (cpath, hname, tuple(type(p).__name__ for p in parents), type(node).__name__, decoy)


def visit_oracle(T, vc, inst, tree, events):
    """the traversal clauses evaluated on the implementation's events; None or a reason"""
    expected = []
    for path, node in true_nodes(T, tree):
        h = most_specific(T, vc["H"], node)
        if h is not None or vc["lg"]:
            expected.append((path, node, h))
    if len(events) != len(expected):
        return "number of events %d != number of nodes with a handler %d" % (len(events), len(expected))
    for (self_id, cpath, hname, parents, node, decoy), (path, xnode, h) in zip(events, expected):
        if node is not xnode:
            return "event out of pre-order / wrong node at %r" % (path,)
        if self_id != id(inst):
            return "handler ran on another instance at %r" % (path,)
        if decoy:
            return "a method that does not carry the visitor's prefix was called at %r" % (path,)
        if hname != h:
            return "handler %r is not the most specific one (%r) at %r" % (hname, h, path)
        chain, cur = [], tree
        for i in path:
            chain.append(cur)
            cur = kids(T, cur)[i]
        if vc["tp"]:
            if len(parents) != len(chain) or any(a is not b for a, b in zip(parents, chain)):
                return "parents context is not the chain of ancestors at %r" % (path,)
        elif parents != ():
            return "parents present without track_parents at %r" % (path,)
        if cpath != (path if vc["pt"] else None):
            return "tracked path %r is not the real path %r" % (cpath, path)
    return None


def g_event(ev):
    _self, cpath, hname, parents, node, _decoy = ev
    return "(%s, %s, %s, %s)" % (g_opath(cpath), g_ocls(hname),
                                 g_tlist([g_cls(type(p).__name__) for p in parents], "cls"),
                                 g_cls(type(node).__name__))


def sample_nodes(T):
    w = T.Word("a")
    return {"Word": T.Word("a"), "Phrase": T.Phrase('"a"'), "Regex": T.Regex("/a/"),
            "SearchField": T.SearchField("f", w), "Group": T.Group(w), "FieldGroup": T.FieldGroup(w),
            "Range": T.Range(w, w), "Fuzzy": T.Fuzzy(w), "Proximity": T.Proximity(T.Phrase('"a b"')),
            "Boost": T.Boost(w, 2), "AndOperation": T.AndOperation(w, w), "OrOperation": T.OrOperation(w, w),
            "UnknownOperation": T.UnknownOperation(w, w), "BoolOperation": T.BoolOperation(w, w),
            "Plus": T.Plus(w), "Not": T.Not(w), "Prohibit": T.Prohibit(w), "From": T.From(w),
            "To": T.To(w), "NoneItem": T.NoneItem()}


HIST_DEFS = """
Definition pyev := (option path * option cls * list cls * cls)%type.
Definition ev_proj (e : event) : pyev :=
  (ev_path e, ev_handler e, map cls_of (ev_parents e), cls_of (ev_node e)).
Definition opath_eqb (a b : option path) : bool :=
  match a, b with None, None => true | Some x, Some y => path_eqb x y | _, _ => false end.
Definition ocls_eqb (a b : option cls) : bool :=
  match a, b with None, None => true | Some x, Some y => cls_eqb x y | _, _ => false end.
Definition pyev_eqb (a b : pyev) : bool :=
  let '(p, h, ps, c) := a in let '(p', h', ps', c') := b in
  opath_eqb p p' && ocls_eqb h h' && list_eqb cls_eqb ps ps' && cls_eqb c c'.
(* a history: the configuration of every instance; the visits (instance, the tree as it was right
   before that call); the events the implementation produced for each visit *)
Definition chk_hist (c : list vconf * list (nat * item) * list (list pyev)) : bool :=
  let '(vcs, h, expected) := c in
  let vc := fun i => nth i vcs (mkV [] false false false) in
  list_eqb (list_eqb pyev_eqb) (map (map ev_proj) (fst (run_visits code_cache_shared vc h []))) expected
  && list_eqb (list_eqb pyev_eqb) (map (fun it => map ev_proj (traverse (vc (fst it)) (snd it))) h) expected.
Definition bound_eqb (a b : nat * option cls) : bool := Nat.eqb (fst a) (fst b) && ocls_eqb (snd a) (snd b).
Definition chk_lookup (c : list (list cls) * list (nat * cls) * list (nat * option cls)) : bool :=
  let '(Hs, ops, expected) := c in
  let Hof := fun i => nth i Hs [] in
  list_eqb bound_eqb (fst (run_history code_cache_shared Hof (map (fun o => Visit (fst o) (snd o)) ops) []))
           expected.
"""

COPY_DEFS = """
Definition chk_copy (c : item * option item * bool) : bool :=
  let '(t, expected, wf) := c in
  oitem_beq (copy t) expected && Bool.eqb (all_nodesb wf_nodeb t) wf.
"""


def random_handlers(r):
    x = r.random()
    if x < 0.1:
        return []
    n = r.choice([1, 1, 2, 2, 3, 4, 6])
    pool = CLASS_NAMES + ABSTRACT_NAMES * 3 + (["object"] if r.random() < 0.1 else [])
    H = []
    for _ in range(n):
        k = r.choice(pool)
        if k not in H:
            H.append(k)
    return H


def histories(T, V, r, n, res, stats):
    g = gentree.Gen(r, T, layout=0.0, odd=0.15, max_ops=4)
    samples = sample_nodes(T)
    hist_cases, hist_payloads, look_cases, look_payloads = [], [], [], []
    nontrivial = set()
    for ci in range(n):
        nclasses = r.randrange(2, 5)
        classes = []
        for k in range(nclasses):
            pt = r.random() < 0.5
            parent = None
            H = random_handlers(r)
            lg = r.random() < 0.35
            prefix, gname = r.choice(FLAVOURS)
            decoys = random_handlers(r) if r.random() < 0.5 else []
            # sometimes derive from an earlier probe class of the same kind: handlers are inherited
            earlier = [c for c in classes if c["pt"] == pt]
            if earlier and r.random() < 0.25:
                p = r.choice(earlier)
                parent, prefix, gname = p["cls"], p["prefix"], p["gname"]
                H = list(p["H"]) + [k2 for k2 in H if k2 not in p["H"]]
                lg = lg or p["lg"]
            cls = make_probe_class(V, "Probe%d_%d" % (ci, k), H, pt, lg, prefix, gname, decoys, parent)
            classes.append({"cls": cls, "H": H, "pt": pt, "lg": lg, "prefix": prefix, "gname": gname})
            stats["prefixes"][prefix] = stats["prefixes"].get(prefix, 0) + 1
        insts = []
        for c in classes:
            for _ in range(r.randrange(1, 4)):
                tp = r.random() < 0.6
                insts.append(({"H": c["H"], "pt": c["pt"], "lg": c["lg"], "tp": tp, "prefix": c["prefix"],
                               "generic": c["gname"]}, c["cls"](track_parents=tp)))
        r.shuffle(insts)
        trees = [g.tree(r.randrange(0, 4)) for _ in range(r.randrange(2, 4))]
        for t in trees:
            if r.random() < 0.25 and make_shared(T, r, t):
                stats["shared_trees"] += 1
        steps = ["tree %d = %s" % (i, tdesc(T, t)[:400]) for i, t in enumerate(trees)]
        visits, expected = [], []
        last_visit = None
        n_trees0 = len(trees)
        seen_types = {}
        cache_hits = 0
        edits = 0
        for step in range(r.randrange(5, 13)):
            if step and r.random() < 0.35:
                ti = r.randrange(len(trees))
                what = edit_in_place(T, r, g, trees[ti])
                if what:
                    edits += 1
                    steps.append("edit tree %d: %s" % (ti, what))
            ii, ti = r.randrange(len(insts)), r.randrange(len(trees))
            if step and last_visit is not None and r.random() < 0.3:
                # the SAME instance, right after a visit, on the sub-expression it handled last (the parent of the
                # last leaf in pre-order) or first: what it remembers of the previous visit must not leak
                ii, whole = last_visit
                pn = list(true_nodes(T, whole))
                inner = [nd for _, nd in pn if nd.children]
                by_path = {tuple(p_): nd for p_, nd in pn}
                last_parent = by_path.get(tuple(pn[-1][0])[:-1]) if pn and len(pn[-1][0]) else None
                if inner:
                    vc, inst = insts[ii]
                    pick = r.choice([last_parent or inner[-1], last_parent or inner[-1], inner[-1], inner[0],
                                     r.choice(inner)])
                    trees.append(pick)
                    ti = len(trees) - 1
            vc, inst = insts[ii]
            tree = trees[ti]
            sub = ""
            if r.random() < 0.3 and ti < n_trees0:
                # a sub-expression OBJECT of a tree (possibly one this instance has just visited as part of the
                # whole): visited on its own, it is a root, with no ancestor and the empty path
                inner = [nd for _, nd in true_nodes(T, tree)]
                tree = r.choice(inner)
                sub = " (the sub-expression object %s of it)" % tdesc(T, tree)[:80]
            gt = lib.g_item(tree)                       # the tree as it is right before the call
            ids = [id(nd) for _, nd in true_nodes(T, tree)]
            steps.append("instance %d (handlers %s%s, %s) visits tree %d%s" % (
                ii, vc["prefix"], "|".join(vc["H"]), "path" if vc["pt"] else "plain", ti, sub))
            for _, nd in true_nodes(T, tree):
                key = (ii, type(nd))
                cache_hits += key in seen_types
                seen_types[key] = True
            try:
                events = inst.visit(tree)
                why = visit_oracle(T, vc, inst, tree, events)
                gev = g_tlist([g_event(e) for e in events], "pyev")
                if not why:
                    # judged against an unshared deep copy of the tree as it is now
                    # (by a NEW instance of the same class: the instance under test must not see other trees in
                    # between, what it remembers of this visit is part of what the next step tests)
                    ref = type(inst)(track_parents=vc["tp"]).visit(fresh(T, tree))
                    if [proj(e) for e in ref] != [proj(e) for e in events]:
                        why = "events differ from those on a fresh deep copy of the same tree"
            except Exception as e:
                why = "visit raised / malformed events: %r" % (e,)
                gev = "(@nil pyev)"
            if why:
                res.failures.append(({"kind": "traversal", "why": why, "visitor": repr(vc),
                                      "history": list(steps), "tree_now": tdesc(T, tree)[:1500]}, None))
            if lib.g_item(tree) != gt or [id(nd) for _, nd in true_nodes(T, tree)] != ids:
                res.failures.append(({"kind": "visitor modified the tree", "history": list(steps)}, None))
            visits.append("(%d%%nat, %s)" % (ii, gt))
            expected.append(gev)
            last_visit = (ii, tree)
            stats["events"] += gev.count("Some C") + gev.count("@None cls")
        hist_cases.append("(%s, %s, %s)" % (lib.g_list([g_vconf(vc) for vc, _ in insts]),
                                            lib.g_list(visits), lib.g_list(expected)))
        if len(hist_cases) == 1:
            histories.canary = "(%s, %s, %s)" % (lib.g_list([g_vconf(vc) for vc, _ in insts]), lib.g_list(visits),
                                                 lib.g_list(expected + ["(@nil pyev)"]))
        desc = {"classes": [(c["prefix"], c["H"], "path" if c["pt"] else "plain", c["lg"], c["gname"])
                            for c in classes],
                "instances": [(vc["H"], vc["tp"]) for vc, _ in insts], "steps": steps}
        hist_payloads.append(desc)
        stats["classes"][nclasses] = stats["classes"].get(nclasses, 0) + 1
        stats["abstract_handlers"] += sum(1 for c in classes for k in c["H"] if k in ABSTRACT_NAMES + ["object"])
        stats["handlers"] += sum(len(c["H"]) for c in classes)
        stats["cache_hits"] += cache_hits
        stats["in_place_edits"] += edits
        if cache_hits and len({(c["prefix"], tuple(sorted(c["H"]))) for c in classes}) >= 2:
            nontrivial.add(repr(desc))

        # --- a history of bare _get_method look-ups on fresh instances of the same classes
        linsts = []
        for c in classes:
            for _ in range(r.randrange(1, 3)):
                linsts.append((c, c["cls"]()))
        ops, got = [], []
        for _ in range(r.randrange(8, 25)):
            ii = r.randrange(len(linsts))
            k = r.choice(CLASS_NAMES)
            c, inst = linsts[ii]
            m = inst._get_method(samples[k])
            owner = [j for j, (_, x) in enumerate(linsts) if x is getattr(m, "__self__", None)]
            fn = getattr(m, "__func__", None)
            hname = getattr(fn, "_probe", None)
            ops.append((ii, k))
            why = None
            if len(owner) != 1 or owner[0] != ii:
                why = "method bound to another instance"
            elif getattr(fn, "_decoy", False):
                why = "look-up returned a method that does not carry the visitor's prefix"
            elif hname != most_specific(T, c["H"], samples[k]):
                why = "look-up returned %r, most specific is %r" % (hname, most_specific(T, c["H"], samples[k]))
            elif hname is None and getattr(fn, "__name__", "") not in ("generic_visit", "handler", "passthrough"):
                why = "generic look-up returned %r" % (fn,)
            if why:
                res.failures.append(({"kind": "cache", "why": why, "ops": list(ops),
                                      "classes": [(x["prefix"], x["H"]) for x, _ in linsts]}, None))
            got.append((owner[0] if owner else 999, hname))
        look_cases.append("(%s, %s, %s)" % (
            lib.g_list([g_tlist([g_cls(k) for k in c["H"]], "cls") for c, _ in linsts]),
            lib.g_list(["(%d%%nat, %s)" % (i, g_cls(k)) for i, k in ops]),
            lib.g_list(["(%d%%nat, %s)" % (i, g_ocls(h)) for i, h in got])))
        look_payloads.append({"classes": [(c["prefix"], c["H"]) for c, _ in linsts], "ops": ops})
    return hist_cases, hist_payloads, look_cases, look_payloads, nontrivial


# ------------------------------------------------------------------ default transformer

def _norm(T):
    return getattr(T, "_normalize_number", lambda v: Decimal(v).normalize())


def not_wellformed(T, tree):
    """executable recognition of objects whose degree / force was assigned after construction in a
    way no constructor produces (implicit flag with a non-default value, un-normalised force)"""
    for _, n in true_nodes(T, tree):
        if isinstance(n, T.Fuzzy) and n._implicit_degree and str(n.degree) != "0.5":
            return True
        if isinstance(n, T.Proximity) and n._implicit_degree and n.degree != 1:
            return True
        if isinstance(n, T.Boost):
            if n.implicit_force and not (type(n.force) is int and n.force == 1):
                return True
            if not n.implicit_force and isinstance(n.force, Decimal) and \
                    _norm(T)(n.force).as_tuple() != n.force.as_tuple():
                return True
    return False


def copy_oracle(T, tree, new, ids_before):
    if not sem_eq(T, new, tree):
        return "copy is not the same tree as the input (class / attributes / children)"
    ref = fresh(T, tree)
    if not (new == tree) or not (new == ref) or not (ref == new):
        return "copy != input (Item.__eq__)"
    if new.__str__(head_tail=True) != tree.__str__(head_tail=True) or str(new) != str(tree):
        return "copy prints %r, input prints %r" % (new.__str__(head_tail=True), tree.__str__(head_tail=True))
    a, b = list(true_nodes(T, new)), list(true_nodes(T, tree))
    if [p for p, _ in a] != [p for p, _ in b]:
        return "copy has another shape"
    for (p, x), (_, y) in zip(a, b):
        if type(x) is not type(y) or (x.pos, x.size, x.head, x.tail) != (y.pos, y.size, y.head, y.tail):
            return "class / pos / size / head / tail differ at %r" % (p,)
    shared = [p for p, x in a if id(x) in ids_before]
    if shared:
        return "copy shares a node with the input at %r" % (shared[0],)
    if [type(c) for c in new.children] != [type(c) for c in kids(T, new)] or \
            any(c is not d for c, d in zip(new.children, kids(T, new))):
        return "children of the copy are not its defining attributes"
    return None


def mutated_corpus(T):
    f = T.Fuzzy(T.Word("a"))
    f.degree = Decimal(2)
    p = T.Proximity(T.Phrase('"a b"'))
    p.degree = 3
    b = T.Boost(T.Word("a"), None)
    b.force = Decimal("2.5")
    b2 = T.Boost(T.Word("a"), 2)
    b2.force = Decimal("1.50")
    return [f, p, b, b2, T.AndOperation(T.Word("x"), T.Group(b2))]


def make_transformer(V, kind):
    if kind == "plain":
        return V.TreeTransformer()
    if kind == "path":
        return V.PathTrackingTransformer()
    if kind == "tracking":
        return V.TreeTransformer(track_new_parents=True, track_parents=True)
    # the documented tweak on a transformer that defines no handler: still the default copy
    base = V.PathTrackingTransformer if kind == "renamed-path" else V.TreeTransformer

    def copy_node(self, node, context):
        yield from base.generic_visit(self, node, context)

    cls = type("Renamed", (base,), {"visitor_method_prefix": "rewrite_",
                                    "generic_visitor_method_name": "copy_node", "copy_node": copy_node})
    return cls()


def context_probe(T, V, tree):
    """a PathTrackingTransformer with track_parents and track_new_parents whose default handler records the
    context it is given: parents = the ancestors (input objects) of the node, new_parents = the copies of those
    ancestors, i.e. the objects found along the same path in the RETURNED tree"""
    seen = []

    class Probe(V.PathTrackingTransformer):
        def generic_visit(self, node, context):
            seen.append((node, tuple(context.get("path", ())), tuple(context.get("parents", ())),
                         tuple(context.get("new_parents", ()))))
            yield from super().generic_visit(node, context)
    try:
        new = Probe(track_parents=True, track_new_parents=True).visit(tree)
    except Exception as e:  # noqa
        return "probe transformer raised %r" % (e,)

    def chain(root, path):
        out, n = [], root
        for i in path:
            out.append(n)
            n = n.children[i]
        return out, n
    for node, path, parents, new_parents in seen:
        try:
            anc_in, at_in = chain(tree, path)
            anc_out, _ = chain(new, path)
        except Exception:  # noqa
            return "path %r does not exist in the input / output" % (path,)
        if at_in is not node:
            return "the path %r given to the handler does not lead to the node it was given" % (path,)
        if len(parents) != len(anc_in) or any(a is not b for a, b in zip(parents, anc_in)):
            return "context['parents'] at %r is not the chain of ancestors (%d instead of %d)" % (
                path, len(parents), len(anc_in))
        if len(new_parents) != len(anc_out) or any(a is not b for a, b in zip(new_parents, anc_out)):
            return "context['new_parents'] at %r is not the chain of the ancestors' copies (%d objects, %d expected)" % (
                path, len(new_parents), len(anc_out))
    return None


def public_name_probe(T, V, res):
    """every public class of luqum.tree is dispatched under its PUBLIC name: a visitor whose only handler is
    visit_<snake case of the name by which luqum.tree exports the class> gets every instance of that class"""
    samples = sample_nodes(T)
    for k in CLASS_NAMES + ABSTRACT_NAMES:
        cls = getattr(T, k)
        hname = "visit_" + V.camel_to_lower(k)
        for cname, node in samples.items():
            if not isinstance(node, cls):
                continue
            got = []

            def handler(self, nd, context, got=got):
                got.append(nd)
                return iter(())
            probe = type("OnlyOne", (V.TreeVisitor,), {hname: handler})()
            try:
                probe.visit(node)
            except Exception as e:  # noqa
                got.append(e)
            if len(got) != 1 or got[0] is not node:
                res.failures.append(({"kind": "dispatch by public class name",
                                      "why": "a visitor defining only %s was not given the %s node %r (luqum.tree.%s "
                                             "is a class named %r)" % (hname, cname, node, k, cls.__name__),
                                      "history": ["visit(%r) with a TreeVisitor subclass whose only handler is %s"
                                                  % (node, hname)]}, None))
                break


def dropping_probe(T, V, tree):
    """handlers may yield no node or several: the path given to the handlers of the FOLLOWING siblings is still
    their index path in the tree being visited"""
    seen = []

    class Probe(V.PathTrackingTransformer):
        def generic_visit(self, node, context):
            path = tuple(context.get("path", ()))
            parents = context.get("parents", ())
            seen.append((node, path))
            if parents and isinstance(parents[-1], T.BaseOperation) and len(parents[-1].operands) >= 3:
                if path[-1] == 0:
                    return                         # the first operand is dropped
                if path[-1] == 1:
                    yield from super().generic_visit(node, context)      # the second one is given twice
            yield from super().generic_visit(node, context)
    try:
        Probe(track_parents=True).visit(tree)
    except Exception as e:  # noqa
        return "transformer whose handlers drop / repeat operands raised %r" % (e,)
    for node, path in seen:
        n = tree
        try:
            for i in path:
                n = n.children[i]
        except Exception:  # noqa
            return "path %r given to a handler does not exist in the visited tree" % (path,)
        if n is not node:
            return ("with handlers that drop the first and repeat the second operand of an operation, the path %r "
                    "given to the handler does not lead to the node it was given" % (path,))
    return None


def copies(T, V, r, n, res, stats):
    g = gentree.Gen(r, T, layout=0.5, odd=0.15, positions=0.4)
    w = T.Word("s", tail=" ")
    grp = T.Group(T.OrOperation(T.Word("a"), T.Word("b")))
    corpus = [T.Fuzzy(T.Word("a")), T.Proximity(T.Phrase('"a b"')), T.Boost(T.Word("a"), None),
              T.Fuzzy(T.Word("a"), Decimal("1.50")), T.Boost(T.Word("a"), "10"), T.Boost(T.Word("a"), "1.50"),
              T.Boost(T.Word("a"), "1234567890123456789012345678901"), T.AndOperation(), T.OrOperation(T.Word("a")),
              T.Range(T.AndOperation(T.Word("a"), T.Word("b")), T.NoneItem()), T.NoneItem(head=" ", tail=" "),
              T.UnknownOperation(*[T.Word("w%d" % i, pos=i, size=2, tail=" ") for i in range(40)]),
              # one object at two positions
              T.AndOperation(w, w), T.Range(w, w), T.OrOperation(grp, T.Not(grp), T.Boost(grp, 2))]
    mutated = mutated_corpus(T)
    trees = corpus + mutated + [g.tree(r.randrange(0, 5)) for _ in range(n)]
    cases, payloads = [], []
    seen = set()
    witnesses = 0
    for idx, tree in enumerate(trees):
        rand = idx >= len(corpus) + len(mutated)
        steps = []
        if rand:
            if r.random() < 0.2 and make_shared(T, r, tree):
                stats["shared_trees"] += 1
                steps.append("one object put at two positions")
            for _, nd in true_nodes(T, tree):
                if r.random() < 0.15:
                    setattr(nd, "_luqum_name", r.choice(["a", "b", "nm"]))
                # a few objects no constructor builds: degree / force re-assigned after construction
                if r.random() < 0.03:
                    if isinstance(nd, T.Fuzzy):
                        nd.degree = r.choice([Decimal(2), Decimal("0.50"), Decimal("0.5")])
                    elif isinstance(nd, T.Proximity):
                        nd.degree = r.choice([1, 4])
                    elif isinstance(nd, T.Boost):
                        nd.force = r.choice([Decimal("1.50"), Decimal("3"), Decimal("1E+1"), 1])
        nsteps = 1 + (r.randrange(1, 4) if (rand and r.random() < 0.4) or 12 <= idx < 15 else 0)
        for s in range(nsteps):
            if s:
                what = edit_in_place(T, r, g, tree)
                if not what:
                    break
                stats["in_place_edits"] += 1
                steps.append("edit: " + what)
            before = lib.g_item(tree)                    # the tree as it is right before the call
            desc = tdesc(T, tree)[:1500]
            order_before = [id(nd) for _, nd in true_nodes(T, tree)]
            ids_before = set(order_before)
            nwf = not_wellformed(T, tree)
            kind = r.choice(["plain", "path", "tracking", "renamed", "renamed-path"])
            tr = make_transformer(V, kind)
            stats["transformers"][kind] = stats["transformers"].get(kind, 0) + 1
            steps.append("%s transformer copies %s" % (kind, desc[:300]))
            # the transformer's own context options: with track_parents / track_new_parents a handler is told the
            # true chain of ancestors of the node in the INPUT and the chain of their COPIES in the output
            if idx % 3 == 0 or idx < len(corpus):
                why_ctx = context_probe(T, V, tree) or dropping_probe(T, V, tree)
                if why_ctx:
                    res.failures.append(({"kind": "transformer context", "why": why_ctx, "history": list(steps),
                                          "tree_now": desc}, None))
                stats["context_probes"] = stats.get("context_probes", 0) + 1
            try:
                new = tr.visit(tree)
            except Exception as e:
                res.failures.append(({"kind": "copy raised", "exception": repr(e), "history": list(steps)}, None))
                expected = "None"
            else:
                try:
                    why = copy_oracle(T, tree, new, ids_before)
                except Exception as e:
                    why = "result of visit() is not a tree: %r" % (e,)
                if nwf:
                    # refutation witnesses of C08_copy_equal / C08_copy_print (attributes assigned after
                    # construction): outside "parsed or built"; only recorded
                    witnesses += 1
                    if not rand:
                        res.notes.append("non-constructible object %s: %s" % (desc[:80], why or "copy agrees"))
                elif why:
                    res.failures.append(({"kind": "copy", "why": why, "history": list(steps),
                                          "tree_now": desc, "transformer": kind}, None))
                try:
                    expected = "(Some %s)" % lib.g_item(new)
                except Exception:
                    expected = "None"
            if lib.g_item(tree) != before or [id(nd) for _, nd in true_nodes(T, tree)] != order_before:
                res.failures.append(({"kind": "copy modified its input", "history": list(steps)}, None))
            cases.append("(%s, %s, %s)" % (before, expected, lib.g_bool(not nwf)))
            payloads.append({"history": list(steps), "transformer": kind})
            if len(order_before) > 1:
                seen.add(desc)
    stats["copy_witnesses_replayed"] = witnesses
    return cases, payloads, seen


def correspond(model_ok, res):
    import luqum.tree as T
    import luqum.visitor as V
    r = lib.rng("C08")
    quick = lib.tier() == "quick"
    names = [V.camel_to_lower(k) for k in CLASS_NAMES + ABSTRACT_NAMES + ["object"]]
    assert len(set(names)) == len(names), "camel_to_lower is not injective on the class names"
    public_name_probe(T, V, res)
    stats = {"classes": {}, "events": 0, "handlers": 0, "abstract_handlers": 0, "cache_hits": 0,
             "transformers": {}, "prefixes": {}, "in_place_edits": 0, "shared_trees": 0}
    hc, hp, lc, lp, nontrivial = histories(T, V, r, 120 if quick else 1200, res, stats)
    cc, cp, seen = copies(T, V, r, 250 if quick else 2500, res, stats)
    res.cases = len(hc) + len(lc) + len(cc)
    res.nontrivial = len(nontrivial) + len(seen)
    res.rule = ("histories: 2-4 dynamically generated probe visitor classes (random handler sets over the 20 "
                "concrete and 8 abstract classes, plain / path tracking, generic wrapped or not, default or "
                "tweaked visitor_method_prefix / generic_visitor_method_name with decoy methods under another "
                "prefix, some derived from another probe), 1-3 instances each (track_parents random), 5-12 "
                "visits over 2-3 random trees (a quarter with one object at two positions) with instances "
                "reused and random in-place edits between visits (attribute assignment on fixed-arity nodes, "
                ".operands, children setter, shared references); every call judged on the tree as it is at "
                "that moment (Gallina snapshot right before the call; oracle on the defining attributes and "
                "against a rebuilt unshared deep copy); non-trivial = distinct history with >= 2 different "
                "(prefix, handler set) and at least one cache hit.  look-ups: 8-24 bare _get_method calls on "
                "fresh instances.  copies: random trees of every class with layout, positions, names, "
                "sharing, copy / edit in place / copy again; non-trivial = distinct tree with more than one node")
    res.samples = hp[:2] + cp[16:19]
    res.distribution = stats
    if not model_ok:
        res.model_error = "model did not build"
        return res
    imports = "Base Decimal Tree TreeEq GenTree GenVisitors Visitor Eq Traverse TraverseProofs"
    try:
        # canaries: a corrupted expectation must be reported
        # canary: the first history with one spurious visit result appended to the expectation
        canary_h = histories.canary
        bad = lib.eval_cases("C08h", imports, HIST_DEFS, hc + [canary_h], "chk_hist", shard=12)
        assert len(hc) in bad, "canary (history) not detected"
        bad = [i for i in bad if i < len(hc)]
        for i in bad:
            res.disagreements.append({"kind": "history", "case": hp[i]})
        canary_l = "(%s, [(0%%nat, CWord)], [(1%%nat, @None cls)])" % lib.g_list(["[CTerm]"])
        bad = lib.eval_cases("C08l", imports, HIST_DEFS, lc + [canary_l], "chk_lookup", shard=60)
        assert len(lc) in bad, "canary (look-up) not detected"
        for i in bad:
            if i != len(lc):
                res.disagreements.append({"kind": "look-ups", "case": lp[i]})
        canary_c = "(Term KWord meta0 [97]%N, Some (Term KWord meta0 [98]%N), true)"
        bad = lib.eval_cases("C08c", imports, COPY_DEFS, cc + [canary_c], "chk_copy", shard=40)
        assert len(cc) in bad, "canary (copy) not detected"
        for i in bad:
            if i != len(cc):
                res.disagreements.append({"kind": "copy", "case": cp[i]})
    except Exception as e:
        res.model_error = str(e)
    return res


SPEC = {
    "id": "C08",
    "targets": ["props/C08.vo"],
    "model_targets": ["model/Traverse.vo", "model/TreeEq.vo", "proofs/TraverseProofs.vo"],
    "module": "C08",
    "theorems": ["C08_positions", "C08_document_order", "C08_every_node_once", "C08_handled_nodes_once",
                 "C08_paths_in_preorder",
                 "C08_handler_most_specific", "C08_handler_first_in_mro", "C08_mro_class_before_bases",
                 "C08_context_true", "C08_context_aligned", "C08_cache_lookups", "C08_cache_visits", "C08_cache_shared_refuted",
                 "C08_names_memo_refuted",
                 "C08_copy_total", "C08_copy_equal_refuted", "C08_copy_equal_partial",
                 "C08_copy_print_refuted", "C08_copy_print_partial", "C08_copy_wellformed",
                 "C08_copy_layout", "C08_copy_drops_names"],
    "tie_facts": "C08_ties",
    "correspond": correspond,
    "statement": "probe visitors get every node exactly once in pre-order, at the handler of the most specific "
                 "class that has one, with the true ancestors / index path as context (C08_context_aligned: the k-th "
                 "event is for the k-th emitting position in pre-order, its node is the sub-tree there and its "
                 "parents / path are the ancestors / path of THAT position, also when equal sub-terms occur at "
                 "several positions; C08_context_true is the existential corollary), for every history of "
                 "visits by several classes and instances (per-instance dispatch cache, no state shared between "
                 "visitor classes); the default transformer never fails and returns a tree equal to the input, "
                 "with the same text, classes and layout at every position (names are not copied)",
    "trusted_base": [
        "Coq 8.16.1 kernel (vm_compute for table facts, witnesses and correspondence; no native_compute)",
        "no axioms (Print Assumptions: closed under the global context)",
        "gen/translate.py: class MROs, _equality_attrs, operator strings, cache scope of TreeVisitor._get_method, "
        "gen_getmethod_shared_state (= false: lemma names_not_memoised), gen_children_is_pure (= true: lemma "
        "children_is_pure); all in C08_ties / C08_ties_ok, and code_cache_not_shared (used by C08_cache_lookups "
        "and C08_cache_visits) is proved from them",
        "hand-written models coq/model/Traverse.v (visit_iter / generic_visit / child_context / _get_method / "
        "TreeTransformer.generic_visit), Eq.v (clone_item, __eq__), Print.v (__str__), tied by differential "
        "correspondence (harness/c08.py) on every run",
        "the model's dispatch is per visitor class: the handler set H of a class is what THAT class defines "
        "under ITS OWN visitor_method_prefix (and its own generic_visitor_method_name); the model has no state "
        "shared between visitor classes and a tree value has no hidden state (no cached children): both are "
        "tied only by the correspondence (mixed-prefix histories, decoy methods, in-place edits between calls)",
        "camel_to_lower checked injective on the class names at run time; handlers are probes that call the "
        "library's generic_visit",
        "value-based tree model: an object at two positions is two equal sub-terms (checked against the "
        "implementation on shared trees and on their rebuilt unshared copies)",
    ],
    "assumptions": [
        "trees contain only luqum.tree classes and are acyclic; node objects may occur at several positions",
        "'the copy shares no node with the input' and 'the input is left unmodified' are object-identity / "
        "mutation facts outside the value model: checked on the implementation only (id() sets of all nodes, "
        "Gallina snapshot + id() sequence before and after every call) by harness/c08.py",
        "copy == input and same text are proved for trees in which an implicit degree/force has its default "
        "value and an explicit boost force is normalised (what every constructor and the parser establish); "
        "objects whose degree/force attribute was re-assigned after construction are refutation witnesses "
        "(C08_copy_equal_refuted, C08_copy_print_refuted), replayed on the implementation and listed in notes",
        "the attached name (_luqum_name) is not copied by the default transformer (C08_copy_drops_names)",
        "visitors that override traversal (do not call generic_visit, or change child_context) are out of scope",
    ],
}
