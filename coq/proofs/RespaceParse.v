(* RespaceParse.v — an accepted query has no lexical error and at least one token (generated tables):
   the bridge from `parse s = Some (Ok t)` to the hypotheses of L-respace. *)
Require Import Base Decimal Tree GenTree GenParser Lexer Print Actions LR Parser Erase.
Require Import LexerProofs LRTyping.

Definition noeof (t : token) : Prop := tk_type t <> T_EOF.
Definition raw_noeof (q : rawtok) : Prop := rk_kind q <> RTok T_EOF.

Lemma lex_one_not_eof rp s l r : lex_one rp s = Some (RTok T_EOF, l, r) -> False.
Proof.
  unfold lex_one. destruct s as [|c s1]; [discriminate|].
  destruct (is_space c).
  { destruct (span_while is_space (c :: s1) []). discriminate. }
  destruct (lex_term rp (c :: s1)) as [[l0 r0]|].
  { intros H. inversion H as [[Hk Hl Hr]]. clear H. revert Hk. unfold gen_reserved. simpl find.
    repeat match goal with |- context [if ?b then _ else _] => destruct b end; discriminate. }
  repeat match goal with
  | |- (if ?b then _ else _) = _ -> _ => destruct b
  | |- (match ?x with _ => _ end) = _ -> _ => destruct x
  end; discriminate.
Qed.

Lemma lex_raw_noeof : forall fuel rp pos s raws e,
  lex_raw fuel rp pos s = (raws, e) -> Forall raw_noeof raws.
Proof.
  induction fuel as [|f IH]; intros rp pos s raws e H; simpl in H.
  - inversion H. constructor.
  - destruct s as [|c s1]; [inversion H; constructor|].
    destruct (lex_one rp (c :: s1)) as [[[k l] r]|] eqn:Hone; [|inversion H; constructor].
    destruct (lex_raw f (rev l ++ rp) (pos + length l) r) as [ts1 e1] eqn:Hrec.
    inversion H; subst; clear H. constructor; [|eapply IH; exact Hrec].
    unfold raw_noeof. simpl. intros E. subst k. exact (lex_one_not_eof _ _ _ _ Hone).
Qed.

Lemma fold_noeof : forall raws p racc,
  Forall raw_noeof raws -> Forall noeof racc -> Forall noeof (head_tail_fold raws p racc).
Proof.
  induction raws as [|q raws IH]; intros p racc Hr Ha; simpl.
  - apply Forall_rev. exact Ha.
  - inversion Hr as [|q0 raws0 Hq Hrest]; subst. unfold raw_noeof in Hq.
    destruct (rk_kind q) as [|k] eqn:Hk.
    + destruct (Nat.eqb (rk_pos q) 0); [apply IH; assumption|].
      destruct racc as [|lastt racc']; [apply IH; assumption|].
      apply IH; [exact Hrest|]. inversion Ha; subst. constructor; assumption.
    + apply IH; [exact Hrest|]. constructor; [|exact Ha]. unfold noeof. simpl. congruence.
Qed.

Lemma lex_noeof s : Forall noeof (fst (lex s)).
Proof.
  unfold lex. destruct (lex_raw (S (length s)) [] 0 s) as [raws e] eqn:H. simpl.
  apply fold_noeof; [eapply lex_raw_noeof; exact H|constructor].
Qed.

(* with a pending lexical error the driver never accepts: acceptance needs $end as look-ahead, and
   asking for the token after the last good one raises IllegalCharacterError *)
Lemma step_lexerr_not_ok e c : Forall noeof (c_toks c) ->
  match step gen_tables (Some e) c with
  | Final (Ok _) _ => False
  | Final (Err _) _ => True
  | Next c' => Forall noeof (c_toks c')
  end.
Proof.
  intros Hn. unfold step. destruct (c_toks c) as [|t0 rest] eqn:Htoks; [exact I|].
  inversion Hn as [|t1 rest1 Ht0 Hrest]; subst.
  change (tb_action gen_tables) with gen_action. simpl hd_error. cbv iota beta.
  destruct (gen_action (hd 0 (c_states c)) (tk_type t0)) eqn:Ha.
  - unfold do_shift. rewrite Htoks. simpl. exact Hrest.
  - unfold do_reduce. destruct p as [|p']; [exact I|].
    destruct (nth_error (tb_prods gen_tables) (pred (S p'))) as [[[lhs rhs] a]|]; [|exact I].
    destruct (Nat.ltb (length (c_vals c)) (length rhs)); [exact I|].
    destruct (run_action a (rev (firstn (length rhs) (c_vals c)))) as [[v d]|err]; [|exact I].
    destruct (tb_goto gen_tables (hd 0 (skipn (length rhs) (c_states c))) lhs); [|exact I].
    simpl. rewrite Htoks. exact Hn.
  - exfalso. apply Ht0. exact (accept_only_at_end _ _ Ha).
  - exact I.
Qed.

Lemma run_lexerr_not_ok e : forall fuel c t evs,
  Forall noeof (c_toks c) -> run gen_tables (Some e) fuel c = Done (Ok t) evs -> False.
Proof.
  induction fuel as [|f IH]; intros c t evs Hn H; simpl in H; [discriminate|].
  pose proof (step_lexerr_not_ok e c Hn) as Hs.
  destruct (step gen_tables (Some e) c) as [c'|r evs1].
  - exact (IH _ _ _ Hs H).
  - destruct r as [i|err]; [exact Hs|]. inversion H.
Qed.

Theorem parse_ok_lexes s t : parse s = Some (Ok t) -> snd (lex s) = None /\ fst (lex s) <> [].
Proof.
  unfold parse, parse_full, parse_with. pose proof (lex_noeof s) as Hn.
  destruct (lex s) as [toks e]. simpl in *.
  destruct (run gen_tables e (parse_fuel toks) _) as [r evs|] eqn:Hrun; [|discriminate].
  intros H. inversion H; subst r. clear H.
  destruct e as [e|].
  - exfalso. eapply run_lexerr_not_ok; [|exact Hrun]. exact Hn.
  - split; [reflexivity|]. intros E. subst toks. vm_compute in Hrun. discriminate.
Qed.
