#!/bin/sh
# tools/benigntest.sh <K> [checks...]
# Evaluate behaviour-preserving patch K (/tmp/seed/BEN/out/K/patch.diff): in a fresh scratch worktree of /repo HEAD
# apply it, run the test-suite, then run the given checks (default: all twenty) from a private copy of /verif
# against the patched worktree.  Every check must stay silent (exit 0, no VIOLATION line).
# Stores patch, notes and meta.json under /verif/seeded/benign-K/.
K=$1; shift; CHECKS=${*:-C01 C02 C03 C04 C05 C06 C07 C08 C09 C10 C11 C12 C13 C14 C15 C16 C17 C18 C19 C20}
SRC=${BENDIR:-/tmp/seed/BEN}/out/$K; TAG=${BENTAG:-benign}
WT=/tmp/seedrun/$TAG-$K
VS=/tmp/vs/$TAG-$K
[ -f "$SRC/patch.diff" ] || { echo "no patch at $SRC"; exit 2; }
rm -rf "$WT"; mkdir -p /tmp/seedrun /tmp/vs
git -C /repo worktree add -q --detach "$WT" HEAD || exit 2
cd "$WT"
git apply "$SRC/patch.diff" || { echo "patch does not apply"; cd /; git -C /repo worktree remove --force "$WT"; exit 2; }
TESTS=$(/venv/bin/python -m pytest -q -p no:cacheprovider --timeout=900 2>&1 | tail -1)
echo "tests: $TESTS"
mkdir -p $VS && rsync -a --delete --exclude .git --exclude replays --exclude 'coq/corr' /verif/ $VS/ >/dev/null
RES=""
for C in $CHECKS; do
  OUT=$(cd $VS && VERIF_REPO=$WT ./check $C 2>&1 | tail -6)
  RC=$(echo "$OUT" | grep -c '^VIOLATION')
  LINE=$(echo "$OUT" | grep '^VIOLATION' | head -1)
  SUMMARY=$(echo "$OUT" | tail -1)
  echo "check $C: violations_lines=$RC :: $LINE :: $SUMMARY"
  [ "$RC" != 0 ] && mkdir -p /tmp/seedlog/$TAG-$K && cp -r $VS/replays /tmp/seedlog/$TAG-$K/ 2>/dev/null
  RES="$RES{\"check\":\"$C\",\"violation_lines\":$RC,\"first\":\"$(echo $LINE | sed 's/"/\\"/g')\",\"summary\":\"$(echo $SUMMARY | sed 's/"/\\"/g')\"},"
done
DEST=/verif/seeded/$TAG-$K
mkdir -p $DEST && cp "$SRC/patch.diff" $DEST/ && cp "$SRC/notes.md" $DEST/notes.md 2>/dev/null
cat > $DEST/meta.json <<META
{"property": "none (behaviour-preserving refactoring; every check must stay silent)", "change": "$TAG-$K",
 "confirmed": {"tests_patched": "$TESTS"},
 "ran": "fresh worktree of /repo HEAD + git apply patch.diff; pytest; then 'VERIF_REPO=<worktree> ./check <id>' for the listed checks from a private copy of /verif",
 "checks": [${RES%,}]}
META
cd /; git -C /repo worktree remove --force "$WT"; rm -rf "$VS"
