(* Resolver.v — luqum.utils.UnknownOperationResolver on top of visitor.TreeTransformer
   (visit, generic_visit, clone_children, child_context with track_parents=True).
   Executable definitions only.

   What is modelled, as the code has it:
   * dispatch of a node to visit_and_operation / visit_or_operation / visit_unknown_operation /
     generic_visit through the generated MRO and the generated method table of the resolver;
   * the context: a Python dict, copied (shallow, `dict(context)`) for every child.  Of its
     content only two things matter: "parents" (tuple of the ancestors, root first) and
     "last_operation" (a dict object, created by `context.setdefault("last_operation", {})` in the
     context of the node whose handler first asks for it).  A context therefore either holds a
     reference to one dict object or none; a child context made AFTER the reference exists holds
     the same reference, a dict created below is never seen above or beside.
     Model: [store] = all dict objects ever created, by allocation index; [ctxref] = option index.
   * keys of that dict: `id()` of the FIRST non-operation node of `parents` scanning from the
     root, or None.  The model has no object sharing, so the path of that node stands for its id.
   * values: `type(node)` of the And/Or node last visited; lookup defaults to DEFAULT_OPERATION.
   * traversal in document order, state threaded; every generator is consumed at once (`list(...)`
     in generic_visit, `tuple(value)` in the BaseOperation children setter).
   * visit_unknown_operation builds `operation(pos, size, head, tail)` by hand (the attached name
     is not copied), gives it the transformed children, then prepends add_head to the head of
     every child but the first.
   None = an exception (ValueError of the constructor on an invalid resolve_to, TypeError of
   clone_item, ValueError of the generic children setter). *)
Require Import Base Decimal Tree GenTree GenVisitors Visitor Eq.

(* ---------------------------------------------------------------- the "last_operation" dicts *)
Definition okey := option path.
Definition okey_eqb (a b : okey) : bool :=
  match a, b with
  | None, None => true
  | Some p, Some q => path_eqb p q
  | _, _ => false
  end.

Definition ldict := list (okey * cls).            (* newest binding first *)
Definition store := list ldict.                   (* dict objects by allocation index *)
Definition ctxref := option nat.                  (* context["last_operation"], if present *)

Definition dict_get (d : ldict) (k : okey) : option cls :=
  match find (fun e => okey_eqb (fst e) k) d with Some e => Some (snd e) | None => None end.

Definition store_get (s : store) (r : nat) : ldict := nth r s [].

Fixpoint store_upd (s : store) (r : nat) (f : ldict -> ldict) : store :=
  match s, r with
  | [], _ => []
  | d :: s', O => f d :: s'
  | d :: s', S r' => d :: store_upd s' r' f
  end.

(* context.setdefault("last_operation", {}) *)
Definition ensure (ctx : ctxref) (s : store) : nat * store :=
  match ctx with
  | Some r => (r, s)
  | None => (length s, s ++ [[]])
  end.

(* ---------------------------------------------------------------- parents *)
Definition parents := list (path * cls).          (* ancestors, root first: (path, class) *)

(* _first_nonop_parent: scans from index 0, i.e. from the root *)
Definition first_nonop_parent (ps : parents) : okey :=
  match find (fun pc => negb (isinstance (snd pc) CBaseOperation)) ps with
  | Some pc => Some (fst pc)
  | None => None
  end.

(* ---------------------------------------------------------------- dispatch *)
Inductive action := AGeneric | ATrack | AResolve.

Definition action_of (c : cls) : action :=
  match dispatch gen_methods_UnknownOperationResolver c with
  | Some CAndOperation | Some COrOperation => ATrack       (* visit_and_operation / visit_or_operation *)
  | Some CUnknownOperation => AResolve                     (* visit_unknown_operation *)
  | _ => AGeneric                                          (* TreeTransformer.generic_visit *)
  end.

(* tie obligation: the resolver has no specific handler the model does not know *)
Definition resolver_methods_known : bool :=
  forallb (fun c => cls_eqb c CAndOperation || cls_eqb c COrOperation || cls_eqb c CUnknownOperation)
          gen_methods_UnknownOperationResolver.

(* DEFAULT_OPERATION = AndOperation, VALID_OPERATIONS = {None, And, Or, Bool}: class attributes of
   the resolver, hard-coded here (not in the generated data; harness/c10.py checks them at run time) *)
Definition default_operation : cls := CAndOperation.
Definition valid_target (tg : option opk) : bool :=
  match tg with Some KUnknown => false | _ => true end.

(* operation(pos=..., size=..., head=..., tail=...) for a class object taken from the dict or
   from resolve_to; None = not an operation class (cannot happen: only And/Or are ever stored) *)
Definition mk_op (c : cls) (m : meta) : option item :=
  match c with
  | CAndOperation => Some (Op KAnd m [])
  | COrOperation => Some (Op KOr m [])
  | CBoolOperation => Some (Op KBool m [])
  | CUnknownOperation => Some (Op KUnknown m [])
  | _ => None
  end.

(* what the node's own handler does before its children are visited: the possibly updated
   context reference (inherited by the children), the store, and for an unknown operation the
   class it resolves to *)
Definition pre_act (tg : option opk) (t : item) (ctx : ctxref) (ps : parents) (s : store)
  : ctxref * store * option cls :=
  match action_of (cls_of t) with
  | AGeneric => (ctx, s, None)
  | ATrack =>                                      (* _track_last_op *)
      match tg with
      | None =>
          let '(r, s1) := ensure ctx s in
          let k := first_nonop_parent ps in
          (Some r, store_upd s1 r (fun d => (k, cls_of t) :: d), None)
      | Some _ => (ctx, s, None)
      end
  | AResolve =>
      match tg with
      | None =>                                    (* _get_last_op *)
          let '(r, s1) := ensure ctx s in
          let k := first_nonop_parent ps in
          (Some r, s1,
           Some (match dict_get (store_get s1 r) k with Some c => c | None => default_operation end))
      | Some k => (ctx, s, Some (cls_of_opk k))
      end
  end.

(* for child in new_node.children[1:]: child.head = add_head + child.head *)
Definition add_heads (ah : str) (cs : list item) : list item :=
  match cs with
  | [] => []
  | c :: l => c :: map (fun x => set_head x (ah ++ head_of x)) l
  end.

(* building the new node once the children have been transformed *)
Definition finish (ah : str) (t : item) (op : option cls) (cs' : list item) : option item :=
  match op with
  | None =>                                        (* generic_visit: clone_item + children setter *)
      match clone_item t with
      | None => None
      | Some n => set_children n cs'
      end
  | Some c =>                                      (* visit_unknown_operation *)
      match mk_op c (clone_meta (meta_of t)) with
      | None => None
      | Some n =>
          match set_children n cs' with
          | None => None
          | Some n' => set_children n' (add_heads ah (children n'))
          end
      end
  end.

(* clone_children: one fresh copy of the context per child, parents + (node,) *)
Definition walk (f : item -> ctxref -> parents -> path -> store -> option (item * store))
    (ctx : ctxref) (ps : parents) (pre : path) :=
  fix go (i : nat) (l : list item) (s : store) : option (list item * store) :=
    match l with
    | [] => Some ([], s)
    | c :: l' =>
        match f c ctx ps (pre ++ [i]) s with
        | None => None
        | Some (c', s1) =>
            match go (S i) l' s1 with
            | None => None
            | Some (cs', s2) => Some (c' :: cs', s2)
            end
        end
    end.

Section Resolve.
  Variable tg : option opk.     (* resolve_to: None = Lucene-like mode *)
  Variable ah : str.            (* add_head *)

  (* visit_iter of one node; `pre` is the node's own path (stands for id(node)) *)
  Fixpoint vis (t : item) (ctx : ctxref) (ps : parents) (pre : path) (s : store)
    : option (item * store) :=
    match pre_act tg t ctx ps s with
    | (ctx1, s1, op) =>
        let via (cs : list item) :=
          match walk vis ctx1 (ps ++ [(pre, cls_of t)]) pre 0 cs s1 with
          | None => None
          | Some (cs', s2) =>
              match finish ah t op cs' with
              | None => None
              | Some r => Some (r, s2)
              end
          end in
        match t with
        | Term _ _ _ | NoneItem _ => via []
        | SearchField _ _ e | Grp _ _ e | Boost _ e _ _ => via [e]
        | Fuzzy _ x _ _ | Proximity _ x _ _ => via [x]
        | Unary _ _ a | ORange _ _ a _ => via [a]
        | Range _ lo hi _ _ => via [lo; hi]
        | Op _ _ ops => via ops
        end
    end.

  (* UnknownOperationResolver(resolve_to, add_head)(tree) *)
  Definition resolve (t : item) : option item :=
    if valid_target tg then
      match vis t None [] [] [] with
      | Some (r, _) => Some r
      | None => None
      end
    else None.
End Resolve.

(* a sequence of calls on ONE resolver instance: `visit` starts every call from a new context {}
   (no dict, no parents) and the instance keeps nothing but its method cache, so the model of a
   call has no input from the previous ones *)
Definition resolve_calls (tg : option opk) (ah : str) (ts : list item) : list (option item) :=
  map (resolve tg ah) ts.
