(* C16w — property C16 ("match propagation marks a sub-expression as matching exactly when it is
   true") under the WIDER premise under which harness/c16.py judges the implementation: a named
   element that covers several terms (an operation, or a group / field / boost / unary operator
   around an operation) may be reported as matching too, when its value — taken BEFORE the negation
   when the element is itself a NOT / `-` — is true.  That is what a search engine reports for named
   compound queries, and what auto_name produces names for.
   Only statements, `exact`-closed theorems, witnesses, non-vacuity examples, Print Assumptions.
   Premise and guards: model/PropagateSpecWide.v; lemmas: proofs/PropagateWideProofs.v; the model of
   the code (model/Propagate.v), `ev`, `matching_iff_true`, `dflt_or` are those of C16.

   clause                                                       statement
   ---------------------------------------------------------    ---------------------------------
   the conclusion of C16_matching_iff_true under the wide       C16w_matching_iff_true  (in full: no
    premise, all trees x assignments x defaults                  guard on zero-operand operations
                                                                 since /repo 831a694)
   narrow premise => wide premise: the theorem subsumes the     C16w_premise_wider,
    one of C16                                                   C16w_subsumes_C16
   the convention "before the negation" is necessary: reported  C16w_negation_convention_necessary
    by its value after negation, a named NOT (c d) falsifies
    the conclusion  [replayed]
   all of it with the names of auto_name, compound elements     C16w_end_to_end
    reported
   regression on the former witnesses of the repaired defect    C16w_regression_* (examples; the
    (an empty any-operation below an element reported as         general clause is
    matching inherited True)                                     C16.C16_empty_operations_boolean)
   (C16w_matching_iff_true_partial: the former guarded statement, now a corollary, kept so that
    references to it stay valid) *)
Require Import Base Decimal Tree GenTree GenVisitors GenNaming Visitor Naming TreeInd
               NamingProofs Propagate PropagateSpec PropagateProofs PropagateSpecWide
               PropagateWideProofs C16.

(* ---- statements *)

Definition C16w_matching_iff_true_statement : Prop :=
  forall d sigma t matching other ok ko,
    reported_wide (dflt_or d) sigma t matching other ->
    propagate d matching other t = (ok, ko) ->
    matching_iff_true d sigma t ok ko.

(* the former guarded statement.  Guard: every operation with zero operands inherits (from the
   nearest named element at or above it; False when there is none) exactly its boolean value
   any([]) = False / all([]) = True — what the code before /repo 831a694 needed.  Now a corollary. *)
Definition C16w_matching_iff_true_partial_statement : Prop :=
  forall d sigma t matching other ok ko,
    empty_ops_inherit_value (dflt_or d) t matching other ->
    reported_wide (dflt_or d) sigma t matching other ->
    propagate d matching other t = (ok, ko) ->
    matching_iff_true d sigma t ok ko.

Definition C16w_premise_wider_statement : Prop :=
  forall dor sigma t matching other,
    reported sigma t matching other -> reported_wide dor sigma t matching other.

(* the hypotheses of C16_matching_iff_true imply those of C16w_matching_iff_true (same conclusion):
   C16_matching_iff_true is an instance of C16w_matching_iff_true *)
Definition C16w_subsumes_C16_statement : Prop :=
  (forall d sigma t matching other,
     reported sigma t matching other -> reported_wide (dflt_or d) sigma t matching other) /\
  (C16w_matching_iff_true_statement -> C16_matching_iff_true_statement).

(* the other reading of the wide clause: a named element covering several terms is reported by
   its value AFTER its own negation — false even without any zero-operand operation *)
Definition C16w_reported_after_statement : Prop :=
  forall d sigma t matching other ok ko,
    no_empty_op t ->
    reported_after (dflt_or d) sigma t matching other ->
    propagate d matching other t = (ok, ko) ->
    matching_iff_true d sigma t ok ko.

(* end to end with the names of auto_name (C15): the engine reports every named element exactly
   when the term it covers is true / when its value before its own negation is true
   (`report_wide`); every named element is a sub-expression; no negation strictly between a
   reported element covering ONE term and that term *)
Definition C16w_end_to_end_statement : Prop :=
  forall d sigma t t' m ok ko,
    auto_name t = Some (t', m) ->
    (forall q, In q (map snd m) -> classified t q) ->
    (forall q n a, In q (map snd m) -> subexpr_at t q = Some n -> covered n q = Some a ->
                   sigma a = true -> neg_between n = false) ->
    propagate d (fst (report_wide (dflt_or d) sigma t (map snd m)))
                (snd (report_wide (dflt_or d) sigma t (map snd m))) t = (ok, ko) ->
    matching_iff_true d sigma t ok ko.

(* ---- theorems *)

Theorem C16w_matching_iff_true : C16w_matching_iff_true_statement.
Proof.
  intros d sigma t M O ok ko Hrep H.
  exact (propagate_wide d M O sigma t ok ko Hrep H).
Qed.

Theorem C16w_matching_iff_true_partial : C16w_matching_iff_true_partial_statement.
Proof. intros d sigma t M O ok ko _ Hrep H. exact (C16w_matching_iff_true d sigma t M O ok ko Hrep H). Qed.

Theorem C16w_premise_wider : C16w_premise_wider_statement.
Proof. intros dor sigma t M O H. exact (reported_reported_wide M O sigma t dor H). Qed.

Theorem C16w_subsumes_C16 : C16w_subsumes_C16_statement.
Proof.
  split.
  - intros d sigma t M O Hrep. exact (reported_reported_wide M O sigma t _ Hrep).
  - intros Hw d sigma t M O ok ko Hrep H.
    exact (Hw d sigma t M O ok ko (reported_reported_wide M O sigma t _ Hrep) H).
Qed.

Theorem C16w_end_to_end : C16w_end_to_end_statement.
Proof.
  intros d sigma t t' m ok ko Ha Hcl Hneg H.
  exact (C16w_matching_iff_true d sigma t _ _ ok ko
           (auto_name_reported_wide (dflt_or d) sigma t t' m Ha Hcl Hneg) H).
Qed.

(* ---- regression on the former witnesses of the defect repaired in /repo 831a694 (they were
   C16w_old_guard_refuted, C16w_old_guard_refuted_auto_name, C16w_guard_with_empty_operation: before
   the repair an operation with zero operands inherited the status of the nearest named element at or
   above it).  The trees `or_empty`, `not_not_or`, `empty_and` and `ev_sets` / `same_sets` are those
   of props/C16.v.

   a OR (OrOperation()), the root and `a` named and reported as matching (the root IS true: a is).
   Old code: the empty OR at [1] inherited True from the root.
   Replayed on the repaired code:
     MatchingPropagator(OrOperation)(OrOperation(Word("a"), OrOperation()), {(), (0,)}, set())
       == ({(0,), ()}, {(1,)}) *)
Example C16w_regression_or_empty :
  reported_wide (dflt_or COrOperation) (fun _ => true) or_empty [[]; [0]] [] /\
  ~ reported (fun _ => true) or_empty [[]; [0]] [] /\
  propagate COrOperation [[]; [0]] [] or_empty = ([[0]; []], [[1]]) /\
  ev_sets COrOperation (fun _ => true) or_empty = ([[]; [0]], [[1]]).
Proof.
  split; [apply reported_wide_b_iff; vm_compute; reflexivity|].
  split; [intros [R1 _]; exact (R1 [] _ eq_refl ltac:(simpl; auto) ltac:(simpl; auto))|].
  split; vm_compute; reflexivity.
Qed.

(* NOT NOT Or() with the names of auto_name and what an engine would report.  No operation has an
   operand, so auto_name names the root ("a"); the root's value before its own negation is
   NOT (any []) = True, so "a" is reported.  Old code: ({(0, 0)}, {(0,), ()}).
   Replayed on the repaired code:  t = Not(Not(OrOperation())); auto_name(t) == {'a': ()};
     MatchingPropagator(OrOperation)(t, {()}, set()) == ({(0,)}, {(0, 0), ()}) *)
Example C16w_regression_not_not_or_auto_name :
  (exists t' m, auto_name not_not_or = Some (t', m) /\
     report_wide true (fun _ => true) not_not_or (map snd m) = ([[]], []) /\
     matching_from_names [[97%N]] m = Some ([[]], [])) /\
  reported_wide true (fun _ => true) not_not_or [[]] [] /\
  propagate COrOperation [[]] [] not_not_or = ([[0]], [[0; 0]; []]) /\
  ev true (fun _ => true) (Op KOr meta0 []) [0; 0] = false /\
  ev true (fun _ => true) (Unary KNot meta0 (Op KOr meta0 [])) [0] = true /\
  ev true (fun _ => true) not_not_or [] = false.
Proof.
  split; [eexists; eexists; split; [vm_compute; reflexivity|split; vm_compute; reflexivity]|].
  split; [apply reported_wide_b_iff; vm_compute; reflexivity|].
  split; [vm_compute; reflexivity|]. repeat split; reflexivity.
Qed.

(* AndOperation() reported as matching (its value all([]) is True): matching, as before the repair;
   an empty OR cannot be reported under the wide premise (its value any([]) is False) *)
Example C16w_regression_empty_and_reported :
  reported_wide true (fun _ => true) empty_and [[]] [] /\
  propagate COrOperation [[]] [] empty_and = ([[]], []) /\
  ~ reported_wide true (fun _ => true) (Op KOr meta0 []) [[]] [].
Proof.
  split; [apply reported_wide_b_iff; vm_compute; reflexivity|].
  split; [vm_compute; reflexivity|].
  intros H. apply reported_wide_b_iff in H. vm_compute in H. discriminate.
Qed.

(* zero-operand operations of every kind below reported compound elements, names of auto_name,
   every term true, default OR:  a AND (NOT Or()) AND (And()) AND (Bool()) AND (Unknown()).
   The wide premise holds for what the engine reports and the classification is boolean evaluation
   (the empty implicit operation is any([]) = False under default OR, so the whole query is false). *)
Definition deep_empty : item :=
  Op KAnd meta0 [w 97%N; Grp KGroup meta0 (Unary KNot meta0 (Op KOr meta0 []));
                 Grp KGroup meta0 (Op KAnd meta0 []); Grp KGroup meta0 (Op KBool meta0 []);
                 Grp KGroup meta0 (Op KUnknown meta0 [])].

Example C16w_regression_deep_empty :
  exists t' m, auto_name deep_empty = Some (t', m) /\
    report_wide true (fun _ => true) deep_empty (map snd m) = ([[0]; [1]; [2]; [3]], [[4]]) /\
    report_wide false (fun _ => true) deep_empty (map snd m) = ([[0]; [1]; [2]; [3]; [4]], []) /\
    reported_wide true (fun _ => true) deep_empty [[0]; [1]; [2]; [3]] [[4]] /\
    reported_wide false (fun _ => true) deep_empty [[0]; [1]; [2]; [3]; [4]] [] /\
    same_sets (propagate COrOperation [[0]; [1]; [2]; [3]] [[4]] deep_empty)
              (ev_sets COrOperation (fun _ => true) deep_empty) = true /\
    same_sets (propagate CAndOperation [[0]; [1]; [2]; [3]; [4]] [] deep_empty)
              (ev_sets CAndOperation (fun _ => true) deep_empty) = true /\
    mem_path [] (fst (propagate COrOperation [[0]; [1]; [2]; [3]] [[4]] deep_empty)) = false /\
    mem_path [] (fst (propagate CAndOperation [[0]; [1]; [2]; [3]; [4]] [] deep_empty)) = true.
Proof.
  eexists. eexists. split; [vm_compute; reflexivity|].
  split; [vm_compute; reflexivity|]. split; [vm_compute; reflexivity|].
  split; [apply reported_wide_b_iff; vm_compute; reflexivity|].
  split; [apply reported_wide_b_iff; vm_compute; reflexivity|].
  repeat split; vm_compute; reflexivity.
Qed.

(* ---- the convention "before the negation" is necessary.  e AND NOT (c d), default OR, only e
   matches, so NOT (c d) is true.  Reporting the name of the NOT by its value after negation puts
   [1] in matching; the code takes a reported name as the status BEFORE the node's own negation,
   negates, and classifies the NOT — and with it the whole query — as non matching.
   Replayed on the real code:  t = parser.parse("e AND NOT (c d)");
     auto_name(t) == {'a': (0,), 'b': (1,), 'c': (1,0,0,0), 'd': (1,0,0,1)}
     MatchingPropagator(OrOperation)(t, {(0,), (1,)}, {(1,0,0,0), (1,0,0,1)})
       == ({(0,)}, {(1,), (1,0), (1,0,0), (1,0,0,0), (1,0,0,1), ()})
     whereas with the convention (name 'b' not reported: c d is false)
     MatchingPropagator(OrOperation)(t, {(0,)}, {(1,), (1,0,0,0), (1,0,0,1)})
       == ({(0,), (1,), ()}, {(1,0), (1,0,0), (1,0,0,0), (1,0,0,1)})                       *)
Definition e_and_not : item :=
  Op KAnd meta0 [w 101%N; Unary KNot meta0 (Grp KGroup meta0 (Op KUnknown meta0 [w 99%N; w 100%N]))].
Definition e_only (p : path) : bool := mem_path p [[0]].

Lemma e_and_not_reported_after :
  reported_after true e_only e_and_not [[0]; [1]] [[1; 0; 0; 0]; [1; 0; 0; 1]].
Proof. apply reported_after_b_sound. vm_compute. reflexivity. Qed.

Theorem C16w_negation_convention_necessary : ~ C16w_reported_after_statement.
Proof.
  intros H.
  assert (Hne : no_empty_op e_and_not) by (apply no_empty_op_b_sound; vm_compute; reflexivity).
  destruct (H COrOperation e_only e_and_not [[0]; [1]] [[1; 0; 0; 0]; [1; 0; 0; 1]]
              [[0]] [[1; 0; 0; 0]; [1; 0; 0; 1]; [1; 0; 0]; [1; 0]; [1]; []]
              Hne e_and_not_reported_after eq_refl) as [_ Hko].
  destruct (proj1 (Hko [1]) ltac:(simpl; auto 8)) as [n [Hs He]].
  vm_compute in Hs. inversion Hs; subst n. vm_compute in He. discriminate.
Qed.

(* with the convention, the same tree and assignment are inside the wide premise and come out
   right (the name of the NOT is not reported: c d is false) *)
Example C16w_convention_on_the_same_input :
  reported_wide true e_only e_and_not [[0]] [[1]; [1; 0; 0; 0]; [1; 0; 0; 1]] /\
  propagate COrOperation [[0]] [[1]; [1; 0; 0; 0]; [1; 0; 0; 1]] e_and_not =
    ([[0]; [1]; []], [[1; 0; 0; 0]; [1; 0; 0; 1]; [1; 0; 0]; [1; 0]]).
Proof. split; [apply reported_wide_b_iff; vm_compute; reflexivity|vm_compute; reflexivity]. Qed.

(* ---- non-vacuity.  The query  (f:a OR g:b) AND NOT (c d)  named by the C15 model of auto_name:
   a -> the group [0], b -> the negation [1], c -> f:a, d -> g:b, e -> c, f -> d.  The terms a and c
   match.  Default OR: the engine reports a (the group is true), b (c d is true: the name of the
   NOT tells the value before the negation), c (f:a) and e (c).  The narrow premise fails (a and b
   name elements covering several terms), the wide one holds, and the classification is the
   boolean one: the NOT and the whole query are false.
   Default AND: c d is false, so b is not reported; the NOT and the whole query are true. *)
Definition exw_tree : item :=
  Op KAnd meta0
    [Grp KGroup meta0 (Op KOr meta0 [SearchField meta0 [102%N] (w 97%N);
                                     SearchField meta0 [103%N] (w 98%N)]);
     Unary KNot meta0 (Grp KGroup meta0 (Op KUnknown meta0 [w 99%N; w 100%N]))].
Definition exw_sigma (p : path) : bool := mem_path p [[0; 0; 0; 0]; [1; 0; 0; 0]].
Definition exw_matching : list path := [[0]; [1]; [0; 0; 0]; [1; 0; 0; 0]].
Definition exw_other : list path := [[0; 0; 1]; [1; 0; 0; 1]].
Definition exw_matching_and : list path := [[0]; [0; 0; 0]; [1; 0; 0; 0]].
Definition exw_other_and : list path := [[1]; [0; 0; 1]; [1; 0; 0; 1]].

Example C16w_nonvacuous :
  (exists t' m, auto_name exw_tree = Some (t', m) /\
     report_wide true exw_sigma exw_tree (map snd m) = (exw_matching, exw_other) /\
     report_wide false exw_sigma exw_tree (map snd m) = (exw_matching_and, exw_other_and) /\
     matching_from_names [[97%N]; [98%N]; [99%N]; [101%N]] m = Some (exw_matching, exw_other)) /\
  (* the wide premise holds, the narrow one does not *)
  reported_wide true exw_sigma exw_tree exw_matching exw_other /\
  ~ reported exw_sigma exw_tree exw_matching exw_other /\
  reported_wide false exw_sigma exw_tree exw_matching_and exw_other_and /\
  ~ reported exw_sigma exw_tree exw_matching_and exw_other_and /\
  (* reporting the NOT under default AND (c d false) is outside the wide premise *)
  ~ reported_wide false exw_sigma exw_tree exw_matching exw_other /\
  no_empty_op exw_tree /\
  propagate COrOperation exw_matching exw_other exw_tree =
    ([[0; 0; 0; 0]; [0; 0; 0]; [0; 0]; [0]; [1; 0; 0; 0]; [1; 0; 0]; [1; 0]],
     [[0; 0; 1; 0]; [0; 0; 1]; [1; 0; 0; 1]; [1]; []]) /\
  propagate CAndOperation exw_matching_and exw_other_and exw_tree =
    ([[0; 0; 0; 0]; [0; 0; 0]; [0; 0]; [0]; [1; 0; 0; 0]; [1]; []],
     [[0; 0; 1; 0]; [0; 0; 1]; [1; 0; 0; 1]; [1; 0; 0]; [1; 0]]).
Proof.
  split; [eexists; eexists; split; [vm_compute; reflexivity|];
          split; [vm_compute; reflexivity|split; vm_compute; reflexivity]|].
  split; [apply reported_wide_b_iff; vm_compute; reflexivity|].
  split; [intros [R1 _];
          exact (R1 [0] _ eq_refl ltac:(simpl; auto) ltac:(simpl; auto))|].
  split; [apply reported_wide_b_iff; vm_compute; reflexivity|].
  split; [intros [R1 _];
          exact (R1 [0] _ eq_refl ltac:(simpl; auto) ltac:(simpl; auto))|].
  split; [intros H; apply reported_wide_b_iff in H; vm_compute in H; discriminate|].
  split; [apply no_empty_op_b_sound; vm_compute; reflexivity|].
  split; vm_compute; reflexivity.
Qed.

(* the hypotheses of the end-to-end statement hold on the same example (both defaults) *)
Example C16w_end_to_end_nonvacuous :
  exists t' m, auto_name exw_tree = Some (t', m) /\
    (forall q, In q (map snd m) -> classified exw_tree q) /\
    (forall q n a, In q (map snd m) -> subexpr_at exw_tree q = Some n -> covered n q = Some a ->
                   exw_sigma a = true -> neg_between n = false).
Proof.
  eexists. eexists. split; [vm_compute; reflexivity|]. split.
  - intros q Hin. simpl in Hin.
    repeat (destruct Hin as [<-|Hin]; [eexists; reflexivity|]). contradiction.
  - intros q n a Hin Hs _ _. simpl in Hin.
    repeat (destruct Hin as [<-|Hin]; [vm_compute in Hs; inversion Hs; reflexivity|]). contradiction.
Qed.

Print Assumptions C16w_matching_iff_true.
Print Assumptions C16w_matching_iff_true_partial.
Print Assumptions C16w_premise_wider.
Print Assumptions C16w_subsumes_C16.
Print Assumptions C16w_negation_convention_necessary.
Print Assumptions C16w_end_to_end.
