(* RespaceNumProofs.v — L-respace with re-spelled numerals: re-spacing a query AND changing the digits
   of APPROX / BOOST tokens (`~digits`, `^digits`) preserves the token sequence (types kept, lexemes
   kept except for the re-spelled numerals).

   The look-ahead agreement `la` of RespaceProofs.v fails for a token directly before a re-spelled
   numeral; the weaker `la2` (agreement may stop right after a common `~` / `^`) is enough for every
   lexer rule, because no rule looks past a `~` or `^`. *)
Require Import Base GenChars GenParser Lexer Erase Respace LexerProofs RespaceProofs.
From Coq Require Import Lia.

(* the lexeme is kept, or an APPROX/BOOST token `c d` becomes `c d'` with d' made of [0-9.] only *)
Definition lexR (k : tok) (l l' : str) : Prop :=
  l' = l \/ ((k = T_APPROX \/ k = T_BOOST) /\
             exists c d d', l = c :: d /\ l' = c :: d' /\ forallb is_numchar d' = true).
Definition tokR (t t' : token) : Prop :=
  tk_type t' = tk_type t /\ lexR (tk_type t) (tk_lexeme t) (tk_lexeme t').

(* ================================================================ closed facts about `~` and `^` *)

Definition sigc (c : char) : Prop := c = c_tilde \/ c = c_caret.

Lemma lex_one_tilde rp s' :
  lex_one rp (c_tilde :: s') =
  let '(l, r) := span_while is_numchar s' [] in Some (RTok T_APPROX, c_tilde :: l, r).
Proof. reflexivity. Qed.

Lemma lex_one_caret rp s' :
  lex_one rp (c_caret :: s') =
  let '(l, r) := span_while is_numchar s' [] in Some (RTok T_BOOST, c_caret :: l, r).
Proof. reflexivity. Qed.

Lemma lex_term_sigc_none rp c s' : sigc c -> lex_term rp (c :: s') = None.
Proof. intros [E|E]; subst; reflexivity. Qed.

Lemma sigc_not_space c : sigc c -> is_space c = false.
Proof. intros [E|E]; subst; reflexivity. Qed.

Lemma sigc_not_follow c : sigc c -> term_follow_char c = false.
Proof. intros [E|E]; subst; reflexivity. Qed.

Lemma sigc_not_bslash c : sigc c -> N.eqb c c_bslash = false.
Proof. intros [E|E]; subst; reflexivity. Qed.

Lemma sigc_not_colon c : sigc c -> N.eqb c c_colon = false.
Proof. intros [E|E]; subst; reflexivity. Qed.

Lemma sigc_not_eq c : sigc c -> N.eqb c c_eq = false.
Proof. intros [E|E]; subst; reflexivity. Qed.

Lemma sigc_not_digit c : sigc c -> is_udigit c = false.
Proof. intros [E|E]; subst; reflexivity. Qed.

Lemma sigc_not_numchar c : sigc c -> is_numchar c = false.
Proof. intros [E|E]; subst; reflexivity. Qed.

Local Arguments is_space : simpl never.
Local Arguments is_udigit : simpl never.
Local Arguments is_numchar : simpl never.
Local Arguments term_follow_char : simpl never.
Local Arguments term_first_char : simpl never.
Local Arguments term_step : simpl never.
Local Arguments lex_term : simpl never.
Local Arguments lex_one : simpl never.
Local Arguments N.eqb : simpl never.

(* ================================================================ weak look-ahead agreement *)

(* like `la`, but the agreement may stop right after a common `~` / `^` *)
Fixpoint la2 (r r' : str) {struct r'} : Prop :=
  match r' with
  | [] => True
  | c :: t' => is_space c = true \/
               match r with d :: t => d = c /\ (sigc c \/ la2 t t') | [] => False end
  end.

Lemma la_la2 : forall r' r, la r r' = true -> la2 r r'.
Proof.
  induction r' as [|c t' IH]; intros r H; simpl; [exact I|]. simpl in H.
  destruct (is_space c); [left; reflexivity|right].
  destruct r as [|d t]; [discriminate|]. apply andb_true_iff in H. destruct H as [H1 H2].
  apply N.eqb_eq in H1. split; [exact H1|right; apply IH; exact H2].
Qed.

Lemma la2_nil_r r : la2 r [].
Proof. destruct r; exact I. Qed.

Lemma la2_app l : forall r r', la2 r r' -> la2 (l ++ r) (l ++ r').
Proof. induction l as [|c l IH]; intros r r' H; simpl; [exact H|]. right. split; [reflexivity|right; apply IH; exact H]. Qed.

Lemma la2_head r c t' : la2 r (c :: t') -> is_space c = false ->
  exists t, r = c :: t /\ (sigc c \/ la2 t t').
Proof.
  simpl. intros [H|H] Hs; [congruence|]. destruct r as [|d t]; [contradiction|].
  destruct H as [E H]. subst d. eauto.
Qed.

(* the head is not `~` / `^`: the agreement goes on *)
Lemma la2_head_ns r c t' : la2 r (c :: t') -> is_space c = false -> ~ sigc c ->
  exists t, r = c :: t /\ la2 t t'.
Proof.
  intros H Hs Hn. destruct (la2_head _ _ _ H Hs) as [t [E [Hc|Hl]]]; [contradiction|eauto].
Qed.

Lemma colon_not_sigc c : N.eqb c c_colon = true -> ~ sigc c.
Proof. intros H Hc. rewrite (sigc_not_colon _ Hc) in H. discriminate. Qed.

Lemma digit_not_sigc c : is_udigit c = true -> ~ sigc c.
Proof. intros H Hc. rewrite (sigc_not_digit _ Hc) in H. discriminate. Qed.

Lemma la2_tm2 x x' : la2 x x' -> tm2 x' = true -> tm2 x = true.
Proof.
  intros Hla H. destruct x' as [|c2 [|x1 [|x2 s3]]]; try discriminate. simpl in H.
  apply andb_true_iff in H. destruct H as [H H3]. apply andb_true_iff in H. destruct H as [H1 H2].
  destruct (la2_head_ns _ _ _ Hla (eqb_not_space _ _ H1 colon_not_space) (colon_not_sigc _ H1)) as [t1 [E1 L1]]. subst x.
  destruct (la2_head_ns _ _ _ L1 (digit_not_space _ H2) (digit_not_sigc _ H2)) as [t2 [E2 L2]]. subst t1.
  destruct (la2_head_ns _ _ _ L2 (digit_not_space _ H3) (digit_not_sigc _ H3)) as [t3 [E3 L3]]. subst t2.
  simpl. rewrite H1, H2, H3. reflexivity.
Qed.

(* ================================================================ the TERM loop against la2 *)

Lemma term_step_inside2 rpA rpA' cs b1 r r' :
  term_step rpA (cs ++ b1 ++ r) = Some (cs, b1 ++ r) -> tw rpA = tw rpA' -> la2 r r' ->
  term_step rpA' (cs ++ b1 ++ r') = Some (cs, b1 ++ r').
Proof.
  intros H Hw Hla. apply term_step_tstep in H. apply tstep_term_step.
  remember (cs ++ b1 ++ r) as s eqn:Es. remember (b1 ++ r) as s1 eqn:Es1.
  destruct H; subst; simpl.
  - constructor. assumption.
  - constructor; assumption.
  - apply ts_t3; try assumption; [congruence|].
    destruct (tm2 (b1 ++ r')) eqn:E; [|reflexivity].
    rewrite (la2_tm2 _ _ (la2_app b1 _ _ Hla) E) in H4. discriminate.
  - apply ts_t6; try assumption. congruence.
Qed.

Lemma term_step_stop2 rpA rpA' r r' :
  term_step rpA r = None -> tw rpA = tw rpA' -> la2 r r' -> esc_ok r = true ->
  term_step rpA' r' = None.
Proof.
  intros Hn Hw Hla Hesc. destruct (term_step rpA' r') as [[cs s1]|] eqn:H'; [exfalso|reflexivity].
  apply term_step_tstep in H'. destruct H'.
  - destruct (la2_head _ _ _ Hla (follow_not_space _ H)) as [t [E _]]. subst r.
    unfold term_step in Hn. rewrite H in Hn. discriminate.
  - destruct (la2_head _ _ _ Hla (eqb_not_space _ _ H0 bslash_not_space)) as [t [E _]]. subst r.
    unfold esc_ok in Hesc. rewrite H0 in Hesc. destruct t as [|d0 t0]; [discriminate|].
    unfold term_step in Hn. rewrite H, H0 in Hn. destruct (N.eqb d0 c_nl); discriminate.
  - apply andb_true_iff in H3. destruct H3 as [Hm1 Hm2].
    destruct (la2_head_ns _ _ _ Hla (eqb_not_space _ _ H1 colon_not_space) (colon_not_sigc _ H1)) as [t1 [E1 L1]]. subst r.
    destruct (la2_head_ns _ _ _ L1 (digit_not_space _ Hm1) (digit_not_sigc _ Hm1)) as [t2 [E2 L2]]. subst t1.
    destruct (la2_head_ns _ _ _ L2 (digit_not_space _ Hm2) (digit_not_sigc _ Hm2)) as [t3 [E3 L3]]. subst t2.
    assert (Hex : exists cs s, tstep rpA (c :: m1 :: m2 :: t3) cs s).
    { destruct (tm2 t3) eqn:E.
      - destruct t3 as [|c2 [|x1 [|x2 s3]]]; try discriminate. eexists; eexists. apply ts_t6; auto.
        + congruence. + rewrite Hm1, Hm2. reflexivity.
      - eexists; eexists. apply ts_t3; auto. + congruence. + rewrite Hm1, Hm2. reflexivity. }
    destruct Hex as [cs [s Hst]]. apply tstep_term_step in Hst. congruence.
  - apply andb_true_iff in H3. destruct H3 as [Hm1 Hm2].
    destruct (la2_head_ns _ _ _ Hla (eqb_not_space _ _ H1 colon_not_space) (colon_not_sigc _ H1)) as [t1 [E1 L1]]. subst r.
    destruct (la2_head_ns _ _ _ L1 (digit_not_space _ Hm1) (digit_not_sigc _ Hm1)) as [t2 [E2 L2]]. subst t1.
    destruct (la2_head_ns _ _ _ L2 (digit_not_space _ Hm2) (digit_not_sigc _ Hm2)) as [t3 [E3 L3]]. subst t2.
    assert (Hex : exists cs s, tstep rpA (c :: m1 :: m2 :: t3) cs s).
    { destruct (tm2 t3) eqn:E.
      - destruct t3 as [|c2' [|x1' [|x2' s3']]]; try discriminate. eexists; eexists. apply ts_t6; auto.
        + congruence. + rewrite Hm1, Hm2. reflexivity.
      - eexists; eexists. apply ts_t3; auto. + congruence. + rewrite Hm1, Hm2. reflexivity. }
    destruct Hex as [cs [s Hst]]. apply tstep_term_step in Hst. congruence.
Qed.

Lemma term_loop_respace2 : forall fuel rpA s racc l r,
  term_loop fuel rpA s racc = (l, r) -> length s <= fuel ->
  forall rpA' r' racc' fuel' b, l = rev racc ++ b -> s = b ++ r ->
  same_window rpA rpA' -> la2 r r' -> esc_ok r = true -> length (b ++ r') <= fuel' ->
  term_loop fuel' rpA' (b ++ r') racc' = (rev racc' ++ b, r').
Proof.
  induction fuel as [|f IH]; intros rpA s racc l r H Hlen rpA' r' racc' fuel' b Hl Hs Hw Hla Hesc Hlen'.
  - simpl in H. inversion H; subst l r. destruct s; [|simpl in Hlen; lia].
    symmetry in Hs. apply app_eq_nil in Hs. destruct Hs; subst. simpl. rewrite app_nil_r.
    apply term_loop_stop. eapply term_step_stop2; [| exact (Hw []) | exact Hla | exact Hesc]. reflexivity.
  - simpl in H. destruct (term_step rpA s) as [[cs s1]|] eqn:Hst.
    + destruct (term_step_spec _ _ _ _ Hst) as [Hs1 Hne].
      destruct (term_loop_extends _ _ _ _ _ _ H) as [b1 [Hl1 Hs2]].
      assert (Hb : b = cs ++ b1).
      { rewrite Hl in Hl1. rewrite rev_app_distr, rev_involutive, <- app_assoc in Hl1.
        apply app_inv_head in Hl1. exact Hl1. }
      subst b s1. rewrite <- app_assoc in *.
      assert (Hst' : term_step rpA' (cs ++ b1 ++ r') = Some (cs, b1 ++ r')).
      { apply term_step_inside2 with (rpA := rpA) (r := r); [|exact (Hw [])|exact Hla].
        rewrite <- Hs1. exact Hst. }
      destruct fuel' as [|f'].
      { destruct cs; [congruence|]. simpl in Hlen'. lia. }
      simpl. rewrite Hst'.
      rewrite (IH _ _ _ _ _ H) with (b := b1) (rpA' := rev cs ++ rpA') (r' := r').
      * rewrite rev_app_distr, rev_involutive, <- app_assoc. reflexivity.
      * subst s. rewrite app_length in Hlen. destruct cs; [congruence|]. simpl in Hlen. lia.
      * rewrite rev_app_distr, rev_involutive, <- app_assoc. subst l.
        rewrite rev_app_distr, rev_involutive, <- app_assoc in Hl1. exact Hl1.
      * reflexivity.
      * apply same_window_app. exact Hw.
      * exact Hla.
      * exact Hesc.
      * rewrite app_length in Hlen'. destruct cs; [congruence|]. simpl in Hlen'. lia.
    + injection H as E1 E2. rewrite <- E1 in Hl. rewrite <- E2 in *. clear E1 E2.
      assert (Hb : b = []).
      { rewrite <- (app_nil_r (rev racc)) in Hl at 1. apply app_inv_head in Hl. auto. }
      subst b. simpl in *. rewrite app_nil_r. apply term_loop_stop.
      eapply term_step_stop2; [exact Hst | exact (Hw []) | exact Hla | exact Hesc].
Qed.

Lemma lex_term_respace2 rp rp' l r r' :
  lex_term rp (l ++ r) = Some (l, r) -> safe rp -> safe rp' -> la2 r r' -> esc_ok r = true ->
  lex_term rp' (l ++ r') = Some (l, r').
Proof.
  intros H Hs Hs' Hla Hesc. destruct (lex_term_spec _ _ _ _ H) as [_ Hne].
  destruct l as [|c l1]; [congruence|]. unfold lex_term in *. cbn [app] in *.
  destruct (term_first_char c).
  - injection H as H. f_equal.
    apply (term_loop_respace2 _ _ _ _ _ _ H (Nat.le_refl _)) with (racc' := [c]) (b := l1);
      auto using safe_window.
  - destruct (N.eqb c c_bslash); [|discriminate].
    destruct l1 as [|d l2]; cbn [app] in *.
    + destruct r as [|d s2]; [discriminate|]. destruct (N.eqb d c_nl); [discriminate|].
      injection H as H. destruct (term_loop_extends _ _ _ _ _ _ H) as [b [Hb _]]. discriminate.
    + destruct (N.eqb d c_nl); [discriminate|]. injection H as H. f_equal.
      apply (term_loop_respace2 _ _ _ _ _ _ H (Nat.le_refl _)) with (racc' := [d; c]) (b := l2);
        auto using safe_window2.
Qed.

(* ================================================================ one token against la2 *)

Lemma gt_like2 (T : tok) c l1 r r' k : la2 r r' ->
  match l1 ++ r with
  | e :: s'' => if N.eqb e c_eq then Some (RTok T, [c; e], s'') else Some (RTok T, [c], l1 ++ r)
  | [] => Some (RTok T, [c], l1 ++ r)
  end = Some (RTok k, c :: l1, r) ->
  match l1 ++ r' with
  | e :: s'' => if N.eqb e c_eq then Some (RTok T, [c; e], s'') else Some (RTok T, [c], l1 ++ r')
  | [] => Some (RTok T, [c], l1 ++ r')
  end = Some (RTok k, c :: l1, r').
Proof.
  intros Hla. destruct l1 as [|e l2]; cbn [app].
  - intros H.
    assert (Hk : k = T).
    { destruct r as [|e s'']; [|destruct (N.eqb e c_eq)]; inversion H; reflexivity. }
    subst k. destruct r' as [|e' t']; [reflexivity|].
    destruct (N.eqb e' c_eq) eqn:Ee; [exfalso|reflexivity].
    destruct (la2_head _ _ _ Hla (eqb_not_space _ _ Ee eq_not_space)) as [t [E _]]. subst r.
    rewrite Ee in H. inversion H.
  - destruct (N.eqb e c_eq); intros H; inversion H; subst. reflexivity.
Qed.

(* what follows an APPROX/BOOST token: the numeral span stops here in the new text as well *)
Lemma la2_span_stop r r' : (match r with c :: _ => is_numchar c = false | [] => True end) -> la2 r r' ->
  match r' with c :: _ => is_numchar c = false | [] => True end.
Proof.
  intros H3 Hla. destruct r' as [|z t']; [exact I|]. destruct (is_numchar z) eqn:Ez; [exfalso|reflexivity].
  destruct (la2_head _ _ _ Hla (numchar_not_space _ Ez)) as [t [E _]]. subst r. congruence.
Qed.

Lemma lex_one_respace_nonterm2 rp rp' l r r' k :
  lex_one rp (l ++ r) = Some (RTok k, l, r) -> lex_term rp (l ++ r) = None -> la2 r r' ->
  lex_one rp' (l ++ r') = Some (RTok k, l, r').
Proof.
  intros H Hnt Hla. destruct (lex_one_spec _ _ _ _ _ H) as [_ [Hne _]].
  destruct l as [|c l1]; [congruence|]. cbn [app] in *.
  assert (Hbs : N.eqb c c_bslash = false).
  { destruct (N.eqb_spec c c_bslash); [|reflexivity]. subst c.
    rewrite (lex_one_bslash_none _ _ Hnt) in H. discriminate. }
  pose proof (lex_term_none_indep rp rp' c (l1 ++ r) (l1 ++ r') Hnt Hbs) as Hnt'.
  unfold lex_one in *. rewrite Hnt'. rewrite Hnt in H. revert H.
  destruct (is_space c).
  { destruct (span_while is_space (c :: l1 ++ r) []). discriminate. }
  destruct (N.eqb c c_plus); [simple_tok|].
  destruct (N.eqb c c_minus); [simple_tok|].
  destruct (N.eqb c c_colon); [simple_tok|].
  destruct (N.eqb c c_lparen); [simple_tok|].
  destruct (N.eqb c c_rparen); [simple_tok|].
  destruct (N.eqb c c_lbrack || N.eqb c c_lbrace); [simple_tok|].
  destruct (N.eqb c c_rbrack || N.eqb c c_rbrace); [simple_tok|].
  destruct (N.eqb c c_gt); [apply gt_like2; exact Hla|].
  destruct (N.eqb c c_lt); [apply gt_like2; exact Hla|].
  destruct (N.eqb c c_quote).
  { intros H. destruct (lex_delimited c_quote (c :: l1 ++ r)) as [[l0 r0]|] eqn:Hd; [|discriminate].
    inversion H; subst. change (c :: l1 ++ r) with ((c :: l1) ++ r) in Hd.
    apply lex_delimited_respace with (r' := r') in Hd. cbn [app] in Hd. rewrite Hd. reflexivity. }
  destruct (N.eqb c c_slash).
  { intros H. destruct (lex_delimited c_slash (c :: l1 ++ r)) as [[l0 r0]|] eqn:Hd; [|discriminate].
    inversion H; subst. change (c :: l1 ++ r) with ((c :: l1) ++ r) in Hd.
    apply lex_delimited_respace with (r' := r') in Hd. cbn [app] in Hd. rewrite Hd. reflexivity. }
  assert (Hspan : forall T,
    (let '(l, r0) := span_while is_numchar (l1 ++ r) [] in Some (RTok T, c :: l, r0)) = Some (RTok k, c :: l1, r) ->
    (let '(l, r0) := span_while is_numchar (l1 ++ r') [] in Some (RTok T, c :: l, r0)) = Some (RTok k, c :: l1, r')).
  { intros T H. destruct (span_while is_numchar (l1 ++ r) []) as [l0 r0] eqn:Hsw.
    inversion H; subst. apply span_while_spec in Hsw. destruct Hsw as [l' [H1 [H2 [H3 H4]]]].
    simpl in H1. subst l'. rewrite span_while_app; [reflexivity|exact H4|].
    exact (la2_span_stop _ _ H3 Hla). }
  destruct (N.eqb c c_tilde); [apply Hspan|].
  destruct (N.eqb c c_caret); [apply Hspan|].
  discriminate.
Qed.

Lemma lex_one_respace2 rp rp' l r r' k :
  lex_one rp (l ++ r) = Some (RTok k, l, r) ->
  (lex_term rp (l ++ r) <> None -> safe rp /\ safe rp') ->
  la2 r r' -> esc_ok r = true ->
  lex_one rp' (l ++ r') = Some (RTok k, l, r').
Proof.
  intros H Hsafe Hla Hesc. destruct (lex_term rp (l ++ r)) as [[l0 r0]|] eqn:Ht.
  - destruct Hsafe as [S1 S2]; [discriminate|].
    destruct (lex_one_spec _ _ _ _ _ H) as [_ [Hne [_ Hns]]].
    destruct l as [|c l1]; [congruence|].
    assert (Hsp : is_space c = false) by (apply Hns; discriminate).
    unfold lex_one in *. cbn [app] in *. rewrite Hsp in *. rewrite Ht in H.
    inversion H; subst l0 r0. clear H.
    change (c :: l1 ++ r) with ((c :: l1) ++ r) in Ht.
    pose proof (lex_term_respace2 _ rp' _ _ r' Ht S1 S2 Hla Hesc) as Ht'. cbn [app] in Ht'.
    rewrite Ht'. reflexivity.
  - apply lex_one_respace_nonterm2 with (rp := rp) (r := r); assumption.
Qed.

(* ================================================================ a re-spelled numeral *)

Lemma reserved_not_numeral l :
  let ty := match find (fun p => str_eqb l (fst p)) gen_reserved with
            | Some (_, t) => t | None => T_TERM end in
  ty <> T_APPROX /\ ty <> T_BOOST.
Proof.
  unfold gen_reserved. simpl.
  repeat match goal with |- context [if ?b then _ else _] => destruct b end; split; discriminate.
Qed.

(* an APPROX / BOOST token is `~` resp. `^` and the [0-9.] span after it, lexed by the span rule *)
Lemma numeral_inv rp l r k :
  lex_one rp (l ++ r) = Some (RTok k, l, r) -> k = T_APPROX \/ k = T_BOOST ->
  exists c d, l = c :: d /\ sigc c /\
    (c = c_tilde /\ k = T_APPROX \/ c = c_caret /\ k = T_BOOST) /\
    (match r with z :: _ => is_numchar z = false | [] => True end).
Proof.
  intros H Hk. destruct (lex_one_spec _ _ _ _ _ H) as [_ [Hne _]].
  destruct l as [|c l1]; [congruence|]. cbn [app] in *. exists c, l1. split; [reflexivity|].
  unfold lex_one in H. revert H.
  destruct (is_space c).
  { destruct (span_while is_space (c :: l1 ++ r) []). discriminate. }
  destruct (lex_term rp (c :: l1 ++ r)) as [[l0 r0]|].
  { intros H. exfalso. revert H.
    match goal with |- Some (RTok ?ty, _, _) = _ -> _ =>
      assert (N : ty <> T_APPROX /\ ty <> T_BOOST) by exact (reserved_not_numeral l0);
      revert N; generalize ty end.
    intros ty [N1 N2] H. inversion H; subst. destruct Hk; congruence. }
  assert (Hsimple : forall T (x : str) (y : str), T <> T_APPROX -> T <> T_BOOST ->
            Some (RTok T, x, y) = Some (RTok k, c :: l1, r) -> False).
  { intros T x y N1 N2 H. inversion H; subst. destruct Hk; congruence. }
  destruct (N.eqb c c_plus); [intros H; exfalso; revert H; apply Hsimple; discriminate|].
  destruct (N.eqb c c_minus); [intros H; exfalso; revert H; apply Hsimple; discriminate|].
  destruct (N.eqb c c_colon); [intros H; exfalso; revert H; apply Hsimple; discriminate|].
  destruct (N.eqb c c_lparen); [intros H; exfalso; revert H; apply Hsimple; discriminate|].
  destruct (N.eqb c c_rparen); [intros H; exfalso; revert H; apply Hsimple; discriminate|].
  destruct (N.eqb c c_lbrack || N.eqb c c_lbrace); [intros H; exfalso; revert H; apply Hsimple; discriminate|].
  destruct (N.eqb c c_rbrack || N.eqb c c_rbrace); [intros H; exfalso; revert H; apply Hsimple; discriminate|].
  destruct (N.eqb c c_gt).
  { intros H. exfalso. revert H. destruct (l1 ++ r) as [|e s'']; [|destruct (N.eqb e c_eq)];
      apply Hsimple; discriminate. }
  destruct (N.eqb c c_lt).
  { intros H. exfalso. revert H. destruct (l1 ++ r) as [|e s'']; [|destruct (N.eqb e c_eq)];
      apply Hsimple; discriminate. }
  destruct (N.eqb c c_quote).
  { intros H. exfalso. revert H. destruct (lex_delimited c_quote (c :: l1 ++ r)) as [[l0 r0]|]; [|discriminate].
    apply Hsimple; discriminate. }
  destruct (N.eqb c c_slash).
  { intros H. exfalso. revert H. destruct (lex_delimited c_slash (c :: l1 ++ r)) as [[l0 r0]|]; [|discriminate].
    apply Hsimple; discriminate. }
  assert (Hspan : forall T,
    (let '(l, r0) := span_while is_numchar (l1 ++ r) [] in Some (RTok T, c :: l, r0)) = Some (RTok k, c :: l1, r) ->
    k = T /\ match r with z :: _ => is_numchar z = false | [] => True end).
  { intros T H. destruct (span_while is_numchar (l1 ++ r) []) as [l0 r0] eqn:Hsw.
    inversion H; subst. apply span_while_spec in Hsw. destruct Hsw as [l' [H1 [H2 [H3 H4]]]].
    split; [reflexivity|exact H3]. }
  destruct (N.eqb c c_tilde) eqn:E12.
  { intros H. apply N.eqb_eq in E12. destruct (Hspan _ H) as [E Hr]. subst.
    split; [left; reflexivity|]. split; [left; split; reflexivity|exact Hr]. }
  destruct (N.eqb c c_caret) eqn:E13.
  { intros H. apply N.eqb_eq in E13. destruct (Hspan _ H) as [E Hr]. subst.
    split; [right; reflexivity|]. split; [right; split; reflexivity|exact Hr]. }
  discriminate.
Qed.

(* the re-spelled numeral is lexed from the new text, whatever is before it *)
Lemma lex_one_respelled rp rp' c d d' r r' k :
  lex_one rp ((c :: d) ++ r) = Some (RTok k, c :: d, r) -> k = T_APPROX \/ k = T_BOOST ->
  forallb is_numchar d' = true -> la2 r r' ->
  lex_one rp' ((c :: d') ++ r') = Some (RTok k, c :: d', r').
Proof.
  intros H Hk Hd' Hla. destruct (numeral_inv _ _ _ _ H Hk) as [c0 [d0 [E [_ [Hc Hr]]]]].
  injection E as E1 E2. subst c0 d0.
  pose proof (la2_span_stop _ _ Hr Hla) as Hr'.
  assert (Hsw : span_while is_numchar (d' ++ r') [] = (d', r')).
  { rewrite span_while_app; [reflexivity| |exact Hr']. apply forallb_forall. exact Hd'. }
  cbn [app]. destruct Hc as [[Ec Ek]|[Ec Ek]]; subst c k.
  - rewrite lex_one_tilde, Hsw. reflexivity.
  - rewrite lex_one_caret, Hsw. reflexivity.
Qed.

(* after an APPROX / BOOST token the look-behind of a TERM sees nothing *)
Lemma numeral_end_safe rp c d r k :
  lex_one rp ((c :: d) ++ r) = Some (RTok k, c :: d, r) -> sigc c ->
  forall rest, safe (rev (c :: d) ++ rest).
Proof.
  intros H Hc rest. apply qsafe_safe. eapply nonterm_end_safe; [exact H|].
  cbn [app]. apply lex_term_sigc_none. exact Hc.
Qed.

(* ================================================================ lifting to the whole input *)

(* token by token: same type, lexeme kept or re-spelled numeral, blank tails, no separator between
   two tokens removed *)
Fixpoint resp_body2 (ts ts' : list token) : Prop :=
  match ts, ts' with
  | [], [] => True
  | t :: r, t' :: r' =>
      tk_type t' = tk_type t /\ lexR (tk_type t) (tk_lexeme t) (tk_lexeme t') /\
      all_space (tk_tail t') = true /\
      (r <> [] -> tk_tail t <> [] -> tk_tail t' <> []) /\ resp_body2 r r'
  | _, _ => False
  end.

Lemma la2_gap w w' s2 x' :
  la2 s2 x' -> (w' = [] -> w = [] \/ x' = []) -> all_space w' = true ->
  la2 (w ++ s2) (w' ++ x').
Proof.
  intros H Hw Hsp. destruct w' as [|c w1].
  - destruct (Hw eq_refl) as [E|E]; subst; simpl; [exact H|apply (la2_nil_r (w ++ s2))].
  - simpl. simpl in Hsp. apply andb_true_iff in Hsp. destruct Hsp as [Hc _]. left. exact Hc.
Qed.

Lemma resp_body2_nil_l ts' : resp_body2 [] ts' -> ts' = [].
Proof. destruct ts'; [reflexivity|contradiction]. Qed.

Lemma gap_cases2 (t t' : token) (r r' : list token) :
  (r <> [] -> tk_tail t <> [] -> tk_tail t' <> []) -> resp_body2 r r' ->
  tk_tail t' = [] -> tk_tail t = [] \/ body_text r' = [].
Proof.
  intros Hsep Hr Hw'. destruct (tk_tail t) eqn:Et; [left; reflexivity|right].
  destruct r as [|t2 r2]; [rewrite (resp_body2_nil_l _ Hr); reflexivity|].
  exfalso. apply Hsep; [discriminate|discriminate|exact Hw'].
Qed.

(* the old and the new lexeme start with the same character *)
Lemma lexR_head k l l' : lexR k l l' -> l <> [] -> exists c d d', l = c :: d /\ l' = c :: d'.
Proof.
  intros [E|[_ [c [d [d' [E1 [E2 _]]]]]]] Hne.
  - subst l'. destruct l as [|c d]; [congruence|]. eauto.
  - eauto.
Qed.

Lemma chain_la2 : forall rp s ts, tchain rp s ts -> forall ts', resp_body2 ts ts' -> la2 s (body_text ts').
Proof.
  induction 1 as [rp|rp t s2 ts Hone Hw Hch IH]; intros ts' Hr.
  - rewrite (resp_body2_nil_l _ Hr). exact I.
  - destruct ts' as [|t' r']; [contradiction|]. simpl in Hr. destruct Hr as [Hk [Hl [Hw' [Hsep Hr]]]].
    rewrite body_text_cons.
    assert (Hgap : la2 (tk_tail t ++ s2) (tk_tail t' ++ body_text r')).
    { apply la2_gap; [apply IH; exact Hr| |exact Hw']. apply (gap_cases2 t t' ts r'); assumption. }
    destruct Hl as [El|[Hnum [c [d [d' [E1 [E2 _]]]]]]].
    + rewrite El. apply la2_app. exact Hgap.
    + rewrite E1 in Hone. destruct (numeral_inv _ _ _ _ Hone Hnum) as [c0 [d0 [E [Hc _]]]].
      injection E as Ec Ed. subst c0 d0. rewrite E1, E2. simpl. right. split; [reflexivity|left; exact Hc].
Qed.

Lemma body_nostart2 rp s ts ts' : tchain rp s ts -> resp_body2 ts ts' -> starts_with_space (body_text ts') = false.
Proof.
  intros Hch Hr. destruct Hch as [rp|rp t s2 ts Hone Hw Hch].
  - rewrite (resp_body2_nil_l _ Hr). reflexivity.
  - destruct ts' as [|t' r']; [contradiction|]. simpl in Hr. destruct Hr as [_ [Hl _]].
    rewrite body_text_cons.
    destruct (lex_one_spec _ _ _ _ _ Hone) as [_ [Hne [_ Hns]]].
    destruct (lexR_head _ _ _ Hl Hne) as [c [d [d' [E1 E2]]]]. rewrite E1 in Hns. rewrite E2.
    apply Hns. discriminate.
Qed.

Lemma body2_nonempty rp s t ts ts' : tchain rp s (t :: ts) -> resp_body2 (t :: ts) ts' -> body_text ts' <> [].
Proof.
  intros Hch Hr. inversion Hch as [|rp1 t2 s3 ts2 Hone2 Hw2 Hch2]; subst.
  destruct ts' as [|t' r']; [contradiction|]. simpl in Hr. destruct Hr as [_ [Hl _]].
  rewrite body_text_cons.
  destruct (lex_one_spec _ _ _ _ _ Hone2) as [_ [Hne _]].
  destruct (lexR_head _ _ _ Hl Hne) as [c [d [d' [E1 E2]]]]. rewrite E2. discriminate.
Qed.

Lemma lift2 : forall rp s ts, tchain rp s ts -> forall ts' rp' fuel pos, resp_body2 ts ts' ->
  (forall x, lex_term rp s = Some x -> safe rp /\ safe rp') -> length (body_text ts') < fuel ->
  exists raws', lex_raw fuel rp' pos (body_text ts') = (raws', None) /\ raw_keys raws' = map tok_key ts'.
Proof.
  induction 1 as [rp|rp t s2 ts Hone Hw Hch IH]; intros ts' rp' fuel pos Hr Hsafe Hlen.
  - rewrite (resp_body2_nil_l _ Hr). exists []. destruct fuel; simpl; auto.
  - destruct ts' as [|t' r']; [contradiction|]. simpl in Hr. destruct Hr as [Hk [Hl [Hw' [Hsep Hr]]]].
    pose proof (gap_cases2 t t' ts r' Hsep Hr) as Hgap.
    rewrite body_text_cons in *.
    destruct t as [k l p h w]. destruct t' as [k' l' p' h' w']. simpl in *. subst k'.
    destruct fuel as [|f]; [lia|].
    assert (Hlne : l <> []) by (destruct (lex_one_spec _ _ _ _ _ Hone) as [_ [Hne _]]; exact Hne).
    assert (Hla : la2 (w ++ s2) (w' ++ body_text r')).
    { apply la2_gap; [eapply chain_la2; eassumption|exact Hgap|exact Hw']. }
    assert (Hesc : esc_ok (w ++ s2) = true).
    { destruct w as [|c w1].
      - simpl. inversion Hch; [reflexivity|]. eapply lex_one_esc_ok; eassumption.
      - simpl. simpl in Hw. apply andb_true_iff in Hw. destruct Hw as [Hc _].
        rewrite (space_neq _ _ Hc bslash_not_space). reflexivity. }
    assert (Hone' : lex_one rp' (l' ++ w' ++ body_text r') = Some (RTok k, l', w' ++ body_text r')).
    { destruct Hl as [El|[Hnum [c [d [d' [E1 [E2 Hd']]]]]]].
      - subst l'. apply lex_one_respace2 with (rp := rp) (r := w ++ s2); auto.
        intros Hnn. destruct (lex_term rp (l ++ w ++ s2)) as [x|] eqn:E; [|congruence].
        apply (Hsafe x). reflexivity.
      - subst l l'. apply lex_one_respelled with (rp := rp) (d := d) (r := w ++ s2); assumption. }
    (* after the new token directly followed by a TERM, the new text before that TERM is invisible *)
    assert (Hs1' : forall x, w = [] -> lex_term (rev l ++ rp) s2 = Some x -> safe (rev l' ++ rp')).
    { intros x Ew Hx. subst w. simpl in *.
      destruct Hl as [El|[Hnum [c [d [d' [E1 [E2 Hd']]]]]]].
      - subst l'. exact (adjacent_term_safe rp _ l s2 k x Hone Hx rp').
      - subst l l'. destruct (numeral_inv _ _ _ _ Hone Hnum) as [c0 [d0 [E [Hc _]]]].
        injection E as Ec Ed. subst c0 d0. exact (numeral_end_safe rp' c d' _ k Hone' Hc rp'). }
    rewrite (lex_raw_step _ _ _ _ _ _ _ Hone').
    assert (Hl1 : 0 < length l') by (destruct (lexR_head _ _ _ Hl Hlne) as [c [d [d' [_ E2]]]]; rewrite E2; simpl; lia).
    rewrite !app_length in Hlen.
    (* the look-behind invariant at the next token *)
    assert (Hs1 : forall x, lex_term (rev w ++ rev l ++ rp) s2 = Some x -> safe (rev w ++ rev l ++ rp)).
    { intros x Hx. destruct w as [|c w1].
      - simpl in *. exact (adjacent_term_safe rp _ l s2 k x Hone Hx rp).
      - apply safe_rev_space; [discriminate|exact Hw]. }
    destruct w' as [|c' w1'].
    + (* the next token follows directly *)
      simpl app.
      destruct (IH r' (rev l' ++ rp') f (pos + length l') Hr) as [raws1 [Hraw1 Hkeys1]].
      * intros x Hx. split; [exact (Hs1 x Hx)|].
        destruct (Hgap eq_refl) as [E|E].
        -- apply (Hs1' x E). subst w. exact Hx.
        -- exfalso. inversion Hch as [|rp1 t2 s3 ts2 Hone2 Hw2 Hch2]; subst.
           ++ unfold lex_term in Hx. discriminate.
           ++ exact (body2_nonempty _ _ _ _ _ Hch Hr E).
      * simpl in Hlen. lia.
      * simpl. rewrite Hraw1. eexists. split; [reflexivity|]. simpl. rewrite Hkeys1. reflexivity.
    + (* a separator, then the next token *)
      destruct f as [|f1]; [simpl in Hlen; lia|].
      rewrite (lex_raw_step f1 _ _ _ RSep (c' :: w1') (body_text r')).
      2:{ apply lex_one_sep; [discriminate|exact Hw'|]. eapply body_nostart2; eassumption. }
      destruct (IH r' (rev (c' :: w1') ++ rev l' ++ rp') f1 (pos + length l' + length (c' :: w1')) Hr)
        as [raws1 [Hraw1 Hkeys1]].
      * intros x Hx. split; [exact (Hs1 x Hx)|]. apply safe_rev_space; [discriminate|exact Hw'].
      * simpl in Hlen. lia.
      * rewrite Hraw1. eexists. split; [reflexivity|]. simpl. rewrite Hkeys1. reflexivity.
Qed.

(* ================================================================ the theorem *)

Lemma resp_body2_intro : forall ts ts',
  Forall2 tokR ts ts' -> forallb (fun u => all_space (tk_tail u)) ts' = true ->
  seps_kept ts ts' = true -> resp_body2 ts ts'.
Proof.
  induction 1 as [|t t' r r' [Hk Hl] HF IH]; intros Hw Hs; simpl in *; [exact I|].
  apply andb_true_iff in Hw. destruct Hw as [Hw1 Hw2].
  apply andb_true_iff in Hs. destruct Hs as [Hs1 Hs2].
  repeat split; auto.
  intros Hr Ht Ht'. destruct r; [congruence|]. destruct (tk_tail t); [congruence|].
  rewrite Ht' in Hs1. discriminate.
Qed.

(* L-respace with re-spelled numerals *)
Theorem L_respace_respelled_main s toks toks' :
  lex s = (toks, None) -> toks <> [] ->
  Forall2 tokR toks toks' -> layout_ws toks' = true -> seps_kept toks toks' = true ->
  map tok_key (fst (lex (render toks'))) = map tok_key toks' /\ snd (lex (render toks')) = None.
Proof.
  intros Hlex Hne HR Hlay Hseps.
  destruct (lex_tchain _ _ Hlex Hne) as [h [s1 [Hh Hch]]].
  destruct toks' as [|t1 r1]; [inversion HR; subst; congruence|].
  simpl in Hlay. apply andb_true_iff in Hlay. destruct Hlay as [Hlay Hrest].
  apply andb_true_iff in Hlay. destruct Hlay as [Hhead Htail1].
  destruct (render_body _ Hrest) as [Eren Htails].
  assert (Hr : resp_body2 toks (t1 :: r1)).
  { apply resp_body2_intro; [exact HR| |exact Hseps]. simpl. rewrite Htail1, Htails. reflexivity. }
  assert (Etext : render (t1 :: r1) = tk_head t1 ++ body_text (t1 :: r1)).
  { change (render (t1 :: r1)) with (tok_text t1 ++ render r1). rewrite body_text_cons, Eren.
    unfold tok_text. rewrite <- !app_assoc. reflexivity. }
  rewrite Etext. unfold lex.
  destruct (tk_head t1) as [|c hh] eqn:Eh.
  - simpl app.
    destruct (lift2 _ _ _ Hch (t1 :: r1) [] (S (length (body_text (t1 :: r1)))) 0 Hr) as [raws' [Hraw Hk]].
    + intros x _. split; [apply safe_rev_space'; exact Hh|exact safe_nil].
    + lia.
    + rewrite Hraw. simpl. rewrite fold_keys. simpl. split; [exact Hk|reflexivity].
  - rewrite (lex_raw_step _ _ _ _ RSep (c :: hh) (body_text (t1 :: r1))).
    2:{ apply lex_one_sep; [discriminate|exact Hhead|]. eapply body_nostart2; eassumption. }
    destruct (lift2 _ _ _ Hch (t1 :: r1) (rev (c :: hh) ++ []) (length ((c :: hh) ++ body_text (t1 :: r1)))
                (0 + length (c :: hh)) Hr) as [raws' [Hraw Hk]].
    + intros x _. split; [apply safe_rev_space'; exact Hh|].
      apply safe_rev_space; [discriminate|exact Hhead].
    + rewrite app_length. simpl. lia.
    + rewrite Hraw. simpl. rewrite fold_keys. simpl. split; [exact Hk|reflexivity].
Qed.

(* ---- non-vacuity: `(a~1.0^2 b)~3` re-spelled and re-spaced to ` ( a~1^2.5  b )~` *)
Definition ex_s : str := [40;97;126;49;46;48;94;50;32;98;41;126;51]%N.
Definition ex_toks' : list token :=
  [mkTok T_LPAREN [40%N] 0 [32%N] [32%N]; mkTok T_TERM [97%N] 0 [] [];
   mkTok T_APPROX [126;49]%N 0 [] []; mkTok T_BOOST [94;50;46;53]%N 0 [] [32;32]%N;
   mkTok T_TERM [98%N] 0 [] [32%N]; mkTok T_RPAREN [41%N] 0 [] []; mkTok T_APPROX [126%N] 0 [] []].

Example respelled_nonvacuous :
  snd (lex ex_s) = None /\ fst (lex ex_s) <> [] /\ Forall2 tokR (fst (lex ex_s)) ex_toks' /\
  layout_ws ex_toks' = true /\ seps_kept (fst (lex ex_s)) ex_toks' = true /\
  map tok_key ex_toks' <> map tok_key (fst (lex ex_s)) /\
  render ex_toks' = [32;40;32;97;126;49;94;50;46;53;32;32;98;32;41;126]%N.
Proof.
  set (toks := fst (lex ex_s)). vm_compute in toks. subst toks.
  split; [vm_compute; reflexivity|]. split; [discriminate|].
  split.
  { repeat (apply Forall2_cons; [split; [reflexivity|]|]); try apply Forall2_nil;
      first [left; reflexivity
            |right; split; [auto|]; do 3 eexists; split; [reflexivity|]; split; reflexivity]. }
  split; [vm_compute; reflexivity|]. split; [vm_compute; reflexivity|].
  split; [discriminate|vm_compute; reflexivity].
Qed.

Example respelled_ex_lexes :
  map tok_key (fst (lex (render ex_toks'))) = map tok_key ex_toks' /\ snd (lex (render ex_toks')) = None.
Proof.
  destruct respelled_nonvacuous as [H1 [H2 [H3 [H4 [H5 _]]]]].
  apply (L_respace_respelled_main ex_s (fst (lex ex_s))); try assumption.
  rewrite <- H1. destruct (lex ex_s); reflexivity.
Qed.

Print Assumptions L_respace_respelled_main.
